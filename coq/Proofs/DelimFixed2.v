(* C06 proofs, part 9: fixedlength2 column fidelity.  The non-empty lines ByteReadLine returns form
   a stream; the line buffer always holds (readably: no stale reference) the part of the stream
   read and not yet consumed; every delivered envelope node is node_specF of the next lines of the
   stream - per declared column the rune slice [start_pos, start_pos+length) of the first line that
   line_index / line_pattern selects - and consecutive deliveries take consecutive segments of the
   stream, over every sequence of RecReader calls. *)
From Coq Require Import List NArith Bool Arith Lia.
From Coq.Strings Require Import Byte.
Import ListNotations.
From OV Require Import Base.Bytes Base.Utf8 Base.Cases Base.Tree Model.Csv Model.Fixed
  Proofs.DelimUtf8 Proofs.DelimCsv Proofs.DelimFixed Proofs.DelimReaders.

Definition contents (l : fline) : bytes := match fl_b l with Ref _ b => b | Own b => b end.
Definition viewF (s : fst2) : list bytes := map contents (h_lines s).

Lemma buf_ok_deref' gen ls : buf_ok gen ls ->
  Forall (fun l => deref gen (fl_b l) = Some (contents l)) ls.
Proof.
  induction 1 as [|l [Ho|Hf]|l l' r Ho _ IH].
  - constructor.
  - constructor; [|constructor]. destruct Ho as (b & ->). reflexivity.
  - constructor; [|constructor]. destruct Hf as (b & ->). cbn. rewrite Nat.eqb_refl. reflexivity.
  - constructor; [|exact IH]. destruct Ho as (b & ->). reflexivity.
Qed.

Lemma owned_contents ls : Forall owned ls -> Forall (fun l => l = mkFL (Own (contents l)) true) ls.
Proof. intro H. eapply Forall_impl; [|exact H]. intros l (b & ->). reflexivity. Qed.

(* copying the last line keeps every line's contents *)
Lemma buf_ok_fix2 gen ls : buf_ok gen ls ->
  match last (map Some ls) None with
  | Some l =>
      if fl_copied l then Forall owned ls
      else exists b, deref gen (fl_b l) = Some b
                     /\ Forall owned (upd_last (mkFL (Own b) true) ls)
                     /\ map contents (upd_last (mkFL (Own b) true) ls) = map contents ls
  | None => ls = []
  end.
Proof.
  induction 1 as [|l [Ho|Hf]|l l' r Ho H IH].
  - reflexivity.
  - destruct Ho as (b & ->). simpl. repeat constructor. exists b. reflexivity.
  - destruct Hf as (b & ->). simpl. rewrite Nat.eqb_refl. exists b. split; [reflexivity|].
    split; [|reflexivity]. repeat constructor. exists b. reflexivity.
  - change (last (map Some (l :: l' :: r)) None) with (last (map Some (l' :: r)) None).
    destruct (last (map Some (l' :: r)) None) as [x|]; [|discriminate].
    destruct (fl_copied x).
    + constructor; assumption.
    + destruct IH as (b & Hd & Hf & Hc). exists b. split; [exact Hd|].
      change (upd_last (mkFL (Own b) true) (l :: l' :: r))
        with (l :: upd_last (mkFL (Own b) true) (l' :: r)).
      split; [constructor; assumption|]. cbn [map]. rewrite Hc. reflexivity.
Qed.

Lemma skipn_app_le' {A} k (all more : list A) : k <= length all ->
  skipn k (all ++ more) = skipn k all ++ more.
Proof. intro H. rewrite skipn_app. replace (k - length all) with 0 by lia. reflexivity. Qed.

Lemma firstn_add' {A} k n (l : list A) : firstn (k + n) l = firstn k l ++ firstn n (skipn k l).
Proof.
  revert l. induction k as [|k IH]; intro l; [reflexivity|].
  destruct l as [|a l]; [simpl; rewrite firstn_nil; reflexivity|]. simpl. rewrite IH. reflexivity.
Qed.

Section Fixed2Seq.
  Variable re_match : pat -> bytes -> bool.

  (* ---- the specification of an envelope node over line contents -------------------------------------- *)
  Fixpoint find_lineF (c : fcol) (i : nat) (lines : list bytes) : option bytes :=
    match lines with
    | [] => None
    | l :: r => if line_matchF re_match c i l then Some l else find_lineF c (S i) r
    end.

  Definition mk_colF (c : fcol) (line : bytes) : tree :=
    text_elem (f_name c) (rune_slice (f_start c) (f_len c) line).

  Definition col_specF (c : fcol) (lines : list bytes) : list tree :=
    match find_lineF c 0 lines with Some l => [mk_colF c l] | None => [] end.

  Definition node_specF (d : env2) (lines : list bytes) : tree :=
    T ElementNode (v_name d) FNone (flat_map (fun c => col_specF c lines) (v_cols d)).

  Definition fselF (footer : option pat) (line : bytes) : bool :=
    match footer with None => true | Some p => re_match p line end.

  (* which lines make up one envelope of declaration d *)
  Definition seg_ok (d : env2) (seg : list bytes) : Prop :=
    match v_shape d with
    | Rows r => length seg = r
    | HeaderFooter h f =>
        (exists l0, nth_error seg 0 = Some l0 /\ re_match h l0 = true)
        /\ exists j lj, length seg = S j /\ nth_error seg j = Some lj /\ fselF f lj = true
                        /\ forall j' l', j' < j -> nth_error seg j' = Some l' -> fselF f l' = false
    end.

  (* ---- reading the buffer ---------------------------------------------------------------------------- *)
  Lemma line_at_view s i line : inv s -> nth_error (viewF s) i = Some line -> line_at s i = Ok line.
  Proof.
    intros H E. unfold viewF in E. rewrite nth_error_map in E. unfold line_at.
    destruct (nth_error (h_lines s) i) as [l|] eqn:El; [|discriminate]. cbn in E. inversion E; subst.
    pose proof (buf_ok_deref' _ _ H) as Hd. rewrite Forall_forall in Hd.
    rewrite (Hd l (nth_error_In _ _ El)). reflexivity.
  Qed.

  Lemma col_nodeF_spec c s : inv s -> forall n i, i + n <= length (viewF s) ->
    col_nodeF re_match c n i s
    = Ok (option_map (mk_colF c) (find_lineF c i (firstn n (skipn i (viewF s))))).
  Proof.
    intros H n. induction n as [|n IH]; intros i Hi; [reflexivity|].
    destruct (nth_error (viewF s) i) as [line|] eqn:E.
    2:{ apply nth_error_None in E. lia. }
    cbn [col_nodeF]. rewrite (line_at_view s i line H E).
    rewrite (skipn_nth_cons i _ line E). cbn [firstn find_lineF].
    destruct (line_matchF re_match c i line); [reflexivity|]. apply IH. lia.
  Qed.

  Lemma cols_nodesF_spec s n : inv s -> n <= length (viewF s) -> forall cs,
    cols_nodesF re_match cs n s = Ok (flat_map (fun c => col_specF c (firstn n (viewF s))) cs).
  Proof.
    intros H Hn cs. induction cs as [|c cs IH]; [reflexivity|].
    cbn [cols_nodesF flat_map]. rewrite (col_nodeF_spec c s H n 0 ltac:(lia)), IH.
    cbn [skipn]. unfold col_specF. destruct (find_lineF c 0 (firstn n (viewF s))); reflexivity.
  Qed.

  Lemma take_recordF_spec d n s : inv s -> n <= length (viewF s) ->
    exists s', take_recordF re_match d n true s = (Ok (true, Some (node_specF d (firstn n (viewF s)))), s')
      /\ inv s' /\ viewF s' = skipn n (viewF s) /\ h_in s' = h_in s.
  Proof.
    intros H Hn. unfold take_recordF, lines_to_nodeF, pop_frontF.
    assert (Hl : length (h_lines s) = length (viewF s)) by (unfold viewF; rewrite map_length; reflexivity).
    assert (E : (length (h_lines s) <? n) = false) by (apply Nat.ltb_ge; lia). rewrite E.
    rewrite (cols_nodesF_spec s n H Hn). eexists. split; [reflexivity|].
    split; [unfold inv; cbn [h_gen h_lines]; apply buf_ok_skipn; exact H|].
    split; [unfold viewF; cbn [h_lines]; symmetry; apply skipn_map|reflexivity].
  Qed.

  (* ---- the stream of non-empty lines -------------------------------------------------------------------- *)
  Inductive streamF (i0 : bytes) : bytes -> list bytes -> Prop :=
  | sf_nil : streamF i0 i0 []
  | sf_step i all g ol rest g' : streamF i0 i all ->
      f2_fetch (S (length i)) i g = Some (ol, rest, g') ->
      streamF i0 rest (all ++ match ol with Some l => [l] | None => [] end).

  Definition IF (i0 : bytes) (s : fst2) (all : list bytes) (k : nat) : Prop :=
    k <= length all /\ inv s /\ viewF s = skipn k all /\ streamF i0 (h_in s) all.

  Lemma IF_len i0 s all k : IF i0 s all k -> length (h_lines s) = length all - k.
  Proof.
    intros (_ & _ & Hv & _). apply (f_equal (@length bytes)) in Hv.
    unfold viewF in Hv. rewrite map_length, skipn_length in Hv. exact Hv.
  Qed.

  Lemma readline_IF i0 s all k : IF i0 s all k ->
    exists more, IF i0 (snd (f2_readline s)) (all ++ more) k
      /\ (fst (f2_readline s) = Ok true -> length more = 1)
      /\ (fst (f2_readline s) <> Ok true -> more = [])
      /\ res_ok (fst (f2_readline s)).
  Proof.
    intros (Hk & Hi & Hv & Hs). unfold f2_readline.
    pose proof (buf_ok_fix2 _ _ Hi) as Hf.
    assert (Hfix : exists ls, (match last (map Some (h_lines s)) None with
                    | Some l => if fl_copied l then Ok (h_lines s)
                                else match deref (h_gen s) (fl_b l) with
                                     | Some b => Ok (upd_last (mkFL (Own b) true) (h_lines s))
                                     | None => Err OPoison
                                     end
                    | None => Ok (h_lines s)
                    end) = Ok ls /\ Forall owned ls /\ map contents ls = map contents (h_lines s)).
    { destruct (last (map Some (h_lines s)) None) as [l|].
      - destruct (fl_copied l); [eauto|]. destruct Hf as (b & -> & Ho & Hc). eauto.
      - rewrite Hf. eauto. }
    destruct Hfix as (ls & -> & Ho & Hc).
    destruct (f2_fetch (S (length (h_in s))) (h_in s) (h_gen s)) as [[[ol rest] g]|] eqn:Ef.
    - pose proof (sf_step i0 _ _ _ _ _ _ Hs Ef) as Hs'.
      destruct ol as [b|]; cbn [fst snd].
      + exists [b]. split; [|split; [reflexivity|split; [congruence|intros o E; discriminate]]].
        split; [rewrite app_length; lia|]. split; [unfold inv; cbn; apply buf_ok_snoc; exact Ho|].
        split; [|exact Hs'].
        unfold viewF. cbn [h_lines]. rewrite map_app, Hc. cbn [map contents fl_b].
        fold (viewF s). rewrite Hv. symmetry. apply skipn_app_le'. exact Hk.
      + exists []. rewrite app_nil_r in *. split; [|split; [discriminate|split; [reflexivity|intros o E; discriminate]]].
        split; [exact Hk|]. split; [unfold inv; cbn; apply buf_ok_all_owned; exact Ho|].
        split; [unfold viewF; cbn [h_lines]; rewrite Hc; exact Hv|exact Hs'].
    - cbn [fst snd]. exists []. rewrite app_nil_r.
      split; [|split; [discriminate|split; [reflexivity|]]].
      + split; [exact Hk|]. split; [unfold inv; cbn; apply buf_ok_all_owned; exact Ho|].
        split; [unfold viewF; cbn [h_lines]; rewrite Hc; exact Hv|exact Hs].
      + intros o E. inversion E; subst. intros [E2|(p & E2)]; discriminate.
  Qed.

  (* ---- the outcome of one ReadAndMatch ---------------------------------------------------------------- *)
  Definition postF (i0 : bytes) (all : list bytes) (k : nat) (d : env2) (create : bool)
             (ext : list bytes -> nat -> Prop) (r : res (bool * option tree)) (s' : fst2) : Prop :=
    exists more, let all' := all ++ more in
      res_ok r /\
      match r with
      | Ok (true, Some t) =>
          create = true /\ exists n, k + n <= length all' /\ ext (skipn k all') n
            /\ t = node_specF d (firstn n (skipn k all')) /\ IF i0 s' all' (k + n)
      | _ => IF i0 s' all' k
      end.

  Lemma res_ok_ok {A} (x : A) : res_ok (Ok x).
  Proof. intros o E. discriminate. Qed.

  Lemma take_recordF_post i0 s all k d n create (ext : list bytes -> nat -> Prop) :
    IF i0 s all k -> k + n <= length all -> ext (skipn k all) n ->
    postF i0 all k d create ext (fst (take_recordF re_match d n create s))
                                (snd (take_recordF re_match d n create s)).
  Proof.
    intros (Hk & Hi & Hv & Hs) Hl He. exists []. cbn zeta. rewrite app_nil_r.
    destruct create.
    - destruct (take_recordF_spec d n s Hi ltac:(rewrite Hv, skipn_length; lia)) as (s' & -> & Hi' & Hv' & Hin).
      cbn [fst snd]. split; [apply res_ok_ok|]. split; [reflexivity|]. exists n.
      split; [exact Hl|]. split; [exact He|]. split; [rewrite Hv; reflexivity|].
      split; [lia|]. split; [exact Hi'|]. split; [rewrite Hv', Hv; apply skipn_skipn'|rewrite Hin; exact Hs].
    - unfold take_recordF. cbn [fst snd]. split; [apply res_ok_ok|]. repeat split; assumption.
  Qed.

  Lemma postF_more i0 all m k d create ext r s' :
    postF i0 (all ++ m) k d create ext r s' -> postF i0 all k d create ext r s'.
  Proof. intros (more & Hp & H). exists (m ++ more). cbn zeta in *. rewrite app_assoc. auto. Qed.

  Lemma fill_rowsF_IF n i0 : forall fuel s all k, IF i0 s all k ->
    exists more, IF i0 (snd (fill_rowsF fuel n s)) (all ++ more) k
      /\ (fst (fill_rowsF fuel n s) = Ok true -> k + n <= length (all ++ more))
      /\ res_ok (fst (fill_rowsF fuel n s)).
  Proof.
    assert (Hfuel : forall A, res_ok (@Err A OFuel)).
    { intros A o E. inversion E; subst. intros [E2|(p & E2)]; discriminate. }
    assert (Heof : forall A, res_ok (@Err A OEOF)).
    { intros A o E. inversion E; subst. intros [E2|(p & E2)]; discriminate. }
    induction fuel as [|fuel IH]; intros s all k H.
    - exists []. rewrite app_nil_r. cbn. split; [exact H|]. split; [discriminate|apply Hfuel].
    - cbn [fill_rowsF]. destruct (length (h_lines s) <? n) eqn:El.
      + destruct (readline_IF i0 s all k H) as (m & Hm & Hm1 & Hm2 & Hm3).
        destruct (f2_readline s) as [r s1]. cbn [fst snd] in *.
        destruct r as [[|]|o].
        * destruct (IH s1 _ k Hm) as (more & H1 & H2 & H3).
          exists (m ++ more). rewrite app_assoc. auto.
        * exists m. destruct (Nat.eqb (length (h_lines s1)) 0); cbn [fst snd];
            (split; [exact Hm|split; [discriminate|]]); [apply Heof|apply res_ok_ok].
        * exists m. cbn [fst snd]. split; [exact Hm|]. split; [discriminate|].
          exact (res_ok_err o Hm3).
      + exists []. rewrite app_nil_r. cbn [fst snd]. split; [exact H|]. split; [|apply res_ok_ok].
        intros _. apply Nat.ltb_ge in El. rewrite (IF_len i0 s all k H) in El. destruct H as (Hk & _). lia.
  Qed.

  (* the first line at or after i that the footer selects *)
  Definition footer_at (footer : option pat) (i : nat) (L : list bytes) (n : nat) : Prop :=
    exists j lj, n = S j /\ i <= j /\ nth_error L j = Some lj /\ fselF footer lj = true
      /\ forall j' l', i <= j' < j -> nth_error L j' = Some l' -> fselF footer l' = false.

  Lemma footer_loopF_post i0 d footer create : forall fuel i s all k,
    IF i0 s all k -> k + i < length all ->
    postF i0 all k d create (footer_at footer i)
          (fst (footer_loopF re_match fuel d footer create i s))
          (snd (footer_loopF re_match fuel d footer create i s)).
  Proof.
    induction fuel as [|fuel IH]; intros i s all k H Hi.
    - exists []. cbn zeta. rewrite app_nil_r. cbn. split; [|exact H].
      intros o E. inversion E; subst. intros [E2|(p & E2)]; discriminate.
    - cbn [footer_loopF]. pose proof H as (Hk & Hinv & Hv & Hs).
      destruct (nth_error (skipn k all) i) as [line|] eqn:Er.
      2:{ apply nth_error_None in Er. rewrite skipn_length in Er. lia. }
      assert (Hm : (match footer with
                    | None => Ok true
                    | Some p => match line_at s i with
                                | Ok line => Ok (re_match p line)
                                | Err o => Err o
                                end
                    end) = Ok (fselF footer line)).
      { destruct footer as [p|]; [|reflexivity]. rewrite (line_at_view s i line Hinv ltac:(rewrite Hv; exact Er)). reflexivity. }
      rewrite Hm. destruct (fselF footer line) eqn:Ef.
      + apply take_recordF_post; [exact H|lia|].
        exists i, line. repeat split; try assumption; try lia.
      + destruct (length (h_lines s) - 1 <=? i) eqn:El.
        * destruct (readline_IF i0 s all k H) as (m & Hm0 & Hm1 & Hm2 & Hm3).
          destruct (f2_readline s) as [r s2]. cbn [fst snd] in *.
          destruct r as [[|]|o].
          -- specialize (Hm1 eq_refl).
             destruct (IH (S i) s2 (all ++ m) k Hm0 ltac:(rewrite app_length; lia)) as (more & Hp & Hpost).
             exists (m ++ more). cbn zeta in *. rewrite app_assoc. split; [exact Hp|].
             destruct (fst (footer_loopF re_match fuel d footer create (S i) s2)) as [[[|] [t|]]|e]; try exact Hpost.
             destruct Hpost as (Hc & n & Hn & (j & lj & -> & Hj1 & Hj2 & Hj3 & Hj4) & Ht & HI).
             split; [exact Hc|]. exists (S j). split; [exact Hn|]. split; [|split; assumption].
             exists j, lj. repeat split; try assumption; try lia.
             intros j' l' Hj' En. destruct (Nat.eq_dec j' i) as [->|Hne].
             ++ rewrite <- app_assoc, skipn_app_le' in En by lia.
                rewrite nth_error_app1 in En by (rewrite skipn_length; lia).
                rewrite Er in En. inversion En; subst. exact Ef.
             ++ apply (Hj4 j' l'); [lia|exact En].
          -- exists m. cbn zeta. cbn [fst snd]. split; [apply res_ok_ok|exact Hm0].
          -- exists m. cbn zeta. cbn [fst snd]. split; [exact (res_ok_err o Hm3)|exact Hm0].
        * apply Nat.leb_gt in El. rewrite (IF_len i0 s all k H) in El.
          destruct (IH (S i) s all k H ltac:(lia)) as (more & Hp & Hpost).
          exists more. cbn zeta in *. split; [exact Hp|].
          destruct (fst (footer_loopF re_match fuel d footer create (S i) s)) as [[[|] [t|]]|e]; try exact Hpost.
          destruct Hpost as (Hc & n & Hn & (j & lj & -> & Hj1 & Hj2 & Hj3 & Hj4) & Ht & HI).
          split; [exact Hc|]. exists (S j). split; [exact Hn|]. split; [|split; assumption].
          exists j, lj. repeat split; try assumption; try lia.
          intros j' l' Hj' En. destruct (Nat.eq_dec j' i) as [->|Hne].
          ++ rewrite skipn_app_le' in En by lia.
             rewrite nth_error_app1 in En by (rewrite skipn_length; lia).
             rewrite Er in En. inversion En; subst. exact Ef.
          ++ apply (Hj4 j' l'); [lia|exact En].
  Qed.

  Definition ext_of (d : env2) (L : list bytes) (n : nat) : Prop := seg_ok d (firstn n L).

  Lemma read_and_matchF_post i0 d create s all k : IF i0 s all k ->
    postF i0 all k d create (ext_of d) (fst (read_and_matchF re_match d create s))
                                       (snd (read_and_matchF re_match d create s)).
  Proof.
    intro H. unfold read_and_matchF, ext_of, seg_ok. destruct (v_shape d) as [n|header footer] eqn:Es.
    - destruct (fill_rowsF_IF n i0 (S (n + f2_fuel s)) s all k H) as (m & Hm & Hm1 & Hm2).
      destruct (fill_rowsF (S (n + f2_fuel s)) n s) as [f s1]. cbn [fst snd] in *.
      destruct f as [[|]|o].
      + apply (postF_more i0 all m). apply take_recordF_post; [exact Hm|exact (Hm1 eq_refl)|].
        rewrite firstn_length, skipn_length. specialize (Hm1 eq_refl). lia.
      + exists m. cbn zeta. cbn [fst snd]. split; [apply res_ok_ok|exact Hm].
      + exists m. cbn zeta. cbn [fst snd]. split; [exact (res_ok_err o Hm2)|exact Hm].
    - assert (H0 : exists m, let '(r0, s0) := (if Nat.eqb (length (h_lines s)) 0 then f2_readline s else (Ok true, s)) in
                   IF i0 s0 (all ++ m) k /\ res_ok r0 /\ (r0 = Ok true -> k < length (all ++ m))).
      { destruct (Nat.eqb (length (h_lines s)) 0) eqn:E0.
        - destruct (readline_IF i0 s all k H) as (m & Hm & Hm1 & _ & Hm3). exists m.
          destruct (f2_readline s) as [r0 s0]. cbn [fst snd] in *.
          split; [exact Hm|]. split; [exact Hm3|]. intro E. specialize (Hm1 E).
          destruct H as (Hk & _). rewrite app_length. lia.
        - exists []. rewrite app_nil_r. split; [exact H|]. split; [apply res_ok_ok|].
          intros _. apply Nat.eqb_neq in E0. rewrite (IF_len i0 s all k H) in E0. lia. }
      destruct H0 as (m & H0).
      destruct (if Nat.eqb (length (h_lines s)) 0 then f2_readline s else (Ok true, s)) as [r0 s0].
      destruct H0 as (HI0 & Hp0 & Hl0). apply (postF_more i0 all m).
      destruct r0 as [[|]|o].
      + specialize (Hl0 eq_refl). pose proof HI0 as (Hk & Hinv & Hv & Hs).
        destruct (nth_error (skipn k (all ++ m)) 0) as [l0|] eqn:Er.
        2:{ apply nth_error_None in Er. rewrite skipn_length in Er. lia. }
        rewrite (line_at_view s0 0 l0 Hinv ltac:(rewrite Hv; exact Er)).
        destruct (re_match header l0) eqn:Eh.
        * destruct (footer_loopF_post i0 d footer create (f2_fuel s0) 0 s0 _ k HI0 ltac:(lia)) as (more & Hp & Hpost).
          exists more. cbn zeta in *. split; [exact Hp|].
          destruct (fst (footer_loopF re_match (f2_fuel s0) d footer create 0 s0)) as [[[|] [t|]]|e]; try exact Hpost.
          destruct Hpost as (Hc & n & Hn & (j & lj & -> & Hj1 & Hj2 & Hj3 & Hj4) & Ht & HI).
          split; [exact Hc|]. exists (S j). split; [exact Hn|]. split; [|split; assumption].
          set (L := skipn k ((all ++ m) ++ more)) in *.
          assert (HL : S j <= length L).
          { assert (j < length L) by (apply nth_error_Some; congruence). lia. }
          split.
          -- exists l0. split; [|exact Eh]. rewrite nth_error_firstn' by lia.
             unfold L. rewrite skipn_app_le' by lia. rewrite nth_error_app1; [exact Er|].
             rewrite skipn_length. lia.
          -- exists j, lj. split; [rewrite firstn_length; lia|].
             split; [rewrite nth_error_firstn' by lia; exact Hj2|]. split; [exact Hj3|].
             intros j' l' Hj' En. rewrite nth_error_firstn' in En by lia. apply (Hj4 j' l'); [lia|exact En].
        * exists []. cbn zeta. rewrite app_nil_r. cbn [fst snd]. split; [apply res_ok_ok|exact HI0].
      + exists []. cbn zeta. rewrite app_nil_r. cbn [fst snd]. split; [|exact HI0].
        intros o E. inversion E; subst. intros [E2|(p & E2)]; discriminate.
      + exists []. cbn zeta. rewrite app_nil_r. cbn [fst snd]. split; [exact (res_ok_err o Hp0)|exact HI0].
  Qed.

  Lemma moreF_IF i0 s all k : IF i0 s all k ->
    exists more, IF i0 (snd (moreF s)) (all ++ more) k /\ res_ok (fst (moreF s)).
  Proof.
    intro H. unfold moreF. destruct (negb (Nat.eqb (length (h_lines s)) 0)).
    - exists []. rewrite app_nil_r. cbn. split; [exact H|apply res_ok_ok].
    - destruct (readline_IF i0 s all k H) as (m & Hm & _ & _ & Hm3). exists m.
      destruct (f2_readline s) as [r s1]. cbn [fst snd] in *.
      destruct r as [b|o]; cbn [fst snd]; (split; [exact Hm|]); [apply res_ok_ok|exact (res_ok_err o Hm3)].
  Qed.

  (* ---- arbitrary call sequences ---------------------------------------------------------------------- *)
  Definition stepF (s : fst2) (o : rr_op) : option outcome * option (env2 * tree) * fst2 :=
    match o with
    | OpMore => let '(r, s') := moreF s in
                (match r with Err e => Some e | Ok _ => None end, None, s')
    | OpReadAndMatch d create =>
        let '(r, s') := read_and_matchF re_match d create s in
        (match r with Err e => Some e | Ok _ => None end,
         match r with Ok (true, Some t) => Some (d, t) | _ => None end, s')
    end.

  Fixpoint runF (s : fst2) (ops : list rr_op) : list (option outcome) * list (env2 * tree) * fst2 :=
    match ops with
    | [] => ([], [], s)
    | o :: r =>
        let '(e, dl, s1) := stepF s o in
        let '(es, dls, s2) := runF s1 r in
        (e :: es, match dl with Some x => x :: dls | None => dls end, s2)
    end.

  Definition ok_out (e : option outcome) : Prop :=
    match e with Some o => ~ bad o | None => True end.

  Lemma runF_I i0 : forall ops s all k, IF i0 s all k ->
    let '(es, dls, s') := runF s ops in
    exists more segs k',
      IF i0 s' (all ++ more) k'
      /\ Forall ok_out es
      /\ Forall2 (fun dt seg => snd dt = node_specF (fst dt) seg /\ seg_ok (fst dt) seg) dls segs
      /\ firstn k' (all ++ more) = firstn k all ++ concat segs.
  Proof.
    induction ops as [|o ops IH]; intros s all k H.
    - cbn [runF]. exists [], [], k. cbn [concat]. rewrite !app_nil_r. auto.
    - cbn [runF].
      assert (Hstep : let '(e, dl, s1) := stepF s o in
                      exists m k1, IF i0 s1 (all ++ m) k1 /\ ok_out e
                        /\ match dl with
                           | Some (d, t) => exists seg, t = node_specF d seg /\ seg_ok d seg
                                              /\ firstn k1 (all ++ m) = firstn k all ++ seg
                           | None => k1 = k
                           end).
      { destruct o as [|d create]; cbn [stepF].
        - destruct (moreF_IF i0 s all k H) as (m & Hm & Hp). destruct (moreF s) as [r s1].
          cbn [fst snd] in *. exists m, k. split; [exact Hm|]. split; [|reflexivity].
          destruct r as [b|e]; [exact Logic.I|]. cbn. apply Hp. reflexivity.
        - pose proof (read_and_matchF_post i0 d create s all k H) as (m & Hp & Hm).
          destruct (read_and_matchF re_match d create s) as [r s1]. cbn [fst snd] in *.
          assert (Hpe : ok_out (match r with Err e => Some e | Ok _ => None end)).
          { destruct r as [b|e]; [exact Logic.I|]. cbn. apply Hp. reflexivity. }
          destruct r as [[[|] [t|]]|e]; try (exists m, k; split; [exact Hm|split; [exact Hpe|reflexivity]]).
          destruct Hm as (_ & n & Hn & Hext & Ht & HI). exists m, (k + n). split; [exact HI|]. split; [exact Hpe|].
          exists (firstn n (skipn k (all ++ m))). split; [exact Ht|]. split; [exact Hext|].
          rewrite firstn_add'. f_equal. rewrite firstn_app.
          destruct H as (Hk & _). replace (k - length all) with 0 by lia. rewrite firstn_O, app_nil_r. reflexivity. }
      destruct (stepF s o) as [[e dl] s1]. destruct Hstep as (m & k1 & HI1 & He & Hdl).
      specialize (IH s1 _ k1 HI1). destruct (runF s1 ops) as [[es dls] s2].
      destruct IH as (more & segs & k' & HI' & Hes & Hds & Hfirst).
      rewrite <- app_assoc in HI', Hfirst.
      destruct dl as [[d t]|].
      + destruct Hdl as (seg & Ht & Hsg & Hk1).
        exists (m ++ more), (seg :: segs), k'. split; [exact HI'|]. split; [constructor; assumption|].
        split; [constructor; [split; assumption|exact Hds]|].
        rewrite Hfirst. cbn [concat]. rewrite app_assoc. f_equal. exact Hk1.
      + subst k1. exists (m ++ more), segs, k'. split; [exact HI'|]. split; [constructor; assumption|].
        split; [exact Hds|]. rewrite Hfirst. f_equal.
        destruct H as (Hk & _). rewrite !firstn_app. replace (k - length all) with 0 by lia.
        rewrite !firstn_O, !app_nil_r. reflexivity.
  Qed.

  (* From a fresh reader, whatever is called in whatever order: every delivered envelope node is
     node_specF of a segment of the line stream that is a well-formed envelope of its declaration
     (seg_ok), consecutive deliveries take consecutive segments whose concatenation is exactly the
     consumed prefix of the stream, and no call reads a stale reference or panics. *)
  Theorem fixed2_sequence_proof input ops :
    let '(es, dls, s') := runF (f2_init input) ops in
    exists all segs k,
      streamF input (h_in s') all /\ viewF s' = skipn k all
      /\ Forall ok_out es
      /\ Forall2 (fun dt seg => snd dt = node_specF (fst dt) seg /\ seg_ok (fst dt) seg) dls segs
      /\ concat segs = firstn k all.
  Proof.
    assert (H0 : IF input (f2_init input) [] 0).
    { split; [simpl; lia|]. split; [constructor|]. split; [reflexivity|constructor]. }
    pose proof (runF_I input ops _ _ _ H0) as H.
    destruct (runF (f2_init input) ops) as [[es dls] s'].
    destruct H as (more & segs & k' & (Hk & Hi & Hv & Hs) & Hes & Hds & Hf).
    cbn [app firstn] in *. exists more, segs, k'. auto.
  Qed.
End Fixed2Seq.
