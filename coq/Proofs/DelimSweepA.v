(* C06 proofs: the complete sweep over all runes for the facts about a csv delimiter's UTF-8
   encoding (kept in its own file so that it compiles in parallel with the rest). *)
From Coq Require Import List NArith Bool Arith Lia.
From Coq.Strings Require Import Byte.
Import ListNotations.
From OV Require Import Base.Bytes Base.Utf8 Model.Csv.

(* ---- a sweep over an interval of N ---------------------------------------------------------------- *)
Fixpoint sweep (P : N -> bool) (k : nat) (lo : N) : bool :=
  match k with
  | O => P lo
  | S k' => sweep P k' lo && sweep P k' (lo + 2 ^ N.of_nat k')
  end.

Lemma sweep_sound P k : forall lo, sweep P k lo = true ->
  forall c, (lo <= c < lo + 2 ^ N.of_nat k)%N -> P c = true.
Proof.
  induction k as [|k IH]; intros lo H c Hc.
  - simpl in *. assert (c = lo) by lia. subst. exact H.
  - cbn [sweep] in H. apply andb_prop in H as [H1 H2].
    assert (E : (2 ^ N.of_nat (S k) = 2 * 2 ^ N.of_nat k)%N).
    { rewrite Nat2N.inj_succ. apply N.pow_succ_r'. }
    rewrite E in Hc.
    destruct (N.lt_ge_cases c (lo + 2 ^ N.of_nat k)) as [Hlt|Hge].
    + apply (IH lo H1). lia.
    + apply (IH _ H2). lia.
Qed.

(* ---- the UTF-8 encoding of a delimiter encoding/csv accepts ---------------------------------------- *)
Definition enc_ok (r : rune) : bool :=
  negb (valid_delim r) ||
  match encode_rune r with
  | [] => false
  | h :: t => negb (mem_byte h t) && negb (mem_byte LF (h :: t)) && negb (mem_byte CR (h :: t))
              && negb (mem_byte QUOTE (h :: t))
  end.

Lemma enc_ok_all : sweep enc_ok 20 0 && sweep enc_ok 16 1048576 = true.
Proof. vm_cast_no_check (eq_refl true). Qed.

