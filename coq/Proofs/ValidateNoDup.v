(* C02 proofs (the F28 class): validate never hands one declaration to a parent twice.  In every
   node of the validated tree the children carry pairwise different fqdns (object members: their
   distinct escaped names; array elements / arguments: their positions elem[i] / arg[i]). *)
From Coq Require Import String List ZArith NArith Bool Lia Permutation.
From Coq.Strings Require Import Byte.
Import ListNotations.
From OV Require Import Base.Bytes Base.Cases Gen.Conv Model.Value Model.Decl.
From OV Require Import Proofs.ValueOrder Proofs.ValueDec Proofs.EvalPure Proofs.Validate Proofs.ValidateWf.

Definition kid_fqdns (d : vdecl) : list (list bytes) := map (fun c => v_fqdn (vd_info c)) (vd_kids d).

Fixpoint nd (d : vdecl) : Prop :=
  let 'VD i x ks := d in
  NoDup (map (fun c => v_fqdn (vd_info c)) ks)
  /\ (match x with Some q => nd q | None => True end)
  /\ (fix all (l : list vdecl) : Prop := match l with [] => True | c :: r => nd c /\ all r end) ks.

Lemma nd_all ks : (fix all (l : list vdecl) : Prop := match l with [] => True | c :: r => nd c /\ all r end) ks <-> Forall nd ks.
Proof.
  induction ks as [|c r IH].
  - split; intro; [constructor|exact I].
  - split.
    + intros [H1 H2]. constructor; [exact H1|apply IH; exact H2].
    + intro H. inversion H; subst. split; [assumption|apply IH; assumption].
Qed.

(* vmapi with positions *)
Lemma vmapi_pos {A} (f : nat -> A -> vres vdecl) : forall l i vs, vmapi f i l = VOk vs ->
  length vs = length l /\
  forall k a v, nth_error l k = Some a -> nth_error vs k = Some v -> f (i + k) a = VOk v.
Proof.
  induction l as [|a r IH]; intros i vs H; simpl in H.
  - injection H as <-. split; [reflexivity|]. intros [|k] a v Ha; discriminate.
  - destruct (f i a) as [v0| |] eqn:E; try discriminate.
    destruct (vmapi f (S i) r) as [vs'| |] eqn:E'; try discriminate. injection H as <-.
    destruct (IH _ _ E') as [Hl Hk]. split; [simpl; congruence|].
    intros [|k] a' v' Ha Hv; simpl in *.
    + injection Ha as <-. injection Hv as <-. rewrite Nat.add_0_r. exact E.
    + replace (i + S k) with (S i + k) by lia. eapply Hk; eauto.
Qed.

(* children at pairwise different positions with position-determined fqdns are NoDup *)
Lemma nodup_by_position (g : nat -> list bytes) (vs : list vdecl) :
  (forall j k, g j = g k -> j = k) ->
  (forall k v, nth_error vs k = Some v -> v_fqdn (vd_info v) = g k) ->
  NoDup (map (fun c => v_fqdn (vd_info c)) vs).
Proof.
  intros Hinj Hpos. apply NoDup_nth_error. intros i j Hi E.
  rewrite map_length in Hi. rewrite !nth_error_map in E.
  destruct (nth_error vs i) as [vi|] eqn:Ei; [|apply nth_error_None in Ei; lia].
  destruct (nth_error vs j) as [vj|] eqn:Ej; [|discriminate]. simpl in E. injection E as E.
  apply Hinj. rewrite <- (Hpos _ _ Ei), <- (Hpos _ _ Ej). exact E.
Qed.

Section NoDupChildren.
  Variable ds : list (bytes * decl).
  Variable fe pe : bytes -> bool.

  Definition ok (fqdn : list bytes) (v : vdecl) : Prop := v_fqdn (vd_info v) = fqdn /\ nd v.

  Lemma mk_vd_ok p fqdn par vx ks :
    NoDup (map (fun c => v_fqdn (vd_info c)) ks) ->
    (match vx with Some q => nd q | None => True end) -> Forall nd ks ->
    ok fqdn (mk_vd p fqdn par vx ks).
  Proof. intros H1 H2 H3. split; [reflexivity|]. unfold mk_vd. cbn [nd]. split; [exact H1|]. split; [exact H2|apply nd_all; exact H3]. Qed.

  Lemma vgo_nd stack jump :
    (forall st fq dn par lk v, decl_nodup dn = true -> jump st fq dn par lk = VOk v -> ok fq v) ->
    (forall name body, lookup name ds = Some body -> decl_nodup body = true) ->
    forall d fqdn par linked v, decl_nodup d = true ->
      vgo ds fe pe stack jump fqdn d par linked = VOk v -> ok fqdn v.
  Proof.
    intros Hj Hds.
    induction d as [c e x xd fn args ig pa tm ob ar ty nt kp IHxd IHargs IHob IHar] using decl_ind2.
    intros fqdn par linked v Hnd H.
    cbn [decl_nodup] in Hnd. repeat (apply andb_prop in Hnd; destruct Hnd as [Hnd ?]).
    rename Hnd into Hnxd.
    match goal with Ha : forallb decl_nodup args = true |- _ => rename Ha into Hnargs end.
    cbn [vgo] in H.
    destruct (is_some x && is_some xd)%bool; [discriminate|].
    assert (Hvx : forall vx,
              (match xd with
               | Some q => match vgo ds fe pe stack jump (fqdn ++ [bs "xpath_dynamic"]) q None false with
                           | VOk v0 => VOk (Some v0) | VErr => VErr | VFuel => VFuel end
               | None => VOk None end) = VOk vx ->
              match vx with Some q => nd q | None => True end).
    { intros vx E. destruct xd as [q|]; [|injection E as <-; exact I].
      destruct (vgo ds fe pe stack jump (fqdn ++ [bs "xpath_dynamic"]) q None false) as [v0| |] eqn:Q; try discriminate.
      injection E as <-. simpl in IHxd. apply (IHxd _ _ _ _ Hnxd Q). }
    match type of H with match ?t with VOk _ => _ | VErr => _ | VFuel => _ end = _ =>
      destruct t as [vx| |] eqn:EXD end; try discriminate.
    specialize (Hvx vx eq_refl).
    set (d := Decl c e x xd fn args ig pa tm ob ar ty nt kp) in *.
    destruct (resolve_kind d) eqn:K;
      try (injection H as <-; apply mk_vd_ok; [constructor|exact Hvx|constructor]).
    - (* object: distinct escaped names *)
      destruct ob as [l|]; [|discriminate].
      match goal with Ho : (nodup_keys _ && _)%bool = true |- _ => apply andb_prop in Ho as [Hkeys Hnl] end.
      match type of H with context [vmapi ?f 1 l] => destruct (vmapi f 1 l) as [vs| |] eqn:M end; try discriminate.
      injection H as <-. apply vmapi_ok in M.
      assert (Hmem : Forall2 (fun nc v0 => ok (fqdn ++ [esc_name (fst nc)]) v0) l vs).
      { simpl in IHob. clear - M IHob Hnl. induction M as [|[name cd] v0 l vs [j Hv] M IH]; constructor.
        - inversion IHob as [|? ? Hc _]; subst. simpl in Hnl. apply andb_prop in Hnl as [Hn _]. apply (Hc _ _ _ _ Hn Hv).
        - inversion IHob; subst. simpl in Hnl. apply andb_prop in Hnl as [_ Hn]. apply IH; assumption. }
      apply mk_vd_ok; [|exact Hvx|].
      + eapply Permutation_NoDup; [apply Permutation_map, Permutation_sym, sort_kids_perm|].
        assert (E : map (fun c0 => v_fqdn (vd_info c0)) vs = map (fun nc => fqdn ++ [esc_name (fst nc)]) l).
        { clear - Hmem. induction Hmem as [|nc v0 l vs [Hf _] _ IH]; [reflexivity|]. simpl. rewrite Hf, IH. reflexivity. }
        rewrite E. rewrite <- (map_map fst (fun k => fqdn ++ [esc_name k])).
        apply FinFun.Injective_map_NoDup; [|apply nodup_keys_NoDup; exact Hkeys].
        intros a b Hab. apply app_inv_head in Hab. apply (f_equal (fun l => hd [] l)) in Hab. cbn [hd] in Hab. apply esc_name_inj. exact Hab.
      + apply Forall_forall. intros c0 Hc0. apply (Permutation_in _ (sort_kids_perm vs)) in Hc0.
        clear - Hmem Hc0. induction Hmem as [|nc v0 l vs [_ Hn] _ IH]; [contradiction|].
        destruct Hc0 as [<-|Hc0]; [exact Hn|apply IH; exact Hc0].
    - (* array: positions elem[i] *)
      destruct ar as [l|]; [|discriminate].
      match goal with Ha : forallb decl_nodup l = true |- _ => rename Ha into Hnl end.
      match type of H with context [vmapi ?f 1 l] => destruct (vmapi f 1 l) as [vs| |] eqn:M end; try discriminate.
      injection H as <-. destruct (vmapi_pos _ _ _ _ M) as [Hlen Hpos].
      assert (Hok : forall k v0, nth_error vs k = Some v0 -> ok (fqdn ++ [elem_name (1 + k)]) v0).
      { intros k v0 Hv0. destruct (nth_error l k) as [a|] eqn:Ea; [|apply nth_error_None in Ea; assert (k < length vs)%nat by (apply nth_error_Some; rewrite Hv0; discriminate); lia].
        simpl in IHar. rewrite Forall_forall in IHar. rewrite forallb_forall in Hnl.
        pose proof (nth_error_In _ _ Ea) as Hin. apply (IHar a Hin _ _ _ _ (Hnl a Hin) (Hpos _ _ _ Ea Hv0)). }
      apply mk_vd_ok; [|exact Hvx|].
      + apply (nodup_by_position (fun k => fqdn ++ [elem_name (1 + k)])).
        * intros j k E. apply app_inv_head in E. apply (f_equal (fun l => hd [] l)) in E. cbn [hd] in E. apply elem_name_inj in E. lia.
        * intros k v0 Hv0. apply (Hok k v0 Hv0).
      + apply Forall_forall. intros c0 Hc0. apply In_nth_error in Hc0 as [k Hk]. apply (Hok k c0 Hk).
    - (* custom_func: positions arg[i] *)
      destruct fn as [name|]; [|discriminate]. destruct (negb (fe name)); [discriminate|].
      match type of H with context [vmapi ?f 1 args] => destruct (vmapi f 1 args) as [vs| |] eqn:M end; try discriminate.
      injection H as <-. destruct (vmapi_pos _ _ _ _ M) as [Hlen Hpos].
      assert (Hok : forall k v0, nth_error vs k = Some v0 -> ok (fqdn ++ [func_name name; arg_name (1 + k)]) v0).
      { intros k v0 Hv0. destruct (nth_error args k) as [a|] eqn:Ea; [|apply nth_error_None in Ea; assert (k < length vs)%nat by (apply nth_error_Some; rewrite Hv0; discriminate); lia].
        rewrite Forall_forall in IHargs. rewrite forallb_forall in Hnargs.
        pose proof (nth_error_In _ _ Ea) as Hin. apply (IHargs a Hin _ _ _ _ (Hnargs a Hin) (Hpos _ _ _ Ea Hv0)). }
      apply mk_vd_ok; [|exact Hvx|].
      + apply (nodup_by_position (fun k => fqdn ++ [func_name name; arg_name (1 + k)])).
        * intros j k E. apply app_inv_head in E. apply (f_equal (fun l => hd [] (tl l))) in E. cbn [hd tl] in E. apply arg_name_inj in E. lia.
        * intros k v0 Hv0. apply (Hok k v0 Hv0).
      + apply Forall_forall. intros c0 Hc0. apply In_nth_error in Hc0 as [k Hk]. apply (Hok k c0 Hk).
    - (* custom_parse *)
      destruct pa as [name|]; [|discriminate]. destruct (pe name); [|discriminate]. injection H as <-.
      apply mk_vd_ok; [constructor|exact Hvx|constructor].
    - (* template: the expanded copy is validated by the jump *)
      destruct tm as [name|]; [|discriminate].
      destruct (lookup name ds) as [body|] eqn:L; [|discriminate].
      destruct (has_dup (stack ++ [name])); [discriminate|].
      destruct (d_isx body && d_isx d)%bool; [discriminate|].
      apply Hj in H; [exact H|].
      destruct (d_isx d); [|eapply Hds; eauto].
      apply with_xpath_nodup; [|eapply Hds; eauto].
      unfold d. cbn [decl_nodup].
      repeat match goal with |- (_ && _)%bool = true => apply andb_true_intro; split end; try assumption; reflexivity.
  Qed.

  Hypothesis ds_nodup : forall name body, lookup name ds = Some body -> decl_nodup body = true.

  Lemma validate_decl_nd : forall fuel stack fqdn d par linked v, decl_nodup d = true ->
    validate_decl ds fe pe fuel stack fqdn d par linked = VOk v -> ok fqdn v.
  Proof.
    induction fuel as [|f IH]; intros stack fqdn d par linked v Hn H; [discriminate|].
    cbn [validate_decl] in H. eapply vgo_nd; eauto.
  Qed.

  Theorem validate_children_nodup top : validate ds fe pe = VOk top -> nd top.
  Proof.
    unfold validate. destruct (lookup FINAL_OUTPUT ds) as [d|] eqn:L; [|discriminate]. intro H.
    apply validate_decl_nd in H; [|eapply ds_nodup; eauto]. apply H.
  Qed.

  (* ... stated for every node of the tree *)
  Lemma nd_sub : forall d, nd d -> forall d', In d' (subdecls d) -> NoDup (kid_fqdns d').
  Proof.
    induction d as [i x ks IHx IHks] using vdecl_ind2. intros (H1 & H2 & H3) d' Hin.
    apply nd_all in H3. cbn [subdecls] in Hin. destruct Hin as [<-|Hin]; [exact H1|].
    apply in_app_or in Hin as [Hin|Hin].
    - destruct x as [q|]; [|contradiction]. apply (IHx H2 d' Hin).
    - apply in_flat_map in Hin as (c & Hc & Hin). rewrite Forall_forall in IHks, H3. apply (IHks c Hc (H3 c Hc) d' Hin).
  Qed.

  Theorem validate_no_duplicate_children top : validate ds fe pe = VOk top ->
    forall d, In d (subdecls top) -> NoDup (kid_fqdns d).
  Proof. intros H d Hd. eapply nd_sub; [apply validate_children_nodup; exact H|exact Hd]. Qed.
End NoDupChildren.
