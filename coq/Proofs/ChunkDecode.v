(* C09 proofs, part 10: x/text transform.Reader over a bytewise charmap decoder (cp : byte ->
   bytes, 1..3 bytes per input byte) over any well-behaved reader is a well-behaved reader of
   a_decode cp data = flat_map cp data.  It latches the first error of its input. *)
From Coq Require Import List NArith Bool Arith Lia.
From Coq.Strings Require Import Byte.
Import ListNotations.
From OV Require Import Base.Bytes Base.Cases Base.Utf8 Model.Chunk Proofs.Chunk Proofs.ChunkLines Proofs.ChunkBRR.

Section DecodeProofs.
  Variable cp : byte -> bytes.
  Hypothesis Hcp : forall c, 1 <= length (cp c) <= 3.
  Variable D : nat.
  Hypothesis HD : 3 <= D.

  Lemma decode_app a b : a_decode cp (a ++ b) = a_decode cp a ++ a_decode cp b.
  Proof. unfold a_decode. apply flat_map_app. Qed.

  Lemma decode_len d : length d <= length (a_decode cp d) <= 3 * length d.
  Proof.
    induction d as [|c d IH]; simpl; [lia|]. rewrite app_length. pose proof (Hcp c). lia.
  Qed.

  (* charmapDecoder.Transform: greedy, bytewise; stops only when the next byte does not fit *)
  Lemma cm_transform_spec src : forall dst dst' src' short,
    cm_transform cp D dst src = (dst', src', short) -> length dst <= D ->
    dst' ++ a_decode cp src' = dst ++ a_decode cp src /\ length dst' <= D /\
    length src' <= length src /\ (short = false -> src' = []) /\
    (exists k, dst' = dst ++ k) /\
    (src <> [] -> dst = [] -> dst' <> []) /\
    length dst' + 3 * length src' <= length dst + 3 * length src.
  Proof.
    induction src as [|c r IH]; intros dst dst' src' short H Hd; cbn [cm_transform] in H.
    - injection H as <- <- <-. rewrite app_nil_r.
      refine (conj _ (conj _ (conj _ (conj _ (conj _ (conj _ _)))))); auto; try lia;
        try (exists []; symmetry; apply app_nil_r); try congruence.
    - destruct (Nat.ltb_spec D (length dst + length (cp c))) as [Hs|Hf].
      + injection H as <- <- <-.
        refine (conj _ (conj _ (conj _ (conj _ (conj _ (conj _ _)))))); auto; try lia;
          try (intro; discriminate); try (exists []; symmetry; apply app_nil_r);
          try (intros _ ->; simpl in Hs; pose proof (Hcp c); lia).
      + specialize (IH (dst ++ cp c) dst' src' short H ltac:(rewrite app_length; lia)).
        destruct IH as (A&B&C&E&(k&F)&G&I).
        refine (conj _ (conj _ (conj _ (conj _ (conj _ (conj _ _)))))); auto.
        * rewrite A. simpl. rewrite <- app_assoc. reflexivity.
        * simpl; lia.
        * exists (cp c ++ k). rewrite F, app_assoc. reflexivity.
        * intros _ ->. rewrite F. simpl. pose proof (Hcp c). destruct (cp c); simpl in *; [lia|discriminate].
        * rewrite app_length in I. pose proof (Hcp c). simpl. lia.
  Qed.

  Variable St : Type.
  Variable sread : St -> nat -> rres * St.
  Variable Rep : St -> bytes -> tail -> Prop.
  Variable wt : St -> nat.
  Variable lead : St -> nat.
  Hypothesis Hok : reader_ok St sread Rep wt lead.

  Notation dec_read := (dec_read St sread cp D).

  Definition dec_rep (st : decrd * St) (out : bytes) (T : tail) : Prop :=
    let '(d, x) := st in
    length (d_dst d) <= D /\ length (d_src d) <= D /\
    if d_complete d then
      d_err d = Some (tail_err T) /\ tail_next T = T /\ d_src d = [] /\ out = d_dst d
    else
      match d_err d with
      | None => exists rest t, T = latch t /\ Rep x rest t /\ out = d_dst d ++ a_decode cp (d_src d ++ rest)
      | Some e => e = tail_err T /\ tail_next T = T /\ out = d_dst d ++ a_decode cp (d_src d)
      end.

  Definition dec_wt (st : decrd * St) : nat :=
    2 * length (d_dst (fst st)) + 6 * length (d_src (fst st)) + 6 * wt (snd st).

  (* iterations of the Read loop still to come *)
  Definition dec_m (st : decrd * St) : nat :=
    let '(d, x) := st in
    if negb (is_nil (d_dst d)) || d_complete d then 0
    else match d_err d with
         | Some _ => 1
         | None => 2 * wt x + (if is_nil (d_src d) then 2 else 3)
         end.
  (* a bound on dec_m that does not grow from call to call *)
  Definition dec_M (st : decrd * St) : nat :=
    match d_err (fst st) with Some _ => 2 | None => 2 * wt (snd st) + 4 end.

  Lemma dec_m_le_M st : dec_m st <= dec_M st.
  Proof.
    destruct st as [d x]. unfold dec_m, dec_M. cbn [fst snd].
    destruct (negb (is_nil (d_dst d)) || d_complete d); [destruct (d_err d); lia|].
    destruct (d_err d); [lia|]. destruct (is_nil (d_src d)); lia.
  Qed.

  Lemma dec_read_spec fuel : forall d x out T cap,
    dec_rep (d, x) out T -> 0 < cap -> dec_m (d, x) < fuel ->
    exists c oe st', dec_read fuel (d, x) cap = Ok ((c, oe), st') /\ dec_M st' <= dec_M (d, x) /\
      length c <= cap /\
      match oe with
      | None => c <> [] /\ exists out', out = c ++ out' /\ dec_rep st' out' T /\
                                         dec_wt st' + length c < dec_wt (d, x)
      | Some e => out = c /\ e = tail_err T /\ dec_rep st' [] T /\ dec_wt st' + length c <= dec_wt (d, x)
      end.
  Proof.
    induction fuel as [|k IH]; intros d x out T cap HR Hcap Hf; [lia|].
    destruct HR as (HdD&HsD&HR). cbn [Chunk.dec_read].
    destruct (d_dst d) as [|b0 bs] eqn:Edst.
    - (* nothing transformed yet *)
      destruct (d_complete d) eqn:Ec.
      + destruct HR as (He&Hnx&Hsrc&->). exists [], (d_err d), (d, x). rewrite He.
        split; [reflexivity|]. split; [lia|]. split; [simpl; lia|].
        split; [reflexivity|]. split; [reflexivity|]. split; [|simpl; lia].
        unfold dec_rep. rewrite Edst, Ec. repeat split; auto; simpl; lia.
      + destruct (negb (is_nil (d_src d)) || negb (is_none (d_err d))) eqn:Ebr.
        * (* transform what is in src *)
          destruct (cm_transform cp D [] (d_src d)) as [[dst src'] short] eqn:Et.
          destruct (cm_transform_spec (d_src d) [] dst src' short Et ltac:(simpl; lia))
            as (A&B&C&E&_&G&I). cbn [app length] in A, I.
          assert (Hprog : short = true -> negb (is_nil dst) || negb (Nat.eqb (length src') (length (d_src d))) = true).
          { intro Hs. destruct (d_src d) as [|s0 ss] eqn:Es.
            - cbn [cm_transform] in Et. injection Et as <- <- <-. discriminate.
            - assert (dst <> []) by (apply G; [discriminate|reflexivity]).
              destruct dst; [congruence|reflexivity]. }
          destruct short.
          -- rewrite (Hprog eq_refl).
             destruct (IH (mkDec dst src' (d_err d) false) x out T cap) as (c2&oe2&st2&P1&P2&P3&P4).
             ++ unfold dec_rep. cbn [d_dst d_src d_err d_complete]. split; [exact B|]. split; [lia|].
                destruct (d_err d) as [e|] eqn:Ee.
                ** destruct HR as (->&Hnx&->). repeat split; auto.
                ** destruct HR as (rest&t&->&HRx&->). exists rest, t. repeat split; auto.
                   cbn [app]. rewrite !decode_app, app_assoc, A. reflexivity.
             ++ exact Hcap.
             ++ unfold dec_m in *. cbn [d_dst d_src d_err d_complete] in *.
                assert (dst <> []).
                { destruct (d_src d) eqn:Es; [cbn [cm_transform] in Et; discriminate Et|].
                  apply G; [discriminate|reflexivity]. }
                destruct dst; [congruence|]. cbn [is_nil negb orb]. rewrite Edst, Ec in Hf. cbn [is_nil negb orb] in Hf. destruct (d_err d); [lia|]. destruct (is_nil (d_src d)); lia.
             ++ exists c2, oe2, st2. split; [exact P1|]. split; [unfold dec_M in *; cbn [fst snd d_err] in *; lia|].
                split; [exact P3|].
                unfold dec_wt in *. cbn [fst snd d_dst d_src] in *. rewrite Edst. cbn [length].
                destruct oe2 as [e2|].
                ** destruct P4 as (Q1&Q2&Q3&Q4). repeat split; auto. lia.
                ** destruct P4 as (Q0&(out'&Q1&Q3&Q4)). split; [exact Q0|]. exists out'. repeat split; auto. lia.
          -- specialize (E eq_refl). subst src'.
             destruct (IH (mkDec dst [] (d_err d) (negb (is_none (d_err d)))) x out T cap) as (c2&oe2&st2&P1&P2&P3&P4).
             ++ unfold dec_rep. cbn [d_dst d_src d_err d_complete]. split; [exact B|]. split; [simpl; lia|].
                cbn [a_decode flat_map] in A. rewrite app_nil_r in A.
                destruct (d_err d) as [e|] eqn:Ee; cbn [is_none negb].
                ** destruct HR as (->&Hnx&->). repeat split; auto; try (rewrite A; reflexivity).
                ** destruct HR as (rest&t&->&HRx&->). exists rest, t. repeat split; auto.
                   cbn [app]. rewrite decode_app, A. reflexivity.
             ++ exact Hcap.
             ++ unfold dec_m in *. cbn [d_dst d_src d_err d_complete] in *. rewrite Edst, Ec in Hf.
                cbn [is_nil negb orb] in Hf.
                destruct (d_err d) as [e|] eqn:Ee; cbn [is_none negb].
                ** rewrite orb_true_r. lia.
                ** rewrite orb_false_r.
                   assert (Hsrc : is_nil (d_src d) = false).
                   { cbn [is_none negb] in Ebr. rewrite orb_false_r in Ebr.
                     destruct (is_nil (d_src d)); [discriminate|reflexivity]. }
                   rewrite Hsrc in Hf.
                   destruct (negb (is_nil dst)); [lia|]. cbn [is_nil]. lia.
             ++ exists c2, oe2, st2. split; [exact P1|]. split; [unfold dec_M in *; cbn [fst snd d_err] in *; lia|].
                split; [exact P3|].
                unfold dec_wt in *. cbn [fst snd d_dst d_src length] in *. rewrite Edst. cbn [length].
                destruct oe2 as [e2|].
                ** destruct P4 as (Q1&Q2&Q3&Q4). repeat split; auto. lia.
                ** destruct P4 as (Q0&(out'&Q1&Q3&Q4)). split; [exact Q0|]. exists out'. repeat split; auto. lia.
        * (* src empty, no error yet: read the input *)
          apply orb_false_elim in Ebr as [Eb1 Eb2].
          assert (Hsrc : d_src d = []) by (destruct (d_src d); [reflexivity|discriminate]).
          assert (He : d_err d = None) by (destruct (d_err d); [discriminate|reflexivity]).
          rewrite He in HR. destruct HR as (rest&t&->&HRx&->). rewrite Hsrc. cbn [length app].
          rewrite Nat.sub_0_r.
          destruct (Hok x rest t D HRx ltac:(lia)) as [_ Hs].
          destruct (sread x D) as [[c oe] x'].
          destruct (IH (mkDec [] c oe false) x' (a_decode cp rest) (latch t) cap) as (c2&oe2&st2&P1&P2&P3&P4).
          -- unfold dec_rep. cbn [d_dst d_src d_err d_complete length]. split; [lia|].
             destruct oe as [e|].
             ++ destruct Hs as (->&->&HRx'&Hl&Hw). split; [exact Hl|].
                rewrite latch_err, latch_next. repeat split; auto.
             ++ destruct Hs as (rest'&->&HRx'&Hw&Hl&Hld). split; [exact Hl|].
                exists rest', t. repeat split; auto.
          -- exact Hcap.
          -- unfold dec_m in *. cbn [d_dst d_src d_err d_complete] in *.
             rewrite Edst, Ec, He, Hsrc in Hf. cbn [is_nil negb orb] in *.
             destruct oe as [e|]; [lia|]. destruct Hs as (rest'&->&HRx'&Hw&Hl&Hld).
             destruct (is_nil c); lia.
          -- exists c2, oe2, st2. split; [exact P1|]. split.
             { unfold dec_M in *. cbn [fst snd d_err] in *. rewrite He.
               destruct oe as [e|]; [lia|]. destruct Hs as (rest'&->&HRx'&Hw&Hl&Hld). lia. }
             split; [exact P3|].
             unfold dec_wt in *. cbn [fst snd d_dst d_src length] in *. rewrite Edst, Hsrc. cbn [length].
             assert (Hwt : 6 * length c + 6 * wt x' <= 6 * wt x).
             { destruct oe as [e|]; [destruct Hs as (->&->&HRx'&Hl&Hw); lia
                                    |destruct Hs as (rest'&->&HRx'&Hw&Hl&Hld); lia]. }
             destruct oe2 as [e2|].
             ++ destruct P4 as (Q1&Q2&Q3&Q4). repeat split; auto. lia.
             ++ destruct P4 as (Q0&(out'&Q1&Q3&Q4)). split; [exact Q0|]. exists out'. repeat split; auto. lia.
    - (* transformed bytes ready: copy out *)
      set (dd := b0 :: bs) in *.
      assert (Hfl : length (firstn cap dd) = Nat.min cap (length dd)) by apply firstn_length.
      assert (Hsl : length (skipn cap dd) = length dd - cap) by apply skipn_length.
      assert (Hdd : 1 <= length dd) by (unfold dd; simpl; lia).
      assert (Hne : firstn cap dd <> []).
      { intro E. rewrite E in Hfl. simpl in Hfl. lia. }
      destruct (is_nil (skipn cap dd) && d_complete d) eqn:Eb.
      + apply andb_prop in Eb as [Eb1 Ec]. rewrite Ec in HR. destruct HR as (He&Hnx&Hsrc&->).
        assert (Hall : firstn cap dd = dd).
        { rewrite <- (firstn_skipn cap dd) at 2. destruct (skipn cap dd); [|discriminate]. symmetry; apply app_nil_r. }
        eexists _, _, _. split; [reflexivity|]. split; [unfold dec_M; cbn [fst snd d_err]; lia|].
        split; [lia|]. rewrite He. split; [symmetry; exact Hall|]. split; [reflexivity|]. split.
        * unfold dec_rep. cbn [d_dst d_src d_err d_complete]. rewrite Hsrc. repeat split; auto; simpl; lia.
        * unfold dec_wt. cbn [fst snd d_dst d_src]. rewrite Edst. fold dd. rewrite Hall. simpl length at 1. lia.
      + eexists _, _, _. split; [reflexivity|]. split; [unfold dec_M; cbn [fst snd d_err]; lia|].
        split; [lia|]. split; [exact Hne|].
        destruct (d_complete d) eqn:Ec.
        * destruct HR as (He&Hnx&Hsrc&->). exists (skipn cap dd). split; [symmetry; apply firstn_skipn|]. split.
          -- unfold dec_rep. cbn [d_dst d_src d_err d_complete]. try rewrite Ec. repeat split; auto; lia.
          -- unfold dec_wt. cbn [fst snd d_dst d_src]. rewrite Edst. fold dd. lia.
        * destruct (d_err d) as [e|] eqn:Ee.
          -- destruct HR as (->&Hnx&->). exists (skipn cap dd ++ a_decode cp (d_src d)).
             split; [rewrite app_assoc, firstn_skipn; reflexivity|]. split.
             ++ unfold dec_rep. cbn [d_dst d_src d_err d_complete]. try rewrite Ec; try rewrite Ee. repeat split; auto; lia.
             ++ unfold dec_wt. cbn [fst snd d_dst d_src]. rewrite Edst. fold dd. lia.
          -- destruct HR as (rest&t&->&HRx&->). exists (skipn cap dd ++ a_decode cp (d_src d ++ rest)).
             split; [rewrite app_assoc, firstn_skipn; reflexivity|]. split.
             ++ unfold dec_rep. cbn [d_dst d_src d_err d_complete]. try rewrite Ec; try rewrite Ee.
                split; [lia|]. split; [lia|]. exists rest, t. auto.
             ++ unfold dec_wt. cbn [fst snd d_dst d_src]. rewrite Edst. fold dd. lia.
  Qed.
End DecodeProofs.


Section DecLayer.
  Variable cp : byte -> bytes.
  Hypothesis Hcp : forall c, 1 <= length (cp c) <= 3.
  Variable D : nat.
  Hypothesis HD : 3 <= D.
  Variable St : Type.
  Variable sread : St -> nat -> rres * St.
  Variable Rep : St -> bytes -> tail -> Prop.
  Variable wt : St -> nat.
  Variable lead : St -> nat.
  Hypothesis Hok : reader_ok St sread Rep wt lead.
  Variable fuel : nat.

  Definition dec_rd : decrd * St -> nat -> rres * (decrd * St) :=
    total (dec_read St sread cp D fuel).
  Definition dec_rep_f (st : decrd * St) (out : bytes) (T : tail) : Prop :=
    dec_rep cp D St Rep st out T /\ dec_M St wt st < fuel.

  Lemma dec_rep_tail_idem st out T : dec_rep cp D St Rep st out T -> tail_next T = T.
  Proof.
    destruct st as [d x]. intros (_&_&H). destruct (d_complete d); [tauto|].
    destruct (d_err d); [tauto|]. destruct H as (rest&t&->&_). apply latch_next.
  Qed.

  (* The decoding reader over a well-behaved reader is a well-behaved reader of the decoded
     bytes; it never returns an empty read. *)
  Theorem dec_reader_ok : reader_ok (decrd * St) dec_rd dec_rep_f (dec_wt St wt) (fun _ => 0).
  Proof.
    intros [d x] out T cap [HR Hm] Hcap. split; [lia|].
    pose proof (dec_m_le_M D HD St wt (d, x)) as HmM.
    destruct (dec_read_spec cp Hcp D HD St sread Rep wt lead Hok fuel d x out T cap HR Hcap ltac:(lia))
      as (c&oe&st'&E&Hm'&Hl&HS).
    unfold dec_rd, total. rewrite E.
    destruct oe as [e|].
    - destruct HS as (->&->&HR'&Hw). split; [reflexivity|]. split; [reflexivity|].
      split; [|split; [exact Hl|exact Hw]].
      rewrite (dec_rep_tail_idem st' [] T HR'). split; [exact HR'|lia].
    - destruct HS as (Hne&(out'&->&HR'&Hw)). exists out'. split; [reflexivity|].
      split; [split; [exact HR'|lia]|]. split; [exact Hw|]. split; [exact Hl|]. intro; contradiction.
  Qed.
End DecLayer.

(* Over chunk sources: every chunking of the same bytes, read to the end through the decoder with
   reads of any size, gives the decoded bytes and the source's first error. *)
Theorem dec_spec cp cap fuel F cs wl t :
  (forall c, 1 <= length (cp c) <= 3) -> 0 < cap -> runs_ok cs = true ->
  2 * weight cs + 4 < fuel -> 6 * weight cs < F ->
  drain_rd _ (dec_rd cp 4096 source io_read fuel) F cap (dec_init, mkSrc cs wl t)
  = Ok (a_decode cp (concat cs), tail_err t).
Proof.
  intros Hcp Hcap Hr Hfuel HF.
  rewrite <- (latch_err t).
  apply (drain_rd_spec _ _ _ _ _
           (dec_reader_ok cp Hcp 4096 ltac:(lia) source io_read src_rep src_wt src_lead source_reader_ok fuel)
           cap Hcap).
  - split.
    + unfold dec_rep. cbn [dec_init d_dst d_src d_err d_complete length]. split; [lia|]. split; [lia|].
      exists (concat cs), t. repeat split; auto.
    + unfold dec_M, src_wt. cbn. lia.
  - unfold dec_wt, src_wt. cbn. lia.
Qed.

Theorem dec_chunk_invariant cp cap fuel fuel' F F' cs cs' wl wl' t :
  (forall c, 1 <= length (cp c) <= 3) -> 0 < cap -> concat cs = concat cs' ->
  runs_ok cs = true -> runs_ok cs' = true ->
  2 * weight cs + 4 < fuel -> 2 * weight cs' + 4 < fuel' -> 6 * weight cs < F -> 6 * weight cs' < F' ->
  drain_rd _ (dec_rd cp 4096 source io_read fuel) F cap (dec_init, mkSrc cs wl t) =
  drain_rd _ (dec_rd cp 4096 source io_read fuel') F' cap (dec_init, mkSrc cs' wl' t).
Proof. intros. rewrite !dec_spec by assumption. congruence. Qed.
