(* C02 proofs: bytes_ltb is a strict total order; objects (key-sorted association lists built
   with obj_set) are determined by their lookups; obj_set commutes on distinct keys; folding
   obj_set over a list of bindings with distinct keys does not depend on the order. *)
From Coq Require Import String List ZArith NArith Bool Lia Permutation.
From Coq.Strings Require Import Byte.
Import ListNotations.
From OV Require Import Base.Bytes Base.Cases Gen.Conv Model.Value Model.Decl.

Lemma to_N_inj a b : Byte.to_N a = Byte.to_N b -> a = b.
Proof.
  intro H. pose proof (Byte.of_to_N a) as Ha. pose proof (Byte.of_to_N b) as Hb.
  rewrite H in Ha. rewrite Ha in Hb. injection Hb. auto.
Qed.

Lemma bytes_eqb_refl a : bytes_eqb a a = true.
Proof. apply bytes_eqb_eq. reflexivity. Qed.

Lemma bytes_eqb_neq a b : bytes_eqb a b = false <-> a <> b.
Proof.
  split.
  - intros H E. subst. rewrite bytes_eqb_refl in H. discriminate.
  - intro H. destruct (bytes_eqb a b) eqn:E; [|reflexivity]. apply bytes_eqb_eq in E. contradiction.
Qed.

Lemma bytes_ltb_irrefl a : bytes_ltb a a = false.
Proof. induction a as [|x a IH]; simpl; [reflexivity|]. rewrite N.ltb_irrefl. exact IH. Qed.

Lemma bytes_ltb_trans : forall a b c, bytes_ltb a b = true -> bytes_ltb b c = true -> bytes_ltb a c = true.
Proof.
  induction a as [|x a IH]; intros [|y b] [|z c]; simpl; try discriminate; try reflexivity.
  destruct (N.ltb (Byte.to_N x) (Byte.to_N y)) eqn:XY.
  - intros _. destruct (N.ltb (Byte.to_N y) (Byte.to_N z)) eqn:YZ.
    + intros _. apply N.ltb_lt in XY, YZ. assert (H : N.ltb (Byte.to_N x) (Byte.to_N z) = true) by (apply N.ltb_lt; lia).
      rewrite H. reflexivity.
    + destruct (N.ltb (Byte.to_N z) (Byte.to_N y)) eqn:ZY; [discriminate|].
      apply N.ltb_ge in YZ, ZY. assert (Byte.to_N y = Byte.to_N z) by lia.
      intros _. replace (Byte.to_N z) with (Byte.to_N y) by assumption. rewrite XY. reflexivity.
  - destruct (N.ltb (Byte.to_N y) (Byte.to_N x)) eqn:YX; [discriminate|].
    apply N.ltb_ge in XY, YX. assert (E : Byte.to_N x = Byte.to_N y) by lia. rewrite E.
    intro Hab. destruct (N.ltb (Byte.to_N y) (Byte.to_N z)); [reflexivity|].
    destruct (N.ltb (Byte.to_N z) (Byte.to_N y)); [discriminate|]. apply IH. exact Hab.
Qed.

Lemma bytes_ltb_trich : forall a b, bytes_ltb a b = true \/ a = b \/ bytes_ltb b a = true.
Proof.
  induction a as [|x a IH]; intros [|y b]; simpl; auto.
  destruct (N.ltb (Byte.to_N x) (Byte.to_N y)) eqn:XY; [auto|].
  destruct (N.ltb (Byte.to_N y) (Byte.to_N x)) eqn:YX; [auto|].
  apply N.ltb_ge in XY, YX. assert (E : x = y) by (apply to_N_inj; lia). subst y.
  destruct (IH b) as [H|[H|H]]; [left; exact H|right; left; congruence|right; right; exact H].
Qed.

Lemma bytes_ltb_asym a b : bytes_ltb a b = true -> bytes_ltb b a = false.
Proof.
  intro H. destruct (bytes_ltb b a) eqn:E; [|reflexivity].
  pose proof (bytes_ltb_trans _ _ _ H E) as T. rewrite bytes_ltb_irrefl in T. discriminate.
Qed.

Lemma bytes_ltb_neq a b : bytes_ltb a b = true -> a <> b.
Proof. intros H E. subst. rewrite bytes_ltb_irrefl in H. discriminate. Qed.

(* ---- key-sorted objects ---------------------------------------------------------------------------- *)
Section Obj.
  Context {A : Type}.
  Notation obj := (list (bytes * A)).

  (* every key of o is above k *)
  Definition above (k : bytes) (o : obj) : Prop := Forall (fun kv => bytes_ltb k (fst kv) = true) o.

  Fixpoint osorted (o : obj) : Prop :=
    match o with
    | [] => True
    | (k, _) :: r => above k r /\ osorted r
    end.

  Lemma above_lookup k o : above k o -> lookup k o = None.
  Proof.
    induction 1 as [|[k' v] r Hk _ IH]; simpl; [reflexivity|].
    simpl in Hk. assert (bytes_eqb k k' = false) by (apply bytes_eqb_neq, bytes_ltb_neq; exact Hk).
    rewrite H. exact IH.
  Qed.

  Lemma above_trans k k' o : bytes_ltb k k' = true -> above k' o -> above k o.
  Proof.
    intros H Ha. eapply Forall_impl; [|exact Ha]. intros kv Hkv. eapply bytes_ltb_trans; eauto.
  Qed.

  (* two sorted objects with the same lookups are the same list *)
  Lemma osorted_ext : forall a b : obj, osorted a -> osorted b ->
    (forall k, lookup k a = lookup k b) -> a = b.
  Proof.
    induction a as [|[k1 v1] a IH]; intros [|[k2 v2] b] Sa Sb H.
    - reflexivity.
    - specialize (H k2). simpl in H. rewrite bytes_eqb_refl in H. discriminate.
    - specialize (H k1). simpl in H. rewrite bytes_eqb_refl in H. discriminate.
    - destruct Sa as [Aa Sa], Sb as [Ab Sb].
      assert (E : k1 = k2).
      { destruct (bytes_ltb_trich k1 k2) as [L|[E|L]]; [|exact E|].
        - specialize (H k1). simpl in H. rewrite bytes_eqb_refl in H.
          assert (bytes_eqb k1 k2 = false) by (apply bytes_eqb_neq, bytes_ltb_neq; exact L).
          rewrite H0 in H. rewrite (above_lookup k1 b (above_trans _ _ _ L Ab)) in H. discriminate.
        - specialize (H k2). simpl in H. rewrite bytes_eqb_refl in H.
          assert (bytes_eqb k2 k1 = false) by (apply bytes_eqb_neq, bytes_ltb_neq; exact L).
          rewrite H0 in H. rewrite (above_lookup k2 a (above_trans _ _ _ L Aa)) in H. discriminate. }
      subst k2. pose proof (H k1) as H1. simpl in H1. rewrite bytes_eqb_refl in H1. injection H1 as ->.
      f_equal. apply IH; [exact Sa|exact Sb|].
      intro k. destruct (bytes_eqb k k1) eqn:E.
      + apply bytes_eqb_eq in E. subst k. rewrite (above_lookup _ _ Aa), (above_lookup _ _ Ab). reflexivity.
      + specialize (H k). simpl in H. rewrite E in H. exact H.
  Qed.
End Obj.

Lemma lookup_obj_set : forall (o : list (bytes * value)) k v k0,
  lookup k0 (obj_set k v o) = if bytes_eqb k0 k then Some v else lookup k0 o.
Proof.
  induction o as [|[k' v'] r IH]; intros k v k0; simpl.
  - destruct (bytes_eqb k0 k); reflexivity.
  - destruct (bytes_eqb k k') eqn:E.
    + apply bytes_eqb_eq in E. subst k'. simpl. destruct (bytes_eqb k0 k); reflexivity.
    + destruct (bytes_ltb k k').
      * simpl. destruct (bytes_eqb k0 k); reflexivity.
      * simpl. rewrite IH. destruct (bytes_eqb k0 k') eqn:E0; [|reflexivity].
        apply bytes_eqb_eq in E0. subst k0. rewrite bytes_eqb_neq in E.
        assert (bytes_eqb k' k = false) by (apply bytes_eqb_neq; congruence). rewrite H. reflexivity.
Qed.

Lemma above_obj_set k0 k v (o : list (bytes * value)) :
  bytes_ltb k0 k = true -> above k0 o -> above k0 (obj_set k v o).
Proof.
  intros Hk. induction 1 as [|[k' v'] r Hk' Hr IH]; simpl.
  - repeat constructor. exact Hk.
  - destruct (bytes_eqb k k'); [constructor; [exact Hk|exact Hr]|].
    destruct (bytes_ltb k k'); [constructor; [exact Hk|constructor; assumption]|].
    constructor; [exact Hk'|exact IH].
Qed.

Lemma obj_set_sorted : forall (o : list (bytes * value)) k v, osorted o -> osorted (obj_set k v o).
Proof.
  induction o as [|[k' v'] r IH]; intros k v S; simpl.
  - split; [constructor|exact I].
  - destruct S as [Ha S]. destruct (bytes_eqb k k') eqn:E.
    + apply bytes_eqb_eq in E. subst k'. split; assumption.
    + destruct (bytes_ltb k k') eqn:L.
      * split; [|split; assumption]. constructor; [exact L|]. eapply above_trans; eauto.
      * split; [|apply IH; exact S]. apply above_obj_set; [|exact Ha].
        destruct (bytes_ltb_trich k k') as [T|[T|T]]; [congruence| |exact T].
        subst. rewrite bytes_eqb_refl in E. discriminate.
Qed.

Lemma obj_set_comm (o : list (bytes * value)) k1 v1 k2 v2 :
  k1 <> k2 -> osorted o ->
  obj_set k1 v1 (obj_set k2 v2 o) = obj_set k2 v2 (obj_set k1 v1 o).
Proof.
  intros Hne S. apply osorted_ext; try (repeat apply obj_set_sorted; exact S).
  intro k. rewrite !lookup_obj_set.
  destruct (bytes_eqb k k1) eqn:E1, (bytes_eqb k k2) eqn:E2; try reflexivity.
  apply bytes_eqb_eq in E1, E2. congruence.
Qed.

(* ---- folding bindings -------------------------------------------------------------------------------- *)
Definition set_all (cl : list (bytes * value)) (o : list (bytes * value)) : list (bytes * value) :=
  fold_left (fun o kv => obj_set (fst kv) (snd kv) o) cl o.

Lemma set_all_sorted : forall cl o, osorted o -> osorted (set_all cl o).
Proof. induction cl as [|[k v] r IH]; intros o S; simpl; [exact S|]. apply IH, obj_set_sorted, S. Qed.

Lemma lookup_set_all : forall cl o k, NoDup (map fst cl) ->
  lookup k (set_all cl o) = match lookup k cl with Some v => Some v | None => lookup k o end.
Proof.
  induction cl as [|[k' v'] r IH]; intros o k N; simpl; [reflexivity|].
  inversion N as [|? ? Hn Nr]; subst. unfold set_all in *. simpl. rewrite IH by exact Nr.
  rewrite lookup_obj_set. destruct (bytes_eqb k k') eqn:E; [|reflexivity].
  apply bytes_eqb_eq in E. subst k'.
  destruct (lookup k r) eqn:L; [|reflexivity].
  exfalso. apply Hn. clear - L. induction r as [|[a b] r IHr]; simpl in *; [discriminate|].
  destruct (bytes_eqb k a) eqn:E; [left; symmetry; apply bytes_eqb_eq; exact E|right; apply IHr; exact L].
Qed.

Lemma lookup_In : forall (cl : list (bytes * value)) k v, NoDup (map fst cl) ->
  (lookup k cl = Some v <-> In (k, v) cl).
Proof.
  induction cl as [|[a b] r IH]; intros k v N; simpl; [split; [discriminate|contradiction]|].
  inversion N as [|? ? Hn Nr]; subst. destruct (bytes_eqb k a) eqn:E.
  - apply bytes_eqb_eq in E. subst a. split.
    + intro H. injection H as ->. left. reflexivity.
    + intros [H|H]; [injection H as ->; reflexivity|]. exfalso. apply Hn. apply (in_map fst) in H. exact H.
  - rewrite (IH k v Nr). split; [intro H; right; exact H|].
    intros [H|H]; [|exact H]. injection H as -> ->. rewrite bytes_eqb_refl in E. discriminate.
Qed.

Lemma lookup_perm (cl cl' : list (bytes * value)) k :
  NoDup (map fst cl) -> Permutation cl cl' -> lookup k cl = lookup k cl'.
Proof.
  intros N P. assert (N' : NoDup (map fst cl')) by (eapply Permutation_NoDup; [apply Permutation_map; exact P|exact N]).
  destruct (lookup k cl) as [v|] eqn:L.
  - symmetry. apply lookup_In; [exact N'|]. eapply Permutation_in; [exact P|]. apply lookup_In; assumption.
  - destruct (lookup k cl') as [v|] eqn:L'; [|reflexivity].
    apply lookup_In in L'; [|exact N']. apply (Permutation_in _ (Permutation_sym P)) in L'.
    apply lookup_In in L'; [|exact N]. congruence.
Qed.

(* the order in which bindings with distinct keys are put into an object does not matter *)
Theorem set_all_perm cl cl' o :
  NoDup (map fst cl) -> osorted o -> Permutation cl cl' -> set_all cl o = set_all cl' o.
Proof.
  intros N S P. assert (N' : NoDup (map fst cl')) by (eapply Permutation_NoDup; [apply Permutation_map; exact P|exact N]).
  apply osorted_ext; try (apply set_all_sorted; exact S).
  intro k. rewrite !lookup_set_all by assumption. rewrite (lookup_perm cl cl' k N P). reflexivity.
Qed.
