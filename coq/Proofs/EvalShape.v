(* C02 proofs: the hand-written model agrees with the shapes extracted from the Go source
   (Gen/EvalShape.v).  Every lemma here stops checking when the corresponding statement list /
   expression of transform/{value,parse,validate,invokeCustomFunc}.go changes. *)
From Coq Require Import String List ZArith NArith Bool Lia.
From Coq.Strings Require Import Byte.
Import ListNotations.
From OV Require Import Base.Bytes Base.Cases Base.Tree Gen.Conv Gen.EvalShape Model.Value Model.XPathFrag Model.Decl Model.Eval.
From OV Require Import Proofs.ValueOrder.

(* The same two functions read off the statement lists extracted from value.go (Gen/EvalShape.v:
   normalize_steps, check_to_save_steps); the lemmas below show they coincide with the closed
   forms of Model/Value.v, so a reordered / dropped / added statement in the source breaks that proof. *)
Fixpoint run_cts (steps : list cts_step) (keep : bool) (v : value) : nres :=
  match steps with
  | [] => NDrop
  | CsSaveIfNonNilNonEmpty :: r => if (negb (is_nil v) && negb (is_empty v))%bool then NSave v else run_cts r keep v
  | CsDropUnlessKeep :: r => if negb keep then NDrop else run_cts r keep v
  | CsSave :: _ => NSave v
  end.

Fixpoint run_norm (steps : list norm_step) (notrim keep : bool) (rt : option rtype) (v : value) : nres :=
  match steps with
  | [] => NErr
  | NsTrimIfStringAndNotNoTrim :: r =>
      run_norm r notrim keep rt
               (match v with VStr s => if notrim then v else VStr (trim_space s) | _ => v end)
  | NsPassThroughIfNilOrNoType :: r =>
      if (is_nil v || match rt with None => true | Some _ => false end)%bool
      then run_cts check_to_save_steps keep v
      else run_norm r notrim keep rt v
  | NsConvert :: NsFailOnConvertError :: r =>
      match rt with
      | Some t => match convert v t with Some c => run_norm r notrim keep rt c | None => NErr end
      | None => NErr
      end
  | NsConvert :: _ => NErr
  | NsFailOnConvertError :: _ => NErr
  | NsCheckToSaveConverted :: _ => run_cts check_to_save_steps keep v
  end.

Definition normalize_src (notrim keep : bool) (rt : option rtype) (v : value) : nres :=
  run_norm normalize_steps notrim keep rt v.


(* xpathQueryNeeded as the conjunction of the extracted conjuncts *)
Definition needed_atom_holds (i : vinfo) (x : bool) (a : needed_atom) : bool :=
  match a with
  | NaNotFinalOutput => negb (fqdn_is_final (v_fqdn i))
  | NaXPathSet => is_some (p_xpath (v_pub i)) || x
  | NaParentNotArray => negb (parent_is_array i)
  end.
Lemma needed_src i x : needed i x = forallb (needed_atom_holds i x) needed_atoms.
Proof. unfold needed. cbn. rewrite andb_true_r, andb_assoc. reflexivity. Qed.

(* checkToSave / normalizeAndSaveValue, statement by statement, are the closed forms the
   theorems are proved about *)
Lemma check_to_save_src keep v : run_cts check_to_save_steps keep v = check_to_save keep v.
Proof. unfold check_to_save. cbn. destruct (negb (is_nil v) && negb (is_empty v))%bool; [reflexivity|]. destruct keep; reflexivity. Qed.

Lemma normalize_src_eq nt keep rt v : normalize_src nt keep rt v = normalize nt keep rt v.
Proof.
  unfold normalize_src, normalize. cbn [normalize_steps run_norm].
  set (v1 := match v with VStr s => if nt then v else VStr (trim_space s) | _ => v end).
  destruct rt as [t|].
  - destruct v1 eqn:E; cbn [is_nil orb]; try rewrite check_to_save_src; try reflexivity;
      (destruct (convert _ t); [rewrite check_to_save_src; reflexivity|reflexivity]).
  - rewrite orb_true_r. rewrite check_to_save_src. destruct v1; reflexivity.
Qed.

(* isEmpty looks at exactly the kinds the model's is_empty can see *)
Lemma empty_kinds_cover : incl [EkString; EkSlice; EkMap] empty_kinds.
Proof. intros k [<-|[<-|[<-|[]]]]; cbn; auto 10. Qed.

(* validateObject sorts the children by their FULL fqdn, ascending; array elements and arguments
   are not sorted.  For siblings the full fqdn order is the order of the last (escaped) namelet,
   which is what Model.Decl.sort_kids compares. *)
Lemma bytes_ltb_prefix : forall p a b, bytes_ltb (p ++ a) (p ++ b) = bytes_ltb a b.
Proof. induction p as [|x p IH]; intros a b; cbn [app bytes_ltb]; [reflexivity|]. rewrite N.ltb_irrefl. apply IH. Qed.

Lemma sibling_fqdn_order parent a b :
  bytes_ltb (build_fqdn parent a) (build_fqdn parent b) = bytes_ltb a b.
Proof.
  unfold build_fqdn. rewrite bytes_ltb_prefix. cbn [bytes_ltb]. rewrite N.ltb_irrefl. reflexivity.
Qed.

(* the remaining pinned shapes *)
Lemma source_shape :
  needed_atoms = [NaNotFinalOutput; NaXPathSet; NaParentNotArray] /\
  cache_key_parts = [KpNodeID; KpDeclHash; KpXPathQueryNeeded] /\
  validate_steps = [VsNilCheck; VsValidateXPath; VsSetFqdn; VsResolveKind; VsKindSwitch; VsComputeHash; VsReturn] /\
  object_children_sort = SkFqdnAscending /\ array_children_sort = SkNone /\ func_args_sort = SkNone /\
  arg_nil_is_zero = true /\ arg_type_check = AcAssignableOrError /\
  normalize_return_pinned = true.
Proof. repeat split. Qed.
