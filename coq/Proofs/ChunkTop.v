(* C09 / C16 proofs, part 5: the theorems about concrete chunk sources. *)
From Coq Require Import List NArith Bool Arith Lia.
From Coq.Strings Require Import Byte.
Import ListNotations.
From OV Require Import Base.Bytes Base.Cases Base.Utf8 Model.Chunk Proofs.Chunk Proofs.ChunkLines Proofs.ChunkBom.

Lemma src_rep_mk cs wl t : runs_ok cs = true -> src_rep (mkSrc cs wl t) (concat cs) t.
Proof. intro H. repeat split; assumption. Qed.

(* The line reader (bufio.Reader of any size >= 4 + ios.ByteReadLine until the first error) over
   any chunking of the same bytes computes a_read_lines of those bytes. *)
Theorem lines_spec N gas fuel cs wl t res :
  4 <= N -> runs_ok cs = true -> weight cs + 1 < gas ->
  a_read_lines N fuel (concat cs, t) = Ok res ->
  read_lines source io_read N gas fuel b_init (mkSrc cs wl t) = Ok res.
Proof.
  intros HN Hr Hg Ha.
  eapply (read_lines_spec source io_read src_rep src_wt src_lead source_reader_ok N HN);
    [apply BR_init; [exact HN|apply src_rep_mk; exact Hr]|exact Ha|exact Hg].
Qed.

Theorem lines_chunk_invariant N gas gas' fuel cs cs' wl wl' t res :
  4 <= N -> concat cs = concat cs' ->
  runs_ok cs = true -> runs_ok cs' = true ->
  weight cs + 1 < gas -> weight cs' + 1 < gas' ->
  a_read_lines N fuel (concat cs, t) = Ok res ->          (* guard no_tail_hazard + enough fuel *)
  read_lines source io_read N gas fuel b_init (mkSrc cs wl t) = Ok res /\
  read_lines source io_read N gas' fuel b_init (mkSrc cs' wl' t) = Ok res.
Proof.
  intros HN Hc Hr Hr' Hg Hg' Ha. split.
  - apply lines_spec; assumption.
  - apply lines_spec; try assumption. rewrite <- Hc. exact Ha.
Qed.

(* Outside the guard the statement is false (known finding F22): a 4-byte buffer, the 4 bytes
   "abcd" and io.EOF -- delivered with the bytes, the line comes out; delivered afterwards, it is
   dropped. *)
Definition f22_data : bytes := [x61; x62; x63; x64].
Theorem lines_chunk_refuted :
  exists N cs cs' wl wl' gas fuel,
    concat cs = concat cs' /\ runs_ok cs = true /\ runs_ok cs' = true /\
    read_lines source io_read N gas fuel b_init (mkSrc cs wl TEof) <>
    read_lines source io_read N gas fuel b_init (mkSrc cs' wl' TEof).
Proof.
  exists 4, [f22_data], [f22_data], true, false, 20, 20.
  repeat split; try reflexivity. vm_compute. discriminate.
Qed.

(* StripBOM followed by the line reader: the stack of the two fixed-length formats. *)
Definition bom_lines (N gas fuel : nat) (s : source) : outcome (ioerr + (list bytes * ioerr)) :=
  match strip_bom source io_read N s with
  | Ok (inl e, _) => Ok (inl e)
  | Ok (inr b, s') => match read_lines source io_read N gas fuel b s' with
                      | Ok r => Ok (inr r)
                      | Panic p => Panic p
                      | OutOfFuel => OutOfFuel
                      end
  | Panic p => Panic p
  | OutOfFuel => OutOfFuel
  end.

Definition a_bom_lines (N fuel : nat) (a : astream) : outcome (ioerr + (list bytes * ioerr)) :=
  match a_strip_bom a with
  | inl e => Ok (inl e)
  | inr a' => match a_read_lines N fuel a' with
              | Ok r => Ok (inr r)
              | Panic p => Panic p
              | OutOfFuel => OutOfFuel
              end
  end.

Theorem bom_lines_spec N gas fuel cs wl t res :
  4 <= N -> runs_ok cs = true -> weight cs + 1 < gas ->
  a_bom_lines N fuel (concat cs, t) = Ok res ->
  bom_lines N gas fuel (mkSrc cs wl t) = Ok res.
Proof.
  intros HN Hr Hg Ha. unfold bom_lines, a_bom_lines in *.
  pose proof (strip_bom_spec source io_read src_rep src_wt src_lead source_reader_ok N HN
                (mkSrc cs wl t) (concat cs) t (src_rep_mk cs wl t Hr)) as H.
  set (X := a_strip_bom (concat cs, t)) in Ha.
  change (a_strip_bom (concat cs, t)) with X in H. clearbody X.
  destruct X as [e|a'].
  - destruct H as (x'&->). exact Ha.
  - destruct H as (b&x'&->&HBR&Hw).
    destruct (a_read_lines N fuel a') as [r| |] eqn:E; try discriminate.
    rewrite (read_lines_spec source io_read src_rep src_wt src_lead source_reader_ok N HN gas fuel
               b x' a' r HBR E); [exact Ha|]. unfold src_wt in *. simpl in Hw. lia.
Qed.

Theorem stack_lines_chunk_invariant N gas gas' fuel cs cs' wl wl' t res :
  4 <= N -> concat cs = concat cs' ->
  runs_ok cs = true -> runs_ok cs' = true ->
  weight cs + 1 < gas -> weight cs' + 1 < gas' ->
  a_bom_lines N fuel (concat cs, t) = Ok res ->
  bom_lines N gas fuel (mkSrc cs wl t) = Ok res /\
  bom_lines N gas' fuel (mkSrc cs' wl' t) = Ok res.
Proof.
  intros HN Hc Hr Hr' Hg Hg' Ha. split.
  - apply bom_lines_spec; assumption.
  - apply bom_lines_spec; try assumption. rewrite <- Hc. exact Ha.
Qed.

(* StripBOM alone: whether NewTransform fails, and with which error, depends on the bytes and the
   tail only. *)
Theorem stripbom_probe_chunk_invariant N cs cs' wl wl' t :
  4 <= N -> concat cs = concat cs' -> runs_ok cs = true -> runs_ok cs' = true ->
  forall e, (exists s1, strip_bom source io_read N (mkSrc cs wl t) = Ok (inl e, s1)) <->
            (exists s2, strip_bom source io_read N (mkSrc cs' wl' t) = Ok (inl e, s2)).
Proof.
  intros HN Hc Hr Hr' e.
  pose proof (strip_bom_spec source io_read src_rep src_wt src_lead source_reader_ok N HN
                (mkSrc cs wl t) (concat cs) t (src_rep_mk cs wl t Hr)) as H1.
  pose proof (strip_bom_spec source io_read src_rep src_wt src_lead source_reader_ok N HN
                (mkSrc cs' wl' t) (concat cs') t (src_rep_mk cs' wl' t Hr')) as H2.
  rewrite <- Hc in H2.
  pose (X := a_strip_bom (concat cs, t)).
  change (a_strip_bom (concat cs, t)) with X in H1, H2. clearbody X.
  destruct X as [e0|a'].
  - destruct H1 as (x1&E1), H2 as (x2&E2). rewrite E1, E2.
    split; intros (s&Hs); inversion Hs; subst; eauto.
  - destruct H1 as (b1&x1&E1&_), H2 as (b2&x2&E2&_). rewrite E1, E2.
    split; intros (s&Hs); discriminate Hs.
Qed.

(* Known finding F30: a line counter over what has been read ahead is not chunk-invariant: after
   the consumer's first refill (512 bytes asked, as encoding/json does) AtLine differs between two
   chunkings of the same bytes. *)
Theorem line_count_readahead_refuted :
  exists cs cs' wl t, concat cs = concat cs' /\ runs_ok cs = true /\ runs_ok cs' = true /\
    fst (snd (lcr_read (1, mkSrc cs wl t) 512)) <> fst (snd (lcr_read (1, mkSrc cs' wl t) 512)).
Proof.
  exists [[x5b; x0a; x31; x0a; x5d; x0a]], [[x5b]; [x0a; x31; x0a; x5d; x0a]], false, TEof.
  repeat split; try reflexivity. vm_compute. discriminate.
Qed.
