(* C02 proofs: the value of an object does not depend on the order in which its member
   declarations are evaluated (the iteration order of the Go map the schema was unmarshalled
   into). *)
From Coq Require Import String List ZArith NArith Bool Lia Permutation.
From Coq.Strings Require Import Byte.
Import ListNotations.
From OV Require Import Base.Bytes Base.Cases Base.Tree Gen.Conv Model.Value Model.XPathFrag Model.Decl Model.Eval.
From OV Require Import Proofs.ValueOrder Proofs.EvalPure Proofs.EvalCache.

(* same value; a failing evaluation stays failing (which of the failing members is met first
   may differ) *)
Definition same_outcome (r r' : res) : Prop :=
  match r, r' with
  | Ok v, Ok v' => v = v'
  | Ok _, _ | _, Ok _ => False
  | _, _ => True
  end.

Lemma same_outcome_refl r : same_outcome r r.
Proof. destruct r; simpl; auto. Qed.

Section Order.
  Variable root : tree.
  Variable query : bytes -> path -> option (list path).
  Variable ext : bytes -> option bytes.
  Variable fsigs : bytes -> option fsig.
  Variable fcall : bytes -> path -> list value -> cfres.
  Variable pcall : bytes -> path -> cfres.
  Notation peval := (peval root query ext fsigs fcall pcall).
  Notation pcompile := (pcompile root query ext fsigs fcall pcall).

  Definition is_ok (r : res) : bool := match r with Ok _ => true | _ => false end.

  (* what one member contributes at node n *)
  Definition member_ok (n : path) (kc : bytes * pcomp) : bool := is_ok (pc_ev (snd kc) n).
  Definition member_binding (n : path) (kc : bytes * pcomp) : list (bytes * value) :=
    match pc_ev (snd kc) n with
    | Ok v => match norm_of (pc_info (snd kc)) v with NSave v' => [(fst kc, v')] | _ => [] end
    | _ => []
    end.

  Lemma object_loop_char : forall cs n obj,
    if forallb (member_ok n) cs
    then p_object_loop cs n obj = Ok (VObj (set_all (flat_map (member_binding n) cs) obj))
    else is_ok (p_object_loop cs n obj) = false.
  Proof.
    induction cs as [|[key c] r IH]; intros n obj; simpl; [reflexivity|].
    unfold member_ok at 1, member_binding at 1. simpl.
    destruct (pc_ev c n) as [v| |]; simpl; try reflexivity.
    destruct (norm_of (pc_info c) v); simpl; apply IH.
  Qed.

  Lemma forallb_perm {A} (f : A -> bool) l l' : Permutation l l' -> forallb f l = forallb f l'.
  Proof.
    intro P. destruct (forallb f l) eqn:E.
    - symmetry. apply forallb_forall. intros x Hx. rewrite forallb_forall in E. apply E.
      eapply Permutation_in; [apply Permutation_sym; exact P|exact Hx].
    - destruct (forallb f l') eqn:E'; [|reflexivity].
      rewrite forallb_forall in E'. assert (forallb f l = true); [|congruence].
      apply forallb_forall. intros x Hx. apply E'. eapply Permutation_in; eauto.
  Qed.

  Lemma bindings_nodup n : forall cs, NoDup (map fst cs) -> NoDup (map fst (flat_map (member_binding n) cs)).
  Proof.
    induction cs as [|[key c] r IH]; intro N; simpl; [constructor|].
    inversion N as [|? ? Hn Nr]; subst. rewrite map_app. unfold member_binding at 1. simpl.
    assert (Hin : forall k, In k (map fst (flat_map (member_binding n) r)) -> In k (map fst r)).
    { clear. induction r as [|[k' c'] r IHr]; simpl; [auto|]. intros k H. rewrite map_app in H.
      apply in_app_or in H as [H|H]; [|right; apply IHr; exact H].
      unfold member_binding in H. simpl in H. destruct (pc_ev c' n); simpl in H; try contradiction.
      destruct (norm_of _ _); simpl in H; try contradiction. destruct H as [H|[]]. left. exact H. }
    destruct (pc_ev c n); simpl; try (apply IH; exact Nr).
    destruct (norm_of _ _); simpl; try (apply IH; exact Nr).
    constructor; [|apply IH; exact Nr]. intro H. apply Hn. apply Hin. exact H.
  Qed.

  Lemma object_loop_perm cs cs' n :
    NoDup (map fst cs) -> Permutation cs cs' ->
    same_outcome (p_object_loop cs n []) (p_object_loop cs' n []).
  Proof.
    intros N P. pose proof (object_loop_char cs n []) as H. pose proof (object_loop_char cs' n []) as H'.
    rewrite <- (forallb_perm (member_ok n) cs cs' P) in H'.
    destruct (forallb (member_ok n) cs).
    - rewrite H, H'. simpl. f_equal. apply set_all_perm.
      + apply bindings_nodup. exact N.
      + exact I.
      + apply Permutation_flat_map. exact P.
    - destruct (p_object_loop cs n []), (p_object_loop cs' n []); simpl in *; try discriminate; exact I.
  Qed.

  Lemma then_norm_outcome e r r' : same_outcome r r' -> same_outcome (p_then_norm e r) (p_then_norm e r').
  Proof.
    destruct r, r'; simpl; intro H; try contradiction; try exact I. subst. apply same_outcome_refl.
  Qed.

  (* The value of an object is invariant under any permutation of its member declarations
     (distinct field names). *)
  Theorem object_order_independent : forall i x ks ks' p,
    p_kind (v_pub i) = KObject ->
    NoDup (map (fun c => obj_key (v_fqdn (vd_info c))) ks) ->
    Permutation ks ks' ->
    same_outcome (eval_nocache root query ext fsigs fcall pcall (VD i x ks) p)
                 (eval_nocache root query ext fsigs fcall pcall (VD i x ks') p).
  Proof.
    intros i x ks ks' p K N P. rewrite !nocache_peval. unfold EvalPure.peval.
    cbn [EvalPure.pcompile pc_ev]. unfold p_dispatch. cbn [einfo_of e_pub]. rewrite K. cbn [kid_key].
    unfold p_anchored. destruct (p_query_single _ _ _ _); try apply same_outcome_refl.
    apply then_norm_outcome. apply object_loop_perm.
    - rewrite map_map. exact N.
    - apply Permutation_map. exact P.
  Qed.
End Order.
