(* C02 proofs, layer 2: validation terminates within fuel = #declarations + 1. *)
From Coq Require Import String List ZArith NArith Bool Lia.
From Coq.Strings Require Import Byte.
Import ListNotations.
From OV Require Import Base.Bytes Base.Cases Gen.Conv Model.Value Model.Decl.
From OV Require Import Proofs.EvalPure.

(* ---- induction principle for raw declarations -------------------------------------------------- *)
Section decl_ind2.
  Variable P : decl -> Prop.
  Hypothesis H : forall c e x xd fn args ig pa tm ob ar ty nt kp,
    optP P xd -> Forall P args ->
    optP (Forall (fun kc : bytes * decl => P (snd kc))) ob ->
    optP (Forall P) ar ->
    P (Decl c e x xd fn args ig pa tm ob ar ty nt kp).
  Fixpoint decl_ind2 (d : decl) : P d :=
    match d as d0 return P d0 with
    | Decl c e x xd fn args ig pa tm ob ar ty nt kp =>
        H c e x xd fn args ig pa tm ob ar ty nt kp
          (match xd as o return optP P o with Some q => decl_ind2 q | None => I end)
          ((fix go (l : list decl) : Forall P l :=
              match l with [] => Forall_nil P | a :: r => Forall_cons a (decl_ind2 a) (go r) end) args)
          (match ob as o return optP (Forall (fun kc : bytes * decl => P (snd kc))) o with
           | Some l => (fix go (l : list (bytes * decl)) : Forall (fun kc => P (snd kc)) l :=
                          match l with
                          | [] => Forall_nil _
                          | a :: r => Forall_cons a (decl_ind2 (snd a)) (go r)
                          end) l
           | None => I
           end)
          (match ar as o return optP (Forall P) o with
           | Some l => (fix go (l : list decl) : Forall P l :=
                          match l with [] => Forall_nil P | a :: r => Forall_cons a (decl_ind2 a) (go r) end) l
           | None => I
           end)
    end.
End decl_ind2.

Lemma has_dup_NoDup l : has_dup l = false -> NoDup l.
Proof.
  induction l as [|x r IH]; simpl; [constructor|].
  intro H. apply orb_false_elim in H as [H1 H2]. constructor; [|apply IH; exact H2].
  intro Hin. assert (existsb (bytes_eqb x) r = true); [|congruence].
  apply existsb_exists. exists x. split; [exact Hin|apply bytes_eqb_eq; reflexivity].
Qed.

Lemma lookup_in {A} k (l : list (bytes * A)) v : lookup k l = Some v -> In k (map fst l).
Proof.
  induction l as [|[k' v'] r IH]; simpl; [discriminate|].
  destruct (bytes_eqb k k') eqn:E; [|intro H; right; apply IH; exact H].
  intros _. left. symmetry. apply bytes_eqb_eq. exact E.
Qed.

Lemma vmapi_nofuel {A} (f : nat -> A -> vres vdecl) : forall l i,
  (forall j a, In a l -> f j a <> VFuel) -> vmapi f i l <> VFuel.
Proof.
  induction l as [|a r IH]; intros i Hf; simpl; [discriminate|].
  destruct (f i a) eqn:E; try discriminate.
  - assert (vmapi f (S i) r <> VFuel) by (apply IH; intros; apply Hf; right; assumption).
    destruct (vmapi f (S i) r); try discriminate. congruence.
  - exfalso. eapply Hf; [left; reflexivity|exact E].
Qed.

Section Terminates.
  Variable ds : list (bytes * decl).
  Variable fexists pexists : bytes -> bool.

  Lemma vgo_nofuel stack jump :
    (forall name body fq dn par lk, lookup name ds = Some body -> has_dup (stack ++ [name]) = false ->
       jump (stack ++ [name]) fq dn par lk <> VFuel) ->
    forall d fqdn par linked, vgo ds fexists pexists stack jump fqdn d par linked <> VFuel.
  Proof.
    intros Hj. induction d as [c e x xd fn args ig pa tm ob ar ty nt kp IHxd IHargs IHob IHar] using decl_ind2.
    intros fqdn par linked. cbn [vgo].
    destruct (is_some x && is_some xd)%bool; [discriminate|].
    assert (Hx : forall f, (match xd with
                  | Some q => match vgo ds fexists pexists stack jump (f ++ [bs "xpath_dynamic"]) q None false with
                              | VOk v => VOk (Some v) | VErr => VErr | VFuel => VFuel end
                  | None => VOk None end) <> VFuel).
    { intro f. destruct xd as [q|]; [|discriminate]. simpl in IHxd.
      specialize (IHxd (f ++ [bs "xpath_dynamic"]) None false).
      destruct (vgo ds fexists pexists stack jump (f ++ [bs "xpath_dynamic"]) q None false); try discriminate. congruence. }
    specialize (Hx fqdn).
    destruct (match xd with Some q => _ | None => _ end) as [vx| |]; try discriminate; [|congruence].
    destruct (resolve_kind _); try discriminate.
    - (* object *)
      destruct ob as [l|]; [|discriminate]. simpl in IHob.
      match goal with |- context [vmapi ?f 1 l] => assert (Hm : vmapi f 1 l <> VFuel) end.
      { apply vmapi_nofuel. intros j [k a] Hin. rewrite Forall_forall in IHob. apply (IHob (k, a) Hin). }
      match goal with |- context [vmapi ?f 1 l] => destruct (vmapi f 1 l) end; try discriminate. congruence.
    - (* array *)
      destruct ar as [l|]; [|discriminate]. simpl in IHar.
      match goal with |- context [vmapi ?f 1 l] => assert (Hm : vmapi f 1 l <> VFuel) end.
      { apply vmapi_nofuel. intros j a Hin. rewrite Forall_forall in IHar. apply (IHar a Hin). }
      match goal with |- context [vmapi ?f 1 l] => destruct (vmapi f 1 l) end; try discriminate. congruence.
    - (* custom_func *)
      destruct fn as [name|]; [|discriminate]. destruct (negb (fexists name)); [discriminate|].
      match goal with |- context [vmapi ?f 1 args] => assert (Hm : vmapi f 1 args <> VFuel) end.
      { apply vmapi_nofuel. intros j a Hin. rewrite Forall_forall in IHargs. apply (IHargs a Hin). }
      match goal with |- context [vmapi ?f 1 args] => destruct (vmapi f 1 args) end; try discriminate. congruence.
    - (* custom_parse *)
      destruct pa as [name|]; [|discriminate]. destruct (pexists name); discriminate.
    - (* template *)
      destruct tm as [name|]; [|discriminate].
      destruct (lookup name ds) as [body|] eqn:L; [|discriminate].
      destruct (has_dup (stack ++ [name])) eqn:HD; [discriminate|].
      destruct (d_isx body && _)%bool; [discriminate|].
      eapply Hj; eauto.
  Qed.

  Lemma validate_decl_nofuel : forall fuel stack,
    has_dup stack = false -> incl stack (map fst ds) ->
    length ds + 2 <= fuel + length stack ->
    forall fqdn d par linked, validate_decl ds fexists pexists fuel stack fqdn d par linked <> VFuel.
  Proof.
    induction fuel as [|f IH]; intros stack Hd Hi Hl fqdn d par linked.
    - exfalso. pose proof (NoDup_incl_length (has_dup_NoDup _ Hd) Hi) as Hlen.
      rewrite map_length in Hlen. simpl in Hl. lia.
    - cbn [validate_decl]. apply vgo_nofuel.
      intros name body fq dn par' lk L HD. apply IH.
      + exact HD.
      + intros y Hy. apply in_app_or in Hy as [Hy|[<-|[]]]; [apply Hi; exact Hy|].
        eapply lookup_in; eauto.
      + rewrite app_length. simpl. lia.
  Qed.

  (* validation never runs out of fuel #declarations + 1: a reference cycle is an error *)
  Theorem validate_terminates : validate ds fexists pexists <> VFuel.
  Proof.
    unfold validate. destruct (lookup FINAL_OUTPUT ds) as [d|] eqn:L; [|discriminate].
    apply validate_decl_nofuel.
    - reflexivity.
    - intros y [<-|[]]. eapply lookup_in; eauto.
    - simpl. lia.
  Qed.
End Terminates.
