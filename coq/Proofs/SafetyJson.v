(* C03: cursor discipline of the JSON stream reader (idr/jsonreader.go after fix ff724f7).
   (a) No nil dereference for ANY token sequence.  (b) For every token sequence json.Decoder can
   emit (dec_accepts: its key/value grammar, any number of top-level values) no panic at all. *)
From Coq Require Import List Arith Bool Lia.
Import ListNotations.
From OV Require Import Model.Safety.

(* ---- (a) ---- *)
Lemma wrap_up_cons h up : wrap_up (h :: up) = JNext up.
Proof. reflexivity. Qed.

Lemma step_no_nil c t : jreader_step c t <> JPanic NilDeref.
Proof.
  destruct c as [|h up]; [discriminate|]. unfold jreader_step, on_token.
  destruct t; repeat match goal with |- context [if ?b then _ else _] => destruct b end;
    cbn [wrap_up]; discriminate.
Qed.

Theorem json_stream_no_nil_deref_lemma : forall ts c, jreader_run jreader_step c ts <> inl NilDeref.
Proof.
  induction ts as [|t r IH]; intro c; cbn [jreader_run]; [discriminate|].
  pose proof (step_no_nil c t) as Hs. destruct (jreader_step c t) as [site| |c'].
  - destruct site; [congruence|discriminate].
  - apply IH.
  - apply IH.
Qed.

(* ---- (b) ---- *)
Definition container_ok (d : dctx) (h : jflags) : Prop :=
  match d with
  | DArr => f_arr h = true /\ f_obj h = false
  | _ => f_obj h = true /\ f_arr h = false
  end.
(* one container node per decoder frame, innermost first, the outermost being the root node *)
Fixpoint conts (ds : list dctx) (c : cursor) : Prop :=
  match ds, c with
  | [], [] => True
  | d :: ds', h :: up => container_ok d h /\ conts ds' up
  | _, _ => False
  end.
Definition plain (h : jflags) : Prop := f_obj h = false /\ f_arr h = false.

Definition inv (ds : list dctx) (c : cursor) : Prop :=
  c = [] \/
  match ds with
  | [] => exists h, c = [h] /\ f_root h = true /\ plain h
  | DObjVal :: _ => exists p up, c = p :: up /\ f_prop p = true /\ plain p /\ conts ds up
  | _ => conts ds c
  end.

Lemma conts_after_value ds c : conts ds c -> conts (after_value ds) c.
Proof. destruct ds as [|[] r]; destruct c; simpl; auto. Qed.

(* closing the innermost container: the parent frame has had its value *)
Lemma inv_after_close ds up : conts ds up -> inv (after_value ds) up.
Proof.
  intro H. destruct up as [|h up']; [left; reflexivity|]. right.
  destruct ds as [|[] r]; simpl in *; try contradiction; exact H.
Qed.

Lemma step_inv ds c t ds' :
  inv ds c -> dec_step ds t = Some ds' ->
  match jreader_step c t with
  | JPanic _ => False
  | JErrAfterTop => inv ds' c
  | JNext c' => inv ds' c'
  end.
Proof.
  intros [->|H] Hd; [left; reflexivity|].
  destruct ds as [|d r].
  - (* before the first top-level value: the cursor is the bare root *)
    destruct H as (h&->&Hroot&Ho&Ha). destruct h as [fr fp fo fa]; simpl in *; subst.
    destruct t; simpl in Hd; inversion Hd; subst; simpl.
    + destruct fp; simpl; right; simpl; auto.
    + destruct fp; simpl; right; simpl; auto.
    + destruct fp; left; reflexivity.
    + destruct fp; left; reflexivity.
  - destruct d.
    + (* in an object, a key or the closing brace comes next *)
      destruct c as [|h up]; [simpl in H; contradiction|]. destruct H as [[Ho Ha] Hup].
      destruct t; simpl in Hd; inversion Hd; subst; unfold jreader_step, on_token; rewrite ?Ho, ?Ha.
      * (* '}' *) cbn [wrap_up]. apply inv_after_close. exact Hup.
      * (* key *) right. exists (mkJ false true false false), (h :: up). simpl. repeat split; auto.
    + (* in an object, the value of the pending property comes next *)
      destruct H as (p&up&->&Hp&[Ho Ha]&Hup). destruct p as [fr fp fo fa]; simpl in *; subst.
      destruct t; simpl in Hd; inversion Hd; subst; simpl.
      * right. simpl. repeat split; auto.
      * right. simpl. repeat split; auto.
      * right. destruct up as [|h up']; simpl in *; [contradiction|exact Hup].
      * right. destruct up as [|h up']; simpl in *; [contradiction|exact Hup].
    + (* in an array *)
      destruct c as [|h up]; [simpl in H; contradiction|]. destruct H as [[Ha Ho] Hup].
      destruct t; simpl in Hd; inversion Hd; subst; unfold jreader_step, on_token; rewrite ?Ho, ?Ha.
      * right. simpl. repeat split; auto.
      * right. simpl. repeat split; auto.
      * cbn [wrap_up]. apply inv_after_close. exact Hup.
      * cbn [wrap_up]. right. simpl. repeat split; auto.
      * cbn [wrap_up]. right. simpl. repeat split; auto.
Qed.

Theorem json_stream_cursor_no_panic_lemma : forall ts ds c,
  inv ds c -> dec_accepts ds ts = true ->
  exists c', jreader_run jreader_step c ts = inr c'.
Proof.
  induction ts as [|t r IH]; intros ds c Hi Ha; cbn [jreader_run]; [eauto|].
  simpl in Ha. destruct (dec_step ds t) as [ds'|] eqn:Ed; [|discriminate].
  pose proof (step_inv ds c t ds' Hi Ed) as Hs.
  destruct (jreader_step c t) as [site| |c']; [contradiction| |]; eapply IH; eauto.
Qed.

Lemma inv_init : inv [] [j_root].
Proof. right. exists j_root. repeat split; reflexivity. Qed.

(* the pre-fix reader on the tokens of {"a":1}{"a":2} *)
Lemma json_stream_panic_old_refuted_lemma :
  let ts := [JObjOpen; JString; JScalar; JObjClose; JObjOpen; JString; JScalar; JObjClose] in
  dec_accepts [] ts = true /\ jreader_run jreader_step_old [j_root] ts = inl NilDeref
  /\ jreader_run jreader_step [j_root] ts = inr [].
Proof. vm_compute. repeat split; reflexivity. Qed.
