(* C16 proofs, format level: what the old fixed-length reader (both envelope kinds) makes of a
   failing line reader, over the wrapping sites extracted from the source (Gen/FaultWrap.v). *)
From Coq Require Import List NArith Bool Arith Lia.
From Coq.Strings Require Import Byte.
Import ListNotations.
From OV Require Import Base.Bytes Base.Cases Base.ErrClass Model.Latch Gen.Continuable Gen.FaultWrap
  Model.Chunk Model.Fault.

(* Every wrapping site of every format yields a class that the built-in ingester does not call
   continuable -- over BOTH extracted tables (the sites, and IsContinuableError). *)
Theorem fault_wrap_terminal fmt c :
  fmt < length all_formats -> In c (fault_wrap fmt) -> transform_terminal fmt c = true.
Proof.
  intros Hf Hin. unfold all_formats in Hf. simpl in Hf.
  do 7 (destruct fmt as [|fmt]; [simpl in Hin; intuition (subst; reflexivity)|]).
  lia.
Qed.

(* The hand-written summary of Model/Fault.v agrees with the extracted sites. *)
Theorem fault_wrap_in_model fmt c : In c (fault_wrap fmt) -> In c (fault_classes fmt).
Proof.
  do 7 (destruct fmt as [|fmt]; [simpl; intuition (subst; simpl; auto)|]).
  simpl; intuition (subst; simpl; auto).
Qed.

(* Pinned shape facts of fixedlength/reader.go. *)
Theorem fixedlength_eof_tests_are_identity :
  fixedlength_rows_eof_is_identity = true /\ fixedlength_hf_eof_is_identity = true.
Proof. split; reflexivity. Qed.

Definition is_node (r : fl_result) : Prop := exists l, r = FlNode l.

(* by_rows: whatever the lines, a failing line reader ends the Read sequence with the fatal
   ErrInvalidEnvelope, after at most one node per line. *)
Theorem fl_rows_fault rows e : e <> IoEOF -> forall ls i first,
  exists nodes, fl_rows_run rows i first ls e = nodes ++ [FlRes RcFatal] /\
                Forall is_node nodes /\ length nodes <= length ls.
Proof.
  intros He. assert (Heof : fl_is_eof fixedlength_rows_eof_is_identity e = false).
  { unfold fl_is_eof. cbn. destruct e; try reflexivity. congruence. }
  induction ls as [|l r IH]; intros i first.
  - exists []. cbn [fl_rows_run]. rewrite Heof. cbn. repeat split; [constructor|lia].
  - cbn [fl_rows_run]. destruct (is_nil l).
    + destruct (IH i first) as (n&A&B&C). exists n. repeat split; auto. simpl; lia.
    + destruct (S i =? rows).
      * destruct (IH 0 []) as (n&A&B&C). eexists (_ :: n). rewrite A. split; [reflexivity|].
        split; [constructor; [eexists; reflexivity|exact B]|simpl; lia].
      * destruct (IH (S i) (if i =? 0 then l else first)) as (n&A&B&C). exists n. repeat split; auto. simpl; lia.
Qed.

(* ... and with io.EOF the sequence ends with io.EOF exactly when no envelope is open. *)
Theorem fl_rows_eof rows : forall ls i first,
  exists nodes c, fl_rows_run rows i first ls IoEOF = nodes ++ [FlRes c] /\ Forall is_node nodes /\
                  (c = RcEOF \/ c = RcFatal).
Proof.
  induction ls as [|l r IH]; intros i first.
  - exists [], (if i =? 0 then RcEOF else RcFatal). cbn. destruct (i =? 0); repeat split; auto; constructor.
  - cbn [fl_rows_run]. destruct (is_nil l); [apply IH|].
    destruct (S i =? rows).
    + destruct (IH 0 []) as (n&c&A&B&C). exists (FlNode (if i =? 0 then l else first) :: n), c. rewrite A.
      repeat split; auto. constructor; [eexists; reflexivity|exact B].
    + apply IH.
Qed.

(* by_header_footer: known finding F27 as an iff.  For a failing line reader the Read sequence ends
   with the fatal error exactly when every line at which an envelope starts matches a header
   (hf_all_match); otherwise it ends with io.EOF: the failure is swallowed. *)
Theorem hf_fault_iff envs e : e <> IoEOF -> forall ls idx cur,
  exists nodes, hf_run envs idx cur ls e =
                  nodes ++ [FlRes (if hf_all_match envs idx (option_map fst cur) ls then RcFatal else RcEOF)] /\
                Forall is_node nodes /\ length nodes <= length ls.
Proof.
  intros He. assert (Heof : fl_is_eof fixedlength_hf_eof_is_identity e = false).
  { unfold fl_is_eof. cbn. destruct e; try reflexivity. congruence. }
  induction ls as [|l r IH]; intros idx cur.
  - exists []. cbn [hf_run hf_all_match]. destruct cur; [|rewrite Heof]; cbn; repeat split; try constructor; lia.
  - cbn [hf_run hf_all_match]. destruct (is_nil l).
    + destruct (IH idx cur) as (n&A&B&C). exists n. repeat split; auto. simpl; lia.
    + destruct cur as [[j first]|]; cbn [option_map fst].
      * destruct (hf_footer _ l).
        -- destruct (IH j None) as (n&A&B&C). cbn [option_map] in A. destruct (hf_not_target _).
           ++ exists n. repeat split; auto. simpl; lia.
           ++ exists (FlNode first :: n). rewrite A. repeat split; auto; [constructor; [eexists; reflexivity|exact B]|simpl; lia].
        -- destruct (IH j (Some (j, first))) as (n&A&B&C). cbn [option_map fst] in A.
           exists n. repeat split; auto. simpl; lia.
      * destruct (hf_find envs idx l) as [j|].
        -- destruct (hf_footer _ l).
           ++ destruct (IH j None) as (n&A&B&C). cbn [option_map] in A. destruct (hf_not_target _).
              ** exists n. repeat split; auto. simpl; lia.
              ** exists (FlNode l :: n). rewrite A. repeat split; auto; [constructor; [eexists; reflexivity|exact B]|simpl; lia].
           ++ destruct (IH j (Some (j, l))) as (n&A&B&C). cbn [option_map fst] in A.
              exists n. repeat split; auto. simpl; lia.
        -- exists []. cbn. repeat split; [constructor|lia].
Qed.

(* From the bytes to the Transform, old fixed-length by_rows: a source that fails after its bytes
   (any chunking, fault persistent or once-then-persistent) makes the line reader end with the
   fault, the reader turn it into the fatal class after at most one node per byte delivered, and
   the ingester + Transform treat that class as terminal. *)
From OV Require Import Proofs.Chunk Proofs.ChunkTop Proofs.FaultLines Proofs.FaultPrefix.

Theorem fault_is_fatal_fixedlength_rows N gas fuel cs wl t rows ls e :
  4 <= N -> runs_ok cs = true -> weight cs + 1 < gas -> is_fault_tail t ->
  a_read_lines N fuel (concat cs, t) = Ok (ls, e) ->
  read_lines source io_read N gas fuel b_init (mkSrc cs wl t) = Ok (ls, e) /\
  exists nodes, fl_rows_run rows 0 [] ls e = nodes ++ [FlRes RcFatal] /\ Forall is_node nodes /\
                length nodes <= length (concat cs) /\
                transform_terminal 3 RcFatal = true.
Proof.
  intros HN Hr Hg Hft Ha.
  destruct (lines_fault_surfaces N gas fuel cs wl t ls e HN Hr Hg Hft Ha) as (A&(f&->)&_).
  split; [exact A|].
  destruct (fl_rows_fault rows (IoFault f) ltac:(discriminate) ls 0 []) as (nodes&B&C&D).
  exists nodes. split; [exact B|]. split; [exact C|]. split; [|reflexivity].
  pose proof (a_read_lines_count N fuel (concat cs, t) ls (IoFault f) HN Ha) as Hc. cbn [fst] in Hc. lia.
Qed.
