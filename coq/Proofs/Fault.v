(* C16 proofs, classification level. *)
From Coq Require Import List NArith Bool Arith Lia.
Import ListNotations.
From OV Require Import Base.Cases Base.ErrClass Model.Latch Gen.Continuable Proofs.Latch Model.Fault.

(* Every class a reader produces for an input failure is non-continuable for the ingester, for
   each of the seven formats -- over the tables extracted from the source. *)
Lemma fault_classes_terminal fmt c :
  fmt < length all_formats -> In c (fault_classes fmt) -> transform_terminal fmt c = true.
Proof.
  intros Hf Hin. unfold all_formats in Hf. simpl in Hf.
  do 7 (destruct fmt as [|fmt]; [simpl in Hin; intuition (subst; reflexivity)|]).
  lia.
Qed.

(* Before the F10 repair the old csv reader's data-phase class was continuable. *)
Lemma csv_fault_old_refuted :
  exists c, In c (fault_classes_pre_f10 0) /\ transform_terminal 0 c = false.
Proof. exists RcPlain. split; [simpl; auto|reflexivity]. Qed.

(* Transform level, for an arbitrary FormatReader whose IsContinuableError may depend on the
   reader's state (the old csv reader compares with r.readErr): if the reader returns an error
   that is not ErrTransformFailed and that it declares non-continuable, the Read that sees it
   returns exactly that error value and it is terminal. *)
Section ReaderFault.
  Variable R : Type.
  Variable rd_step : R -> R * rdres.
  Variable rd_cont : R -> errv -> bool.
  Variable parse : R -> option N -> parse_res.
  Variable marshal : R -> N -> marshal_res.
  Notation ing_read := (ing_read R rd_step parse marshal).
  Notation ing_cont := (ing_is_cont R rd_cont).

  Lemma reader_noncont_error_terminal g r' n e :
    rd_step (i_rd g) = (r', mkRd n (Some e)) ->
    is_failed e = false -> rd_cont r' e = false ->
    is_terminal (snd (do_read (istate R) ing_read ing_cont g)) e.
  Proof.
    intros Hs Hf Hc. unfold Latch.do_read, Latch.ing_read. rewrite Hs. cbn [rd_err rd_node snd].
    unfold Latch.ing_is_cont. cbn [i_rd]. rewrite Hf, Hc. cbn [orb]. split; [reflexivity|exact Hf].
  Qed.

  (* ... and from then on every Read / RawRecord returns that same error value and the reader is
     never called again (C01 latch). *)
  Lemma reader_fault_sticky ts g r' n e ops :
    (lastErr ts = None \/ exists e0, lastErr ts = Some e0 /\ is_failed e0 = true) ->
    rd_step (i_rd g) = (r', mkRd n (Some e)) ->
    is_failed e = false -> rd_cont r' e = false ->
    let st1 := fst (read (istate R) ing_read ing_cont (ts, g)) in
    run (istate R) ing_read ing_cont (ts, g) (OpRead :: ops) =
      (st1, OutRead None (Some e) :: map (sticky_out e) ops).
  Proof.
    intros Hts Hs Hf Hc st1. subst st1.
    pose proof (reader_noncont_error_terminal g r' n e Hs Hf Hc) as [Ho _].
    assert (Hr : read (istate R) ing_read ing_cont (ts, g) = do_read (istate R) ing_read ing_cont g).
    { destruct Hts as [H|(e0&H&H0)].
      - apply latch_fresh_reads; exact H.
      - eapply latch_continue_after_failed; eassumption. }
    cbn [Latch.run Latch.step]. rewrite Hr.
    destruct (do_read (istate R) ing_read ing_cont g) as [st2 o] eqn:Hd. cbn [fst snd] in *. subst o.
    assert (Hl : lastErr (fst st2) = Some e).
    { apply (read_post (istate R) ing_read ing_cont) in Hr. exact Hr. }
    rewrite (terminal_sticky (istate R) ing_read ing_cont st2 e ops Hl Hf). reflexivity.
  Qed.
End ReaderFault.
