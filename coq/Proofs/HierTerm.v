(* C05 proofs, part 5: termination of the flat-file machine with an explicit bound.
   Potential (lexicographic):
     phi1 = N * |unprocessed units| + (N - fresh)   where fresh = number of group frames, counted
            down from the frame below the top, whose instance has not consumed anything yet (each of
            them is a group that has just matched through its first child, which is bound to match)
     nu   = stack length + number of later siblings still to try at every open frame
   A match decreases phi1 (a group match adds a fresh frame, a record match consumes units);
   a failed match does not increase phi1 and decreases nu; a delivery clears the target flag. *)
From Coq Require Import List Arith Bool Lia.
Import ListNotations.
From OV Require Import Base.Cases Model.Hier Model.HierSpec Proofs.HierBase Proofs.HierSim Proofs.HierMain Proofs.HierInst.

Lemma decl_size_kid : forall d k, In k (d_kids d) -> decl_size k < decl_size d.
Proof.
  intros [n g t mn mx lf kids] k Hin. simpl in *.
  induction kids as [|x r IH]; simpl in *; [tauto|]. destruct Hin as [->|Hin]; [lia|].
  apply IH in Hin. lia.
Qed.

Lemma kids_lt_size : forall d, length (d_kids d) < decl_size d.
Proof.
  intros [n g t mn mx lf kids]. simpl. induction kids as [|x r IH]; simpl; [lia|].
  destruct x; simpl in *. lia.
Qed.

Section Term.
  Variable try_leaf : leaf -> list unt -> option nat.
  Notation WF := (WF try_leaf).

  Definition empty_node (p : entry) : bool :=
    match e_node p with Some (I _ [] []) => true | _ => false end.

  (* the bottom (root) frame counts only once it has completed an instance before: the EDI machine
     instantiates the root again; in the flat-file machine an open root frame has occurred = 0 *)
  Definition countable (p : entry) (b : list entry) : bool :=
    match b with [] => 1 <=? e_occ p | _ :: _ => true end.

  Fixpoint fresh (opens : list entry) : nat :=
    match opens with
    | [] => 0
    | p :: b => if empty_node p && countable p b then S (fresh b) else 0
    end.

  Fixpoint links (above : decl) (opens : list entry) : Prop :=
    match opens with
    | [] => True
    | p :: b => (exists i, e_node p = Some i) /\
                nth_error (d_kids (e_decl p)) (e_cur p) = Some above /\
                WF (e_decl p) /\ links (e_decl p) b
    end.

  Fixpoint schain (N : nat) (stk : list entry) : Prop :=
    match stk with
    | [] => True
    | x :: r => length stk + decl_size (e_decl x) <= N /\ schain N r
    end.

  Definition fresh_ok (top : entry) (opens : list entry) (us : list unt) : Prop :=
    match opens with
    | [] => 1 <= e_occ top   (* only the root frame is left: it has completed an instance *)
    | p :: b =>
        empty_node p && countable p b = true ->
        e_occ top = 0 /\ e_cur p = 0 /\ starts try_leaf (e_decl top) us = true
    end.

  Definition TInv (N : nat) (stk : list entry) (us : list unt) : Prop :=
    match stk with
    | [] => False
    | top :: opens =>
        WF (e_decl top) /\ e_cur top = 0 /\ links (e_decl top) opens /\ schain N stk /\
        fresh_ok top opens us
    end.

  Fixpoint kidsum (opens : list entry) : nat :=
    match opens with
    | [] => 0
    | p :: b => (length (d_kids (e_decl p)) - e_cur p) + kidsum b
    end.
  Definition nu (stk : list entry) : nat := length stk + kidsum (tl stk).
  Definition phi1 (N : nat) (stk : list entry) (us : list unt) : nat :=
    N * length us + (N - fresh (tl stk)).

  Lemma fresh_le : forall l, fresh l <= length l.
  Proof.
    induction l as [|p b IH]; simpl in *; try lia. destruct (empty_node p && countable p b); lia.
  Qed.

  Lemma kidsum_le : forall N l, schain N l -> kidsum l <= length l * N.
  Proof.
    induction l as [|p b IH]; simpl; intros H; [lia|]. destruct H as [H1 H2].
    pose proof (kids_lt_size (e_decl p)). specialize (IH H2). lia.
  Qed.

  Lemma nth_WF : forall d c k, WF d -> nth_error (d_kids d) c = Some k -> WF k.
  Proof.
    intros d c k Hd Hk. apply nth_error_In in Hk. pose proof (WF_kids try_leaf d Hd) as Hf.
    rewrite Forall_forall in Hf. auto.
  Qed.

  Lemma empty_commit : forall q i b c o, (exists j, e_node q = Some j) ->
    empty_node (E b (e_node (commit q (Some i))) c o) = false.
  Proof.
    intros q i b c o (j & Hj). unfold commit, empty_node. cbn [e_node]. rewrite Hj.
    destruct j as [a ids ks]. cbn [add_kid]. destruct ids; [|reflexivity].
    destruct ks; reflexivity.
  Qed.

  Lemma fresh_ok_nonempty : forall top p b us, empty_node p = false -> fresh_ok top (p :: b) us.
  Proof. intros top p b us H. cbn [fresh_ok]. rewrite H. intros H'. discriminate H'. Qed.

  (* ---- recDone ---------------------------------------------------------------------------------- *)
  Lemma rec_done_T : forall N b p tgt us,
    (exists i, e_node p = Some i) -> WF (e_decl p) -> links (e_decl p) b -> schain N (p :: b) ->
    match rec_done p b tgt with
    | ROk stk' _ => TInv N stk' us /\ nu stk' <= nu (p :: b)
    | RPanic _ => True
    | RErr _ => False
    end.
  Proof.
    induction b as [|q b' IH]; intros p tgt us Hn Hwf Hl Hs; cbn [rec_done].
    - destruct (if d_tgt (e_decl p) then _ else _) as [site|tgt1]; [exact Logic.I|].
      split; [|unfold nu; simpl; lia].
      cbn [TInv e_decl e_cur]. repeat split; auto; [simpl in *; lia|cbn; lia].
    - destruct (if d_tgt (e_decl p) then _ else _) as [site|tgt1]; [exact Logic.I|].
      destruct Hn as (i & Hi). rewrite Hi.
      destruct Hl as (Hqn & Hnth & Hwq & Hl').
      destruct Hs as (Hs1 & Hs2 & Hs3).
      set (q0 := commit q (Some i)).
      assert (Hd0 : e_decl q0 = e_decl q) by (unfold q0, commit; reflexivity).
      assert (Hc0 : e_cur q0 = e_cur q) by (unfold q0, commit; reflexivity).
      assert (Hn0 : exists j, e_node q0 = Some j).
      { destruct Hqn as (j & Hj). unfold q0, commit. cbn [e_node]. rewrite Hj. destruct j. cbn. eauto. }
      assert (He0 : empty_node q0 = false).
      { pose proof (empty_commit q i (e_decl q) (e_cur q) (e_occ q) Hqn) as H.
        unfold empty_node in *. cbn [e_node] in H. exact H. }
      assert (Hstay : TInv N (E (e_decl p) (Some i) 0 (S (e_occ p)) :: q0 :: b') us /\
                      nu (E (e_decl p) (Some i) 0 (S (e_occ p)) :: q0 :: b') <= nu (p :: q :: b')).
      { split.
        - cbn [TInv e_decl e_cur]. split; [exact Hwf|]. split; [reflexivity|]. split.
          + cbn [links]. rewrite Hd0, Hc0. auto.
          + split; [|apply fresh_ok_nonempty; exact He0].
            cbn [schain e_decl length] in *. rewrite Hd0. auto.
        - unfold nu. cbn [tl kidsum length]. rewrite Hd0, Hc0. lia. }
      cbn [e_occ e_decl].
      destruct (lt_max (S (e_occ p)) (d_max (e_decl p))); [exact Hstay|].
      destruct (S (e_occ p) <? d_min (e_decl p)); [exact Hstay|].
      rewrite Hd0, Hc0.
      destruct (S (e_cur q) <? length (d_kids (e_decl q))) eqn:Esib.
      + apply Nat.ltb_lt in Esib.
        destruct (nth_error (d_kids (e_decl q)) (S (e_cur q))) as [k|] eqn:Ek;
          [|apply nth_error_None in Ek; lia].
        split.
        * cbn [TInv e_decl e_cur]. split; [exact (nth_WF _ _ _ Hwq Ek)|]. split; [reflexivity|]. split.
          { cbn [links e_decl e_cur e_node]. split; [exact Hn0|]. auto. }
          split.
          { pose proof (decl_size_kid _ _ (nth_error_In _ _ Ek)).
            cbn [schain e_decl length] in *. split; [lia|]. split; [lia|exact Hs3]. }
          { apply fresh_ok_nonempty. unfold empty_node in *. cbn [e_node]. exact He0. }
        * unfold nu. cbn [tl kidsum length e_decl e_cur]. lia.
      + specialize (IH q0 tgt1 us Hn0).
        rewrite Hd0 in IH. specialize (IH Hwq Hl').
        assert (Hs' : schain N (q0 :: b')) by (cbn [schain e_decl length] in *; rewrite Hd0; auto).
        specialize (IH Hs').
        destruct (rec_done q0 b' tgt1) as [stk' tgt'|t|s]; auto.
        destruct IH as [IH1 IH2]. split; [exact IH1|].
        unfold nu in *. cbn [tl kidsum length] in *. lia.
  Qed.

  (* ---- recNext after a failed match ----------------------------------------------------------------- *)
  Lemma rec_next_T : forall N top q b us,
    TInv N (top :: q :: b) us -> starts try_leaf (e_decl top) us = false ->
    fresh (q :: b) = 0 /\
    match rec_next (top :: q :: b) None with
    | ROk stk' _ => TInv N stk' us /\ nu stk' < nu (top :: q :: b)
    | _ => True
    end.
  Proof.
    intros N top q b us (Hwf & Hcur & Hl & Hs & Hf) Hst.
    destruct Hl as (Hqn & Hnth & Hwq & Hl').
    assert (Hq : empty_node q && countable q b = false).
    { cbn [fresh_ok] in Hf. destruct (empty_node q && countable q b); [|reflexivity].
      destruct (Hf eq_refl) as (_ & _ & H). congruence. }
    split.
    { cbn [fresh]. rewrite Hq. reflexivity. }
    unfold rec_next.
    destruct (e_occ top <? d_min (e_decl top)); [exact Logic.I|].
    destruct Hs as (Hs1 & Hs2 & Hs3).
    destruct (S (e_cur q) <? length (d_kids (e_decl q))) eqn:Esib.
    - apply Nat.ltb_lt in Esib.
      destruct (nth_error (d_kids (e_decl q)) (S (e_cur q))) as [k|] eqn:Ek;
        [|apply nth_error_None in Ek; lia].
      split.
      + cbn [TInv e_decl e_cur]. split; [exact (nth_WF _ _ _ Hwq Ek)|]. split; [reflexivity|]. split.
        { cbn [links e_decl e_cur e_node]. auto. }
        split.
        { pose proof (decl_size_kid _ _ (nth_error_In _ _ Ek)).
          cbn [schain e_decl length] in *. split; [lia|]. split; [lia|exact Hs3]. }
        { cbn [fresh_ok]. intros H. exfalso.
          assert (Hsame : empty_node (E (e_decl q) (e_node q) (S (e_cur q)) (e_occ q)) &&
                          countable (E (e_decl q) (e_node q) (S (e_cur q)) (e_occ q)) b =
                          empty_node q && countable q b) by reflexivity.
          rewrite Hsame, Hq in H. discriminate H. }
      + unfold nu. cbn [tl kidsum length e_decl e_cur]. lia.
    - pose proof (rec_done_T N b q None us Hqn Hwq Hl') as H.
      assert (Hs' : schain N (q :: b)) by (cbn [schain length] in *; auto).
      specialize (H Hs').
      destruct (rec_done q b None) as [stk' tgt'|t|s]; auto.
      destruct H as [H1 H2]. split; [exact H1|]. unfold nu in *. cbn [tl kidsum length] in *. lia.
  Qed.

  (* ---- a match -------------------------------------------------------------------------------------- *)
  Lemma map_firstn_nonempty : forall n (us : list unt), 1 <= n -> n <= length us ->
    map u_id (firstn n us) <> [].
  Proof. intros [|n] [|u r]; simpl; intros; try lia; discriminate. Qed.

  Lemma instantiate_T : forall N top q b us n st,
    TInv N (top :: q :: b) us -> read_rec try_leaf (e_decl top) us = Some n ->
    match instantiate top (q :: b) None n us false st with
    | Cont st' => TInv N (m_stk st') (m_rest st') /\
                  phi1 N (m_stk st') (m_rest st') < phi1 N (top :: q :: b) us
    | Ret _ _ => True
    end.
  Proof.
    intros N top q b us n st Hinv Hrr.
    pose proof Hinv as (Hwf & Hcur & Hl & Hs & Hf).
    destruct (read_rec_some try_leaf _ _ _ Hrr) as [Hst Hm].
    destruct (WF_parts try_leaf _ Hwf) as (Hshape & _ & _).
    pose proof Hl as (Hqn & Hnth & Hwq & Hl').
    pose proof Hs as (Hs1 & Hs2 & Hs3).
    assert (Hfr : fresh (q :: b) < N).
    { pose proof (fresh_le (q :: b)). pose proof (kids_lt_size (e_decl top)).
      cbn [length] in *. lia. }
    unfold instantiate.
    destruct (length us <? n) eqn:Eln; [exact Logic.I|]. apply Nat.ltb_ge in Eln.
    destruct Hqn as (iq & Hqn). rewrite Hqn.
    destruct (d_grp (e_decl top)) eqn:Eg.
    - (* a group: nothing consumed, the first child is pushed *)
      subst n. destruct (d_kids (e_decl top)) as [|k r] eqn:Ek; [congruence|].
      cbn [m_stk m_rest firstn skipn map].
      assert (Hk : nth_error (d_kids (e_decl top)) 0 = Some k) by (rewrite Ek; reflexivity).
      split.
      + cbn [TInv e_decl e_cur]. split; [exact (nth_WF _ _ _ Hwf Hk)|]. split; [reflexivity|]. split.
        { cbn [links e_decl e_cur e_node]. split; [eauto|]. split; [rewrite Hcur; exact Hk|].
          split; [exact Hwf|]. exact Hl. }
        split.
        { pose proof (decl_size_kid _ _ (nth_error_In _ _ Hk)).
          cbn [schain e_decl length] in *. split; [lia|]. split; [lia|]. auto. }
        { cbn [fresh_ok e_occ e_cur e_decl]. intros _. split; [reflexivity|]. split; [exact Hcur|].
          rewrite <- (starts_kid0 try_leaf (e_decl top) k r us Eg Ek). exact Hst. }
      + unfold phi1. cbn [tl].
        match goal with |- context [fresh (?x :: q :: b)] =>
          replace (fresh (x :: q :: b)) with (S (fresh (q :: b))) by reflexivity end.
        lia.
    - (* a record: n >= 1 units consumed *)
      apply Hshape in Hm. destruct Hm as [Hn1 Hn2].
      assert (Hne : map u_id (firstn n us) <> []) by (apply map_firstn_nonempty; auto).
      assert (Hlen : length (skipn n us) = length us - n) by apply skipn_length.
      destruct (d_kids (e_decl top)) as [|k r] eqn:Ek.
      + set (cur1 := E (e_decl top) (Some (I (d_name (e_decl top)) (map u_id (firstn n us)) [])) (e_cur top) (e_occ top)).
        pose proof (rec_done_T N (q :: b) cur1 None (skipn n us)) as H.
        assert (Hn' : exists i, e_node cur1 = Some i) by (unfold cur1; cbn; eauto).
        specialize (H Hn' Hwf Hl Hs).
        destruct (rec_done cur1 (q :: b) None) as [stk' tgt'|t|s]; cbn [of_rres]; auto.
        destruct H as [H1 H2]. cbn [m_stk m_rest]. split; [exact H1|].
        unfold phi1. rewrite Hlen. cbn [tl].
        assert (N * (length us - n) + N <= N * length us) by nia.
        lia.
      + cbn [m_stk m_rest].
        assert (Hk : nth_error (d_kids (e_decl top)) 0 = Some k) by (rewrite Ek; reflexivity).
        split.
        * cbn [TInv e_decl e_cur]. split; [exact (nth_WF _ _ _ Hwf Hk)|]. split; [reflexivity|]. split.
          { cbn [links e_decl e_cur e_node]. split; [eauto|]. split; [rewrite Hcur; exact Hk|].
            split; [exact Hwf|]. exact Hl. }
          split.
          { pose proof (decl_size_kid _ _ (nth_error_In _ _ Hk)).
            cbn [schain e_decl length] in *. split; [lia|]. split; [lia|]. auto. }
          { apply fresh_ok_nonempty. unfold empty_node. cbn [e_node].
            destruct (map u_id (firstn n us)); [congruence|reflexivity]. }
        * unfold phi1. rewrite Hlen. cbn [tl].
          assert (N * (length us - n) + N <= N * length us) by nia.
          lia.
  Qed.

  (* ---- one loop iteration --------------------------------------------------------------------------- *)
  Definition lexdec (N : nat) (st st' : mstate) : Prop :=
    phi1 N (m_stk st') (m_rest st') < phi1 N (m_stk st) (m_rest st) \/
    (phi1 N (m_stk st') (m_rest st') <= phi1 N (m_stk st) (m_rest st) /\ nu (m_stk st') < nu (m_stk st)).

  Lemma hstep_T : forall N stk us, TInv N stk us ->
    match hstep try_leaf (M stk None us) with
    | Cont st' => TInv N (m_stk st') (m_rest st') /\ lexdec N (M stk None us) st'
    | Ret _ _ => True
    end.
  Proof.
    intros N stk us Hinv. unfold hstep. cbn [m_tgt m_rest m_stk].
    destruct stk as [|top [|q b]]; [destruct Hinv| |].
    - destruct us; exact Logic.I.
    - cbn [length].
      replace (S (S (length b)) <=? 1) with false by (symmetry; apply Nat.leb_gt; lia).
      assert (Hfail : forall rest, rest = us -> starts try_leaf (e_decl top) us = false ->
                match of_rres (rec_next (top :: q :: b) None) rest (M (top :: q :: b) None us) with
                | Cont st' => TInv N (m_stk st') (m_rest st') /\ lexdec N (M (top :: q :: b) None us) st'
                | Ret _ _ => True
                end).
      { intros rest -> Hst. destruct (rec_next_T N top q b us Hinv Hst) as [Hfr H].
        destruct (rec_next (top :: q :: b) None) as [stk' tgt'|t|s]; cbn [of_rres]; auto.
        destruct H as [H1 H2]. cbn [m_stk m_rest]. split; [exact H1|]. right. cbn [m_stk m_rest].
        split; [|exact H2]. unfold phi1. cbn [tl]. rewrite Hfr. lia. }
      destruct us as [|u r].
      + apply Hfail; [reflexivity|]. destruct Hinv as (Hwf & _). apply (starts_nil try_leaf); exact Hwf.
      + destruct (read_rec try_leaf (e_decl top) (u :: r)) as [n|] eqn:Err.
        * pose proof (instantiate_T N top q b (u :: r) n (M (top :: q :: b) None (u :: r)) Hinv Err) as H.
          destruct (instantiate top (q :: b) None n (u :: r) false _); auto.
          destruct H as [H1 H2]. split; [exact H1|]. left. exact H2.
        * apply Hfail; [reflexivity|]. apply read_rec_none. exact Err.
  Qed.

  (* ---- runs ------------------------------------------------------------------------------------------- *)
  Definition nu_bound (N : nat) : nat := N * N + N.
  Definition potential (N : nat) (st : mstate) : nat :=
    (phi1 N (m_stk st) (m_rest st) * S (nu_bound N) + nu (m_stk st)) * 2 +
    (match m_tgt st with Some _ => 1 | None => 0 end).

  Lemma nu_le : forall N stk us, TInv N stk us -> nu stk <= nu_bound N.
  Proof.
    intros N [|top opens] us H; [destruct H|]. destruct H as (_ & _ & _ & Hs & _).
    unfold nu, nu_bound. cbn [tl length]. destruct Hs as [Hs1 Hs2].
    pose proof (kidsum_le N opens Hs2). pose proof (kids_lt_size (e_decl top)).
    cbn [length] in Hs1.
    assert (length opens * N <= N * N) by nia. lia.
  Qed.

  Lemma hstep_ret : forall stk us o st', hstep try_leaf (M stk None us) = Ret o st' ->
    exists t, o = OTerm t /\ t <> TOutOfFuel.
  Proof.
    intros stk us o st' H.
    assert (Hof : forall r rest st, of_rres r rest st = Ret o st' ->
              (forall t, r = RErr t -> t <> TOutOfFuel) -> exists t, o = OTerm t /\ t <> TOutOfFuel).
    { intros [a b|t|s] rest st Hr Ht; simpl in Hr; inversion Hr; subst.
      - eexists. split; [reflexivity|]. apply Ht. reflexivity.
      - eexists. split; [reflexivity|]. discriminate. }
    assert (Hnext : forall stk0 t, rec_next stk0 None = RErr t -> t <> TOutOfFuel).
    { intros stk0 t Ht. apply rec_next_err in Ht. destruct Ht as (a & b & ->). discriminate. }
    unfold hstep in H. cbn [m_tgt m_rest m_stk] in H.
    destruct us as [|u r].
    - destruct (length stk <=? 1).
      + inversion H; subst. eexists. split; [reflexivity|discriminate].
      + eapply Hof; [exact H|]. apply Hnext.
    - destruct (length stk <=? 1).
      + inversion H; subst. eexists. split; [reflexivity|discriminate].
      + destruct stk as [|cur below].
        * inversion H; subst. eexists. split; [reflexivity|discriminate].
        * destruct (read_rec try_leaf (e_decl cur) (u :: r)) as [n|].
          -- unfold instantiate in H.
             destruct (length (u :: r) <? n); [inversion H; subst; eexists; split; [reflexivity|discriminate]|].
             destruct below as [|p b]; [inversion H; subst; eexists; split; [reflexivity|discriminate]|].
             destruct (e_node p); [|inversion H; subst; eexists; split; [reflexivity|discriminate]].
             destruct (d_kids (e_decl cur)); [|discriminate].
             eapply Hof; [exact H|]. intros t Ht. exfalso. eapply rec_done_no_err; eauto.
          -- eapply Hof; [exact H|]. apply Hnext.
  Qed.

  Lemma WF_root : forall d0 r, Forall WF (d0 :: r) -> WF (root_decl (d0 :: r)).
  Proof.
    intros d0 r H. inversion H as [|? ? Hd0 Hr]; subst.
    cbn. split; [discriminate|]. split; [reflexivity|]. split; [discriminate|].
    split; [exact Hd0|]. clear H Hd0. induction Hr; simpl; auto.
  Qed.

  Section RunT.
    Variable step : mstate -> sres.
    Hypothesis step_del : forall stk t us,
      step (M stk (Some t) us) = Ret (ODeliver t) (M stk (Some t) us).
    Hypothesis step_T : forall N stk us, TInv N stk us ->
      match step (M stk None us) with
      | Cont st' => TInv N (m_stk st') (m_rest st') /\ lexdec N (M stk None us) st'
      | Ret _ _ => True
      end.
    Hypothesis step_ret : forall stk us o st', step (M stk None us) = Ret o st' ->
      exists t, o = OTerm t /\ t <> TOutOfFuel.

    Lemma run_terminates_gen : forall N fuel st,
      TInv N (m_stk st) (m_rest st) -> potential N st < fuel ->
      snd (run step fuel st) <> TOutOfFuel.
    Proof.
      intros N. induction fuel as [|f IH]; intros st Hinv Hpot; [lia|].
      cbn [run]. destruct st as [stk tgt us]. cbn [m_stk m_rest] in Hinv.
      destruct tgt as [t|].
      - rewrite step_del.
        specialize (IH (clear_tgt (M stk (Some t) us))).
        destruct (run step f (clear_tgt (M stk (Some t) us))) as [ds e] eqn:Er.
        cbn [snd] in *. apply IH; [exact Hinv|].
        unfold potential, clear_tgt in *. cbn [m_stk m_rest m_tgt] in *. lia.
      - pose proof (step_T N stk us Hinv) as H.
        destruct (step (M stk None us)) as [st'|o st'] eqn:Es.
        + destruct H as [H1 H2]. apply IH; [exact H1|].
          pose proof (nu_le N _ _ H1) as Hb'. pose proof (nu_le N _ _ Hinv) as Hb.
          unfold potential in *. cbn [m_stk m_rest m_tgt] in *.
          unfold lexdec in H2. cbn [m_stk m_rest] in H2.
          assert (phi1 N (m_stk st') (m_rest st') * S (nu_bound N) + nu (m_stk st') <
                  phi1 N stk us * S (nu_bound N) + nu stk).
          { destruct H2 as [H2|[H2 H3]]; nia. }
          destruct (m_tgt st'); lia.
        + destruct (step_ret _ _ _ _ Es) as (t & -> & Ht). exact Ht.
    Qed.

    Lemma terminates_gen : forall ds us, Forall WF ds ->
      (forall f, snd (run step (S f) (init [] us)) <> TOutOfFuel) ->
      snd (run step (run_fuel ds us) (init ds us)) <> TOutOfFuel.
    Proof.
      intros ds us Hwf Hnil. destruct ds as [|d0 r].
      - unfold run_fuel. apply Hnil.
      - set (N := S (decl_size (root_decl (d0 :: r)))).
        assert (Hinv : TInv N (m_stk (init (d0 :: r) us)) (m_rest (init (d0 :: r) us))).
        { inversion Hwf as [|? ? Hd0 Hr]; subst. unfold init. cbn [m_stk m_rest TInv e_decl e_cur].
          split; [exact Hd0|]. split; [reflexivity|]. split.
          - cbn [links e_node e_decl e_cur]. split; [eauto|]. split; [reflexivity|].
            split; [apply WF_root; exact Hwf|exact Logic.I].
          - split; [|cbn; intros H; discriminate H].
            assert (decl_size d0 < decl_size (root_decl (d0 :: r))) by (apply decl_size_kid; left; reflexivity).
            cbn [schain length e_decl]. unfold N. repeat split; lia. }
        apply (run_terminates_gen N); [exact Hinv|].
        pose proof (nu_le N _ _ Hinv) as Hnu.
        unfold potential, run_fuel, init, phi1 in *. cbn [m_stk m_rest m_tgt tl fresh] in *.
        fold N. unfold nu_bound in *. nia.
    Qed.
  End RunT.

  (* ---- from the initial state, within run_fuel iterations ------------------------------------------- *)
  Lemma hstep_del : forall stk t us,
    hstep try_leaf (M stk (Some t) us) = Ret (ODeliver t) (M stk (Some t) us).
  Proof. reflexivity. Qed.
  Lemma edi_step_del : forall stk t us,
    edi_step try_leaf (M stk (Some t) us) = Ret (ODeliver t) (M stk (Some t) us).
  Proof. reflexivity. Qed.

  Theorem hier_terminates : forall ds us, Forall WF ds ->
    snd (run (hstep try_leaf) (run_fuel ds us) (init ds us)) <> TOutOfFuel.
  Proof.
    intros ds us Hwf. apply (terminates_gen (hstep try_leaf) hstep_del hstep_T hstep_ret); auto.
    intros f. cbn [run]. destruct us; cbn; discriminate.
  Qed.

  (* ---- EDI: the root frame itself may match again -------------------------------------------------- *)
  Lemma instantiate_root_T : forall N top us n st,
    TInv N [top] us -> read_rec try_leaf (e_decl top) us = Some n ->
    match instantiate top [] None n us true st with
    | Cont st' => TInv N (m_stk st') (m_rest st') /\
                  phi1 N (m_stk st') (m_rest st') < phi1 N [top] us
    | Ret _ _ => True
    end.
  Proof.
    intros N top us n st Hinv Hrr.
    pose proof Hinv as (Hwf & Hcur & _ & Hs & Hocc). cbn [fresh_ok] in Hocc.
    destruct (read_rec_some try_leaf _ _ _ Hrr) as [Hst Hm].
    destruct (WF_parts try_leaf _ Hwf) as (Hshape & _ & _).
    destruct Hs as (Hs1 & _). cbn [length] in Hs1.
    unfold instantiate.
    destruct (length us <? n) eqn:Eln; [exact Logic.I|]. apply Nat.ltb_ge in Eln.
    destruct (d_grp (e_decl top)) eqn:Eg.
    - subst n. destruct (d_kids (e_decl top)) as [|k r] eqn:Ek; [congruence|].
      cbn [m_stk m_rest firstn skipn map].
      assert (Hk : nth_error (d_kids (e_decl top)) 0 = Some k) by (rewrite Ek; reflexivity).
      assert (Hcnt : (1 <=? e_occ top) = true) by (apply Nat.leb_le; exact Hocc).
      split.
      + cbn [TInv e_decl e_cur]. split; [exact (nth_WF _ _ _ Hwf Hk)|]. split; [reflexivity|]. split.
        { cbn [links e_decl e_cur e_node]. split; [eauto|]. split; [rewrite Hcur; exact Hk|].
          split; [exact Hwf|exact Logic.I]. }
        split.
        { pose proof (decl_size_kid _ _ (nth_error_In _ _ Hk)).
          cbn [schain e_decl length] in *. repeat split; lia. }
        { cbn [fresh_ok e_occ e_cur e_decl]. intros _. split; [reflexivity|]. split; [exact Hcur|].
          rewrite <- (starts_kid0 try_leaf (e_decl top) k r us Eg Ek). exact Hst. }
      + unfold phi1. cbn [tl fresh]. unfold empty_node, countable. cbn [e_node e_occ].
        rewrite Hcnt. cbn [andb]. pose proof (kids_lt_size (e_decl top)). lia.
    - apply Hshape in Hm. destruct Hm as [Hn1 Hn2].
      assert (Hne : map u_id (firstn n us) <> []) by (apply map_firstn_nonempty; auto).
      assert (Hlen : length (skipn n us) = length us - n) by apply skipn_length.
      assert (HN : 1 <= N) by lia.
      destruct (d_kids (e_decl top)) as [|k r] eqn:Ek.
      + set (cur1 := E (e_decl top) (Some (I (d_name (e_decl top)) (map u_id (firstn n us)) [])) (e_cur top) (e_occ top)).
        pose proof (rec_done_T N [] cur1 None (skipn n us)) as H.
        assert (Hn' : exists i, e_node cur1 = Some i) by (unfold cur1; cbn; eauto).
        assert (Hs' : schain N [cur1]) by (cbn [schain length e_decl]; split; [exact Hs1|exact Logic.I]).
        specialize (H Hn' Hwf Logic.I Hs').
        destruct (rec_done cur1 [] None) as [stk' tgt'|t|s]; cbn [of_rres]; auto.
        destruct H as [H1 H2]. cbn [m_stk m_rest]. split; [exact H1|].
        unfold phi1. rewrite Hlen. cbn [tl fresh].
        assert (N * (length us - n) + N <= N * length us) by nia.
        lia.
      + cbn [m_stk m_rest].
        assert (Hk : nth_error (d_kids (e_decl top)) 0 = Some k) by (rewrite Ek; reflexivity).
        split.
        * cbn [TInv e_decl e_cur]. split; [exact (nth_WF _ _ _ Hwf Hk)|]. split; [reflexivity|]. split.
          { cbn [links e_decl e_cur e_node]. split; [eauto|]. split; [rewrite Hcur; exact Hk|].
            split; [exact Hwf|exact Logic.I]. }
          split.
          { pose proof (decl_size_kid _ _ (nth_error_In _ _ Hk)).
            cbn [schain e_decl length] in *. repeat split; lia. }
          { apply fresh_ok_nonempty. unfold empty_node. cbn [e_node].
            destruct (map u_id (firstn n us)); [congruence|reflexivity]. }
        * unfold phi1. rewrite Hlen. cbn [tl fresh].
          assert (N * (length us - n) + N <= N * length us) by nia.
          lia.
  Qed.

  Lemma edi_eq_hstep2 : forall top q b us,
    edi_step try_leaf (M (top :: q :: b) None us) = hstep try_leaf (M (top :: q :: b) None us).
  Proof.
    intros. unfold edi_step, hstep. cbn [m_tgt m_rest m_stk length].
    replace (S (S (length b)) <=? 1) with false by (symmetry; apply Nat.leb_gt; lia).
    destruct us as [|u r]; [reflexivity|].
    destruct (read_rec try_leaf (e_decl top) (u :: r)); reflexivity.
  Qed.

  Lemma edi_step_T : forall N stk us, TInv N stk us ->
    match edi_step try_leaf (M stk None us) with
    | Cont st' => TInv N (m_stk st') (m_rest st') /\ lexdec N (M stk None us) st'
    | Ret _ _ => True
    end.
  Proof.
    intros N stk us Hinv. destruct stk as [|top [|q b]]; [destruct Hinv| |].
    - unfold edi_step. cbn [m_tgt m_rest m_stk length].
      destruct us as [|u r]; [exact Logic.I|].
      destruct (read_rec try_leaf (e_decl top) (u :: r)) as [n|] eqn:Err; [|exact Logic.I].
      pose proof (instantiate_root_T N top (u :: r) n (M [top] None (u :: r)) Hinv Err) as H.
      destruct (instantiate top [] None n (u :: r) true _); auto.
      destruct H as [H1 H2]. split; [exact H1|]. left. exact H2.
    - rewrite edi_eq_hstep2. apply hstep_T. exact Hinv.
  Qed.

  Lemma edi_step_ret : forall stk us o st', edi_step try_leaf (M stk None us) = Ret o st' ->
    exists t, o = OTerm t /\ t <> TOutOfFuel.
  Proof.
    intros stk us o st' H. destruct stk as [|top [|q b]].
    - unfold edi_step in H. cbn [m_tgt m_rest m_stk length] in H.
      destruct us; inversion H; subst; eexists; (split; [reflexivity|discriminate]).
    - unfold edi_step in H. cbn [m_tgt m_rest m_stk length] in H.
      destruct us as [|u r]; [inversion H; subst; eexists; split; [reflexivity|discriminate]|].
      destruct (read_rec try_leaf (e_decl top) (u :: r)) as [n|];
        [|inversion H; subst; eexists; split; [reflexivity|discriminate]].
      unfold instantiate in H.
      destruct (length (u :: r) <? n); [inversion H; subst; eexists; split; [reflexivity|discriminate]|].
      destruct (d_kids (e_decl top)); [|discriminate].
      destruct (rec_done _ _ _) eqn:En; simpl in H; inversion H; subst.
      + exfalso. eapply rec_done_no_err; eauto.
      + eexists. split; [reflexivity|discriminate].
    - rewrite edi_eq_hstep2 in H. eapply hstep_ret; eauto.
  Qed.

  Theorem edi_terminates : forall ds us, Forall WF ds ->
    snd (run (edi_step try_leaf) (run_fuel ds us) (init ds us)) <> TOutOfFuel.
  Proof.
    intros ds us Hwf. apply (terminates_gen (edi_step try_leaf) edi_step_del edi_step_T edi_step_ret); auto.
    intros f. cbn [run]. destruct us; cbn; discriminate.
  Qed.

  Theorem edi_eq_spec_full : forall ds us, Forall WF ds -> count_tgts ds <= 1 ->
    no_root_repeat try_leaf ds us ->
    run (edi_step try_leaf) (run_fuel ds us) (init ds us) = spec try_leaf ds us.
  Proof.
    intros ds us Hwf Hc Hg. apply edi_eq_spec_run; auto. apply edi_terminates; auto.
  Qed.

  (* the full statement: no fuel hypothesis *)
  Theorem machine_eq_spec_full : forall ds us, Forall WF ds -> count_tgts ds <= 1 ->
    run (hstep try_leaf) (run_fuel ds us) (init ds us) = spec try_leaf ds us.
  Proof.
    intros ds us Hwf Hc. apply machine_eq_spec_run; auto. apply hier_terminates; auto.
  Qed.
End Term.

Theorem flat_machine_eq_spec_full : forall ds us,
  forallb wfb ds = true -> count_tgts ds <= 1 ->
  run_kind KHier ds us = spec_kind KHier ds us.
Proof.
  intros ds us H Hc. unfold run_kind, spec_kind. apply machine_eq_spec_full; auto.
  apply wfb_Forall_flat. exact H.
Qed.

Theorem edi_machine_eq_spec_full : forall ds us,
  forallb wfb ds = true -> count_tgts ds <= 1 -> no_root_repeat edi_leaf ds us ->
  run_kind KEdi ds us = spec_kind KEdi ds us.
Proof.
  intros ds us H Hc Hg. unfold run_kind, spec_kind. apply edi_eq_spec_full; auto.
  apply wfb_Forall_edi. exact H.
Qed.
