(* C06 proofs, part 10: the old fixed-length reader.  One Read takes the next non-empty lines of the
   input that form an envelope (by_rows: the next `rows` lines; by_header_footer: from the line whose
   header pattern matches to the first line matching the footer) and delivers a node that holds,
   for every declared column, the rune slice of the FIRST of these lines that its line_pattern
   matches (no pattern: the first line); columns appear in the order of the lines that filled them,
   then in declaration order; a column no line matches is absent. *)
From Coq Require Import List NArith Bool Arith Lia.
From Coq.Strings Require Import Byte.
Import ListNotations.
From OV Require Import Base.Bytes Base.Utf8 Base.Cases Base.Tree Model.Csv Model.Fixed
  Proofs.DelimCsv Proofs.DelimFixed Proofs.DelimLine.

(* ---- the line reader consumes input ------------------------------------------------------------------ *)
Lemma buf_readline_shrinks T :
  match buf_readline T with
  | RLine _ r | RFrag _ r => length r < length T
  | REof => T = []
  end.
Proof.
  pose proof BUFSZ_ge as HB. unfold buf_readline. destruct T as [|b T]; [reflexivity|].
  set (U := b :: T). assert (HU : 0 < length U) by (simpl; lia). clearbody U.
  destruct (split_lf (firstn BUFSZ U)) as [x [r|]].
  - rewrite skipn_length. lia.
  - destruct (length (firstn BUFSZ U) <? BUFSZ); [simpl; lia|].
    destruct (Nat.eqb _ _); rewrite skipn_length; lia.
Qed.

Lemma byte_read_line_shrinks : forall fuel acc T l r,
  byte_read_line fuel acc T = RLOk l r -> length r < length T.
Proof.
  induction fuel as [|fuel IH]; intros acc T l r E; [discriminate|].
  cbn [byte_read_line] in E. pose proof (buf_readline_shrinks T) as H.
  destruct (buf_readline T) as [l1 r1|l1 r1|]; [inversion E; subst; exact H| |discriminate].
  apply IH in E. lia.
Qed.

Lemma f1_readline_shrinks : forall fuel inp l r,
  f1_readline fuel inp = Some (Some l, r) -> length r < length inp.
Proof.
  induction fuel as [|fuel IH]; intros inp l r E; [discriminate|].
  cbn [f1_readline] in E. destruct (read_line inp) as [l1 r1| |] eqn:Er; try discriminate.
  apply byte_read_line_shrinks in Er. destruct l1 as [|b l1].
  - apply IH in E. lia.
  - inversion E; subst. exact Er.
Qed.

Section Fixed1.
  Variable re_match : pat -> bytes -> bool.

  Notation nextl inp := (f1_readline (S (length inp)) inp).

  (* reading successive non-empty lines ls from inp leaves rest *)
  Inductive lines_from : bytes -> list bytes -> bytes -> Prop :=
  | lf_nil inp : lines_from inp [] inp
  | lf_cons inp l r1 ls rest : nextl inp = Some (Some l, r1) -> lines_from r1 ls rest ->
                               lines_from inp (l :: ls) rest.

  Lemma lines_from_length inp ls rest : lines_from inp ls rest -> length ls + length rest <= length inp.
  Proof.
    induction 1 as [inp|inp l r1 ls rest E _ IH]; [simpl; lia|].
    apply f1_readline_shrinks in E. simpl. lia.
  Qed.

  (* ---- columns over the lines of one envelope --------------------------------------------------------- *)
  Definition mk1 (c : fcol) (line : bytes) : tree :=
    text_elem (f_name c) (rune_slice (f_start c) (f_len c) line).

  Lemma apply_line_spec line : forall cols,
    apply_line re_match cols line =
    (flat_map (fun p : fcol * bool => if snd p then [] else if col_match1 re_match (fst p) line then [mk1 (fst p) line] else []) cols,
     map (fun p : fcol * bool => (fst p, snd p || col_match1 re_match (fst p) line)) cols).
  Proof.
    induction cols as [|[c done] cols IH]; [reflexivity|].
    cbn [apply_line]. rewrite IH. cbn [flat_map map fst snd].
    destruct done; [reflexivity|]. cbn [orb]. destruct (col_match1 re_match c line); reflexivity.
  Qed.

  (* the model's iteration over the lines *)
  Fixpoint kids_run (cols : list (fcol * bool)) (ls : list bytes) : list tree :=
    match ls with
    | [] => []
    | l :: r => let '(ts, cols') := apply_line re_match cols l in ts ++ kids_run cols' r
    end.

  (* the first line of ls (numbered from 0) that the column's pattern matches *)
  Fixpoint first_match (c : fcol) (ls : list bytes) : option (nat * bytes) :=
    match ls with
    | [] => None
    | l :: r => if col_match1 re_match c l then Some (0, l)
                else match first_match c r with Some (j, l') => Some (S j, l') | None => None end
    end.

  (* declaratively: line by line, the still-missing columns whose first matching line it is *)
  Definition kids_spec (cols : list (fcol * bool)) (ls : list bytes) : list tree :=
    flat_map (fun i =>
      flat_map (fun p : fcol * bool => if snd p then []
                         else match first_match (fst p) ls with
                              | Some (j, l) => if Nat.eqb j i then [mk1 (fst p) l] else []
                              | None => []
                              end) cols)
      (seq 0 (length ls)).

  Lemma flat_map_map {A B C} (f : B -> list C) (g : A -> B) l :
    flat_map f (map g l) = flat_map (fun x => f (g x)) l.
  Proof. induction l as [|a l IH]; [reflexivity|]. cbn. rewrite IH. reflexivity. Qed.

  Lemma flat_map_ext' {A B} (f g : A -> list B) l : (forall x, f x = g x) -> flat_map f l = flat_map g l.
  Proof. intro H. induction l as [|a l IH]; [reflexivity|]. cbn. rewrite H, IH. reflexivity. Qed.

  Lemma kids_run_spec : forall ls cols, kids_run cols ls = kids_spec cols ls.
  Proof.
    induction ls as [|l ls IH]; intro cols; [reflexivity|].
    cbn [kids_run]. rewrite apply_line_spec. rewrite IH. unfold kids_spec.
    cbn [length seq flat_map]. f_equal.
    - apply flat_map_ext'. intros [c done]. cbn [fst snd first_match]. destruct done; [reflexivity|].
      destruct (col_match1 re_match c l); [reflexivity|].
      destruct (first_match c ls) as [[j l']|]; reflexivity.
    - rewrite <- seq_shift, flat_map_map. apply flat_map_ext'. intro i.
      rewrite flat_map_map. apply flat_map_ext'. intros [c done]. cbn [fst snd first_match].
      destruct done; [reflexivity|]. cbn [orb].
      destruct (col_match1 re_match c l); [reflexivity|].
      destruct (first_match c ls) as [[j l']|]; reflexivity.
  Qed.

  (* ---- by_rows ------------------------------------------------------------------------------------------ *)
  Lemma rows_loop1_ok : forall ls inp rest first cols kids, lines_from inp ls rest ->
    rows_loop1 re_match (length ls) first cols kids inp = (Ok (kids ++ kids_run cols ls), rest).
  Proof.
    induction ls as [|l ls IH]; intros inp rest first cols kids H; inversion H; subst.
    - cbn. rewrite app_nil_r. reflexivity.
    - cbn [length rows_loop1 kids_run].
      match goal with E : nextl inp = _ |- _ => rewrite E end.
      destruct (apply_line re_match cols l) as [ts cols'].
      rewrite (IH r1 rest false cols' (kids ++ ts)) by assumption. rewrite <- app_assoc. reflexivity.
  Qed.

  (* fewer lines than the envelope needs: io.EOF if none at all was read, else the fatal error *)
  Lemma rows_loop1_short : forall ls inp rest first cols kids more r', lines_from inp ls rest ->
    nextl rest = Some (None, r') ->
    rows_loop1 re_match (length ls + S more) first cols kids inp
    = (Err (if first && Nat.eqb (length ls) 0 then OEOF else OFatal), r').
  Proof.
    induction ls as [|l ls IH]; intros inp rest first cols kids more r' H E; inversion H; subst.
    - cbn [length Nat.add rows_loop1]. rewrite E. destruct first; reflexivity.
    - cbn [length Nat.add rows_loop1].
      match goal with E1 : nextl inp = _ |- _ => rewrite E1 end.
      destruct (apply_line re_match cols l) as [ts cols'].
      rewrite (IH r1 rest false cols' (kids ++ ts) more r') by assumption.
      cbn. rewrite andb_false_r. reflexivity.
  Qed.

  Theorem fixed1_rows_read_proof e tl inp ls rest k :
    e_hf e = None -> lines_from inp ls rest -> length ls = e_rows e ->
    f1_read re_match (S k) (e :: tl) (mkF1 inp 0)
    = (ONode (T ElementNode (e_name e) FNone (kids_spec (undone (e_cols e)) ls)), mkF1 rest 0).
  Proof.
    intros Hh Hl Hn. cbn [f1_read g_env g_in nth_error]. rewrite Hh. rewrite <- Hn.
    rewrite (rows_loop1_ok ls inp rest true _ [] Hl). cbn [app]. rewrite kids_run_spec. reflexivity.
  Qed.

  (* ---- by_header_footer ----------------------------------------------------------------------------------- *)
  (* the envelope's lines after its first line l0: up to the first line matching the footer *)
  Inductive hf_lines (footer : pat) : bytes -> bytes -> list bytes -> bytes -> Prop :=
  | hf_done l0 r0 : re_match footer l0 = true -> hf_lines footer l0 r0 [] r0
  | hf_more l0 r0 l1 r1 ls rest : re_match footer l0 = false ->
      nextl r0 = Some (Some l1, r1) -> hf_lines footer l1 r1 ls rest ->
      hf_lines footer l0 r0 (l1 :: ls) rest.

  Lemma hf_lines_length footer l0 r0 ls rest : hf_lines footer l0 r0 ls rest ->
    length ls + length rest <= length r0.
  Proof.
    induction 1 as [|l0 r0 l1 r1 ls rest _ E _ IH]; [simpl; lia|].
    apply f1_readline_shrinks in E. simpl. lia.
  Qed.

  Lemma hf_loop1_ok footer : forall l0 r0 ls rest, hf_lines footer l0 r0 ls rest ->
    forall fuel cols kids, length ls < fuel ->
    hf_loop1 re_match fuel footer cols kids l0 r0 = (Ok (kids ++ kids_run cols (l0 :: ls)), rest).
  Proof.
    induction 1 as [l0 r0 Hf|l0 r0 l1 r1 ls rest Hf E _ IH]; intros fuel cols kids Hfuel;
      (destruct fuel as [|fuel]; [simpl in Hfuel; lia|]); cbn [hf_loop1 kids_run].
    - destruct (apply_line re_match cols l0) as [ts cols']. rewrite Hf. rewrite app_nil_r. reflexivity.
    - destruct (apply_line re_match cols l0) as [ts cols'] eqn:Ea. rewrite Hf, E.
      rewrite (IH fuel cols' (kids ++ ts)) by (simpl in Hfuel; lia).
      rewrite <- app_assoc. reflexivity.
  Qed.

  (* the header search: the first envelope at or after index i whose header matches the line; the
     index never goes back (an envelope declared earlier is not matched again) *)
  Lemma find_env_spec envs line : forall fuel i, length envs - i < fuel ->
    (forall e, In e envs -> e_hf e <> None) ->
    let j := find_env re_match fuel envs i line in
    i <= j /\
    (forall j' e h f, i <= j' < j -> nth_error envs j' = Some e -> e_hf e = Some (h, f) -> re_match h line = false) /\
    match nth_error envs j with
    | Some e => exists h f, e_hf e = Some (h, f) /\ re_match h line = true
    | None => True
    end.
  Proof.
    induction fuel as [|fuel IH]; intros i Hf Hall; [lia|].
    cbn [find_env]. destruct (nth_error envs i) as [e|] eqn:Ee.
    - destruct (e_hf e) as [[h f]|] eqn:Eh.
      2:{ exfalso. exact (Hall e (nth_error_In _ _ Ee) Eh). }
      destruct (re_match h line) eqn:Em.
      + cbn zeta. split; [lia|]. split; [intros; lia|]. rewrite Ee. eauto.
      + assert (Hi : i < length envs) by (apply nth_error_Some; congruence).
        destruct (IH (S i) ltac:(lia) Hall) as (H1 & H2 & H3). cbn zeta in *.
        split; [lia|]. split; [|exact H3].
        intros j' e' h' f' Hj En Eh'. destruct (Nat.eq_dec j' i) as [->|Hne].
        * rewrite Ee in En. inversion En; subst. rewrite Eh in Eh'. inversion Eh'; subst. exact Em.
        * apply (H2 j' e' h' f'); [lia|exact En|exact Eh'].
    - cbn zeta. split; [lia|]. split; [intros; lia|]. rewrite Ee. exact Logic.I.
  Qed.

  (* one Read of a by_header_footer reader, up to the envelope it finds *)
  Theorem fixed1_hf_read_proof envs e0 tl s l0 r0 e h footer ls rest k :
    envs = e0 :: tl -> e_hf e0 <> None ->
    nextl (g_in s) = Some (Some l0, r0) ->
    let i := find_env re_match (S (length envs)) envs (g_env s) l0 in
    nth_error envs i = Some e -> e_hf e = Some (h, footer) ->
    hf_lines footer l0 r0 ls rest ->
    f1_read re_match (S k) envs s =
    if e_not_target e then f1_read re_match k envs (mkF1 rest i)
    else (ONode (T ElementNode (e_name e) FNone (kids_spec (undone (e_cols e)) (l0 :: ls))), mkF1 rest i).
  Proof.
    intros -> Hh0 El0 i Ei Eh Hl. cbn [f1_read].
    destruct (e_hf e0) as [hf0|] eqn:E0; [|congruence].
    rewrite El0. fold i. rewrite Ei, Eh.
    pose proof (hf_lines_length _ _ _ _ _ Hl) as Hlen.
    rewrite (hf_loop1_ok footer l0 r0 ls rest Hl (S (length r0)) _ [] ltac:(lia)).
    cbn [app]. rewrite kids_run_spec. reflexivity.
  Qed.

  (* no envelope's header matches the line: the reader reports io.EOF (the rest of the input is not
     looked at - transcribed as is) *)
  Theorem fixed1_hf_unmatched_proof envs e0 tl s l0 r0 k :
    envs = e0 :: tl -> e_hf e0 <> None ->
    nextl (g_in s) = Some (Some l0, r0) ->
    nth_error envs (find_env re_match (S (length envs)) envs (g_env s) l0) = None ->
    fst (f1_read re_match (S k) envs s) = OEOF.
  Proof.
    intros -> Hh0 El0 En. cbn [f1_read].
    destruct (e_hf e0) as [hf0|] eqn:E0; [|congruence].
    rewrite El0, En. reflexivity.
  Qed.
End Fixed1.

(* ---- first matching line wins ------------------------------------------------------------------------- *)
Section FirstWins.
  Variable re_match : pat -> bytes -> bool.

  Lemma kids_run_done c : forall ls, kids_run re_match [(c, true)] ls = [].
  Proof. induction ls as [|l ls IH]; [reflexivity|]. cbn [kids_run apply_line]. exact IH. Qed.

  (* one declared column over the lines of an envelope: it appears at most once, and holds the rune
     slice of the FIRST line its line_pattern matches; later matching lines do not change it *)
  Theorem first_matching_line_wins_proof c : forall ls,
    kids_run re_match [(c, false)] ls =
    match first_match re_match c ls with
    | Some (_, l) => [mk1 c l]
    | None => []
    end.
  Proof.
    induction ls as [|l ls IH]; [reflexivity|].
    cbn [kids_run apply_line first_match].
    destruct (col_match1 re_match c l).
    - rewrite kids_run_done. reflexivity.
    - cbn [app]. rewrite IH. destruct (first_match re_match c ls) as [[j l']|]; reflexivity.
  Qed.
End FirstWins.
