(* C15, XML: under the F12 guard the checksum canon (Model/Pipeline.v j2) determines every
   ingested value.  The guard, as a description of the record (xel):
     XLeaf  <n>text</n>            a text-only element: one text node, NO attributes
     XObj   <n a=".."><k1/><k2/></n>  attributes + element children with pairwise distinct,
                                   non-empty names other than "#attributes"; no text beside them
     XArr   <n><e/><e/>...</n>     two or more element children all of one name, no attributes
                                   (idr.JSONify2 drops the attributes of such an element), no text
   Element and attribute names are structure, text and attribute values are the ingested values:
   two guarded records of the same shape (xshape: names, namespaces, nesting) with equal canon are
   equal.  The two halves of F12 - an attribute on a text-only element, text beside element
   children - are exactly what the guard excludes (Proofs/PipelineCanon.v f12_a..f12_d). *)
From Coq Require Import List NArith Bool Arith Lia.
From Coq.Strings Require Import Byte.
Import ListNotations.
From OV Require Import Base.Bytes Base.Cases Base.Tree Model.Pipeline Proofs.PipelineCanon.

Inductive xel :=
| XLeaf (d : bytes) (fs : fspec) (txt : bytes)
| XObj (d : bytes) (fs : fspec) (attrs : list (bytes * fspec * bytes)) (kids : list xel)
| XArr (d : bytes) (fs : fspec) (kids : list xel).

Section xel_ind2.
  Variable P : xel -> Prop.
  Hypothesis HLeaf : forall d fs txt, P (XLeaf d fs txt).
  Hypothesis HObj : forall d fs attrs kids, Forall P kids -> P (XObj d fs attrs kids).
  Hypothesis HArr : forall d fs kids, Forall P kids -> P (XArr d fs kids).
  Fixpoint xel_ind2 (e : xel) : P e :=
    match e with
    | XLeaf d fs txt => HLeaf d fs txt
    | XObj d fs attrs kids =>
        HObj d fs attrs kids ((fix go (l : list xel) : Forall P l :=
                                 match l with [] => Forall_nil P | x :: r => Forall_cons x (xel_ind2 x) (go r) end) kids)
    | XArr d fs kids =>
        HArr d fs kids ((fix go (l : list xel) : Forall P l :=
                           match l with [] => Forall_nil P | x :: r => Forall_cons x (xel_ind2 x) (go r) end) kids)
    end.
End xel_ind2.

Definition text_node (v : bytes) : tree := T TextNode v (FXml [] []) [].
Definition attr_tree (a : bytes * fspec * bytes) : tree :=
  let '(n, afs, v) := a in T AttributeNode n afs [text_node v].

Fixpoint xtree (e : xel) : tree :=
  match e with
  | XLeaf d fs txt => T ElementNode d fs [text_node txt]
  | XObj d fs attrs kids => T ElementNode d fs (map attr_tree attrs ++ map xtree kids)
  | XArr d fs kids => T ElementNode d fs (map xtree kids)
  end.

Definition xname (e : xel) : bytes := j2_name (xtree e).
Definition aname (a : bytes * fspec * bytes) : bytes := j2_name (attr_tree a).

Definition not_json (fs : fspec) : Prop := match fs with FJson _ => False | _ => True end.
Definition xfs (e : xel) : fspec := match e with XLeaf _ fs _ | XObj _ fs _ _ | XArr _ fs _ => fs end.

(* the guard *)
Fixpoint xguard (e : xel) : Prop :=
  not_json (xfs e) /\
  match e with
  | XLeaf _ _ _ => True
  | XObj _ _ attrs kids =>
      NoDup (map aname attrs) /\ Forall (fun a => not_json (snd (fst a))) attrs /\
      NoDup (map xname kids) /\ ~ In [] (map xname kids) /\ ~ In attributes_key (map xname kids) /\
      (fix go (l : list xel) : Prop := match l with [] => True | k :: r => xguard k /\ go r end) kids
  | XArr _ _ kids =>
      2 <= length kids /\ (exists n, Forall (fun k => xname k = n) kids) /\
      (fix go (l : list xel) : Prop := match l with [] => True | k :: r => xguard k /\ go r end) kids
  end.

Fixpoint xguard_all (l : list xel) : Prop := match l with [] => True | k :: r => xguard k /\ xguard_all r end.

Lemma xguard_all_Forall l : xguard_all l <-> Forall xguard l.
Proof. induction l as [|k r IH]; simpl; split; intro H; auto; [destruct H; constructor; tauto|inversion H; tauto]. Qed.

(* the shape: everything but the text and the attribute values *)
Fixpoint xshape (e : xel) : xel :=
  match e with
  | XLeaf d fs _ => XLeaf d fs []
  | XObj d fs attrs kids => XObj d fs (map (fun a => (fst a, [])) attrs) (map xshape kids)
  | XArr d fs kids => XArr d fs (map xshape kids)
  end.

(* the canon, denotationally *)
Fixpoint xcanon (e : xel) : jv :=
  match e with
  | XLeaf _ _ txt => JStr txt
  | XObj _ _ attrs kids =>
      let obj := map (fun k => (xname k, xcanon k)) kids in
      match attrs with
      | [] => JObj obj
      | _ => JObj (obj ++ [(attributes_key, JObj (map (fun a => (aname a, JStr (snd a))) attrs))])
      end
  | XArr _ _ kids => JArr (map xcanon kids)
  end.

Lemma j2_unfold ty d f ks :
  j2 (T ty d f ks) =
  if is_child_text (T ty d f ks) then child_data (T ty d f ks)
  else if is_child_array (T ty d f ks) then JArr (flat_map (fun k => if is_elem k then [j2 k] else []) ks)
  else obj_finish (fold_left (fun acc k => obj_step (j2 k) acc k) ks ([], [], [])).
Proof. reflexivity. Qed.

Lemma xtree_is_elem e : is_elem (xtree e) = true.
Proof. destruct e; reflexivity. Qed.
Lemma attr_is_attr a : is_attr (attr_tree a) = true /\ is_elem (attr_tree a) = false /\ is_text (attr_tree a) = false.
Proof. destruct a as [[n afs] v]. repeat split. Qed.

Lemma j2_attr a : not_json (snd (fst a)) -> j2 (attr_tree a) = JStr (snd a).
Proof.
  destruct a as [[n afs] v]. simpl. intros Hnj. unfold child_data. simpl.
  destruct afs; simpl in *; try contradiction; now rewrite app_nil_r.
Qed.

Lemma filter_fresh (name : bytes) (l : list (bytes * jv)) :
  ~ In name (map fst l) -> filter (fun kv => negb (bytes_eqb (fst kv) name)) l = l.
Proof.
  induction l as [|[k v] l IH]; intros Hn; simpl; [reflexivity|].
  destruct (bytes_eqb k name) eqn:E.
  - apply bytes_eqb_eq in E. subst. exfalso. apply Hn. now left.
  - simpl. f_equal. apply IH. intro Hi. apply Hn. now right.
Qed.

(* the object loop over the attribute nodes *)
Lemma fold_attrs : forall attrs obj acc arr,
  NoDup (map aname attrs) -> Forall (fun a => not_json (snd (fst a))) attrs ->
  (forall n, In n (map fst acc) -> ~ In n (map aname attrs)) ->
  fold_left (fun st k => obj_step (j2 k) st k) (map attr_tree attrs) (obj, acc, arr)
  = (obj, acc ++ map (fun a => (aname a, JStr (snd a))) attrs, arr).
Proof.
  induction attrs as [|a attrs IH]; intros obj acc arr Hnd Hnj Hf.
  - simpl. now rewrite app_nil_r.
  - cbn [map fold_left]. inversion Hnd; subst. inversion Hnj; subst.
    destruct (attr_is_attr a) as (Ha & He & _).
    unfold obj_step at 2. rewrite He, Ha. rewrite (j2_attr a H3).
    fold (aname a). rewrite filter_fresh.
    + rewrite IH; auto.
      * now rewrite <- app_assoc.
      * intros n Hn. rewrite map_app in Hn. apply in_app_or in Hn as [Hn|[<-|[]]].
        { intro Hi. apply (Hf n Hn). now right. }
        { exact H1. }
    + intro Hi. apply (Hf _ Hi). now left.
Qed.

(* the object loop over element nodes of pairwise distinct names *)
Lemma fold_elems : forall (ts : list tree) obj acc arr,
  Forall (fun t => is_elem t = true) ts -> NoDup (map j2_name ts) ->
  (forall k x, In (k, x) obj -> ~ In k (map j2_name ts)) ->
  fold_left (fun st k => obj_step (j2 k) st k) ts (obj, acc, arr)
  = (obj ++ map (fun t => (j2_name t, j2 t)) ts, acc, arr).
Proof.
  induction ts as [|t ts IH]; intros obj acc arr He Hnd Hf.
  - simpl. now rewrite app_nil_r.
  - cbn [map fold_left]. inversion He; subst. inversion Hnd; subst.
    unfold obj_step at 2. rewrite H1. rewrite obj_put_fresh.
    + rewrite IH; auto.
      * now rewrite <- app_assoc.
      * intros k x Hi. apply in_app_or in Hi as [Hi|[E|[]]].
        { intro Hk. apply (Hf k x Hi). now right. }
        { inversion E; subst. exact H3. }
    + intros k x Hi E. subst. apply (Hf _ x Hi). now left.
Qed.

Lemma no_text_in (l : list tree) : Forall (fun t => is_text t = false) l -> existsb is_text l = false.
Proof. induction 1 as [|t l Ht _ IH]; simpl; [reflexivity|]. now rewrite Ht, IH. Qed.

Lemma xtree_not_text e : is_text (xtree e) = false.
Proof. destruct e; reflexivity. Qed.

Lemma names_not_array (names : list bytes) :
  NoDup names -> ~ In [] names ->
  match names with
  | [] => false
  | n :: r => if forallb (bytes_eqb n) r then (1 <? length names) || (match n with [] => true | _ => false end) else false
  end = false.
Proof.
  intros Hnd Hne. destruct names as [|n [|m r]]; [reflexivity| |].
  - simpl. destruct n; [exfalso; apply Hne; now left|reflexivity].
  - simpl. destruct (bytes_eqb n m) eqn:E; [|reflexivity].
    apply bytes_eqb_eq in E. subst. inversion Hnd; subst. exfalso. apply H1. now left.
Qed.

Lemma filter_elem_attrs_kids attrs kids :
  filter is_elem (map attr_tree attrs ++ map xtree kids) = map xtree kids.
Proof.
  rewrite filter_app. replace (filter is_elem (map attr_tree attrs)) with (@nil tree).
  - simpl. induction kids as [|k r IH]; simpl; [reflexivity|]. rewrite xtree_is_elem. now rewrite IH.
  - induction attrs as [|a r IH]; simpl; [reflexivity|]. destruct (attr_is_attr a) as (_ & He & _). now rewrite He.
Qed.

Lemma filter_elem_kids kids : filter is_elem (map xtree kids) = map xtree kids.
Proof. induction kids as [|k r IH]; simpl; [reflexivity|]. rewrite xtree_is_elem. now rewrite IH. Qed.

Lemma fs_flags_xml fs t : t_fs t = fs -> not_json fs -> json_flag t 2 = false /\ json_flag t 1 = false.
Proof. intros E Hn. unfold json_flag. rewrite E. destruct fs; simpl in *; tauto. Qed.

(* ---- the canon of a guarded record ------------------------------------------------------------------ *)
Theorem j2_xtree : forall e, xguard e -> j2 (xtree e) = xcanon e.
Proof.
  induction e as [d fs txt|d fs attrs kids IH|d fs kids IH] using xel_ind2; intros [Hnj Hg].
  - simpl. unfold child_data. simpl. destruct fs; simpl in *; try contradiction; now rewrite app_nil_r.
  - destruct Hg as (Hna & Hnja & Hnk & Hne & Hnk' & Hgk). simpl in Hnj.
    cbn [xtree]. rewrite j2_unfold.
    assert (Htext : is_child_text (T ElementNode d fs (map attr_tree attrs ++ map xtree kids)) = false).
    { unfold is_child_text. cbn [t_kids]. rewrite no_text_in; [reflexivity|].
      apply Forall_app. split; apply Forall_forall; intros t Ht; apply in_map_iff in Ht as (x & <- & _).
      - apply (attr_is_attr x). - apply xtree_not_text. }
    rewrite Htext.
    assert (Harr : is_child_array (T ElementNode d fs (map attr_tree attrs ++ map xtree kids)) = false).
    { unfold is_child_array. destruct (fs_flags_xml fs (T ElementNode d fs (map attr_tree attrs ++ map xtree kids)) eq_refl Hnj) as [-> ->].
      cbn [t_kids]. rewrite filter_elem_attrs_kids, map_map. apply names_not_array; assumption. }
    rewrite Harr. rewrite fold_left_app.
    rewrite (fold_attrs attrs [] [] [] Hna Hnja) by (intros n []).
    rewrite (fold_elems (map xtree kids) [] _ []).
    + cbn [app]. rewrite map_map.
      assert (Ekids : map (fun x => (j2_name (xtree x), j2 (xtree x))) kids = map (fun k => (xname k, xcanon k)) kids).
      { apply xguard_all_Forall in Hgk. clear -IH Hgk. induction kids as [|k r IHr]; [reflexivity|].
        inversion IH; subst. inversion Hgk; subst. simpl. rewrite (H1 H3). f_equal. apply IHr; auto. }
      rewrite Ekids. unfold obj_finish. cbn [xcanon].
      destruct attrs as [|a attrs]; [reflexivity|].
      cbn [map app]. rewrite filter_fresh; [reflexivity|].
      rewrite map_map. simpl. exact Hnk'.
    + apply Forall_forall. intros t Ht. apply in_map_iff in Ht as (x & <- & _). apply xtree_is_elem.
    + rewrite map_map. exact Hnk.
    + intros k x [].
  - destruct Hg as (Hlen & (n & Hsame) & Hgk). simpl in Hnj.
    cbn [xtree]. rewrite j2_unfold.
    assert (Htext : is_child_text (T ElementNode d fs (map xtree kids)) = false).
    { unfold is_child_text. cbn [t_kids]. rewrite no_text_in; [reflexivity|].
      apply Forall_forall; intros t Ht; apply in_map_iff in Ht as (x & <- & _). apply xtree_not_text. }
    rewrite Htext.
    assert (Harr : is_child_array (T ElementNode d fs (map xtree kids)) = true).
    { unfold is_child_array. destruct (fs_flags_xml fs (T ElementNode d fs (map xtree kids)) eq_refl Hnj) as [-> ->].
      cbn [t_kids]. rewrite filter_elem_kids, map_map.
      destruct kids as [|k1 [|k2 r]]; simpl in Hlen; try lia.
      inversion Hsame as [|? ? H1 Hr]; subst.
      assert (Hall : forallb (bytes_eqb (j2_name (xtree k1))) (map (fun x => j2_name (xtree x)) (k2 :: r)) = true).
      { apply forallb_forall. intros m Hm. apply in_map_iff in Hm as (x & <- & Hx).
        apply bytes_eqb_eq. rewrite Forall_forall in Hr. unfold xname in *. now rewrite (Hr x Hx). }
      change (map (fun x => j2_name (xtree x)) (k1 :: k2 :: r))
        with (j2_name (xtree k1) :: map (fun x => j2_name (xtree x)) (k2 :: r)).
      cbv beta iota. rewrite Hall. reflexivity. }
    rewrite Harr. cbn [xcanon]. f_equal.
    apply xguard_all_Forall in Hgk. clear -IH Hgk. induction kids as [|k r IHr]; [reflexivity|].
    inversion IH; subst. inversion Hgk; subst. cbn [map flat_map]. rewrite xtree_is_elem.
    rewrite (H1 H3). cbn [app]. f_equal. apply IHr; auto.
Qed.

(* ---- equal shape and equal canon => equal record ------------------------------------------------------ *)
Lemma map_pair_inj {A} (f : A -> bytes) (g : A -> jv) (l l' : list A) :
  map (fun k => (f k, g k)) l = map (fun k => (f k, g k)) l' ->
  map g l = map g l'.
Proof.
  revert l'. induction l as [|x l IH]; intros [|y l'] E; simpl in E; try discriminate; [reflexivity|].
  inversion E. simpl. f_equal; auto.
Qed.

Lemma attrs_inj : forall (attrs attrs' : list (bytes * fspec * bytes)),
  map (fun a => (fst a, @nil byte)) attrs = map (fun a => (fst a, [])) attrs' ->
  map (fun a => (aname a, JStr (snd a))) attrs = map (fun a => (aname a, JStr (snd a))) attrs' ->
  attrs = attrs'.
Proof.
  induction attrs as [|[[n f] v] r IH]; intros [|[[n' f'] v'] r'] Es Ec; simpl in *; try discriminate; [reflexivity|].
  inversion Es; subst. inversion Ec; subst. f_equal. apply IH; auto.
Qed.

Theorem xcanon_inj : forall e e', xshape e = xshape e' -> xcanon e = xcanon e' -> e = e'.
Proof.
  induction e as [d fs txt|d fs attrs kids IH|d fs kids IH] using xel_ind2;
    intros [d' fs' txt'|d' fs' attrs' kids'|d' fs' kids'] Es Ec; simpl in Es; try discriminate.
  - inversion Es; subst. simpl in Ec. inversion Ec. reflexivity.
  - inversion Es as [[Ed Ef Ea Ek]]. subst d' fs'.
    assert (Ekids : map xcanon kids = map xcanon kids' /\ attrs = attrs').
    { cbn [xcanon] in Ec.
      destruct attrs as [|a attrs]; destruct attrs' as [|a' attrs']; try discriminate.
      - inversion Ec as [E]. split; [exact (map_pair_inj _ _ _ _ E)|reflexivity].
      - inversion Ec as [E]. apply app_inj_tail in E as [E1 E2]. split; [exact (map_pair_inj _ _ _ _ E1)|].
        apply attrs_inj; [exact Ea|]. simpl in *. congruence. }
    destruct Ekids as [Ekc ->]. f_equal.
    clear Ec Ea Es. revert kids' Ek Ekc. induction kids as [|k r IHr]; intros [|k' r'] Ek Ekc; simpl in *; try discriminate; [reflexivity|].
    injection Ek as Ek1 Ek2. injection Ekc as Ec1 Ec2. apply Forall_cons_iff in IH as [IHk IHrest].
    f_equal; [apply IHk; assumption|apply IHr; assumption].
  - inversion Es as [[Ed Ef Ek]]. subst d' fs'. cbn [xcanon] in Ec. inversion Ec as [Ekc]. f_equal.
    clear Ec Es. revert kids' Ek Ekc. induction kids as [|k r IHr]; intros [|k' r'] Ek Ekc; simpl in *; try discriminate; [reflexivity|].
    injection Ek as Ek1 Ek2. injection Ekc as Ec1 Ec2. apply Forall_cons_iff in IH as [IHk IHrest].
    f_equal; [apply IHk; assumption|apply IHr; assumption].
Qed.

(* different ingested values (text of text-only elements, attribute values) => different canon,
   for guarded XML records of one shape *)
Theorem canon_injective_xml : forall e e',
  xguard e -> xguard e' -> xshape e = xshape e' ->
  j2 (xtree e) = j2 (xtree e') -> e = e'.
Proof.
  intros e e' Hg Hg' Es E. rewrite !j2_xtree in E by assumption. now apply xcanon_inj.
Qed.
