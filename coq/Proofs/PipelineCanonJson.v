(* C15, JSON: the checksum canon (Model/Pipeline.v j2) of a node the JSON stream reader builds
   for a value v is the value tree [jv_of v] - same keys in the same order, arrays element by
   element, strings, booleans, null, and numbers as the text strconv.FormatFloat printed into the
   node.  Hence equal canon implies equal value (canon_injective_json) for values with pairwise
   distinct object keys whose numbers survive strconv (the hypotheses of C08's json_roundtrip).
   The trees are the ones of C08 (Model/Json.v jnode = what jbuild builds: json_tree_built). *)
From Coq Require Import List NArith Bool Arith Lia.
From Coq.Strings Require Import Byte.
Import ListNotations.
From OV Require Import Base.Bytes Base.Cases Base.Tree Model.Json Proofs.Json.
From OV Require Model.Pipeline Proofs.PipelineCanon.

Module P := OV.Model.Pipeline.
Module PC := OV.Proofs.PipelineCanon.

Section CanonJson.
  Variable fmtf : N -> bytes.
  Variable parsef : bytes -> N.
  Notation jnode := (jnode fmtf).
  Notation jelem := (jelem fmtf).
  Notation jmember := (jmember fmtf).

  Fixpoint jv_of (v : jvalue) : P.jv :=
    match v with
    | JNull => P.JNull
    | JBool b => P.JBool (if b then b_true else b_false)
    | JNum k => P.JNum (fmtf k)
    | JStr s => P.JStr s
    | JArr xs => P.JArr (map jv_of xs)
    | JObj kvs => P.JObj (map (fun kv => (fst kv, jv_of (snd kv))) kvs)
    end.

  Lemma jnode_is_elem d base v : P.is_elem (jnode ElementNode d base v) = true.
  Proof. destruct v; reflexivity. Qed.
  Lemma jnode_j2_name ty d base v : P.j2_name (jnode ty d base v) = d.
  Proof. destruct v; reflexivity. Qed.

  Lemma no_text_elems (l : list tree) :
    Forall (fun c => P.is_elem c = true) l -> existsb P.is_text l = false.
  Proof.
    induction 1 as [|c l Hc _ IH]; simpl; [reflexivity|]. rewrite IH.
    unfold P.is_elem, P.is_text in *. destruct (t_type c); try discriminate; reflexivity.
  Qed.

  Lemma arr_flag base : base_ok base -> N.testbit (N.lor base JSONArr) 2 = true.
  Proof. intros [->|[->| ->]]; reflexivity. Qed.
  Lemma obj_flags base : base_ok base ->
    N.testbit (N.lor base JSONObj) 2 = false /\ N.testbit (N.lor base JSONObj) 1 = true.
  Proof. intros [->|[->| ->]]; split; reflexivity. Qed.

  Lemma elem_base_ok x : base_ok (if is_scalar x then JSONProp else 0%N).
  Proof. unfold base_ok. destruct (is_scalar x); auto. Qed.
  Lemma prop_base_ok : base_ok JSONProp.
  Proof. unfold base_ok. auto. Qed.

  Lemma keys_distinct_cons k r : keys_distinct (k :: r) = true ->
    existsb (bytes_eqb k) r = false /\ keys_distinct r = true.
  Proof. simpl. intro E. apply andb_prop in E as [E1 E2]. apply negb_true_iff in E1. auto. Qed.

  (* the object loop on the member nodes of distinct keys: one entry per member, in order *)
  Lemma fold_members : forall kvs obj arr,
    keys_distinct (map fst kvs) = true ->
    (forall k x, In (k, x) obj -> existsb (bytes_eqb k) (map fst kvs) = false) ->
    Forall (fun kv => P.j2 (jmember kv) = jv_of (snd kv)) kvs ->
    fold_left (fun acc k => P.obj_step (P.j2 k) acc k) (map jmember kvs) (obj, [], arr)
    = (obj ++ map (fun kv => (fst kv, jv_of (snd kv))) kvs, [], arr).
  Proof.
    induction kvs as [|[k x] kvs IH]; intros obj arr Hd Hf Hall.
    - simpl. now rewrite app_nil_r.
    - cbn [map fold_left fst snd].
      apply keys_distinct_cons in Hd as [Hk Hd]. inversion Hall as [|? ? Hx Hrest]; subst.
      rewrite Hx. unfold P.obj_step at 2.
      change (jmember (k, x)) with (jnode ElementNode k JSONProp x).
      rewrite jnode_is_elem, jnode_j2_name. cbn [snd].
      rewrite PC.obj_put_fresh.
      + rewrite IH; auto.
        * now rewrite <- app_assoc.
        * intros k' x' Hi. apply in_app_or in Hi as [Hi|[E|[]]].
          { specialize (Hf k' x' Hi). simpl in Hf. apply orb_false_elim in Hf. tauto. }
          { inversion E; subst. exact Hk. }
      + intros k' x' Hi E. subst k'. specialize (Hf k x' Hi). simpl in Hf.
        rewrite (proj2 (bytes_eqb_eq k k) eq_refl) in Hf. discriminate.
  Qed.

  Theorem j2_jnode : forall v, jwf v = true ->
    forall ty d base, base_ok base -> P.j2 (jnode ty d base v) = jv_of v.
  Proof.
    induction v as [| b | n | s | xs IH | kvs IH] using jvalue_ind2; intros Hwf ty d base Hb.
    - destruct Hb as [->|[->| ->]]; reflexivity.
    - destruct Hb as [->|[->| ->]]; destruct b; reflexivity.
    - destruct Hb as [->|[->| ->]]; reflexivity.
    - destruct Hb as [->|[->| ->]]; reflexivity.
    - rewrite jnode_arr. cbn [P.j2]. unfold P.is_child_text. cbn [t_kids].
      assert (Hel : Forall (fun c => P.is_elem c = true) (map jelem xs)).
      { apply Forall_forall. intros c Hc. apply in_map_iff in Hc as (x & <- & _). apply jnode_is_elem. }
      rewrite (no_text_elems _ Hel). cbn [andb].
      unfold P.is_child_array, P.json_flag. cbn [t_fs]. rewrite (arr_flag base Hb).
      change (jv_of (JArr xs)) with (P.JArr (map jv_of xs)). f_equal. rewrite jwf_arr in Hwf.
      clear Hel. induction xs as [|x xs IHxs]; [reflexivity|].
      simpl in Hwf. apply andb_prop in Hwf as [Hx Hxs]. inversion IH as [|? ? IHx IHr]; subst.
      cbn [map flat_map].
      change (jelem x) with (jnode ElementNode [] (if is_scalar x then JSONProp else 0%N) x).
      rewrite jnode_is_elem.
      rewrite (IHx Hx _ _ _ (elem_base_ok x)). cbn [app]. f_equal. apply IHxs; auto.
    - rewrite jnode_obj. cbn [P.j2]. unfold P.is_child_text. cbn [t_kids].
      assert (Hel : Forall (fun c => P.is_elem c = true) (map jmember kvs)).
      { apply Forall_forall. intros c Hc. apply in_map_iff in Hc as (x & <- & _). apply jnode_is_elem. }
      rewrite (no_text_elems _ Hel). cbn [andb].
      unfold P.is_child_array, P.json_flag. cbn [t_fs].
      destruct (obj_flags base Hb) as [E2 E1]. rewrite E2, E1.
      rewrite jwf_obj in Hwf. apply andb_prop in Hwf as [Hd Hvals].
      rewrite (fold_members kvs [] [] Hd).
      + reflexivity.
      + intros k x [].
      + clear Hd Hel. induction kvs as [|[k x] kvs IHk]; constructor.
        * simpl in Hvals. apply andb_prop in Hvals as [Hx _]. inversion IH; subst.
          unfold Proofs.Json.jmember. cbn [fst snd]. apply H1; [exact Hx|apply prop_base_ok].
        * simpl in Hvals. apply andb_prop in Hvals as [_ Hr]. inversion IH; subst. apply IHk; auto.
  Qed.

  (* ---- jv_of is injective on values whose numbers survive strconv ------------------------------ *)
  Definition float_rt (k : N) : Prop := parsef (fmtf k) = k.

  Lemma b_true_false : b_true <> b_false.
  Proof. discriminate. Qed.

  Theorem jv_of_inj : forall v v', jnums float_rt v -> jnums float_rt v' -> jv_of v = jv_of v' -> v = v'.
  Proof.
    induction v as [| b | n | s | xs IH | kvs IH] using jvalue_ind2; intros v' Hn Hn' E;
      destruct v' as [| b' | n' | s' | xs' | kvs']; simpl in E; try discriminate; try reflexivity.
    - inversion E as [E1]. destruct b, b'; try reflexivity; exfalso;
        [apply b_true_false|apply b_true_false]; congruence.
    - inversion E as [E1]. simpl in Hn, Hn'. unfold float_rt in *. congruence.
    - inversion E; subst; reflexivity.
    - inversion E as [E1]. f_equal. rewrite jnums_arr in Hn, Hn'. clear E.
      revert xs' Hn' E1. induction xs as [|x xs IHxs]; intros [|x' xs'] Hn' E1; simpl in E1; try discriminate; auto.
      inversion E1. inversion IH; subst. simpl in Hn, Hn'. destruct Hn as [Hx Hxs]. destruct Hn' as [Hx' Hxs'].
      f_equal; [apply H3; auto|apply IHxs; auto].
    - inversion E as [E1]. f_equal. rewrite jnums_obj in Hn, Hn'. clear E.
      revert kvs' Hn' E1. induction kvs as [|[k x] kvs IHk]; intros [|[k' x'] kvs'] Hn' E1; simpl in E1; try discriminate; auto.
      inversion E1. inversion IH; subst. simpl in Hn, Hn'. destruct Hn as [Hx Hxs]. destruct Hn' as [Hx' Hxs'].
      f_equal; [f_equal; apply H4; auto|apply IHk; auto].
  Qed.

  (* different ingested values => different canon, for every node the JSON reader builds (the
     document node, a property node, an array element: any type, name and base flags) *)
  Theorem canon_injective_json : forall v v' ty d base ty' d' base',
    jwf v = true -> jwf v' = true -> jnums float_rt v -> jnums float_rt v' ->
    base_ok base -> base_ok base' ->
    P.j2 (jnode ty d base v) = P.j2 (jnode ty' d' base' v') -> v = v'.
  Proof.
    intros v v' ty d base ty' d' base' Hw Hw' Hn Hn' Hb Hb' E.
    rewrite !j2_jnode in E by assumption. now apply jv_of_inj.
  Qed.

  (* the same for the documents the reader builds from the token streams of two values (C08
     json_tree_built: jbuild (jtokens v) = Some (jtree v)) *)
  Corollary canon_injective_json_built : forall v v' t t',
    jwf v = true -> jwf v' = true -> jnums float_rt v -> jnums float_rt v' ->
    jbuild fmtf (jtokens v) = Some t -> jbuild fmtf (jtokens v') = Some t' ->
    P.j2 t = P.j2 t' -> v = v'.
  Proof.
    intros v v' t t' Hw Hw' Hn Hn' Hb Hb' E.
    rewrite (jbuild_jtree fmtf) in Hb, Hb'. inversion Hb; inversion Hb'; subst.
    unfold jtree in E. eapply canon_injective_json; eauto; unfold base_ok; auto.
  Qed.
End CanonJson.
