(* C13 with JavaScript: the evaluator-side cache state C of the pipeline instantiated with C20's
   JavaScript layer state (Model/Js.v jsstate: disableCaching switch, VM pool, program cache,
   node-JSON cache - any capacities, any contents) and the hypotheses eval_caches_sound /
   CInv_mono of Proofs/Pipeline.v DISCHARGED from C20's theorems (js_call_spec, prog_cache_pure,
   get_node_json_fresh, run_on_restores behind them), under the F6 guard.

   How the two models are composed.  The C02 evaluator consults custom functions through a pure
   oracle.  Per record, the JavaScript calls the evaluation issues (with the scheduling
   nondeterminism of each: which pooled VM, the two Go map iteration orders) are given by
   [jscalls] (a Section variable: which calls ParseNode makes is C02's business; what they return
   and what they do to the caches is C20's).  The record is evaluated as follows: the calls run
   through the REAL stateful layer (Js.run) from the current cache state; the answers it gives
   are tabulated; the evaluator's oracle answers a javascript / javascript_with_context call from
   that table (an invocation not in the table is answered as an uncached call); the cache state
   after the record is the one Js.run leaves.  Hence a stale or leaking cache DOES change the
   record's result in this model (F6 does), and the theorem says it cannot under the guard.

   Guard (js_guard, the content_stable_per_id of DESIGN section 6 F6 at pipeline level): the calls
   of a record are well-formed (call_wf: the arg map iterations enumerate its keys), every node
   passed to javascript_with_context is a node of the record itself, and within a record a node
   ID determines the node's JSON. *)
From Coq Require Import String List ZArith NArith Bool Lia.
Import ListNotations.
From OV Require Import Base.Bytes Base.Cases Base.Tree Model.Value Model.XPathFrag Model.Decl Model.Eval.
From OV Require Import Proofs.EvalPure Proofs.EvalCache Proofs.PipelineEvalExt.
From OV Require Import Model.Js Proofs.Js.
From OV Require Model.Pipeline Proofs.Pipeline Proofs.PipelineC02.

Module P := OV.Model.Pipeline.
Module PP := OV.Proofs.Pipeline.
Module PC := OV.Proofs.PipelineC02.

Definition ev_of (cs : call * sched) : event := EvCall (fst cs) (snd cs).

Lemma calls_of_map_ev l : calls_of (map ev_of l) = l.
Proof. induction l as [|[c sc] l IH]; simpl; [reflexivity|]. unfold calls_of in *. simpl. now rewrite IH. Qed.

Section JS.
  Variable r : rt.
  Variable compile : N -> option script.
  Hypothesis r_wf : rt_wf r.

  (* the evaluator's other externals *)
  Variable query : tree -> bytes -> path -> option (list path).
  Variable ext : bytes -> option bytes.
  Variable fsigs : bytes -> option fsig.
  Variable fcall0 : tree -> bytes -> path -> list value -> cfres.   (* the non-JavaScript custom functions *)
  Variable pcall : tree -> bytes -> path -> cfres.
  Hypothesis query_valid : forall root x p ps,
    PC.valid root p -> query root x p = Some ps -> Forall (PC.valid root) ps.

  (* the JavaScript call an invocation of a custom function is (None: not javascript[_with_context]);
     node IDs are not visible here (the call is identified up to the node ID) *)
  Variable js_of : tree -> bytes -> path -> list value -> option (call * sched).
  (* does the asked call match a tabulated one (same script, args, node JSON, schedule)? *)
  Variable matches : call * sched -> call * sched -> bool.
  Hypothesis matches_spec : forall a b, matches a b = true ->
    call_spec r compile (fst a) (snd a) = call_spec r compile (fst b) (snd b).
  Variable cf_of : outcome * option bytes -> cfres.     (* outcome -> Go value / error *)

  (* the JavaScript calls the evaluation of a record issues, in order *)
  Variable jscalls : bool -> vdecl -> P.world -> list (call * sched).
  Variable js_guard : vdecl -> Prop.
  Hypothesis jscalls_wf : forall m s w, js_guard s -> NoDup (P.w_ids w) ->
    forall c sc, In (c, sc) (jscalls m s w) ->
      call_wf c sc /\ (forall id j, c_node c = Some (id, j) -> In id (P.w_rec_ids w)).
  Hypothesis jscalls_stable : forall m s w, js_guard s -> NoDup (P.w_ids w) ->
    content_stable_per_id (map fst (jscalls m s w)).

  Variable progcap nodecap : N.
  Definition c0 : jsstate := st_init false progcap nodecap.

  Definition table := list ((call * sched) * (outcome * option bytes)).

  Definition answer (tab : table) (cs : call * sched) : outcome * option bytes :=
    match find (fun e => matches cs (fst e)) tab with
    | Some e => snd e
    | None => call_spec r compile (fst cs) (snd cs)
    end.

  Definition fcall_tab (tab : table) (root : tree) (name : bytes) (p : path) (args : list value) : cfres :=
    match js_of root name p args with
    | Some cs => cf_of (answer tab cs)
    | None => fcall0 root name p args
    end.

  (* ParseNode with the JavaScript layer *)
  Definition eval_js (memo_on : bool) (c : jsstate) (s : vdecl) (w : P.world) : option value * jsstate :=
    let calls := jscalls memo_on s w in
    let ro := Js.run r compile c (map ev_of calls) in
    (fst (PC.eval_c02 query ext fsigs (fcall_tab (combine calls (snd ro))) pcall memo_on tt s w), fst ro).

  (* ---- the cache invariant ---------------------------------------------------------------------- *)
  (* pooled VMs equal new ones; cached programs are the compilation of their text; the node-JSON
     cache is consistent with EVERY content-stable family of calls on node IDs not handed out yet *)
  Definition CInvJ (used : list N) (c : jsstate) : Prop :=
    pool_ok r (st_pool c) /\ prog_ok compile c /\
    forall all, content_stable_per_id all ->
      (forall c' id j, In c' all -> c_node c' = Some (id, j) -> ~ In id used) -> node_ok all c.

  Lemma CInvJ_mono : forall used used' c,
    (forall x, In x used -> In x used') -> CInvJ used c -> CInvJ used' c.
  Proof.
    intros used used' c Hs (Hp & Hg & Hn). split; [exact Hp|split; [exact Hg|]].
    intros all Hst Hids. apply Hn; [exact Hst|]. intros c' id j Hc Hnode Hu. eapply Hids; eauto.
  Qed.

  Lemma CInvJ_init : CInvJ [] c0.
  Proof. split; [constructor|split; [constructor|]]. intros all _ _. constructor. Qed.

  (* running calls of a family the state is consistent with *)
  Lemma run_calls_ok all : content_stable_per_id all ->
    forall calls c,
    (forall cs, In cs calls -> In (fst cs) all /\ call_wf (fst cs) (snd cs)) ->
    st_ok r compile all c ->
    snd (Js.run r compile c (map ev_of calls)) = map (fun cs => call_spec r compile (fst cs) (snd cs)) calls
    /\ st_ok r compile all (fst (Js.run r compile c (map ev_of calls))).
  Proof.
    intros Hst. induction calls as [|[cl sc] t IH]; intros c Hall Hok; simpl; [auto|].
    destruct (Hall (cl, sc) (or_introl eq_refl)) as [Hin Hcw]. simpl in Hin, Hcw.
    destruct (js_call_spec r compile all c cl sc r_wf Hst Hin Hcw Hok) as [Hs Hok1].
    destruct (js_call r compile c cl sc) as [c1 o]; simpl in *. subst o.
    destruct (IH c1 (fun cs H => Hall cs (or_intror H)) Hok1) as [IH1 IH2].
    destruct (Js.run r compile c1 (map ev_of t)) as [c2 os]; simpl in *. split; [now rewrite IH1|exact IH2].
  Qed.

  Lemma node_ok_weaken all all' c : (forall x, In x all' -> In x all) -> node_ok all c -> node_ok all' c.
  Proof.
    intros Hs H. unfold node_ok, lru_ok in *. eapply List.Forall_impl; [|exact H].
    intros [id b] Hp c' now Hin Hc. simpl in *. eapply Hp; eauto.
  Qed.

  Lemma stable_app all all' (ids : list N) :
    content_stable_per_id all -> content_stable_per_id all' ->
    (forall c id j, In c all -> c_node c = Some (id, j) -> In id ids) ->
    (forall c id j, In c all' -> c_node c = Some (id, j) -> ~ In id ids) ->
    content_stable_per_id (all ++ all').
  Proof.
    intros H1 H2 Hi Hn c1 c2 id b1 b2 Hc1 Hc2 E1 E2.
    apply in_app_or in Hc1. apply in_app_or in Hc2.
    destruct Hc1 as [Hc1|Hc1], Hc2 as [Hc2|Hc2].
    - exact (H1 c1 c2 id b1 b2 Hc1 Hc2 E1 E2).
    - exfalso. apply (Hn c2 id b2 Hc2 E2). apply (Hi c1 id b1 Hc1 E1).
    - exfalso. apply (Hn c1 id b1 Hc1 E1). apply (Hi c2 id b2 Hc2 E2).
    - exact (H2 c1 c2 id b1 b2 Hc1 Hc2 E1 E2).
  Qed.

  (* the record's calls, run from any consistent cache state, give the uncached answers and leave
     a consistent state, the record's IDs now counting as handed out *)
  Lemma run_record_ok used c m s w :
    CInvJ used c -> (forall i, In i (P.w_rec_ids w) -> ~ In i used) -> js_guard s -> NoDup (P.w_ids w) ->
    snd (Js.run r compile c (map ev_of (jscalls m s w)))
      = map (fun cs => call_spec r compile (fst cs) (snd cs)) (jscalls m s w)
    /\ CInvJ (P.w_rec_ids w ++ used) (fst (Js.run r compile c (map ev_of (jscalls m s w)))).
  Proof.
    intros (Hp & Hg & Hn) Hfresh Hgd Hnd.
    set (calls := jscalls m s w). set (all := map fst calls).
    assert (Hst : content_stable_per_id all) by (apply jscalls_stable; assumption).
    assert (Hids : forall c' id j, In c' all -> c_node c' = Some (id, j) -> In id (P.w_rec_ids w)).
    { intros c' id j Hc Hnode. apply in_map_iff in Hc as ([c'' sc] & <- & Hin).
      destruct (jscalls_wf m s w Hgd Hnd c'' sc Hin) as [_ H]. eapply H; eauto. }
    assert (Hcalls : forall fam, (forall x, In x all -> In x fam) ->
              forall cs, In cs calls -> In (fst cs) fam /\ call_wf (fst cs) (snd cs)).
    { intros fam Hsub [c' sc] Hin. split.
      - apply Hsub. apply in_map_iff. exists (c', sc). auto.
      - apply (jscalls_wf m s w Hgd Hnd c' sc Hin). }
    split.
    - assert (Hok : st_ok r compile all c).
      { split; [exact Hp|split; [exact Hg|]]. apply Hn; [exact Hst|].
        intros c' id j Hc Hnode Hu. apply (Hfresh id); [eapply Hids; eauto|exact Hu]. }
      apply (run_calls_ok all Hst calls c (Hcalls all (fun x H => H)) Hok).
    - assert (Hok : st_ok r compile all c).
      { split; [exact Hp|split; [exact Hg|]]. apply Hn; [exact Hst|].
        intros c' id j Hc Hnode Hu. apply (Hfresh id); [eapply Hids; eauto|exact Hu]. }
      destruct (run_calls_ok all Hst calls c (Hcalls all (fun x H => H)) Hok) as [_ (Hp1 & Hg1 & _)].
      split; [exact Hp1|split; [exact Hg1|]].
      intros all' Hst' Hids'.
      (* run the same calls as members of the family all ++ all' *)
      assert (Hst2 : content_stable_per_id (all ++ all')).
      { apply (stable_app all all' (P.w_rec_ids w)); auto.
        intros c' id j Hc Hnode Hi. eapply Hids'; eauto. apply in_or_app. now left. }
      assert (Hok2 : st_ok r compile (all ++ all') c).
      { split; [exact Hp|split; [exact Hg|]]. apply Hn; [exact Hst2|].
        intros c' id j Hc Hnode Hu. apply in_app_or in Hc as [Hc|Hc].
        - apply (Hfresh id); [eapply Hids; eauto|exact Hu].
        - eapply Hids'; eauto. apply in_or_app. now right. }
      destruct (run_calls_ok (all ++ all') Hst2 calls c
                  (Hcalls (all ++ all') (fun x H => in_or_app _ _ _ (or_introl H))) Hok2) as [_ (_ & _ & Hn2)].
      eapply node_ok_weaken; [|exact Hn2]. intros x Hx. apply in_or_app. now right.
  Qed.

  (* a table of uncached answers is invisible *)
  Lemma answer_spec tab : Forall (fun e => snd e = call_spec r compile (fst (fst e)) (snd (fst e))) tab ->
    forall cs, answer tab cs = call_spec r compile (fst cs) (snd cs).
  Proof.
    intros Ht cs. unfold answer. destruct (find (fun e => matches cs (fst e)) tab) as [e|] eqn:E; [|reflexivity].
    apply find_some in E as [Hin Hm]. rewrite Forall_forall in Ht. rewrite (Ht e Hin).
    symmetry. apply matches_spec. exact Hm.
  Qed.

  Lemma fcall_tab_spec tab : Forall (fun e => snd e = call_spec r compile (fst (fst e)) (snd (fst e))) tab ->
    forall root n p a, fcall_tab tab root n p a = fcall_tab [] root n p a.
  Proof.
    intros Ht root n p a. unfold fcall_tab. destruct (js_of root n p a) as [cs|]; [|reflexivity].
    f_equal. rewrite (answer_spec tab Ht). reflexivity.
  Qed.

  Lemma combine_spec_table calls :
    Forall (fun e => snd e = call_spec r compile (fst (fst e)) (snd (fst e)))
           (combine calls (map (fun cs => call_spec r compile (fst cs) (snd cs)) calls)).
  Proof. induction calls as [|cs t IH]; simpl; constructor; auto. Qed.

  (* the C02 evaluator depends on the oracle only through its values *)
  Lemma eval_c02_ext (fc fc' : tree -> bytes -> path -> list value -> cfres) :
    (forall root n p a, fc root n p a = fc' root n p a) ->
    forall m c s w, fst (PC.eval_c02 query ext fsigs fc pcall m c s w) = fst (PC.eval_c02 query ext fsigs fc' pcall m c s w).
  Proof.
    intros Hf m c s w. unfold PC.eval_c02.
    destruct (wf_b true s) eqn:Hwf; simpl; [|reflexivity].
    destruct (PC.world_ok w) eqn:Hok; simpl; [|reflexivity].
    f_equal.
    set (root := PC.root_of w).
    assert (Hnc : forall f, eval_nocache root (query root) ext fsigs (f root) (pcall root) s (PC.cursor_of w)
                            = peval root (query root) ext fsigs (f root) (pcall root) s (PC.cursor_of w)).
    { intros f. apply (nocache_denotes root (query root) ext fsigs (f root) (pcall root) (PC.valid root) s
                         (query_valid root) Hwf s (PC.cursor_of w) (PC.top_in_subdecls s) (PC.cursor_valid w)). }
    assert (Hc : forall f, fst (eval_cached root (query root) ext fsigs (f root) (pcall root) PC.optN_eqb (PC.nid_of w) s (PC.cursor_of w) [])
                           = eval_nocache root (query root) ext fsigs (f root) (pcall root) s (PC.cursor_of w)).
    { intros f. apply (eval_cache_transparent root (query root) ext fsigs (f root) (pcall root) (PC.valid root) s
                         (query_valid root) Hwf (option N) PC.optN_eqb (PC.nid_of w) PC.optN_eqb_sound
                         (PC.nid_injective w Hok) s (PC.cursor_of w) (PC.top_in_subdecls s) (PC.cursor_valid w)). }
    destruct m.
    - rewrite (Hc fc), (Hc fc'), (Hnc fc), (Hnc fc'). apply peval_ext. intros n p a. apply Hf.
    - rewrite (Hnc fc), (Hnc fc'). apply peval_ext. intros n p a. apply Hf.
  Qed.

  (* under the guard, from a consistent cache state, the record's result is the evaluation with
     the uncached oracle *)
  Lemma eval_js_spec used c m s w :
    CInvJ used c -> (forall i, In i (P.w_rec_ids w) -> ~ In i used) -> js_guard s -> NoDup (P.w_ids w) ->
    fst (eval_js m c s w) = fst (PC.eval_c02 query ext fsigs (fcall_tab []) pcall m tt s w)
    /\ CInvJ (P.w_rec_ids w ++ used) (snd (eval_js m c s w)).
  Proof.
    intros Hc Hfresh Hg Hnd. destruct (run_record_ok used c m s w Hc Hfresh Hg Hnd) as [Ho Hc1].
    unfold eval_js. cbn [fst snd]. split; [|exact Hc1].
    rewrite Ho. apply eval_c02_ext. apply fcall_tab_spec. apply combine_spec_table.
  Qed.

  (* ---- the hypotheses of Proofs/Pipeline.v, discharged ------------------------------------------ *)
  Lemma js_caches_sound : forall used c m s w,
    CInvJ used c -> (forall i, In i (P.w_rec_ids w) -> ~ In i used) -> js_guard s -> NoDup (P.w_ids w) ->
    fst (eval_js m c s w) = fst (eval_js m c0 s w) /\ CInvJ (P.w_rec_ids w ++ used) (snd (eval_js m c s w)).
  Proof.
    intros used c m s w Hc Hfresh Hg Hnd.
    destruct (eval_js_spec used c m s w Hc Hfresh Hg Hnd) as [E Hc1]. split; [|exact Hc1].
    rewrite E. symmetry. apply (eval_js_spec [] c0 m s w CInvJ_init); auto.
  Qed.

  Lemma js_cache_transparent : forall s w, js_guard s -> NoDup (P.w_ids w) ->
    fst (eval_js true c0 s w) = fst (eval_js false c0 s w).
  Proof.
    intros s w Hg Hnd.
    rewrite (proj1 (eval_js_spec [] c0 true s w CInvJ_init (fun i _ H => H) Hg Hnd)).
    rewrite (proj1 (eval_js_spec [] c0 false s w CInvJ_init (fun i _ H => H) Hg Hnd)).
    apply (PC.c02_cache_transparent query ext fsigs (fcall_tab []) pcall query_valid).
  Qed.

  Lemma js_id_renaming : forall (f : N -> N) m s w, js_guard s -> NoDup (P.w_ids w) ->
    (forall x y, In x (P.w_ids w) -> In y (P.w_ids w) -> f x = f y -> x = y) ->
    fst (eval_js m c0 s (P.w_rename f w)) = fst (eval_js m c0 s w).
  Proof.
    intros f m s w Hg Hnd Hinj.
    assert (Hnd' : NoDup (P.w_ids (P.w_rename f w))).
    { rewrite PC.w_ids_rename. apply PC.NoDup_map_inj_on; assumption. }
    rewrite (proj1 (eval_js_spec [] c0 m s (P.w_rename f w) CInvJ_init (fun i _ H => H) Hg Hnd')).
    rewrite (proj1 (eval_js_spec [] c0 m s w CInvJ_init (fun i _ H => H) Hg Hnd)).
    apply (PC.c02_id_renaming query ext fsigs (fcall_tab []) pcall query_valid). exact Hinj.
  Qed.

  Variable marshal : value -> option bytes.
  Variable marshal_err_cont : bool.
  Variable H : bytes -> bytes.
  Variable canon : tree -> bytes.
  Notation run_env_js := (P.run_env vdecl value jsstate eval_js marshal marshal_err_cont H canon).

  Definition InvJ (h : P.hid jsstate) : Prop := PP.Inv jsstate CInvJ h.

  (* C13, closed up to the modelling variables: node pool (any state, any schedule), transform
     memo on / off, JavaScript caches on / off / any capacities / any consistent contents, VM
     pool any contents - same results, for schemas inside the guard, JavaScript calls included. *)
  Theorem caches_invisible_js : forall h h' s ctx us,
    InvJ h -> InvJ h' -> js_guard s -> run_env_js h s ctx us = run_env_js h' s ctx us.
  Proof.
    intros h h' s ctx us Hh Hh' Hg.
    exact (PP.caches_invisible_env vdecl value jsstate c0 eval_js marshal marshal_err_cont H canon CInvJ js_guard
             CInvJ_mono js_cache_transparent js_id_renaming js_caches_sound h h' s ctx us Hh Hh' Hg).
  Qed.

  (* C15 with JavaScript: after any list of earlier transforms (all inside the guard) *)
  Theorem run_deterministic_js : forall h h' hist s ctx us,
    InvJ h -> InvJ h' -> Forall (fun x => js_guard (fst (fst x))) hist -> js_guard s ->
    run_env_js (PP.after_history vdecl value jsstate eval_js marshal marshal_err_cont H canon h hist) s ctx us
    = run_env_js h' s ctx us.
  Proof.
    intros h h' hist s ctx us Hh Hh' Hhist Hg.
    exact (PP.run_after_history vdecl value jsstate c0 eval_js marshal marshal_err_cont H canon CInvJ js_guard
             CInvJ_mono js_cache_transparent js_id_renaming js_caches_sound h h' hist s ctx us Hh Hh' Hhist Hg).
  Qed.

  (* C10 with JavaScript *)
  Theorem run_app_js : forall h ha hb s ctx a b,
    InvJ h -> InvJ ha -> InvJ hb -> js_guard s ->
    PP.nofatal (run_env_js ha s ctx a) ->
    run_env_js h s ctx (a ++ b) = run_env_js ha s ctx a ++ run_env_js hb s ctx b.
  Proof.
    intros h ha hb s ctx a b Hh Ha Hb Hg Hn.
    exact (PP.run_app vdecl value jsstate c0 eval_js marshal marshal_err_cont H canon CInvJ js_guard
             CInvJ_mono js_cache_transparent js_id_renaming js_caches_sound h ha hb s ctx a b Hh Ha Hb Hg Hn).
  Qed.

  (* the invariant holds with empty JavaScript caches whatever IDs were handed out *)
  Lemma CInvJ_empty used nocache pc nc : CInvJ used (st_init nocache pc nc).
  Proof. split; [constructor|split; [constructor|]]. intros all _ _. constructor. Qed.

  (* the fresh process satisfies the invariant, with the JS caches switched on or off and any
     capacities *)
  Lemma InvJ_fresh pooling picks memo nocache pc nc :
    InvJ (P.mkHid (P.mkA 0%N [] pooling picks) memo (st_init nocache pc nc)).
  Proof.
    exists []. split.
    - unfold PP.AInv; simpl. repeat split; try constructor. intros i [].
    - split; [constructor|split; [constructor|]]. intros all _ _. constructor.
  Qed.
End JS.
