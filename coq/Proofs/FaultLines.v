(* C16 proofs at the byte level: a fault of the source is not swallowed by the line reader, and
   the lines delivered before it are those of the fault-free run over the same bytes. *)
From Coq Require Import List NArith Bool Arith Lia.
From Coq.Strings Require Import Byte.
Import ListNotations.
From OV Require Import Base.Bytes Base.Cases Base.Utf8 Model.Chunk Proofs.Chunk Proofs.ChunkLines
  Proofs.ChunkBom Proofs.ChunkTop.

Lemma tail_err_not_full t : tail_err t <> IoBufferFull.
Proof. destruct t; discriminate. Qed.

Lemma rl_post_tail line t t' :
  fst (fst (rl_post line (Some (tail_err t)))) = fst (fst (rl_post line (Some (tail_err t')))) /\
  snd (rl_post line (Some (tail_err t))) = false /\
  (snd (fst (rl_post line (Some (tail_err t)))) = None <->
   snd (fst (rl_post line (Some (tail_err t')))) = None) /\
  (snd (fst (rl_post line (Some (tail_err t)))) = None \/
   snd (fst (rl_post line (Some (tail_err t)))) = Some (tail_err t)).
Proof.
  unfold rl_post. destruct t, t'; cbn [tail_err];
    (destruct line as [|c l]; [cbn; intuition discriminate|]);
    destruct (Byte.eqb (last (c :: l) x00) NL); cbn; intuition discriminate.
Qed.

(* One ReadLine on the same bytes with two different tails: same line, same isPrefix, same
   remaining bytes; an error in one run iff an error in the other; the error is the tail's. *)
Lemma a_read_line_tail N data t t' l more oe d1 t1 :
  a_read_line N (data, t) = Ok ((l, more, oe), (d1, t1)) ->
  (oe = None \/ oe = Some (tail_err t)) /\ (t1 = t \/ (t1 = tail_next t /\ d1 = [])) /\
  exists oe' t1', a_read_line N (data, t') = Ok ((l, more, oe'), (d1, t1')) /\
                  (oe = None <-> oe' = None).
Proof.
  unfold a_read_line, a_read_slice.
  destruct (index_byte NL (firstn N data)) as [i|].
  - destruct (rl_post (firstn (S i) data) None) as [[[l0 m0] o0] rew] eqn:E.
    assert (Ho : o0 = None).
    { unfold rl_post in E. destruct (firstn (S i) data); [inversion E; reflexivity|].
      destruct (Byte.eqb _ NL); inversion E; reflexivity. }
    intro H. injection H as <- <- <- <- <-. subst o0.
    split; [left; reflexivity|]. split; [left; reflexivity|].
    exists None, t'. split; [reflexivity|tauto].
  - destruct (length data =? N); [discriminate|].
    destruct (N <? length data).
    + destruct (rl_post (firstn N data) (Some IoBufferFull)) as [[[l0 m0] o0] rew] eqn:E.
      assert (Ho : o0 = None).
      { unfold rl_post in E. destruct (negb _ && _); inversion E; reflexivity. }
      intro H. injection H as <- <- <- <- <-. subst o0.
      split; [left; reflexivity|]. split; [left; reflexivity|].
      exists None, t'. split; [reflexivity|tauto].
    + pose proof (rl_post_tail data t t') as (P1&P2&P3&P4).
      destruct (rl_post data (Some (tail_err t))) as [[[l0 m0] o0] rew].
      destruct (rl_post data (Some (tail_err t'))) as [[[l0' m0'] o0'] rew'] eqn:E'.
      cbn [fst snd] in *. subst rew.
      assert (Hrw : rew' = false).
      { pose proof (rl_post_tail data t' t) as (_&Q&_). rewrite E' in Q. exact Q. }
      subst rew'. injection P1 as -> ->.
      intro H. injection H as <- <- <- <- <-.
      split; [exact P4|]. split; [right; split; reflexivity|].
      exists o0', (tail_next t'). split; [reflexivity|exact P3].
Qed.

Definition In2 (T t : tail) : Prop := T = t \/ T = tail_next t.

Lemma tail_next_idem t : tail_next (tail_next t) = tail_next t.
Proof. destruct t; reflexivity. Qed.

Lemma In2_trans T1 T t : In2 T1 T -> In2 T t -> In2 T1 t.
Proof.
  unfold In2. intros [->| ->] [->| ->]; auto. right. apply tail_next_idem.
Qed.

Definition same_kind (r r' : ioerr + bytes) : Prop :=
  match r, r' with
  | inr l, inr l' => l = l'
  | inl _, inl _ => True
  | _, _ => False
  end.

Definition err_of (e : ioerr) (T : tail) : Prop := e = tail_err T \/ e = tail_err (tail_next T).

Lemma err_of_trans e T1 T : err_of e T1 -> In2 T1 T -> err_of e T.
Proof.
  unfold err_of, In2. intros [->| ->] [->| ->]; auto; rewrite ?tail_next_idem; auto.
Qed.

Lemma a_brl_tail N fuel : forall acc data T T' r d1 T1,
  a_byte_read_line N fuel acc (data, T) = Ok (r, (d1, T1)) ->
  In2 T1 T /\ (forall e, r = inl e -> err_of e T) /\
  exists r' T1', a_byte_read_line N fuel acc (data, T') = Ok (r', (d1, T1')) /\ same_kind r r'.
Proof.
  induction fuel as [|k IH]; intros acc data T T' r d1 T1 H; [discriminate|].
  cbn [a_byte_read_line] in *.
  destruct (a_read_line N (data, T)) as [[[[l more] oe] [d2 t2]]| |] eqn:E; try discriminate.
  destruct (a_read_line_tail N data T T' l more oe d2 t2 E) as (Hoe&Ht2&(oe'&t2'&E'&Hiff)).
  rewrite E'.
  assert (Hin : In2 t2 T) by (unfold In2; destruct Ht2 as [->|[-> _]]; auto).
  destruct oe as [e|].
  - injection H as <- <- <-.
    destruct oe' as [e'|]; [|exfalso; destruct Hiff as [_ Hx]; specialize (Hx eq_refl); discriminate].
    split; [exact Hin|]. split.
    + intros e0 He0. injection He0 as <-. destruct Hoe as [|Hoe]; [discriminate|].
      injection Hoe as ->. left; reflexivity.
    + eexists _, _. split; [reflexivity|exact I].
  - destruct oe' as [e'|]; [exfalso; destruct Hiff as [Hx _]; specialize (Hx eq_refl); discriminate|].
    destruct more.
    + destruct (IH (acc ++ l) d2 t2 t2' r d1 T1 H) as (A&B&(r'&T1'&C&D)).
      split; [eapply In2_trans; eassumption|]. split.
      * intros e He. eapply err_of_trans; [apply B; exact He|exact Hin].
      * eauto.
    + injection H as <- <- <-. split; [exact Hin|]. split; [intros e He; discriminate|].
      eexists _, _. split; [reflexivity|reflexivity].
Qed.

(* The line loop over the same bytes with any two tails delivers the same lines; the error that
   ends it is the tail's (its first or its second error). *)
Theorem a_read_lines_tail N fuel : forall data T T' ls e,
  a_read_lines N fuel (data, T) = Ok (ls, e) ->
  err_of e T /\ exists e', a_read_lines N fuel (data, T') = Ok (ls, e').
Proof.
  induction fuel as [|k IH]; intros data T T' ls e H; [discriminate|].
  cbn [a_read_lines] in *.
  destruct (a_byte_read_line N (S k) [] (data, T)) as [[r [d1 T1]]| |] eqn:E; try discriminate.
  destruct (a_brl_tail N (S k) [] data T T' r d1 T1 E) as (Hin&Herr&(r'&T1'&E'&Hk)).
  rewrite E'. destruct r as [e0|l]; destruct r' as [e0'|l']; cbn in Hk; try contradiction.
  - injection H as <- <-. split; [apply Herr; reflexivity|eauto].
  - subst l'. destruct (a_read_lines N k (d1, T1)) as [[ls1 e1]| |] eqn:E1; try discriminate.
    injection H as <- <-.
    destruct (IH d1 T1 T1' ls1 e1 E1) as (A&(e'&B)). rewrite B.
    split; [eapply err_of_trans; eassumption|eauto].
Qed.

(* Concrete form (C16, line-reader layer): a source that fails after its bytes -- persistently, or
   once and then persistently -- makes the line reader end with one of the source's fault values
   (never io.EOF: the fault is not swallowed), after exactly the lines that the fault-free source
   with the same bytes gives. *)
Definition is_fault_tail (t : tail) : Prop := t <> TEof.

Theorem lines_fault_surfaces N gas fuel cs wl t ls e :
  4 <= N -> runs_ok cs = true -> weight cs + 1 < gas -> is_fault_tail t ->
  a_read_lines N fuel (concat cs, t) = Ok (ls, e) ->
  read_lines source io_read N gas fuel b_init (mkSrc cs wl t) = Ok (ls, e) /\
  (exists f, e = IoFault f) /\
  read_lines source io_read N gas fuel b_init (mkSrc cs wl TEof) = Ok (ls, IoEOF).
Proof.
  intros HN Hr Hg Hft Ha.
  destruct (a_read_lines_tail N fuel (concat cs) t TEof ls e Ha) as (Herr&(e'&Ha')).
  split; [apply lines_spec; assumption|]. split.
  - destruct t; [congruence| |]; destruct Herr as [->| ->]; cbn; eauto.
  - destruct (a_read_lines_tail N fuel (concat cs) TEof TEof ls e' Ha') as (Herr'&_).
    assert (e' = IoEOF) by (destruct Herr' as [->| ->]; reflexivity). subst e'.
    apply lines_spec; assumption.
Qed.

Lemma err_of_fault e t : is_fault_tail t -> err_of e t -> exists f, e = IoFault f.
Proof. intros Hf [->| ->]; destruct t; cbn; eauto; congruence. Qed.

(* The stack of the fixed-length formats (NewTransform's StripBOM probe, then the line reader)
   over a failing source: either the probe itself fails with the fault (NewTransform returns it),
   or the line reader ends with the fault -- in no case with io.EOF. *)
Theorem stack_fault_surfaces N gas fuel cs wl t res :
  4 <= N -> runs_ok cs = true -> weight cs + 1 < gas -> is_fault_tail t ->
  a_bom_lines N fuel (concat cs, t) = Ok res ->
  bom_lines N gas fuel (mkSrc cs wl t) = Ok res /\
  exists f, match res with inl e => e = IoFault f | inr (_, e) => e = IoFault f end.
Proof.
  intros HN Hr Hg Hft Ha. split; [apply bom_lines_spec; assumption|].
  unfold a_bom_lines, a_strip_bom in Ha.
  destruct (concat cs) as [|c0 d].
  - destruct t; [congruence| |]; cbn in Ha; injection Ha as <-; eauto.
  - destruct (decode_rune (c0 :: d)) as [r size].
    destruct (r =? 65279)%N;
      (destruct (a_read_lines N fuel _) as [[ls e]| |] eqn:E; try discriminate;
       injection Ha as <-;
       destruct (a_read_lines_tail N fuel _ t t ls e E) as (Herr&_);
       exact (err_of_fault e t Hft Herr)).
Qed.

From OV Require Import Model.Fault.

(* Known finding F27: one level above the line reader the fault CAN be swallowed.  The line loop
   ends with the fault (lines_fault_surfaces), but the old fixed-length reader with
   by_header_footer envelopes stops at a line that matches no header and answers io.EOF without
   reading on -- and the line that bufio.ReadLine tears off at the fault is such a line. *)
Definition starts_with (p l : bytes) : bool := prefix_eqb p l.
Definition BEG : bytes := [x42; x45; x47].

Theorem hf_envelope_fault_refuted :
  exists p f ls,
    a_read_lines 4096 10 (p, TFault f) = Ok (ls, IoFault f) /\        (* the line reader does report the fault *)
    starts_with BEG (p ++ [x47; x31; x0a]) = true /\                  (* the whole line would have matched *)
    hf_envelope_start [starts_with BEG] ls (IoFault f) = HfEOF.      (* the envelope logic says io.EOF *)
Proof. exists [x42; x45], 7%N, [[x42; x45]]. vm_compute. repeat split; reflexivity. Qed.

(* Inside the guard of the main generators (the torn line still matches its header, or the fault
   falls between lines) the start of an envelope never answers io.EOF for a failing reader. *)
Theorem hf_envelope_start_guarded headers ls e :
  e <> IoEOF ->
  (forall l, In l ls -> l <> [] -> existsb (fun h => h l) headers = true) ->
  hf_envelope_start headers ls e <> HfEOF.
Proof.
  intros He Hg. unfold hf_envelope_start.
  destruct (filter (fun l => negb (is_nil l)) ls) as [|l r] eqn:E.
  - destruct e; congruence.
  - assert (Hin : In l (filter (fun l => negb (is_nil l)) ls)) by (rewrite E; left; reflexivity).
    apply filter_In in Hin as [Hin Hn]. rewrite (Hg l Hin); [discriminate|].
    destruct l; [discriminate|discriminate].
Qed.
