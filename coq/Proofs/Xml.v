(* C08 proofs, XML half, part 1: faithfulness to the token stream.

   xml_faithful_tokens: for EVERY token list (whatever encoding/xml may report, well-formed or
   not, any namespaces), if the first Read with target "." returns a node, then the token view
   of the document tree it hangs in - elements in order with local name and Name.Space,
   attributes as LEADING children in token order with their values, character data - is exactly
   the sequence of tokens consumed (comments / PIs / directives dropped, EndElement names unused).
   Proved by an invariant of the stack machine: the events of the consumed tokens are the events
   of the open frames, bottom to top. *)
From Coq Require Import List NArith Bool Lia.
From Coq.Strings Require Import Byte.
Import ListNotations.
From OV Require Import Base.Bytes Base.Cases Base.Tree Model.Json Model.Xml.

Lemma bytes_eqb_true a b : bytes_eqb a b = true -> a = b.
Proof. apply bytes_eqb_eq. Qed.
Lemma bytes_eqb_rfl a : bytes_eqb a a = true.
Proof. apply bytes_eqb_eq. reflexivity. Qed.
Lemma bytes_eqb_false a b : bytes_eqb a b = false -> a <> b.
Proof. intros H E. subst. rewrite bytes_eqb_rfl in H. discriminate. Qed.
Lemma is_nil_true b : is_nil b = true -> b = [].
Proof. destruct b; [reflexivity|discriminate]. Qed.

(* ---- named versions of the nested recursions of tree_evs ---------------------------------- *)
Definition body_go : list tree -> bool -> list xev :=
  fix go ks lead :=
    match ks with
    | [] => [EvEnd]
    | k :: r => if lead && is_attr k then go r true else tree_evs k ++ go r false
    end.
Definition body_open : list tree -> bool -> list xev :=
  fix go ks lead :=
    match ks with
    | [] => []
    | k :: r => if lead && is_attr k then go r true else tree_evs k ++ go r false
    end.

Lemma tree_evs_elem d fs kids :
  tree_evs (T ElementNode d fs kids) = EvStart (node_space fs) d (lead_attrs kids) :: body_go kids true.
Proof. reflexivity. Qed.
Lemma tree_evs_doc d fs kids : tree_evs (T DocumentNode d fs kids) = flat_map tree_evs kids.
Proof.
  simpl. induction kids as [|k r IH]; [reflexivity|]. simpl. rewrite IH. reflexivity.
Qed.

Lemma body_go_open ks : forall lead, body_go ks lead = body_open ks lead ++ [EvEnd].
Proof.
  induction ks as [|k r IH]; intro lead; [reflexivity|].
  simpl. destruct (lead && is_attr k).
  - apply IH.
  - rewrite IH, app_assoc. reflexivity.
Qed.

Lemma body_open_snoc ks c :
  is_attr c = false -> forall lead, body_open (ks ++ [c]) lead = body_open ks lead ++ tree_evs c.
Proof.
  intro Hc. induction ks as [|k r IH]; intro lead.
  - simpl. rewrite Hc, andb_false_r, app_nil_r. reflexivity.
  - simpl. destruct (lead && is_attr k).
    + apply IH.
    + rewrite IH, app_assoc. reflexivity.
Qed.

Lemma body_open_attrs ks : Forall (fun k => is_attr k = true) ks -> body_open ks true = [].
Proof. induction 1 as [|k r Hk _ IH]; [reflexivity|]. simpl. rewrite Hk. exact IH. Qed.

Lemma lead_attrs_snoc ks c : is_attr c = false -> lead_attrs (ks ++ [c]) = lead_attrs ks.
Proof.
  intro Hc. induction ks as [|k r IH].
  - destruct c as [[] d fs vk]; try reflexivity. discriminate.
  - destruct k as [[] d fs vk]; try reflexivity. simpl. rewrite IH. reflexivity.
Qed.

(* ---- events of the frames still open ---------------------------------------------------------- *)
Definition frame_evs (f : xframe) : list xev :=
  match xf_ty f with
  | ElementNode =>
      EvStart (node_space (FXml (xf_pfx f) (xf_uri f))) (xf_data f) (lead_attrs (rev (xf_kids f)))
      :: body_open (rev (xf_kids f)) true
  | _ => flat_map tree_evs (rev (xf_kids f))
  end.

Fixpoint open_evs (stack : list xframe) : list xev :=
  match stack with
  | [] => []
  | f :: below => open_evs below ++ frame_evs f
  end.

(* bottom frame is the document node, every other open frame an element *)
Fixpoint shape (stack : list xframe) : Prop :=
  match stack with
  | [] => False
  | [f] => xf_ty f = DocumentNode
  | f :: below => xf_ty f = ElementNode /\ shape below
  end.

Lemma frame_evs_add f c :
  (xf_ty f = ElementNode \/ xf_ty f = DocumentNode) -> is_attr c = false ->
  frame_evs (xf_add f c) = frame_evs f ++ tree_evs c.
Proof.
  intros Hty Hc. unfold frame_evs, xf_add. cbn [xf_ty xf_kids xf_pfx xf_uri xf_data]. simpl rev.
  destruct Hty as [-> | ->].
  - rewrite lead_attrs_snoc by exact Hc. rewrite body_open_snoc by exact Hc. reflexivity.
  - rewrite flat_map_app. simpl. rewrite app_nil_r. reflexivity.
Qed.

Lemma tree_evs_closed f :
  xf_ty f = ElementNode -> tree_evs (xf_tree f) = frame_evs f ++ [EvEnd].
Proof.
  intro Hty. unfold xf_tree, frame_evs. rewrite Hty, tree_evs_elem, body_go_open. reflexivity.
Qed.

Lemma shape_top_ty f below : shape (f :: below) -> xf_ty f = ElementNode \/ xf_ty f = DocumentNode.
Proof. destruct below; simpl; [right; assumption|intros [H _]; left; exact H]. Qed.

(* ---- namespaces do not matter for the token view ----------------------------------------------- *)
Lemma xml_specific_space m ty space p u :
  xml_specific m ty space = Some (p, u) -> node_space (FXml p u) = space.
Proof.
  unfold xml_specific. destruct (is_nil space) eqn:En.
  - intro H. inversion H; subst. apply is_nil_true in En. subst. reflexivity.
  - destruct (slookup m space) as [p'|].
    + intro H. inversion H; subst. simpl. rewrite En. reflexivity.
    + destruct ty; try discriminate. destruct (bytes_eqb space b_xmlns) eqn:E; [|discriminate].
      intro H. inversion H; subst. simpl. rewrite E. apply bytes_eqb_true in E. congruence.
Qed.

Lemma attr_nodes_view m attrs l :
  attr_nodes m attrs = Some l ->
  lead_attrs l = attrs /\ Forall (fun k => is_attr k = true) l.
Proof.
  revert l. induction attrs as [|[[space loc] val] r IH]; intros l H.
  - inversion H; subst. split; [reflexivity|constructor].
  - simpl in H. destruct (xml_specific m AttributeNode space) as [[p u]|] eqn:Es; [|discriminate].
    destruct (attr_nodes m r) as [l'|]; [|discriminate]. inversion H; subst.
    destruct (IH l' eq_refl) as [H1 H2]. split.
    + change (lead_attrs (T AttributeNode loc (FXml p u) [xtext val] :: l'))
        with ((node_space (FXml p u), loc, val) :: lead_attrs l').
      rewrite H1. rewrite (xml_specific_space _ _ _ _ _ Es). reflexivity.
    + constructor; [reflexivity|exact H2].
Qed.

(* ---- the invariant ----------------------------------------------------------------------------- *)
Definition stream_ok (s : xstate) : Prop :=
  xs_stream s = None \/ xs_stream s = Some 2%nat.

Definition Inv (pre : list xtok) (s : xstate) : Prop :=
  shape (xs_stack s) /\ stream_ok s /\ (xs_stream s = None -> length (xs_stack s) = 1%nat) /\
  tok_evs pre = open_evs (xs_stack s).

Lemma tok_evs_snoc pre t : tok_evs (pre ++ [t]) = tok_evs pre ++ tok_ev t.
Proof. unfold tok_evs. rewrite flat_map_app. simpl. rewrite app_nil_r. reflexivity. Qed.

(* a state without a current node never yields a node again *)
Lemma dead_no_node toks : forall m st res s' rest,
  xread (mkXS [] m st) toks = (res, s', rest) -> forall e d, res <> XRNode e d.
Proof.
  induction toks as [|t r IH]; intros m st res s' rest H e d.
  - inversion H. discriminate.
  - simpl in H. destruct t as [space loc attrs|space loc|txt|].
    + simpl in H. destruct (xml_specific (update_ns m attrs) ElementNode space) as [[p u]|];
        inversion H; discriminate.
    + simpl in H. inversion H. discriminate.
    + simpl in H. inversion H. discriminate.
    + simpl in H. eapply IH. exact H.
Qed.

Lemma step_inv pre s t s' o :
  Inv pre s -> xstep s t = (s', o) ->
  match o with
  | None => Inv (pre ++ [t]) s' \/ xs_stack s' = []
  | Some (XRNode e d) => tree_evs d = tok_evs (pre ++ [t]) /\ In e (t_kids d)
  | Some _ => True
  end.
Proof.
  intros (Hsh & Hst & Hnone & Hev) Hstep.
  destruct s as [stack m st]. cbn [xs_stack xs_stream xs_map] in *.
  destruct t as [space loc attrs|space loc|txt|]; simpl in Hstep.
  - (* StartElement *)
    destruct (xml_specific (update_ns m attrs) ElementNode space) as [[p u]|] eqn:Es;
      [|inversion Hstep; subst; exact I].
    destruct stack as [|top below]; [inversion Hstep; subst; exact I|].
    destruct (attr_nodes (update_ns m attrs) attrs) as [l|] eqn:Ea;
      [|inversion Hstep; subst; exact I].
    inversion Hstep; subst. left.
    destruct (attr_nodes_view _ _ _ Ea) as [Hl Hat].
    split; [|split; [|split]]; cbn [xs_stack xs_stream].
    + simpl. split; [reflexivity|exact Hsh].
    + destruct Hst as [Hst|Hst]; cbn [xs_stream] in Hst; subst st.
      * right. pose proof (Hnone eq_refl) as Hl1. simpl in Hl1 |- *. f_equal. lia.
      * right. reflexivity.
    + destruct st; discriminate.
    + rewrite tok_evs_snoc, Hev. simpl open_evs. f_equal.
      unfold frame_evs. cbn [xf_ty xf_kids xf_pfx xf_uri xf_data]. rewrite rev_involutive.
      rewrite Hl, (body_open_attrs _ Hat), (xml_specific_space _ _ _ _ _ Es). reflexivity.
  - (* EndElement *)
    destruct stack as [|top below]; [inversion Hstep; subst; exact I|].
    destruct below as [|p r2].
    + (* closing the document frame: sp.cur becomes nil *)
      assert (Hns : (match st with Some d => Nat.eqb d 1 | None => false end) = false).
      { destruct Hst as [Hs|Hs]; cbn [xs_stream] in Hs; subst; reflexivity. }
      cbn [length] in Hstep. rewrite Hns in Hstep. inversion Hstep; subst. right. reflexivity.
    + destruct Hsh as [Htop Hbelow].
      assert (Hp : xf_ty p = ElementNode \/ xf_ty p = DocumentNode) by (eapply shape_top_ty; exact Hbelow).
      assert (Hattr : is_attr (xf_tree top) = false) by (unfold is_attr, xf_tree; simpl; rewrite Htop; reflexivity).
      assert (Hopen : open_evs (xf_add p (xf_tree top) :: r2) = tok_evs (pre ++ [XTEnd space loc])).
      { rewrite tok_evs_snoc, Hev. simpl open_evs. rewrite (frame_evs_add p _ Hp Hattr).
        rewrite (tree_evs_closed top Htop). rewrite !app_assoc. reflexivity. }
      destruct (match st with Some d => Nat.eqb d (length (top :: p :: r2)) | None => false end) eqn:Eis;
        inversion Hstep; subst.
      * (* the stream node: depth 2, so p is the document frame *)
        destruct Hst as [Hs|Hs]; cbn [xs_stream] in Hs; subst st; [discriminate|].
        destruct r2 as [|q r3]; [|simpl in Eis; discriminate].
        simpl last. split.
        -- simpl in Hbelow. unfold xf_tree at 1. unfold xf_add at 1.
           cbn [xf_ty xf_data xf_pfx xf_uri xf_kids]. rewrite Hbelow.
           rewrite tree_evs_doc. rewrite <- Hopen. simpl open_evs.
           unfold frame_evs, xf_add. cbn [xf_ty xf_kids]. rewrite Hbelow. reflexivity.
        -- unfold xf_tree at 2, xf_add. cbn [xf_ty xf_data xf_pfx xf_uri xf_kids t_kids].
           simpl rev. apply in_or_app. right. left. reflexivity.
      * left. split; [|split; [|split]]; cbn [xs_stack xs_stream].
        -- destruct r2; simpl in *; [exact Hbelow|]. destruct Hbelow as [H1 H2]. split; assumption.
        -- exact Hst.
        -- intro Hn. specialize (Hnone Hn). discriminate.
        -- symmetry. exact Hopen.
  - (* CharData *)
    destruct stack as [|top below]; [inversion Hstep; subst; exact I|].
    inversion Hstep; subst. left.
    split; [|split; [|split]]; cbn [xs_stack xs_stream].
    + destruct below; simpl in *; [exact Hsh|exact Hsh].
    + exact Hst.
    + exact Hnone.
    + rewrite tok_evs_snoc, Hev. simpl open_evs.
      rewrite (frame_evs_add top (xtext txt) (shape_top_ty _ _ Hsh) eq_refl). rewrite app_assoc. reflexivity.
  - (* Comment / ProcInst / Directive *)
    inversion Hstep; subst. left.
    split; [|split; [|split]]; cbn [xs_stack xs_stream]; try assumption.
    rewrite tok_evs_snoc, Hev. simpl. rewrite app_nil_r. reflexivity.
Qed.

Lemma xread_inv toks : forall s pre,
  Inv pre s ->
  forall e d s' rest, xread s toks = (XRNode e d, s', rest) ->
  exists mid, toks = mid ++ rest /\ tree_evs d = tok_evs (pre ++ mid) /\ In e (t_kids d).
Proof.
  induction toks as [|t r IH]; intros s pre HI e d s' rest H.
  - inversion H.
  - simpl in H. destruct (xstep s t) as [s1 o] eqn:Es.
    pose proof (step_inv pre s t s1 o HI Es) as Hs.
    destruct o as [res|].
    + inversion H; subst. destruct Hs as [Hs1 Hs2]. exists [t]. split; [reflexivity|]. split; assumption.
    + destruct Hs as [Hs|Hdead].
      * destruct (IH s1 (pre ++ [t]) Hs e d s' rest H) as (mid & -> & Hev & Hin).
        exists (t :: mid). split; [reflexivity|]. rewrite <- app_assoc in Hev. split; assumption.
      * destruct s1 as [stack1 m1 st1]. cbn [xs_stack] in Hdead. subst stack1.
        exfalso. eapply dead_no_node; [exact H|reflexivity].
Qed.

Lemma inv_init : Inv [] xinit.
Proof. split; [reflexivity|]. split; [left; reflexivity|]. split; reflexivity. Qed.

Theorem xml_faithful_tokens toks e d s' rest :
  xread xinit toks = (XRNode e d, s', rest) ->
  exists consumed, toks = consumed ++ rest /\ tree_evs d = tok_evs consumed /\ In e (t_kids d).
Proof. intro H. exact (xread_inv toks xinit [] inv_init e d s' rest H). Qed.

(* Two readers interleaved in any order: each ends in the state it reaches alone on its own
   tokens (the namespace table is per-reader state). *)
Theorem readers_independent sched : forall sa sb,
  fold_left xstep2 sched (sa, sb) =
  (xfeed sa (map snd (filter (fun ev => fst ev) sched)),
   xfeed sb (map snd (filter (fun ev => negb (fst ev)) sched))).
Proof.
  induction sched as [|[b t] r IH]; intros sa sb; [reflexivity|].
  simpl fold_left. unfold xstep2 at 2. cbn [fst snd]. destruct b; rewrite IH; reflexivity.
Qed.

(* ---- token by token: which tokens become nodes ------------------------------------------------ *)
(* CharData (text, entity-decoded text, one CDATA section - also an EMPTY one): exactly one new
   TextNode child of the current node holding exactly the token's bytes; nothing else changes. *)
Theorem xstep_chardata top below m st s :
  xstep (mkXS (top :: below) m st) (XTChar s) =
  (mkXS (xf_add top (T TextNode s (FXml [] []) []) :: below) m st, None).
Proof. reflexivity. Qed.

(* Consecutive CharData tokens stay separate nodes, in order (they are never merged or dropped). *)
Theorem xfeed_chardata ss : forall top below m st,
  xfeed (mkXS (top :: below) m st) (map XTChar ss) =
  mkXS (mkXF (xf_ty top) (xf_data top) (xf_pfx top) (xf_uri top)
             (rev (map (fun s => T TextNode s (FXml [] []) []) ss) ++ xf_kids top) :: below) m st.
Proof.
  induction ss as [|s r IH]; intros top below m st.
  - destruct top; reflexivity.
  - unfold xfeed in *. simpl fold_left. rewrite IH. unfold xf_add. cbn [xf_ty xf_data xf_pfx xf_uri xf_kids].
    simpl rev. rewrite <- app_assoc. reflexivity.
Qed.

(* Comments, processing instructions and directives leave the reader untouched. *)
Theorem xstep_other s : xstep s XTOther = (s, None).
Proof. reflexivity. Qed.

(* An EndElement never creates a node. *)
Theorem xstep_end_no_new_node s sp l s' o :
  xstep s (XTEnd sp l) = (s', o) -> length (xs_stack s') <= length (xs_stack s).
Proof.
  destruct s as [[|top [|p r]] m st]; simpl; intro H; inversion H; subst; simpl; lia.
Qed.

(* A StartElement that is accepted pushes ONE element node whose children are exactly one
   AttributeNode per attribute, in token order, each with exactly one text child holding the
   attribute value (also when the value is empty). *)
Definition attr_node_of (a : bytes * bytes * bytes) (n : tree) : Prop :=
  let '(_, loc, val) := a in
  exists p u, n = T AttributeNode loc (FXml p u) [T TextNode val (FXml [] []) []].

Lemma attr_nodes_shape m attrs : forall l,
  attr_nodes m attrs = Some l -> Forall2 attr_node_of attrs l.
Proof.
  induction attrs as [|[[space loc] val] r IH]; intros l H.
  - inversion H. constructor.
  - simpl in H. destruct (xml_specific m AttributeNode space) as [[p u]|]; [|discriminate].
    destruct (attr_nodes m r) as [l'|]; [|discriminate]. inversion H; subst.
    constructor; [exists p, u; reflexivity|exact (IH l' eq_refl)].
Qed.

Theorem xstep_start_element top below m st sp loc attrs s' :
  xstep (mkXS (top :: below) m st) (XTStart sp loc attrs) = (s', None) ->
  exists p u l,
    xs_stack s' = mkXF ElementNode loc p u (rev l) :: top :: below /\
    node_space (FXml p u) = sp /\ Forall2 attr_node_of attrs l /\ lead_attrs l = attrs.
Proof.
  simpl. destruct (xml_specific (update_ns m attrs) ElementNode sp) as [[p u]|] eqn:Es; [|discriminate].
  destruct (attr_nodes (update_ns m attrs) attrs) as [l|] eqn:Ea; [|discriminate].
  intro H. inversion H; subst. exists p, u, l. cbn [xs_stack].
  split; [reflexivity|]. split; [exact (xml_specific_space _ _ _ _ _ Es)|].
  split; [exact (attr_nodes_shape _ _ _ Ea)|exact (proj1 (attr_nodes_view _ _ _ Ea))].
Qed.

(* ---- one reader per document ------------------------------------------------------------------ *)
(* Every document is read by a reader created for it (NewXMLStreamReader / NewJSONStreamReader per
   input): in the model a run over a sequence of documents is the map of the single-document run,
   so what an earlier document did - including a failed Read - cannot influence a later one.
   What this ASSUMES about the implementation: the only process-wide state the readers share is
   the node pool, and a node obtained from it is indistinguishable from a new one (C12: pooled
   nodes are reset and never aliased).  The good,bad,good sequences of the harness check exactly
   that assumption on the implementation. *)
Definition xbuild_all (docs : list (list xtok)) : list xres := map xbuild docs.
Theorem xml_docs_independent docs i :
  nth_error (xbuild_all docs) i = option_map xbuild (nth_error docs i).
Proof. unfold xbuild_all. revert i. induction docs as [|d r IH]; intros [|i]; simpl; auto. Qed.
