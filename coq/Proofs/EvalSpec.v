(* C02 proofs: the evaluator agrees with the documented evaluation (eval_spec of Model/Eval.v)
   on the declarations a validated tree stands for. *)
From Coq Require Import String List ZArith NArith Bool Lia.
From Coq.Strings Require Import Byte.
Import ListNotations.
From OV Require Import Base.Bytes Base.Cases Base.Tree Gen.Conv Model.Value Model.XPathFrag Model.Decl Model.Eval.
From OV Require Import Proofs.Value Proofs.ValuePrint Proofs.EvalPure.

(* ---- one normalisation = two normalisations ------------------------------------------------------ *)
Lemma bool_str_trim b : trim_space (bool_str b) = bool_str b.
Proof. destruct b; vm_compute; reflexivity. Qed.

Section Renorm.
  (* the printed forms of numbers carry no surrounding white space *)
  Hypothesis print_int_trim : forall z, trim_space (Z_to_dec z) = Z_to_dec z.
  Hypothesis print_flt_trim : forall f, trim_space (fmt_float f) = fmt_float f.

  Lemma convert_idem v t c : convert v t = Some c -> convert c t = Some c.
  Proof.
    unfold convert. destruct v, t; cbn; try discriminate;
      try (intro H; injection H as <-; reflexivity);
      try (destruct (parse_int s); cbn; [intro H; injection H as <-; reflexivity|discriminate]);
      try (destruct (parse_float s); cbn; [intro H; injection H as <-; reflexivity|discriminate]);
      try (destruct (parse_bool s); cbn; [intro H; injection H as <-; reflexivity|discriminate]).
  Qed.

  Lemma convert_nonnil v t c : is_nil v = false -> convert v t = Some c -> is_nil c = false.
  Proof.
    unfold convert. destruct v, t; cbn; try discriminate;
      try (intros _ H; injection H as <-; reflexivity);
      try (destruct (parse_int s); cbn; [intros _ H; injection H as <-; reflexivity|discriminate]);
      try (destruct (parse_float s); cbn; [intros _ H; injection H as <-; reflexivity|discriminate]);
      try (destruct (parse_bool s); cbn; [intros _ H; injection H as <-; reflexivity|discriminate]).
  Qed.

  (* a string that comes out of a cast is the (already trimmed or deliberately untrimmed) input,
     or a printed number / boolean *)
  Lemma convert_str v t s' : convert v t = Some (VStr s') -> v = VStr s' \/ trim_space s' = s'.
  Proof.
    unfold convert. destruct v, t; cbn; try discriminate;
      try (intro H; injection H as <-; auto using bool_str_trim; fail);
      try (destruct (parse_int s); cbn; discriminate);
      try (destruct (parse_float s); cbn; discriminate);
      try (destruct (parse_bool s); cbn; discriminate).
  Qed.

  Definition trim1 (nt : bool) (v : value) : value :=
    match v with VStr s => if nt then v else VStr (trim_space s) | _ => v end.

  Lemma trim1_idem nt v : trim1 nt (trim1 nt v) = trim1 nt v.
  Proof. destruct v; simpl; try reflexivity. destruct nt; simpl; [reflexivity|]. rewrite trim_space_idem. reflexivity. Qed.

  Lemma trim1_nil nt v : is_nil (trim1 nt v) = is_nil v.
  Proof. destruct v; simpl; try reflexivity. destruct nt; reflexivity. Qed.

  Lemma normalize_eq nt kp ty v :
    normalize nt kp ty v =
    match trim1 nt v, ty with
    | VNil, _ => check_to_save kp (trim1 nt v)
    | _, None => check_to_save kp (trim1 nt v)
    | _, Some t => match convert (trim1 nt v) t with Some c => check_to_save kp c | None => NErr end
    end.
  Proof. reflexivity. Qed.

  Lemma check_to_save_nonnil kp v : is_nil v = false ->
    check_to_save kp v = if is_empty v then (if kp then NSave v else NDrop) else NSave v.
  Proof. intro H. unfold check_to_save. rewrite H. simpl. destruct (is_empty v); reflexivity. Qed.

  (* what the second normalisation (the parent's normalizeAndSaveValue on the child's already
     normalised value) does with the contribution of the first *)
  Definition renorm (nt kp : bool) (ty : option rtype) (s : sres) : Prop :=
    match s with
    | SVal v => normalize nt kp ty v = NSave v
    | SOmit => normalize nt kp ty VNil = NDrop
    | SFail => True
    end.

  Lemma spec_norm_sound nt kp ty v :
    normalize_ret nt kp ty v = to_res (spec_norm nt kp ty v) /\ renorm nt kp ty (spec_norm nt kp ty v).
  Proof.
    unfold normalize_ret. rewrite normalize_eq. unfold spec_norm.
    destruct (is_nil v) eqn:N.
    { destruct v; try discriminate. simpl. unfold check_to_save. simpl. destruct kp; simpl; split; reflexivity. }
    assert (N1 : is_nil (trim1 nt v) = false).
    { destruct v; try discriminate; try reflexivity. simpl. destruct nt; reflexivity. }
    change (match v with VStr s => if nt then v else VStr (trim_space s) | _ => v end) with (trim1 nt v).
    set (v1 := trim1 nt v) in *.
    assert (Hv1 : trim1 nt v1 = v1) by apply trim1_idem.
    assert (Hspec : match v with VNil => (if kp then SVal VNil else SOmit) | _ =>
              match match ty with Some t => convert v1 t | None => Some v1 end with
              | Some v2 => if is_empty v2 then (if kp then SVal v2 else SOmit) else SVal v2
              | None => SFail end end
            = match match ty with Some t => convert v1 t | None => Some v1 end with
              | Some v2 => if is_empty v2 then (if kp then SVal v2 else SOmit) else SVal v2
              | None => SFail end).
    { destruct v; try reflexivity. discriminate. }
    rewrite Hspec. clear Hspec.
    assert (Hnorm : match v1, ty with
                    | VNil, _ => check_to_save kp v1
                    | _, None => check_to_save kp v1
                    | _, Some t => match convert v1 t with Some c => check_to_save kp c | None => NErr end
                    end
                  = match match ty with Some t => convert v1 t | None => Some v1 end with
                    | Some c => check_to_save kp c | None => NErr end).
    { destruct v1; try discriminate; destruct ty; reflexivity. }
    rewrite Hnorm. clear Hnorm.
    destruct ty as [t|].
    - destruct (convert v1 t) as [c|] eqn:C; [|split; [reflexivity|exact I]].
      pose proof (convert_nonnil _ _ _ N1 C) as Nc.
      rewrite (check_to_save_nonnil _ _ Nc).
      (* the second pass on c *)
      assert (Hc1 : trim1 nt c = c).
      { destruct c; try reflexivity. simpl. destruct nt; [reflexivity|].
        destruct (convert_str _ _ _ C) as [E|E].
        - rewrite E in Hv1. simpl in Hv1. exact Hv1.
        - rewrite E. reflexivity. }
      assert (Hre : normalize nt kp (Some t) c = check_to_save kp c).
      { rewrite normalize_eq, Hc1. rewrite (convert_idem _ _ _ C).
        destruct c; try discriminate; reflexivity. }
      destruct (is_empty c) eqn:E; [destruct kp|]; simpl; (split; [reflexivity|]);
        try (rewrite Hre, (check_to_save_nonnil _ _ Nc), E; reflexivity).
      unfold check_to_save. reflexivity.
    - rewrite (check_to_save_nonnil _ _ N1).
      assert (Hre : normalize nt kp None v1 = check_to_save kp v1).
      { rewrite normalize_eq, Hv1. destruct v1; reflexivity. }
      destruct (is_empty v1) eqn:E; [destruct kp|]; simpl; (split; [reflexivity|]);
        try (rewrite Hre, (check_to_save_nonnil _ _ N1), E; reflexivity).
      unfold check_to_save. reflexivity.
  Qed.
End Renorm.

(* ---- the declarations a validated tree stands for ---------------------------------------------- *)
Fixpoint erase (d : vdecl) : decl :=
  let 'VD i x ks := d in
  let p := v_pub i in
  let k := p_kind p in
  Decl (match k with KConst => p_const p | _ => None end)
       (match k with KExternal => p_external p | _ => None end)
       (p_xpath p)
       (match x with Some q => Some (erase q) | None => None end)
       (match k with KCustomFunc => p_fname p | _ => None end)
       (match k with KCustomFunc => map erase ks | _ => [] end)
       (p_ignore p)
       (match k with KCustomParse => p_parse p | _ => None end)
       None
       (match k with KObject => Some (map (fun c => (obj_key (v_fqdn (vd_info c)), erase c)) ks) | _ => None end)
       (match k with KArray => Some (map erase ks) | _ => None end)
       (p_rtype p) (p_notrim p) (p_keep p).

(* the declaration applies its own xpath: not FINAL_OUTPUT, not an element of an array *)
Definition aflag (i : vinfo) : bool := negb (fqdn_is_final (v_fqdn i)) && negb (parent_is_array i).

Section MatchesSpec.
  Variable root : tree.
  Variable query : bytes -> path -> option (list path).
  Variable ext : bytes -> option bytes.
  Variable fsigs : bytes -> option fsig.
  Variable fcall : bytes -> path -> list value -> cfres.
  Variable pcall : bytes -> path -> cfres.
  Variable V : path -> Prop.
  Hypothesis query_V : forall x p ps, V p -> query x p = Some ps -> Forall V ps.
  Hypothesis V_text : forall p, V p -> inner_text_at root p <> None.
  Hypothesis print_int_trim : forall z, trim_space (Z_to_dec z) = Z_to_dec z.
  Hypothesis print_flt_trim : forall f, trim_space (fmt_float f) = fmt_float f.

  Notation peval := (peval root query ext fsigs fcall pcall).
  Notation pcompile := (pcompile root query ext fsigs fcall pcall).
  Notation spec_tf := (spec_tf root query ext fsigs fcall pcall).

  Definition nrm (i : vinfo) : value -> sres :=
    spec_norm (p_notrim (v_pub i)) (p_keep (v_pub i)) (p_rtype (v_pub i)).
  Definition rn (i : vinfo) : sres -> Prop :=
    renorm (p_notrim (v_pub i)) (p_keep (v_pub i)) (p_rtype (v_pub i)).

  Lemma nrm_sound i xb v :
    norm_ret (einfo_of i xb) v = to_res (nrm i v) /\ rn i (nrm i v).
  Proof. apply spec_norm_sound; assumption. Qed.

  Lemma nrm_nil i : to_res (nrm i VNil) = Ok VNil.
  Proof. unfold nrm, spec_norm. destruct (p_keep (v_pub i)); reflexivity. Qed.

  (* relation between the compiled xpath_dynamic and the documented result of its declaration *)
  Definition xd_rel (pxd : option pev) (xdres : option sres) (p : path) : Prop :=
    match pxd, xdres with
    | Some f, Some s => f p = to_res s
    | None, None => True
    | _, _ => False
    end.

  Lemma xpath_sound i xb pxd xdres p : xd_rel pxd xdres p ->
    p_compute_xpath (einfo_of i xb) pxd p =
    match spec_xpath (p_xpath (v_pub i)) xdres with Some xp => XOk xp | None => XFail end.
  Proof.
    intro H. unfold p_compute_xpath, static_xpath, spec_xpath. cbn [einfo_of e_pub].
    assert (Hd : match pxd with Some e => xres_of_dyn (e p) | None => XOk (bs ".") end
                 = match xdres with
                   | Some (SVal (VStr t)) => if is_nonblank t then XOk t else XFail
                   | Some _ => XFail
                   | None => XOk (bs ".")
                   end).
    { destruct pxd as [f|], xdres as [s|]; simpl in H; try contradiction; [|reflexivity].
      rewrite H. destruct s as [v| |]; simpl; reflexivity. }
    destruct (p_xpath (v_pub i)) as [x|].
    - destruct (is_nonblank x); [reflexivity|]. rewrite Hd.
      destruct xdres as [[[]| |]|]; try reflexivity. destruct (is_nonblank s); reflexivity.
    - rewrite Hd. destruct xdres as [[[]| |]|]; try reflexivity. destruct (is_nonblank s); reflexivity.
  Qed.

  Definition q_of_cur (c : option (option path)) : qres :=
    match c with None => QErr | Some None => QNone | Some (Some n) => QNode n end.

  Lemma match_single_select x p :
    match_single query x p =
    q_of_cur (match select query x p with
              | None => None | Some [] => Some None | Some [n] => Some (Some n) | Some _ => None end).
  Proof.
    unfold match_single, select. destruct (bytes_eqb x (bs ".")); [reflexivity|].
    destruct (query x p) as [[|a [|b r]]|]; reflexivity.
  Qed.

  Lemma cursor_sound i pxd xdres p : xd_rel pxd xdres p ->
    p_query_single query (einfo_of i (is_some xdres)) pxd p
    = q_of_cur (spec_cursor query (aflag i) (p_xpath (v_pub i)) xdres p).
  Proof.
    intro H. unfold p_query_single, spec_cursor. cbn [einfo_of e_needed].
    rewrite (needed_eq i (is_some xdres)). unfold aflag.
    destruct (fqdn_is_final (v_fqdn i)); [reflexivity|].
    destruct (parent_is_array i); simpl; [rewrite andb_false_r; reflexivity|]. rewrite andb_true_r.
    destruct (is_some (p_xpath (v_pub i)) || is_some xdres)%bool eqn:X; simpl; [|reflexivity].
    rewrite (xpath_sound i (is_some xdres) pxd xdres p H).
    destruct (spec_xpath (p_xpath (v_pub i)) xdres) as [xp|]; [|reflexivity].
    apply match_single_select.
  Qed.

  Lemma cursor_V i xdres p n : V p ->
    spec_cursor query (aflag i) (p_xpath (v_pub i)) xdres p = Some (Some n) -> V n.
  Proof.
    intros Hv. unfold spec_cursor. destruct (negb (aflag i)); [intro H; injection H as <-; exact Hv|].
    destruct (negb _); [intro H; injection H as <-; exact Hv|].
    destruct (spec_xpath _ _) as [xp|]; [|discriminate].
    unfold select. destruct (bytes_eqb xp (bs ".")); [intro H; injection H as <-; exact Hv|].
    destruct (query xp p) as [[|a [|b r]]|] eqn:Q; try discriminate.
    intro H. injection H as <-. pose proof (query_V _ _ _ Hv Q) as F. inversion F. assumption.
  Qed.

  (* anchored evaluation vs spec_at *)
  Lemma at_sound i pxd xdres p body f : xd_rel pxd xdres p -> V p ->
    (forall n, V n -> body n = to_res (f n)) ->
    p_anchored query (einfo_of i (is_some xdres)) pxd body p
    = to_res (spec_at (nrm i) (spec_cursor query (aflag i) (p_xpath (v_pub i)) xdres p) f).
  Proof.
    intros H Hv Hb. unfold p_anchored. rewrite (cursor_sound i pxd xdres p H).
    destruct (spec_cursor query (aflag i) (p_xpath (v_pub i)) xdres p) as [[n|]|] eqn:C; simpl.
    - apply Hb. eapply cursor_V; eauto.
    - symmetry. apply nrm_nil.
    - reflexivity.
  Qed.

  Lemma at_rn i cur f : (forall n, rn i (f n)) -> rn i (spec_at (nrm i) cur f).
  Proof.
    intro Hf. destruct cur as [[n|]|]; simpl; [apply Hf| |exact I].
    apply (proj2 (nrm_sound i false VNil)).
  Qed.

  (* what the induction carries for a declaration evaluated with anchoring flag a *)
  Definition child_ok (c : vdecl) (a : bool) : Prop :=
    forall n, V n ->
      peval c n = to_res (spec_tf (erase c) a n) /\ rn (vd_info c) (spec_tf (erase c) a n).

  Lemma pc_info_eq c : pc_info (pcompile c) = ei c.
  Proof. destruct c as [i x ks]. reflexivity. Qed.

  Lemma norm_of_ei c v : norm_of (ei c) v =
    normalize (p_notrim (v_pub (vd_info c))) (p_keep (v_pub (vd_info c))) (p_rtype (v_pub (vd_info c))) v.
  Proof. destruct c as [i x ks]. reflexivity. Qed.

  (* one child's contribution, as the parent's loop sees it *)
  Lemma child_step c a n : child_ok c a -> V n ->
    match spec_tf (erase c) a n with
    | SVal v => peval c n = Ok v /\ norm_of (ei c) v = NSave v
    | SOmit => peval c n = Ok VNil /\ norm_of (ei c) VNil = NDrop
    | SFail => peval c n = Err
    end.
  Proof.
    intros H Hv. destruct (H n Hv) as [H1 H2]. rewrite norm_of_ei.
    destruct (spec_tf (erase c) a n); simpl in *; auto.
  Qed.

  Lemma object_sound : forall ks n obj, V n -> Forall (fun c => child_ok c true) ks ->
    p_object_loop (map (fun c => (obj_key (v_fqdn (vd_info c)), pcompile c)) ks) n obj
    = match obj_all (fun a => spec_tf a true n) (map (fun c => (obj_key (v_fqdn (vd_info c)), erase c)) ks) obj with
      | None => Err
      | Some o => Ok (VObj o)
      end.
  Proof.
    induction ks as [|c r IH]; intros n obj Hv Hf; simpl; [reflexivity|].
    inversion Hf as [|? ? Hc Hr]; subst.
    pose proof (child_step c true n Hc Hv) as S.
    change (pc_ev (pcompile c) n) with (peval c n). rewrite pc_info_eq.
    destruct (spec_tf (erase c) true n) as [v| |].
    - destruct S as [S1 S2]. rewrite S1, S2. apply IH; assumption.
    - destruct S as [S1 S2]. rewrite S1, S2. apply IH; assumption.
    - rewrite S. reflexivity.
  Qed.

  Lemma each_sound c : child_ok c false -> forall ns acc, Forall V ns ->
    p_nodes_loop (pcompile c) ns acc
    = match arr_each (fun n => spec_tf (erase c) false n) ns acc with
      | None => inr Err
      | Some acc' => inl acc'
      end.
  Proof.
    intros Hc. induction ns as [|n r IH]; intros acc Hf; simpl; [reflexivity|].
    inversion Hf as [|? ? Hn Hr]; subst.
    pose proof (child_step c false n Hc Hn) as S.
    change (pc_ev (pcompile c) n) with (peval c n). rewrite pc_info_eq.
    destruct (spec_tf (erase c) false n) as [v| |].
    - destruct S as [S1 S2]. rewrite S1, S2. apply IH; assumption.
    - destruct S as [S1 S2]. rewrite S1, S2. apply IH; assumption.
    - rewrite S. reflexivity.
  Qed.

  (* the element's xpath_dynamic, evaluated at the array's cursor *)
  Definition elem_xd_ok (c : vdecl) (p : path) : Prop :=
    xd_rel (pc_xdyn (pcompile c))
           (match vd_xdyn c with Some q => Some (spec_tf (erase q) true p) | None => None end) p.

  Lemma erase_G c p :
    (let 'Decl _ _ ax axd _ _ _ _ _ _ _ _ _ _ := erase c in
     (spec_xpath ax (match axd with Some q => Some (spec_tf q true p) | None => None end),
      fun n => spec_tf (erase c) false n))
    = (spec_xpath (p_xpath (v_pub (vd_info c)))
                  (match vd_xdyn c with Some q => Some (spec_tf (erase q) true p) | None => None end),
       fun n => spec_tf (erase c) false n).
  Proof. destruct c as [i x ks]. cbn [erase vd_info vd_xdyn]. destruct x; reflexivity. Qed.

  Lemma array_sound : forall ks p acc, V p ->
    Forall (fun c => child_ok c false /\ elem_xd_ok c p) ks ->
    p_array_loop query (map (fun c => (([] : bytes), pcompile c)) ks) p acc
    = match arr_all (fun xp => select query xp p)
                    (fun a => let 'Decl _ _ ax axd _ _ _ _ _ _ _ _ _ _ := a in
                              (spec_xpath ax (match axd with Some q => Some (spec_tf q true p) | None => None end),
                               fun n => spec_tf a false n))
                    (map erase ks) acc with
      | None => Err
      | Some vs => Ok (VList vs)
      end.
  Proof.
    induction ks as [|c r IH]; intros p acc Hv Hf; simpl; [reflexivity|].
    inversion Hf as [|? ? [Hc Hx] Hr]; subst.
    rewrite (erase_G c p). cbn [fst snd].
    rewrite pc_info_eq. destruct c as [i x ks']. unfold ei. cbn [vd_info vd_xdyn] in *.
    assert (Hsx : is_some x = is_some (match x with Some q => Some (spec_tf (erase q) true p) | None => None end))
      by (destruct x; reflexivity).
    rewrite Hsx. rewrite (xpath_sound i _ _ _ p Hx).
    destruct (spec_xpath _ _) as [xp|]; [|apply IH; assumption].
    unfold match_all, select. 
    assert (Hsel : (if bytes_eqb xp (bs ".") then Some [p] else query xp p) = select query xp p) by reflexivity.
    destruct (if bytes_eqb xp (bs ".") then Some [p] else query xp p) as [ns|] eqn:Q; [|reflexivity].
    assert (Hns : Forall V ns).
    { destruct (bytes_eqb xp (bs ".")); [injection Q as <-; repeat constructor; exact Hv|eapply query_V; eauto]. }
    rewrite (each_sound _ Hc ns acc Hns).
    destruct (arr_each _ ns acc); [apply IH; assumption|reflexivity].
  Qed.

  Lemma args_sound sg : forall ks i n acc, V n -> Forall (fun c => child_ok c true) ks ->
    (forall j, i <= j < i + length ks -> arg_type sg j <> None) ->
    p_args_loop sg (map (fun c => (([] : bytes), pcompile c)) ks) i n acc
    = match spec_args sg i (map (fun a => spec_tf a true n) (map erase ks)) with
      | None => inr Err
      | Some vs => inl (acc ++ vs)
      end.
  Proof.
    induction ks as [|c r IH]; intros i n acc Hv Hf Hty; simpl.
    - rewrite app_nil_r. reflexivity.
    - inversion Hf as [|? ? Hc Hr]; subst.
      pose proof (child_step c true n Hc Hv) as St.
      change (pc_ev (pcompile c) n) with (peval c n).
      destruct (arg_type sg i) as [t|] eqn:T; [|exfalso; apply (Hty i); [simpl; lia|exact T]].
      assert (Hty' : forall j, S i <= j < S i + length r -> arg_type sg j <> None).
      { intros j Hj. apply Hty. simpl. lia. }
      destruct (spec_tf (erase c) true n) as [v| |].
      + destruct St as [S1 _]. rewrite S1.
        destruct (is_nil v).
        * rewrite (IH (S i) n (acc ++ [zero_of t]) Hv Hr Hty').
          destruct (spec_args sg (S i) _); [rewrite <- app_assoc; reflexivity|reflexivity].
        * destruct (assignable v t); [|reflexivity].
          rewrite (IH (S i) n (acc ++ [v]) Hv Hr Hty').
          destruct (spec_args sg (S i) _); [rewrite <- app_assoc; reflexivity|reflexivity].
      + destruct St as [S1 _]. rewrite S1. simpl.
        rewrite (IH (S i) n (acc ++ [zero_of t]) Hv Hr Hty').
        destruct (spec_args sg (S i) _); [rewrite <- app_assoc; reflexivity|reflexivity].
      + rewrite St. reflexivity.
  Qed.

  Lemma arity_ok sg n :
    (Nat.ltb n (length (s_fixed sg)) || (Nat.ltb (length (s_fixed sg)) n && negb (is_some (s_variadic sg))))%bool = false ->
    forall j, 0 <= j < 0 + n -> arg_type sg j <> None.
  Proof.
    intros H j Hj. apply orb_false_elim in H as [H1 H2].
    apply Nat.ltb_ge in H1. unfold arg_type.
    destruct (nth_error (s_fixed sg) j) eqn:E; [discriminate|].
    apply nth_error_None in E.
    assert (Hlt : Nat.ltb (length (s_fixed sg)) n = true) by (apply Nat.ltb_lt; lia).
    rewrite Hlt in H2. simpl in H2. apply negb_false_iff in H2.
    destruct (s_variadic sg); [discriminate|discriminate].
  Qed.

  (* every custom_func of the tree is registered (validate checks this) *)
  Definition funcs_ok (v : vdecl) : Prop :=
    forall d, In d (subdecls v) -> p_kind (v_pub (vd_info d)) = KCustomFunc ->
    forall name, p_fname (v_pub (vd_info d)) = Some name -> fsigs name <> None.

  Lemma wf_b_kind t i x ks : wf_b t (VD i x ks) = true ->
    match p_kind (v_pub i) with
    | KConst => is_some (p_const (v_pub i)) = true
    | KExternal => is_some (p_external (v_pub i)) = true
    | KCustomFunc => is_some (p_fname (v_pub i)) = true
    | KCustomParse => is_some (p_parse (v_pub i)) = true
    | KTemplate => False
    | _ => True
    end.
  Proof.
    intro H. cbn [wf_b] in H. repeat (apply andb_prop in H; destruct H as [H ?]).
    destruct (p_kind (v_pub i)); try exact I; try assumption. discriminate.
  Qed.

  Definition P (v : vdecl) : Prop :=
    forall t, wf_b t v = true -> funcs_ok v ->
      child_ok v (aflag (vd_info v)) /\ (forall p, V p -> elem_xd_ok v p).

  Lemma then_norm_sound i xb r s :
    r = match s with Some v => Ok v | None => Err end ->
    p_then_norm (einfo_of i xb) r = to_res (match s with Some v => nrm i v | None => SFail end)
    /\ rn i (match s with Some v => nrm i v | None => SFail end).
  Proof.
    intros ->. destruct s as [v|]; simpl; [apply nrm_sound|split; [reflexivity|exact I]].
  Qed.

  Lemma funcs_ok_sub v c : funcs_ok v -> In c (subdecls v) -> funcs_ok c.
  Proof.
    intros H Hc d Hd. apply H. clear - Hc Hd.
    revert c Hc d Hd. induction v as [i x ks IHx IHks] using vdecl_ind2. intros c Hc d Hd.
    cbn [subdecls] in Hc. destruct Hc as [<-|Hc]; [exact Hd|].
    cbn [subdecls]. right. apply in_app_or in Hc as [Hc|Hc]; apply in_or_app.
    - left. destruct x as [q|]; [|contradiction]. eapply IHx; eauto.
    - right. apply in_flat_map in Hc as (k & Hk & Hc). apply in_flat_map. exists k. split; [exact Hk|].
      rewrite Forall_forall in IHks. eapply IHks; eauto.
  Qed.

  Lemma self_sub v : In v (subdecls v).
  Proof. destruct v. cbn [subdecls]. left. reflexivity. Qed.

  Theorem matches_spec_tree : forall v, P v.
  Proof.
    induction v as [i x ks IHx IHks] using vdecl_ind2. intros t Hwf Hfn.
    destruct (wf_b_inv _ _ _ _ Hwf) as (_ & _ & Hx & Hks).
    pose proof (wf_b_kind _ _ _ _ Hwf) as Hkind.
    (* the xpath_dynamic declaration *)
    assert (Hxd : forall p, V p ->
              xd_rel (match x with Some q => Some (pc_ev (pcompile q)) | None => None end)
                     (match x with Some q => Some (spec_tf (erase q) true p) | None => None end) p).
    { intros p Hv. destruct x as [q|]; simpl; [|exact I]. destruct Hx as [Hpa Hwq].
      assert (Hfq : funcs_ok q).
      { apply (funcs_ok_sub _ _ Hfn). cbn [subdecls]. right. apply in_or_app. left. apply self_sub. }
      destruct (IHx false Hwq Hfq) as [Hq _].
      assert (Ha : aflag (vd_info q) = true).
      { destruct q as [j y l]. destruct (wf_b_inv _ _ _ _ Hwq) as (Hf & _). unfold aflag. cbn [vd_info] in *.
        rewrite Hf, Hpa. reflexivity. }
      rewrite Ha in Hq. apply (Hq p Hv). }
    split; [|intros p Hv; unfold elem_xd_ok; cbn [EvalPure.pcompile pc_xdyn vd_xdyn]; apply Hxd; exact Hv].
    (* children *)
    assert (Hkids : forall a, kind_eqb (p_kind (v_pub i)) KArray = negb a ->
              Forall (fun c => child_ok c a /\ (forall p, V p -> elem_xd_ok c p)) ks).
    { intros a Ha. apply Forall_forall. intros c Hc.
      rewrite Forall_forall in IHks, Hks. destruct (Hks c Hc) as [Hpa Hwc].
      assert (Hfc : funcs_ok c).
      { apply (funcs_ok_sub _ _ Hfn). cbn [subdecls]. right. apply in_or_app. right.
        apply in_flat_map. exists c. split; [exact Hc|apply self_sub]. }
      destruct (IHks c Hc false Hwc Hfc) as [H1 H2]. split; [|exact H2].
      assert (Hac : aflag (vd_info c) = a).
      { destruct c as [j y l]. destruct (wf_b_inv _ _ _ _ Hwc) as (Hf & _). unfold aflag. cbn [vd_info] in *.
        rewrite Hf, Hpa, Ha. simpl. apply negb_involutive. }
      rewrite <- Hac. exact H1. }
    intros p Hv. unfold EvalPure.peval. cbn [EvalPure.pcompile pc_ev erase vd_info].
    set (e := einfo_of i (is_some x)).
    set (pxd := match x with Some q => Some (pc_ev (pcompile q)) | None => None end) in *.
    set (xdres := match x with Some q => Some (spec_tf (erase q) true p) | None => None end).
    assert (Hsx : is_some x = is_some xdres) by (subst xdres; destruct x; reflexivity).
    unfold p_dispatch. cbn [einfo_of e_pub e]. unfold rn. cbn [vd_info].
    assert (Hxe : match match x with Some q => Some (erase q) | None => None end with
                  | Some q => Some (spec_tf q true p) | None => None end = xdres)
      by (subst xdres; destruct x; reflexivity).
    destruct (p_kind (v_pub i)) eqn:K; cbn [Eval.spec_tf]; try rewrite Hxe.
    - (* const *)
      destruct (p_const (v_pub i)) as [c|]; [|discriminate]. apply nrm_sound.
    - (* external *)
      destruct (p_external (v_pub i)) as [nm|]; [|discriminate].
      destruct (ext nm); [apply nrm_sound|split; [reflexivity|exact I]].
    - (* field *)
      split.
      + subst e. rewrite Hsx. apply at_sound; [apply Hxd; exact Hv|exact Hv|].
        intros n Hn. destruct (inner_text_at root n) eqn:T; [apply nrm_sound|exfalso; eapply V_text; eauto].
      + apply (at_rn i). intro n. destruct (inner_text_at root n); [apply (proj2 (nrm_sound i false _))|exact I].
    - (* object *)

      assert (Hk : Forall (fun c => child_ok c true) ks).
      { eapply Forall_impl; [|apply (Hkids true); reflexivity]. intros c [H _]. exact H. }
      split.
      + subst e. rewrite Hsx. apply at_sound; [apply Hxd; exact Hv|exact Hv|].
        intros n Hn. cbn [kid_key].
        rewrite (object_sound ks n [] Hn Hk).
        destruct (obj_all _ _ _) as [o|]; simpl; [apply (proj1 (nrm_sound i _ (VObj o)))|reflexivity].
      + apply (at_rn i). intro n. destruct (obj_all _ _ _); [apply (proj2 (nrm_sound i false _))|exact I].
    - (* array *)
      assert (Hk : Forall (fun c => child_ok c false /\ elem_xd_ok c p) ks).
      { eapply Forall_impl; [|apply (Hkids false); reflexivity]. intros c [H1 H2]. split; [exact H1|apply H2; exact Hv]. }
      cbn [kid_key]. rewrite (array_sound ks p [] Hv Hk).
      destruct (arr_all _ _ _ _) as [vs|]; simpl; [apply nrm_sound|split; [reflexivity|exact I]].
    - (* custom_func *)
      destruct (p_fname (v_pub i)) as [name|] eqn:FN; [|discriminate].
      assert (Hk : Forall (fun c => child_ok c true) ks).
      { eapply Forall_impl; [|apply (Hkids true); reflexivity]. intros c [H _]. exact H. }
      assert (Hsig : fsigs name <> None).
      { apply (Hfn (VD i x ks) (self_sub _)); [exact K|exact FN]. }
      assert (Hbody : forall n, V n ->
                p_then_norm e (p_invoke fsigs fcall e (map (fun c => (kid_key KCustomFunc c, pcompile c)) ks) n)
                = to_res (spec_call fsigs fcall (nrm i) name (p_ignore (v_pub i)) n
                            (map (fun a => spec_tf a true n) (map erase ks)))
                /\ rn i (spec_call fsigs fcall (nrm i) name (p_ignore (v_pub i)) n
                            (map (fun a => spec_tf a true n) (map erase ks)))).
      { intros n Hn. unfold p_invoke, spec_call. subst e. cbn [einfo_of e_pub]. rewrite FN.
        destruct (fsigs name) as [sg|]; [|contradiction]. rewrite !map_length.
        destruct (_ || _)%bool eqn:A; [split; [reflexivity|exact I]|].
        cbn [kid_key]. rewrite (args_sound sg ks 0 n [] Hn Hk (arity_ok sg (length ks) A)).
        destruct (spec_args sg 0 _) as [vs|]; [|split; [reflexivity|exact I]]. simpl.
        destruct (fcall name n vs); [apply nrm_sound|].
        destruct (p_ignore (v_pub i)); [apply nrm_sound|split; [reflexivity|exact I]]. }
      split.
      + subst e. rewrite Hsx. apply at_sound; [apply Hxd; exact Hv|exact Hv|].
        intros n Hn. rewrite <- Hsx. apply (Hbody n Hn).
      + apply (at_rn i). intro n.
        unfold spec_call. destruct (fsigs name); [|exact I]. destruct (_ || _)%bool; [exact I|].
        destruct (spec_args _ _ _); [|exact I]. destruct (fcall name n l); [apply (proj2 (nrm_sound i false _))|].
        destruct (p_ignore (v_pub i)); [apply (proj2 (nrm_sound i false VNil))|exact I].
    - (* custom_parse *)
      destruct (p_parse (v_pub i)) as [name|] eqn:PN; [|discriminate].
      split.
      + subst e. rewrite Hsx. apply at_sound; [apply Hxd; exact Hv|exact Hv|].
        intros n Hn. destruct (pcall name n); [apply nrm_sound|reflexivity].
      + apply (at_rn i). intro n. destruct (pcall name n); [apply (proj2 (nrm_sound i false _))|exact I].
    - contradiction.
  Qed.
End MatchesSpec.

(* ---- the statement over Model definitions --------------------------------------------------------- *)
From OV Require Import Proofs.EvalCache.

Definition valid (root : tree) (p : path) : Prop := subtree root p <> None.

Section MatchesSpecTop.
  Variable root : tree.
  Variable query : bytes -> path -> option (list path).
  Variable ext : bytes -> option bytes.
  Variable fsigs : bytes -> option fsig.
  Variable fcall : bytes -> path -> list value -> cfres.
  Variable pcall : bytes -> path -> cfres.
  Hypothesis query_valid : forall x p ps, valid root p -> query x p = Some ps -> Forall (valid root) ps.
  Hypothesis print_int_trim : forall z, trim_space (Z_to_dec z) = Z_to_dec z.
  Hypothesis print_flt_trim : forall f, trim_space (fmt_float f) = fmt_float f.

  Lemma valid_text p : valid root p -> inner_text_at root p <> None.
  Proof. unfold valid, inner_text_at. destruct (subtree root p); [discriminate|intro H; contradiction]. Qed.

  Theorem eval_matches_spec_tree : forall top,
    wf_b true top = true -> funcs_ok fsigs top ->
    forall p, valid root p ->
    eval_nocache root query ext fsigs fcall pcall top p
    = to_res (spec_tf root query ext fsigs fcall pcall (erase top) false p).
  Proof.
    intros top Hwf Hfn p Hv.
    rewrite (nocache_denotes root query ext fsigs fcall pcall (valid root) top query_valid Hwf top p (self_sub top) Hv).
    destruct (matches_spec_tree root query ext fsigs fcall pcall (valid root) query_valid valid_text
                print_int_trim print_flt_trim top true Hwf Hfn) as [H _].
    destruct (H p Hv) as [H1 _].
    assert (Ha : aflag (vd_info top) = false).
    { destruct top as [i x ks]. destruct (wf_b_inv _ _ _ _ Hwf) as (Hf & _). unfold aflag. cbn [vd_info]. rewrite Hf. reflexivity. }
    rewrite Ha in H1. exact H1.
  Qed.
End MatchesSpecTop.
