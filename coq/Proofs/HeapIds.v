(* C12 proofs, part 1: the atomic ID counter under every interleaving, and blankness of the node
   a create returns. *)
From Coq Require Import List NArith ZArith Bool Lia.
From stdpp Require Import pmap.
From OV Require Import Base.Bytes Base.Cases Base.Tree Model.Heap.
Import ListNotations.

(* ---- ids_unique_par --------------------------------------------------------------------------- *)
Lemma par_run_bounds : forall sched c,
  (c <= fst (par_run c sched))%Z /\
  Forall (fun gv => (c < snd gv <= fst (par_run c sched))%Z) (snd (par_run c sched)).
Proof.
  induction sched as [|g r IH]; intros c; simpl.
  - split; [lia|constructor].
  - destruct (IH (c + 1)%Z) as [Hle Hall].
    destruct (par_run (c + 1) r) as [c2 seen] eqn:E; simpl in *.
    split; [lia|]. constructor; simpl; [lia|].
    eapply List.Forall_impl; [|exact Hall]. intros [g' v]; simpl; lia.
Qed.

Lemma par_run_nodup : forall sched c, NoDup (map snd (snd (par_run c sched))).
Proof.
  induction sched as [|g r IH]; intros c; simpl; [constructor|].
  pose proof (par_run_bounds r (c + 1)%Z) as [_ Hall].
  specialize (IH (c + 1)%Z).
  destruct (par_run (c + 1) r) as [c2 seen] eqn:E; simpl in *.
  constructor; [|exact IH].
  intros Hin. apply elem_of_list_fmap in Hin as [[g' v] [Hv Hin]]. simpl in Hv. subst v.
  rewrite Forall_forall in Hall. specialize (Hall _ Hin). simpl in Hall. lia.
Qed.

(* the values one goroutine sees are increasing in its own program order *)
Lemma par_run_sorted : forall sched c g,
  let mine := map snd (List.filter (fun gv => Nat.eqb (fst gv) g) (snd (par_run c sched))) in
  forall i j vi vj, (i < j)%nat -> nth_error mine i = Some vi -> nth_error mine j = Some vj -> (vi < vj)%Z.
Proof.
  induction sched as [|g0 r IH]; intros c g mine i j vi vj Hij Hi Hj; subst mine; simpl in *.
  - destruct i; discriminate.
  - pose proof (par_run_bounds r (c + 1)%Z) as [_ Hall].
    specialize (IH (c + 1)%Z g).
    destruct (par_run (c + 1) r) as [c2 seen] eqn:E; simpl in *.
    destruct (Nat.eqb g0 g); simpl in *.
    + destruct i as [|i]; simpl in *.
      * inversion Hi; subst vi. destruct j as [|j]; [lia|]. simpl in Hj.
        apply nth_error_In in Hj. apply in_map_iff in Hj as [[g' v] [Hv Hin]].
        apply filter_In in Hin as [Hin _]. rewrite List.Forall_forall in Hall.
        specialize (Hall _ Hin). simpl in *. lia.
      * destruct j as [|j]; [lia|]. simpl in Hj. eapply IH; [|exact Hi|exact Hj]. lia.
    + eapply IH; eauto.
Qed.

(* ---- fresh_blank ------------------------------------------------------------------------------ *)
Definition pool_blank (s : st) : Prop :=
  forall a, In a (pool s) -> exists id, heap s !! a = Some (blank id).

Lemma remove1_In a l l' : remove1 a l = Some l' -> In a l.
Proof.
  revert l'. induction l as [|x r IH]; simpl; intros l' H; [discriminate|].
  destruct (Pos.eqb_spec x a) as [->|Hne]; [now left|].
  destruct (remove1 a r) eqn:E; [|discriminate]. right. eapply IH. reflexivity.
Qed.

Lemma upd_ok site h a f h' : upd site h a f = Ok h' ->
  exists x, h !! a = Some x /\ h' = <[a := f x]> h.
Proof. unfold upd. destruct (h !! a) as [x|]; intro H; inversion H; eauto. Qed.

Lemma create_node_blank caching s c ty data s' a :
  pool_blank s ->
  create_node caching s c ty data = Ok (s', a) ->
  exists id, heap s' !! a = Some (mkNode id None None None None None ty data FNone).
Proof.
  intros Hpb. unfold create_node.
  assert (Hget : forall s1 a1,
            (if caching then pool_get s c
             else match c with Fresh => Ok (alloc_node s) | FromPool _ => BadChoice end) = Ok (s1, a1) ->
            exists id, heap s1 !! a1 = Some (blank id)).
  { intros s1 a1 H.
    assert (Hfresh : Ok (alloc_node s) = Ok (s1, a1) -> exists id, heap s1 !! a1 = Some (blank id)).
    { intro H0. inversion H0; subst. simpl. eexists. apply lookup_insert. }
    destruct caching; destruct c as [|b]; simpl in H; auto; try discriminate.
    destruct (remove1 b (pool s)) as [p'|] eqn:E; [|discriminate]. inversion H; subst. simpl.
    apply Hpb. eapply remove1_In; eauto. }
  destruct (if caching then pool_get s c else _) as [[s1 a1]| | |] eqn:E; simpl; try discriminate.
  destruct (Hget _ _ eq_refl) as [id Hid].
  unfold upd. rewrite Hid. simpl. rewrite lookup_insert. simpl.
  intro H. inversion H; subst. simpl. exists id. rewrite lookup_insert. reflexivity.
Qed.

Lemma create_blank caching s c ty data fs s' a :
  pool_blank s ->
  create caching s c ty data fs = Ok (s', a) ->
  exists id, heap s' !! a = Some (mkNode id None None None None None ty data fs).
Proof.
  intros Hpb. unfold create.
  destruct (create_node caching s c ty data) as [[s1 a1]| | |] eqn:E; simpl; try discriminate.
  destruct (create_node_blank _ _ _ _ _ _ _ Hpb E) as [id Hid].
  destruct fs; simpl.
  - intro H; inversion H; subst. eauto.
  - unfold upd. rewrite Hid. simpl. intro H; inversion H; subst. simpl.
    exists id. rewrite lookup_insert. reflexivity.
  - unfold upd. rewrite Hid. simpl. intro H; inversion H; subst. simpl.
    exists id. rewrite lookup_insert. reflexivity.
Qed.
