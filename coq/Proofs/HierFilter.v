(* C05 proofs, part 6: the target filter (FINAL_OUTPUT xpath) is transparent to the matcher.
   The machines with a filter (rec_done_f, hstep_f, edi_step_f) simulate the machines without:
   same stack up to the node of the top frame (cur.recNode = nil after a rejection), pending
   target filtered; a rejected delivery simply takes one loop iteration less. *)
From Coq Require Import List Arith Bool Lia.
Import ListNotations.
From OV Require Import Base.Cases Model.Hier Model.HierSpec Proofs.HierBase Proofs.HierSim
  Proofs.HierMain Proofs.HierInst Proofs.HierTerm.

Definition not_panic (t : term) : Prop := match t with TPanic _ => False | _ => True end.

(* ---- generic facts about run ------------------------------------------------------------------------ *)
Lemma run_ext : forall s1 s2, (forall st, s1 st = s2 st) ->
  forall fuel st, run s1 fuel st = run s2 fuel st.
Proof.
  intros s1 s2 H. induction fuel as [|f IH]; intros st; [reflexivity|].
  cbn [run]. rewrite H. destruct (s2 st) as [st'|[i|t] st']; auto. rewrite IH. reflexivity.
Qed.

Lemma run_S : forall step f st,
  run step (S f) st =
  match step st with
  | Cont st' => run step f st'
  | Ret (ODeliver t) st' => let '(ds, e) := run step f (clear_tgt st') in (t :: ds, e)
  | Ret (OTerm e) _ => ([], e)
  end.
Proof. reflexivity. Qed.

Lemma run_mono : forall step fuel st,
  snd (run step fuel st) <> TOutOfFuel -> run step (S fuel) st = run step fuel st.
Proof.
  intros step. induction fuel as [|f IH]; intros st H; [simpl in H; congruence|].
  rewrite run_S in H. rewrite (run_S step (S f) st), (run_S step f st).
  destruct (step st) as [st'|[i|t] st'].
  - apply IH. exact H.
  - destruct (run step f (clear_tgt st')) as [ds e] eqn:Er. cbn [snd] in H.
    rewrite IH by (rewrite Er; exact H). rewrite Er. reflexivity.
  - reflexivity.
Qed.

Section FilterProofs.
  Variable keep : inst -> bool.

  Definition Ft (t : option inst) : option inst :=
    match t with Some i => if keep i then Some i else None | None => None end.

  (* the same stack, except possibly the node of the top frame *)
  Definition same_top (sf su : list entry) : Prop :=
    match sf, su with
    | x :: r, y :: r' => e_decl x = e_decl y /\ e_cur x = e_cur y /\ e_occ x = e_occ y /\ r = r'
    | [], [] => True
    | _, _ => False
    end.
  Definition Rst (stf stu : mstate) : Prop :=
    same_top (m_stk stf) (m_stk stu) /\ m_tgt stf = Ft (m_tgt stu) /\ m_rest stf = m_rest stu.

  Lemma same_top_refl : forall s, same_top s s.
  Proof. intros [|x r]; simpl; auto. Qed.

  Ltac fin := eexists; split;
    [cbn [Ft]; try match goal with H : keep _ = _ |- _ => rewrite H end; reflexivity|]; simpl; auto.

  (* ---- recDone ------------------------------------------------------------------------------------ *)
  Lemma rec_done_sim : forall b p tgt,
    match rec_done p b tgt with
    | ROk su tu => exists sf, rec_done_f keep p b (Ft tgt) = ROk sf (Ft tu) /\ same_top sf su
    | _ => True
    end.
  Proof.
    induction b as [|q b IH]; intros p tgt; cbn [rec_done rec_done_f].
    - destruct (d_tgt (e_decl p)) eqn:Et.
      + destruct tgt as [t|]; [exact Logic.I|]. cbn [Ft].
        destruct (e_node p) as [n|]; [|exact Logic.I]. cbn [Ft].
        destruct (keep n) eqn:Ek; fin.
      + eexists. split; [reflexivity|]. simpl. auto.
    - destruct (d_tgt (e_decl p)) eqn:Et.
      + destruct tgt as [t|]; [exact Logic.I|]. cbn [Ft].
        destruct (e_node p) as [n|] eqn:En; [|exact Logic.I].
        specialize (IH (commit q (Some n)) (Some n)). cbn [Ft] in IH.
        cbn [e_occ e_decl].
        destruct (keep n) eqn:Ek.
        * destruct (lt_max (S (e_occ p)) (d_max (e_decl p)));
            [fin|].
          destruct (S (e_occ p) <? d_min (e_decl p));
            [fin|].
          destruct (S (e_cur (commit q (Some n))) <? length (d_kids (e_decl (commit q (Some n))))).
          -- destruct (nth_error _ _); [|exact Logic.I].
             eexists. split; [cbn [Ft]; try match goal with H : keep _ = _ |- _ => rewrite H end; reflexivity|]. apply same_top_refl.
          -- exact IH.
        * destruct (lt_max (S (e_occ p)) (d_max (e_decl p)));
            [fin|].
          destruct (S (e_occ p) <? d_min (e_decl p));
            [fin|].
          destruct (S (e_cur (commit q (Some n))) <? length (d_kids (e_decl (commit q (Some n))))).
          -- destruct (nth_error _ _); [|exact Logic.I].
             eexists. split; [cbn [Ft]; try match goal with H : keep _ = _ |- _ => rewrite H end; reflexivity|]. apply same_top_refl.
          -- exact IH.
      + specialize (IH (commit q (e_node p)) tgt). cbn [e_occ e_decl].
        destruct (lt_max (S (e_occ p)) (d_max (e_decl p)));
          [fin|].
        destruct (S (e_occ p) <? d_min (e_decl p));
          [fin|].
        destruct (S (e_cur (commit q (e_node p))) <? length (d_kids (e_decl (commit q (e_node p))))).
        * destruct (nth_error _ _); [|exact Logic.I].
          eexists. split; [cbn [Ft]; reflexivity|]. apply same_top_refl.
        * exact IH.
  Qed.

  (* what a step on the unfiltered machine implies for the filtered one *)
  Definition sim_res (ru rf : sres) : Prop :=
    match ru with
    | Cont su' => exists sf', rf = Cont sf' /\ Rst sf' su'
    | Ret (OTerm t) _ => not_panic t -> exists sf', rf = Ret (OTerm t) sf'
    | Ret (ODeliver _) _ => False
    end.

  Lemma of_rres_sim : forall p b rest stu stf,
    sim_res (of_rres (rec_done p b None) rest stu) (of_rres (rec_done_f keep p b None) rest stf).
  Proof.
    intros p b rest stu stf. pose proof (rec_done_sim b p None) as H. cbn [Ft] in H.
    destruct (rec_done p b None) as [su tu|t|s] eqn:Eu; cbn [of_rres sim_res].
    - destruct H as (sf & Hf & Hs). rewrite Hf. cbn [of_rres]. eexists. split; [reflexivity|].
      repeat split; auto.
    - exfalso. eapply rec_done_no_err; eauto.
    - intros Hp. destruct Hp.
  Qed.

  Lemma rec_next_sim : forall xf xu below rest stu stf,
    e_decl xf = e_decl xu -> e_cur xf = e_cur xu -> e_occ xf = e_occ xu ->
    sim_res (of_rres (rec_next (xu :: below) None) rest stu)
            (of_rres (rec_next_f keep (xf :: below) None) rest stf).
  Proof.
    intros xf xu below rest stu stf Hd Hc Ho. unfold rec_next, rec_next_f. rewrite Hd, Ho.
    destruct (e_occ xu <? d_min (e_decl xu)); [cbn; eauto|].
    destruct below as [|p b].
    - cbn [of_rres sim_res]. eexists. split; [reflexivity|]. repeat split; simpl; auto.
    - destruct (S (e_cur p) <? length (d_kids (e_decl p))).
      + destruct (nth_error _ _); [|cbn; intros H; destruct H].
        cbn [of_rres sim_res]. eexists. split; [reflexivity|]. repeat split; simpl; auto.
      + apply of_rres_sim.
  Qed.

  Section Steps.
    Variable try_leaf : leaf -> list unt -> option nat.

    Lemma instantiate_sim : forall xf xu below n us ro stu stf,
      e_decl xf = e_decl xu -> e_cur xf = e_cur xu -> e_occ xf = e_occ xu ->
      sim_res (instantiate xu below None n us ro stu)
              (instantiate_f keep xf below None n us ro stf).
    Proof.
      intros xf xu below n us ro stu stf Hd Hc Ho. unfold instantiate, instantiate_f.
      rewrite Hd, Hc, Ho.
      destruct (length us <? n); [cbn; intros H; destruct H|].
      destruct below as [|p b].
      - destruct ro; [|cbn; intros H; destruct H].
        destruct (d_kids (e_decl xu)).
        + apply of_rres_sim.
        + cbn [sim_res]. eexists. split; [reflexivity|]. repeat split; simpl; auto.
      - destruct (e_node p); [|cbn; intros H; destruct H].
        destruct (d_kids (e_decl xu)).
        + apply of_rres_sim.
        + cbn [sim_res]. eexists. split; [reflexivity|]. repeat split; simpl; auto.
    Qed.

    Lemma hstep_sim : forall stf stu, Rst stf stu -> m_tgt stu = None ->
      sim_res (hstep try_leaf stu) (hstep_f keep try_leaf stf).
    Proof.
      intros [sf tf rf] [su tu ru] (Hs & Ht & Hr) Hn. cbn [m_stk m_tgt m_rest] in *. subst tu rf.
      cbn [Ft] in Ht. subst tf. unfold hstep, hstep_f. cbn [m_tgt m_rest m_stk].
      destruct sf as [|xf bf]; destruct su as [|xu bu]; try (destruct Hs; fail).
      - destruct ru; cbn; eauto.
      - destruct Hs as (Hd & Hc & Ho & Hb). subst bf. cbn [length].
        destruct ru as [|u r].
        + destruct (S (length bu) <=? 1); [cbn; eauto|]. apply rec_next_sim; auto.
        + destruct (S (length bu) <=? 1); [cbn; eauto|]. rewrite Hd.
          destruct (read_rec try_leaf (e_decl xu) (u :: r)).
          * apply instantiate_sim; auto.
          * apply rec_next_sim; auto.
    Qed.

    Lemma edi_step_sim : forall stf stu, Rst stf stu -> m_tgt stu = None ->
      sim_res (edi_step try_leaf stu) (edi_step_f keep try_leaf stf).
    Proof.
      intros [sf tf rf] [su tu ru] (Hs & Ht & Hr) Hn. cbn [m_stk m_tgt m_rest] in *. subst tu rf.
      cbn [Ft] in Ht. subst tf. unfold edi_step, edi_step_f. cbn [m_tgt m_rest m_stk].
      destruct sf as [|xf bf]; destruct su as [|xu bu]; try (destruct Hs; fail).
      - destruct ru; cbn; eauto; intros H; destruct H.
      - destruct Hs as (Hd & Hc & Ho & Hb). subst bf. cbn [length].
        destruct ru as [|u r].
        + destruct (S (length bu) <=? 1); [cbn; eauto|]. apply rec_next_sim; auto.
        + rewrite Hd. destruct (read_rec try_leaf (e_decl xu) (u :: r)).
          * apply instantiate_sim; auto.
          * destruct (S (length bu) <=? 1); [cbn; eauto|]. apply rec_next_sim; auto.
    Qed.
  End Steps.

  (* ---- runs ----------------------------------------------------------------------------------------- *)
  Section RunSim.
    Variable stepu stepf : mstate -> sres.
    Hypothesis del_u : forall st t, m_tgt st = Some t -> stepu st = Ret (ODeliver t) st.
    Hypothesis del_f : forall st t, m_tgt st = Some t -> stepf st = Ret (ODeliver t) st.
    Hypothesis sim : forall stf stu, Rst stf stu -> m_tgt stu = None -> sim_res (stepu stu) (stepf stf).

    Lemma run_sim : forall fuel stf stu, Rst stf stu ->
      not_panic (snd (run stepu fuel stu)) -> snd (run stepu fuel stu) <> TOutOfFuel ->
      run stepf fuel stf = filter_res keep (run stepu fuel stu).
    Proof.
      induction fuel as [|f IH]; intros stf stu HR Hnp Hnf; [simpl in Hnf; congruence|].
      rewrite run_S in Hnp, Hnf. rewrite (run_S stepu f stu).
      destruct (m_tgt stu) as [t|] eqn:Etu.
      - rewrite (del_u stu t Etu) in *.
        destruct (run stepu f (clear_tgt stu)) as [ds e] eqn:Eru. cbn [snd] in *.
        destruct HR as (Hs & Ht & Hr). rewrite Etu in Ht. cbn [Ft] in Ht.
        destruct (keep t) eqn:Ek.
        + rewrite (run_S stepf f stf), (del_f stf t Ht).
          rewrite (IH (clear_tgt stf) (clear_tgt stu)); [rewrite Eru| |rewrite Eru; exact Hnp|rewrite Eru; exact Hnf].
          * unfold filter_res. cbn [fst snd filter]. rewrite Ek. reflexivity.
          * repeat split; auto.
        + assert (HR' : Rst stf (clear_tgt stu)) by (repeat split; auto).
          pose proof (IH stf (clear_tgt stu) HR') as H. rewrite Eru in H. cbn [snd] in H.
          specialize (H Hnp Hnf).
          rewrite run_mono by (rewrite H; exact Hnf). rewrite H.
          unfold filter_res. cbn [fst snd filter]. rewrite Ek. reflexivity.
      - pose proof (sim stf stu HR Etu) as Hsim. rewrite (run_S stepf f stf).
        destruct (stepu stu) as [su'|[i|t] su']; cbn [sim_res] in Hsim.
        + destruct Hsim as (sf' & -> & HR'). apply IH; auto.
        + destruct Hsim.
        + cbn [snd] in Hnp. destruct (Hsim Hnp) as (sf' & ->). reflexivity.
    Qed.
  End RunSim.
End FilterProofs.

(* ---- without a filter the filtered machines ARE the plain ones -------------------------------------- *)
Lemma nofilter_rec_done : forall b p tgt, rec_done_f (fun _ => true) p b tgt = rec_done p b tgt.
Proof.
  induction b as [|q b IH]; intros p tgt; cbn [rec_done rec_done_f].
  - destruct (d_tgt (e_decl p)); [|reflexivity]. destruct tgt; [reflexivity|].
    destruct (e_node p); reflexivity.
  - destruct (d_tgt (e_decl p)).
    + destruct tgt; [reflexivity|]. destruct (e_node p) eqn:En; [|reflexivity].
      cbn [e_occ e_decl]. rewrite IH. reflexivity.
    + cbn [e_occ e_decl]. rewrite IH. reflexivity.
Qed.

Lemma nofilter_rec_next : forall stk tgt, rec_next_f (fun _ => true) stk tgt = rec_next stk tgt.
Proof.
  intros [|cur [|p b]] tgt; cbn [rec_next rec_next_f]; try reflexivity.
  rewrite nofilter_rec_done. reflexivity.
Qed.

Lemma nofilter_instantiate : forall cur below tgt n us ro st,
  instantiate_f (fun _ => true) cur below tgt n us ro st = instantiate cur below tgt n us ro st.
Proof.
  intros. unfold instantiate_f, instantiate. rewrite !nofilter_rec_done. reflexivity.
Qed.

Lemma nofilter_hstep : forall tl st, hstep_f (fun _ => true) tl st = hstep tl st.
Proof.
  intros. unfold hstep_f, hstep. rewrite !nofilter_rec_next.
  destruct (m_tgt st); [reflexivity|]. destruct (m_rest st); [reflexivity|].
  destruct (length (m_stk st) <=? 1); [reflexivity|]. destruct (m_stk st); [reflexivity|].
  destruct (read_rec tl (e_decl e) (u :: l)); [apply nofilter_instantiate|reflexivity].
Qed.

Lemma nofilter_edi_step : forall tl st, edi_step_f (fun _ => true) tl st = edi_step tl st.
Proof.
  intros. unfold edi_step_f, edi_step. rewrite !nofilter_rec_next.
  destruct (m_tgt st); [reflexivity|]. destruct (m_rest st); [reflexivity|].
  destruct (m_stk st); [reflexivity|].
  destruct (read_rec tl (e_decl e) (u :: l)); [apply nofilter_instantiate|reflexivity].
Qed.

(* ---- the theorems ------------------------------------------------------------------------------------- *)
Section FilterTheorems.
  Variable keep : inst -> bool.
  Variable try_leaf : leaf -> list unt -> option nat.

  Lemma Rst_refl_init : forall ds us, Rst keep (init ds us) (init ds us).
  Proof.
    intros ds us. unfold init. destruct ds; repeat split; simpl; auto.
  Qed.

  Theorem filter_transparent_run : forall fuel ds us,
    not_panic (snd (run (hstep try_leaf) fuel (init ds us))) ->
    snd (run (hstep try_leaf) fuel (init ds us)) <> TOutOfFuel ->
    run (hstep_f keep try_leaf) fuel (init ds us) =
    filter_res keep (run (hstep try_leaf) fuel (init ds us)).
  Proof.
    intros fuel ds us Hnp Hnf.
    apply (run_sim keep (hstep try_leaf) (hstep_f keep try_leaf)); auto.
    - intros st t H. unfold hstep. rewrite H. reflexivity.
    - intros st t H. unfold hstep_f. rewrite H. reflexivity.
    - apply hstep_sim.
    - apply Rst_refl_init.
  Qed.

  Theorem edi_filter_transparent_run : forall fuel ds us,
    not_panic (snd (run (edi_step try_leaf) fuel (init ds us))) ->
    snd (run (edi_step try_leaf) fuel (init ds us)) <> TOutOfFuel ->
    run (edi_step_f keep try_leaf) fuel (init ds us) =
    filter_res keep (run (edi_step try_leaf) fuel (init ds us)).
  Proof.
    intros fuel ds us Hnp Hnf.
    apply (run_sim keep (edi_step try_leaf) (edi_step_f keep try_leaf)); auto.
    - intros st t H. unfold edi_step. rewrite H. reflexivity.
    - intros st t H. unfold edi_step_f. rewrite H. reflexivity.
    - apply edi_step_sim.
    - apply Rst_refl_init.
  Qed.

  Lemma spec_not_panic : forall ds us, not_panic (snd (spec try_leaf ds us)).
  Proof.
    intros. unfold spec.
    destruct (seq_loop try_leaf (sp_inst try_leaf) ds us) as [e a [|u r]|e t] eqn:Es; cbn; auto.
    apply seql_term in Es. destruct t; simpl in *; auto.
  Qed.

  Theorem filter_transparent_full : forall ds us,
    Forall (WF try_leaf) ds -> count_tgts ds <= 1 ->
    run (hstep_f keep try_leaf) (run_fuel ds us) (init ds us) =
      filter_res keep (run (hstep try_leaf) (run_fuel ds us) (init ds us)) /\
    run (hstep_f keep try_leaf) (run_fuel ds us) (init ds us) = filter_res keep (spec try_leaf ds us).
  Proof.
    intros ds us Hwf Hc.
    pose proof (machine_eq_spec_full try_leaf ds us Hwf Hc) as Heq.
    assert (H : run (hstep_f keep try_leaf) (run_fuel ds us) (init ds us) =
                filter_res keep (run (hstep try_leaf) (run_fuel ds us) (init ds us))).
    { apply filter_transparent_run.
      - rewrite Heq. apply spec_not_panic.
      - apply hier_terminates. exact Hwf. }
    split; [exact H|]. rewrite H, Heq. reflexivity.
  Qed.

  Theorem edi_filter_transparent_full : forall ds us,
    Forall (WF try_leaf) ds -> count_tgts ds <= 1 -> no_root_repeat try_leaf ds us ->
    run (edi_step_f keep try_leaf) (run_fuel ds us) (init ds us) = filter_res keep (spec try_leaf ds us).
  Proof.
    intros ds us Hwf Hc Hg.
    pose proof (edi_eq_spec_full try_leaf ds us Hwf Hc Hg) as Heq.
    rewrite edi_filter_transparent_run.
    - rewrite Heq. reflexivity.
    - rewrite Heq. apply spec_not_panic.
    - apply edi_terminates. exact Hwf.
  Qed.
End FilterTheorems.
