(* C16 proofs, byte level, part 2: fault_prefix_agrees against the UNTRUNCATED input for the line
   reader and the scanner (everything delivered before the fault surfaces, except possibly the
   last item, is what the fault-free run over the whole input delivers), and per-layer bounds on
   how many more items can come once the fault sits in the layer's buffer. *)
From Coq Require Import List NArith Bool Arith Lia.
From Coq.Strings Require Import Byte.
Import ListNotations.
From OV Require Import Base.Bytes Base.Cases Base.Utf8 Model.Chunk Proofs.Chunk Proofs.ChunkLines
  Proofs.ChunkBom Proofs.ChunkTop Proofs.FaultLines Proofs.ChunkScan.

(* ---- line reader ---------------------------------------------------------------------------- *)
(* One ReadSlice that does not touch the end of the delivered bytes: it finds its '\n' or fills
   the buffer strictly inside them. *)
Definition slice_clean (N : nat) (p : bytes) : option ((bytes * option ioerr) * bytes) :=
  match index_byte NL (firstn N p) with
  | Some i => Some ((firstn (S i) p, None), skipn (S i) p)
  | None => if N <? length p then Some ((firstn N p, Some IoBufferFull), skipn N p) else None
  end.

Lemma slice_clean_ext N p q t r p1 :
  slice_clean N p = Some (r, p1) -> a_read_slice N (p ++ q, t) = Ok (r, (p1 ++ q, t)).
Proof.
  unfold slice_clean, a_read_slice. intro H.
  destruct (index_byte NL (firstn N p)) as [i|] eqn:Ei.
  - injection H as <- <-. pose proof (index_byte_lt _ _ _ Ei) as Hlt.
    rewrite firstn_length in Hlt.
    assert (Hi : index_byte NL (firstn N (p ++ q)) = Some i).
    { rewrite firstn_app. apply index_byte_app_some. exact Ei. }
    rewrite Hi. rewrite firstn_app_le, skipn_app_le by lia. reflexivity.
  - destruct (Nat.ltb_spec N (length p)) as [Hlt|]; [|discriminate]. injection H as <- <-.
    rewrite (firstn_app_le N p q) by lia. rewrite Ei.
    rewrite app_length. destruct (Nat.eqb_spec (length p + length q) N) as [|_]; [lia|].
    destruct (Nat.ltb_spec N (length p + length q)) as [_|]; [|lia].
    rewrite skipn_app_le by lia. reflexivity.
Qed.

Lemma slice_not_clean N p t r a' :
  slice_clean N p = None -> a_read_slice N (p, t) = Ok (r, a') -> a' = ([], tail_next t).
Proof.
  unfold slice_clean, a_read_slice. intros Hc H.
  destruct (index_byte NL (firstn N p)); [discriminate|].
  destruct (Nat.ltb_spec N (length p)); [discriminate|].
  destruct (length p =? N); [discriminate|]. injection H as _ <-. reflexivity.
Qed.

Lemma slice_clean_self N p t r p1 :
  slice_clean N p = Some (r, p1) -> a_read_slice N (p, t) = Ok (r, (p1, t)).
Proof.
  intro H. pose proof (slice_clean_ext N p [] t r p1 H) as E. rewrite !app_nil_r in E. exact E.
Qed.

(* ByteReadLine that stays strictly inside the delivered bytes *)
Fixpoint brl_clean (N fuel : nat) (acc p : bytes) : option (bytes * bytes) :=
  match fuel with
  | O => None
  | S k =>
      match slice_clean N p with
      | Some ((line, oe), p1) =>
          let '((l, more, oe'), rewind) := rl_post line oe in
          let p2 := if rewind then CR :: p1 else p1 in
          match oe' with
          | Some _ => None
          | None => if more then brl_clean N k (acc ++ l) p2 else Some (acc ++ l, p2)
          end
      | None => None
      end
  end.

Lemma brl_clean_ext N fuel : forall acc p q t l p1,
  brl_clean N fuel acc p = Some (l, p1) ->
  a_byte_read_line N fuel acc (p ++ q, t) = Ok (inr l, (p1 ++ q, t)).
Proof.
  induction fuel as [|k IH]; intros acc p q t l p1 H; [discriminate|].
  cbn [brl_clean a_byte_read_line] in *. unfold a_read_line.
  destruct (slice_clean N p) as [[[line oe] p0]|] eqn:Es; [|discriminate].
  rewrite (slice_clean_ext N p q t _ _ Es).
  destruct (rl_post line oe) as [[[l0 more] oe'] rew].
  destruct oe' as [e|]; [discriminate|].
  replace (if rew then CR :: p0 ++ q else p0 ++ q) with ((if rew then CR :: p0 else p0) ++ q)
    by (destruct rew; reflexivity).
  destruct more.
  - apply IH. exact H.
  - injection H as <- <-. reflexivity.
Qed.

Lemma brl_not_clean N fuel : forall acc p t l p1 t1,
  brl_clean N fuel acc p = None ->
  a_byte_read_line N fuel acc (p, t) = Ok (inr l, (p1, t1)) -> p1 = [].
Proof.
  induction fuel as [|k IH]; intros acc p t l p1 t1 Hc H; [discriminate|].
  cbn [brl_clean a_byte_read_line] in *. unfold a_read_line in H.
  destruct (slice_clean N p) as [[[line oe] p0]|] eqn:Es.
  - rewrite (slice_clean_self N p t _ _ Es) in H.
    destruct (rl_post line oe) as [[[l0 more] oe'] rew].
    destruct oe' as [e|]; [discriminate|].
    destruct more; [eapply IH; eassumption|discriminate].
  - destruct (a_read_slice N (p, t)) as [[[line oe] a']| |] eqn:Ea; try discriminate.
    pose proof (slice_not_clean N p t _ _ Es Ea) as ->.
    destruct (rl_post line oe) as [[[l0 more] oe'] rew] eqn:Ep.
    assert (rew = false /\ more = false).
    { unfold slice_clean in Es. unfold a_read_slice in Ea.
      destruct (index_byte NL (firstn N p)); [discriminate|].
      destruct (Nat.ltb_spec N (length p)); [discriminate|].
      destruct (length p =? N); [discriminate|]. injection Ea as <- <-.
      pose proof (rl_post_tail p t t) as (_&P2&_). rewrite Ep in P2. cbn in P2. split; [exact P2|].
      unfold rl_post in Ep. destruct t; cbn [tail_err] in Ep;
        (destruct p; [injection Ep as _ <- _ _; reflexivity|]);
        destruct (Byte.eqb _ NL); injection Ep as _ <- _ _; reflexivity. }
    destruct H0 as [-> ->]. destruct oe'; [discriminate|]. injection H as _ <- _. reflexivity.
Qed.

Lemma a_read_lines_nil N fuel t ls e : a_read_lines N fuel ([], t) = Ok (ls, e) -> ls = [].
Proof.
  destruct fuel as [|k]; [discriminate|]. cbn [a_read_lines a_byte_read_line].
  unfold a_read_line, a_read_slice. cbn [firstn index_byte length].
  destruct N as [|n].
  - cbn. discriminate.
  - cbn [Nat.eqb Nat.ltb Nat.leb]. cbn [rl_post]. destruct t; cbn; intro H; injection H as <- _; reflexivity.
Qed.

(* fault_prefix_agrees, line reader: the faulty run sees the bytes p and then the tail t; the
   fault-free run sees p ++ q (any continuation) and any tail.  All lines of the faulty run except
   possibly the last are the first lines of the fault-free run. *)
Theorem lines_fault_prefix_agrees N fuel : forall p q t t' lsA eA lsB eB,
  a_read_lines N fuel (p, t) = Ok (lsA, eA) ->
  a_read_lines N fuel (p ++ q, t') = Ok (lsB, eB) ->
  exists rest, lsB = removelast lsA ++ rest.
Proof.
  induction fuel as [|k IH]; intros p q t t' lsA eA lsB eB HA HB; [discriminate|].
  cbn [a_read_lines] in HA, HB.
  destruct (a_byte_read_line N (S k) [] (p, t)) as [[[e|l] [p1 t1]]| |] eqn:EA; try discriminate.
  - injection HA as <- <-. exists lsB. reflexivity.
  - destruct (a_read_lines N k (p1, t1)) as [[lsA' eA']| |] eqn:EA'; try discriminate.
    injection HA as <- <-.
    destruct (brl_clean N (S k) [] p) as [[l' p1']|] eqn:Ec.
    + pose proof (brl_clean_ext N (S k) [] p q t' l' p1' Ec) as EB. rewrite EB in HB.
      pose proof (brl_clean_ext N (S k) [] p [] t l' p1' Ec) as EA2. rewrite !app_nil_r in EA2.
      pose proof (eq_trans (eq_sym EA) EA2) as X. injection X as <- <- <-.
      destruct (a_read_lines N k (p1 ++ q, t')) as [[lsB' eB']| |] eqn:EB'; try discriminate.
      injection HB as <- <-.
      destruct (IH p1 q t1 t' lsA' eA' lsB' eB' EA' EB') as (rest&->).
      destruct lsA' as [|l2 lsA'].
      * exists (l :: rest). reflexivity.
      * exists rest. reflexivity.
    + pose proof (brl_not_clean N (S k) [] p t l p1 t1 Ec EA) as ->.
      apply a_read_lines_nil in EA'. subst lsA'. exists lsB. reflexivity.
Qed.

(* Bound: the line loop hands out at most one line per byte still to come. *)
Lemma a_read_line_consumes N a l more a' :
  4 <= N -> a_read_line N a = Ok ((l, more, None), a') -> length (fst a') < length (fst a).
Proof.
  intros HN. destruct a as [data t]. unfold a_read_line, a_read_slice.
  destruct (index_byte NL (firstn N data)) as [i|] eqn:Ei.
  - pose proof (index_byte_lt _ _ _ Ei) as Hlt. rewrite firstn_length in Hlt.
    destruct (rl_post (firstn (S i) data) None) as [[[l0 m0] o0] rew] eqn:Ep.
    assert (rew = false) by (unfold rl_post in Ep; destruct (firstn (S i) data); [|destruct (Byte.eqb _ NL)]; inversion Ep; reflexivity).
    subst rew. intro H. assert (Ha : a' = (skipn (S i) data, t)) by congruence. subst a'.
    cbn [fst]. rewrite skipn_length. lia.
  - destruct (length data =? N); [discriminate|].
    destruct (Nat.ltb_spec N (length data)) as [Hlt|Hge].
    + destruct (rl_post (firstn N data) (Some IoBufferFull)) as [[[l0 m0] o0] rew] eqn:Ep.
      intro H. assert (Ha : a' = (if rew then CR :: skipn N data else skipn N data, t)) by congruence. subst a'.
      cbn [fst]. destruct rew; cbn [length]; rewrite skipn_length; lia.
    + destruct (rl_post data (Some (tail_err t))) as [[[l0 m0] o0] rew] eqn:Ep.
      pose proof (rl_post_tail data t t) as (_&P2&_&P4). rewrite Ep in P2, P4. cbn in P2, P4. subst rew.
      intro H. injection H as _ _ Ho <-. cbn [fst length]. subst o0.
      destruct data as [|c d]; [|simpl; lia].
      unfold rl_post in Ep. destruct t; cbn in Ep; injection Ep as _ _ Ho; discriminate.
Qed.

Lemma a_brl_consumes N fuel : forall acc a r a',
  4 <= N -> a_byte_read_line N fuel acc a = Ok (inr r, a') -> length (fst a') < length (fst a).
Proof.
  induction fuel as [|k IH]; intros acc a r a' HN H; [discriminate|].
  cbn [a_byte_read_line] in H.
  destruct (a_read_line N a) as [[[[l more] oe] a1]| |] eqn:El; try discriminate.
  destruct oe as [e|]; [discriminate|].
  pose proof (a_read_line_consumes N a l more a1 HN El) as Hc.
  destruct more.
  - specialize (IH _ _ _ _ HN H). lia.
  - injection H as _ <-. exact Hc.
Qed.

Theorem a_read_lines_count N fuel : forall a ls e,
  4 <= N -> a_read_lines N fuel a = Ok (ls, e) -> length ls <= length (fst a).
Proof.
  induction fuel as [|k IH]; intros a ls e HN H; [discriminate|].
  cbn [a_read_lines] in H.
  destruct (a_byte_read_line N (S k) [] a) as [[[e0|l] a1]| |] eqn:El; try discriminate.
  - injection H as <- _. simpl. lia.
  - pose proof (a_brl_consumes N (S k) [] a l a1 HN El) as Hc.
    destruct (a_read_lines N k a1) as [[ls1 e1]| |] eqn:E1; try discriminate.
    injection H as <- _. specialize (IH a1 ls1 e1 HN E1). simpl. lia.
Qed.

(* Once the fault sits in the bufio.Reader (the input reader has returned it), the line loop
   hands out at most one more line per buffered byte -- at most N -- and then the error. *)
Section LineBound.
  Variable St : Type.
  Variable sread : St -> nat -> rres * St.
  Variable Rep : St -> bytes -> tail -> Prop.
  Variable wt : St -> nat.
  Variable lead : St -> nat.
  Hypothesis Hok : reader_ok St sread Rep wt lead.
  Variable N : nat.
  Hypothesis HN : 4 <= N.

  Theorem lines_fault_bound gas fuel b x data t e ls e' :
    BR St Rep N (b, x) (data, t) -> b_err b = Some e -> wt x + 1 < gas ->
    a_read_lines N fuel (data, t) = Ok (ls, e') ->
    read_lines St sread N gas fuel b x = Ok (ls, e') /\
    length ls <= length (b_data b) /\ length (b_data b) <= N /\ err_of e' t.
  Proof.
    intros HBR He Hg Ha.
    split; [eapply (read_lines_spec St sread Rep wt lead Hok N HN); eassumption|].
    pose proof (a_read_lines_count N fuel (data, t) ls e' HN Ha) as Hc. cbn [fst] in Hc.
    destruct HBR as [HdN HBR]. rewrite He in HBR. destruct HBR as (_&_&->).
    split; [exact Hc|]. split; [exact HdN|].
    exact (proj1 (a_read_lines_tail N fuel (b_data b) t t ls e' Ha)).
  Qed.
End LineBound.

(* ---- scanner ---------------------------------------------------------------------------------- *)
Section ScanPrefix.
  Variable find : bytes -> option nat.
  Variable dlen : nat.
  Variable incl eofd : bool.
  Hypothesis Hdlen : 1 <= dlen.
  Hypothesis Hfind_bound : forall d i, find d = Some i -> i + dlen <= length d.
  Hypothesis Hfind_ext : forall d r i, find d = Some i -> find (d ++ r) = Some i.
  Notation M := MaxScanTokenSize.
  Notation a_scan_all := (a_scan_all find dlen incl eofd).

  Lemma find_nil' : find [] = None.
  Proof. destruct (find []) as [i|] eqn:E; [|reflexivity]. apply Hfind_bound in E. simpl in E. lia. Qed.

  Lemma a_scan_all_nil fuel t ts e : a_scan_all fuel [] t = Ok (ts, e) -> ts = [].
  Proof.
    destruct fuel as [|k]; [discriminate|]. cbn [Chunk.a_scan_all firstn]. rewrite firstn_nil, find_nil'.
    cbn [length is_nil orb]. pose proof M_ge_4096 as HM4.
    destruct (Nat.eqb_spec 0 M) as [E0|_]; [lia|]. destruct (Nat.ltb_spec M 0) as [E1|_]; [lia|].
    intro Hx. injection Hx as <- _. reflexivity.
  Qed.

  (* fault_prefix_agrees, scanner: the tokens of the delivered bytes p -- all of them, or all but
     the last when EOF counts as a delimiter -- are the first tokens of the whole input p ++ q. *)
  Theorem scan_fault_prefix_agrees fuel : forall p q t t' tsA eA tsB eB,
    a_scan_all fuel p t = Ok (tsA, eA) ->
    a_scan_all fuel (p ++ q) t' = Ok (tsB, eB) ->
    exists rest, tsB = (if eofd then removelast tsA else tsA) ++ rest.
  Proof.
    induction fuel as [|k IH]; intros p q t t' tsA eA tsB eB HA HB; [discriminate|].
    cbn [Chunk.a_scan_all] in HA, HB.
    destruct (find (firstn M p)) as [i|] eqn:Ef.
    - pose proof (Hfind_bound _ _ Ef) as Hb. rewrite firstn_length in Hb.
      assert (Ef' : find (firstn M (p ++ q)) = Some i).
      { rewrite firstn_app. apply Hfind_ext. exact Ef. }
      rewrite Ef' in HB. rewrite skipn_app_le in HB by lia.
      rewrite (firstn_app_le (i + (if incl then dlen else 0))) in HB by (destruct incl; lia).
      destruct (a_scan_all k (skipn (i + dlen) p) t) as [[tsA' eA']| |] eqn:EA; try discriminate.
      destruct (a_scan_all k (skipn (i + dlen) p ++ q) t') as [[tsB' eB']| |] eqn:EB; try discriminate.
      injection HA as <- <-. injection HB as <- <-.
      destruct (IH _ q t t' tsA' eA' tsB' eB' EA EB) as (rest&->).
      destruct eofd.
      + destruct tsA' as [|t2 tsA']; [eexists; reflexivity|]. exists rest. reflexivity.
      + exists rest. reflexivity.
    - destruct (length p =? M); [discriminate|].
      destruct (M <? length p); [injection HA as <- _; destruct eofd; exists tsB; reflexivity|].
      destruct (is_nil p || negb eofd) eqn:E.
      + injection HA as <- _. destruct eofd; exists tsB; reflexivity.
      + destruct (a_scan_all k [] t) as [[ts0 e0]| |] eqn:E0; try discriminate.
        apply a_scan_all_nil in E0. subst ts0. injection HA as <- _.
        apply orb_false_elim in E as [_ E]. destruct eofd; [|discriminate]. exists tsB. reflexivity.
  Qed.

  (* Bound: at most one token per byte still to come. *)
  Theorem a_scan_all_count fuel : forall d t ts e,
    a_scan_all fuel d t = Ok (ts, e) -> length ts <= length d.
  Proof.
    induction fuel as [|k IH]; intros d t ts e H; [discriminate|].
    cbn [Chunk.a_scan_all] in H.
    destruct (find (firstn M d)) as [i|] eqn:Ef.
    - pose proof (Hfind_bound _ _ Ef) as Hb. rewrite firstn_length in Hb.
      destruct (a_scan_all k (skipn (i + dlen) d) t) as [[ts1 e1]| |] eqn:E1; try discriminate.
      injection H as <- _. specialize (IH _ _ _ _ E1). rewrite skipn_length in IH. simpl. lia.
    - destruct (length d =? M); [discriminate|].
      destruct (M <? length d); [injection H as <- _; simpl; lia|].
      destruct (is_nil d || negb eofd) eqn:E; [injection H as <- _; simpl; lia|].
      destruct (a_scan_all k [] t) as [[ts0 e0]| |] eqn:E0; try discriminate.
      apply a_scan_all_nil in E0. subst ts0. injection H as <- _.
      apply orb_false_elim in E as [E _]. destruct d; [discriminate|simpl; lia].
  Qed.

  Variable St : Type.
  Variable sread : St -> nat -> rres * St.
  Variable Rep : St -> bytes -> tail -> Prop.
  Variable wt : St -> nat.
  Variable lead : St -> nat.
  Hypothesis Hok : reader_ok St sread Rep wt lead.

  (* Once the scanner has seen the fault, it hands out at most one more token per buffered byte
     and then reports the fault through Err(). *)
  Theorem scan_fault_bound gas fuel sc x data t e ts e' :
    SR St Rep (sc, x) data t -> s_err sc = Some e -> sm St wt (sc, x) < gas ->
    a_scan_all fuel data t = Ok (ts, e') ->
    scan_all St sread find dlen incl eofd gas fuel sc x = Ok (ts, e') /\
    length ts <= length (s_data sc) /\ length (s_data sc) <= s_buflen sc /\ s_buflen sc <= M.
  Proof.
    intros HSR He Hg Ha.
    split; [eapply (scan_all_spec St sread Rep wt lead Hok find dlen incl eofd Hdlen Hfind_bound Hfind_ext); eassumption|].
    pose proof (a_scan_all_count fuel data t ts e' Ha) as Hc.
    destruct HSR as (H1&H2&HR). rewrite He in HR. destruct HR as (_&->). repeat split; auto; lia.
  Qed.
End ScanPrefix.

(* ---- over chunk sources ------------------------------------------------------------------------ *)
From OV Require Import Proofs.ChunkFind.

(* The faulty source delivers the bytes p (in any chunking) and then fails; the fault-free source
   delivers p ++ q and then io.EOF.  Line reader. *)
Theorem lines_fault_prefix_agrees_src N gas fuel csA csB wlA wlB t q lsA eA lsB eB :
  4 <= N -> runs_ok csA = true -> runs_ok csB = true ->
  weight csA + 1 < gas -> weight csB + 1 < gas ->
  concat csB = concat csA ++ q ->
  a_read_lines N fuel (concat csA, t) = Ok (lsA, eA) ->
  a_read_lines N fuel (concat csB, TEof) = Ok (lsB, eB) ->
  read_lines source io_read N gas fuel b_init (mkSrc csA wlA t) = Ok (lsA, eA) /\
  read_lines source io_read N gas fuel b_init (mkSrc csB wlB TEof) = Ok (lsB, eB) /\
  exists rest, lsB = removelast lsA ++ rest.
Proof.
  intros HN HrA HrB HgA HgB Hc HA HB.
  split; [apply lines_spec; assumption|]. split; [apply lines_spec; assumption|].
  rewrite Hc in HB. eapply lines_fault_prefix_agrees; eassumption.
Qed.

(* Scanner (directly over the sources; any delimiter starting with a complete rune, any release
   character; EOF not a delimiter, as in the EDI reader). *)
Theorem scan_fault_prefix_agrees_src delim esc buflen gas fuel csA csB wlA wlB t q tsA eA tsB eB :
  full_rune delim = true -> buflen <= MaxScanTokenSize ->
  runs_ok csA = true -> runs_ok csB = true ->
  weight csA + 1 < gas -> weight csB + 1 < gas ->
  concat csB = concat csA ++ q ->
  a_scan_all (byte_index_with_esc delim esc) (length delim) true false fuel (concat csA) t = Ok (tsA, eA) ->
  a_scan_all (byte_index_with_esc delim esc) (length delim) true false fuel (concat csB) TEof = Ok (tsB, eB) ->
  scan_all source io_read (byte_index_with_esc delim esc) (length delim) true false gas fuel
           (mkScan 0 [] buflen None) (mkSrc csA wlA t) = Ok (tsA, eA) /\
  scan_all source io_read (byte_index_with_esc delim esc) (length delim) true false gas fuel
           (mkScan 0 [] buflen None) (mkSrc csB wlB TEof) = Ok (tsB, eB) /\
  exists rest, tsB = tsA ++ rest.
Proof.
  intros Hd Hbl HrA HrB HgA HgB Hc HA HB.
  destruct (find_esc_ok delim esc Hd) as [Hfb Hfe].
  assert (Hdl : 1 <= length delim) by (destruct delim; [discriminate Hd|simpl; lia]).
  assert (Hscan : forall cs wl t0 res, runs_ok cs = true -> weight cs + 1 < gas ->
            a_scan_all (byte_index_with_esc delim esc) (length delim) true false fuel (concat cs) t0 = Ok res ->
            scan_all source io_read (byte_index_with_esc delim esc) (length delim) true false gas fuel
                     (mkScan 0 [] buflen None) (mkSrc cs wl t0) = Ok res).
  { intros cs wl t0 res Hr Hg Ha.
    eapply (scan_all_spec source io_read src_rep src_wt src_lead source_reader_ok _ _ true false Hdl Hfb Hfe);
      [|unfold sm, src_wt; cbn; lia|exact Ha].
    unfold SR. cbn [s_start s_data s_buflen s_err length]. split; [lia|]. split; [exact Hbl|].
    exists (concat cs). split; [apply src_rep_mk; exact Hr|reflexivity]. }
  split; [apply Hscan; assumption|]. split; [apply Hscan; assumption|].
  rewrite Hc in HB.
  exact (scan_fault_prefix_agrees _ _ true false Hdl Hfb Hfe fuel _ q t TEof tsA eA tsB eB HA HB).
Qed.
