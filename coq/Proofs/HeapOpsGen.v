(* C12: the interpreted extractions of idr.AddChild and of the unlinking part of
   idr.RemoveAndReleaseTree agree with the hand transcriptions Model.Heap.add_child / unlink on
   every heap and for all arguments (aliased or not, present or dangling). *)
From Coq Require Import List NArith ZArith.
From stdpp Require Import pmap.
From OV Require Import Base.Bytes Base.Cases Base.Tree Gen.NodeOps Model.Heap Model.HeapOpsGen Proofs.HeapRep Proofs.Heap.
Import ListNotations.

Ltac split_lookups :=
  repeat (cbn; unfold upd, updp, load, loadp, obind;
          match goal with
          | H : ?t = _ |- context [match ?t with _ => _ end] => rewrite H
          | |- context [match ?m !! ?a with _ => _ end] => destruct (m !! a) eqn:?
          | |- context [match n_first ?x with _ => _ end] => destruct (n_first x) eqn:?
          | |- context [match n_last ?x with _ => _ end] => destruct (n_last x) eqn:?
          | |- context [oaddr_eqb (n_first ?x) None] => destruct (n_first x) eqn:?
          end).

Lemma add_child_gen_eq : forall h p n, oeq (exec_prog [p; n] h add_child_prog) (add_child h p n).
Proof.
  intros h p n. unfold add_child_prog, add_child.
  split_lookups; try exact Logic.I; try reflexivity; try congruence.
Qed.

(* a store to a field other than Parent leaves every node's Parent as it was *)
Lemma parent_stable (h : heapT) a x g n nn :
  h !! a = Some x -> n_parent (g x) = n_parent x -> h !! n = Some nn ->
  exists nn', <[a := g x]> h !! n = Some nn' /\ n_parent nn' = n_parent nn.
Proof.
  intros Ha Hg Hn. destruct (Pos.eq_dec a n) as [->|Hne].
  - rewrite lookup_insert. eexists; split; [reflexivity|]. congruence.
  - rewrite lookup_insert_ne by exact Hne. eauto.
Qed.

Ltac finish :=
  repeat (unfold upd, updp, load, loadp; cbn [obind setf getf];
          match goal with
          | H : ?t = _ |- context [match ?t with _ => _ end] => rewrite H
          | |- context [match ?m !! ?a with _ => _ end] => destruct (m !! a) eqn:?
          | |- context [match n_prev ?x with _ => _ end] => destruct (n_prev x) eqn:?
          | |- context [match n_next ?x with _ => _ end] => destruct (n_next x) eqn:?
          end);
  cbn; try exact Logic.I; try reflexivity; try congruence.

Lemma load_some k (h : heapT) a x : h !! a = Some x -> load k h a = Ok x.
Proof. unfold load. intros ->. reflexivity. Qed.
Lemma load_none k (h : heapT) a : h !! a = None -> load k h a = Panic k.
Proof. unfold load. intros ->. reflexivity. Qed.
Lemma upd_some k (h : heapT) a x g : h !! a = Some x -> upd k h a g = Ok (<[a := g x]> h).
Proof. unfold upd. intros ->. reflexivity. Qed.

Lemma unlink_gen_eq : forall h n, oeq (exec_prog [n] h remove_unlink_prog) (unlink h n).
Proof.
  intros h n. unfold remove_unlink_prog, unlink.
  cbn [exec_prog exec_stmt eval nth_error obind loadp getf setf].
  destruct (h !! n) as [nn|] eqn:Hn.
  2: { rewrite !(load_none _ _ _ Hn). exact Logic.I. }
  rewrite !(load_some _ _ _ _ Hn). cbn [obind].
  destruct (n_parent nn) as [p|] eqn:Hpar; cbn [obind oaddr_eqb opt_eqb loadp]; [|reflexivity].
  destruct (h !! p) as [pn|] eqn:Hp.
  2: { rewrite !(load_none _ _ _ Hp). exact Logic.I. }
  rewrite !(load_some _ _ _ _ Hp). cbn [obind].
  destruct (oaddr_eqb (n_first pn) (Some n)); destruct (oaddr_eqb (n_last pn) (Some n)); cbn [obind updp].
  - rewrite !(upd_some _ _ _ _ _ Hp). cbn [obind setf].
    destruct (parent_stable h p pn (set_first None) n nn Hp eq_refl Hn) as (nn' & Hn' & Hpar').
    rewrite (load_some _ _ _ _ Hn'). cbn [obind]. rewrite Hpar', Hpar. finish.
  - finish.
  - finish.
  - finish.
Qed.

Lemma oeq_refl {A} (x : outcome A) : oeq x x.
Proof. destruct x; simpl; auto. Qed.
Lemma oeq_ok {A} (x : outcome A) a : oeq x (Ok a) -> x = Ok a.
Proof. destruct x; simpl; intros H; try contradiction. congruence. Qed.
Lemma oeq_bind {A B} (x y : outcome A) (f : A -> outcome B) : oeq x y -> oeq (obind x f) (obind y f).
Proof. destruct x, y; simpl; intros H; try contradiction; try exact Logic.I. subst. apply oeq_refl. Qed.

Lemma step_src_eq : forall caching s o, oeq (step_src caching s o) (step caching s o).
Proof.
  intros caching s o. destruct o as [c ty data fs|p n|n]; unfold step_src.
  - apply oeq_refl.
  - unfold step. apply oeq_bind. apply add_child_gen_eq.
  - unfold step, remove_and_release.
    pose proof (unlink_gen_eq (heap s) n) as H.
    destruct (exec_prog [n] (heap s) remove_unlink_prog), (unlink (heap s) n); simpl in H; try contradiction;
      try exact Logic.I.
    subst. cbn [obind]. destruct caching; [|apply oeq_refl].
    destruct (recycle (fuel_of s) (with_heap s a0) n); simpl; auto.
Qed.

Lemma source_refines_forest_pf : forall caching s F o,
  Rep caching s F -> pre_b caching s F o = true ->
  exists s' ret, step_src caching s o = Ok (s', ret) /\ Rep caching s' (aeffect s F o).
Proof.
  intros caching s F o HR Hpre.
  destruct (heap_refines_forest_pf caching s F o HR Hpre) as (s' & ret & Hs & HR').
  exists s', ret. split; [|exact HR'].
  apply oeq_ok. rewrite <- Hs. apply step_src_eq.
Qed.

Lemma replay_src_eq : forall caching strict ops s F os,
  replay_with step_src caching strict s F ops os = replay_with step caching strict s F ops os.
Proof.
  intros caching strict ops. induction ops as [|o ops IH]; intros s F os; destruct os as [|ob os]; try reflexivity.
  cbn [replay_with]. destruct (negb strict || pre_b caching s F o); [|reflexivity].
  pose proof (step_src_eq caching s o) as H.
  destruct (step_src caching s o) as [[s1 r1]| | |], (step caching s o) as [[s2 r2]| | |]; simpl in H;
    try contradiction; try reflexivity.
  injection H as -> ->. rewrite IH. reflexivity.
Qed.

Lemma check_case_src_eq : forall c, check_case_src c = check_case c.
Proof.
  intros [c|c]; [|reflexivity].
  unfold check_case_src, check_case, check_case_with, check_hcase_with. rewrite replay_src_eq. reflexivity.
Qed.
