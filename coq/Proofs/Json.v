(* C08 proofs, JSON half.
   1. jbuild_jtree : the reader (idr/jsonreader.go, as the stack machine jread) run on the token
      stream of ANY value v builds exactly the tree jtree v (induction on v, generalised over
      the three positions a value can occupy: the root, a property, an array element).
   2. j2i_jnode : the converter (idr/marshal2.go) maps jtree v back to v when object keys are
      pairwise distinct and strconv round-trips the numbers of v.
   3. json_roundtrip / copy_roundtrip : the composition. *)
From Coq Require Import List NArith Bool Lia.
From Coq.Strings Require Import Byte.
Import ListNotations.
From OV Require Import Base.Bytes Base.Cases Base.Tree Model.Json.

(* ---- induction over values with nested lists ------------------------------------------------ *)
Section jvalue_ind2.
  Variable P : jvalue -> Prop.
  Hypothesis HNull : P JNull.
  Hypothesis HBool : forall b, P (JBool b).
  Hypothesis HNum : forall k, P (JNum k).
  Hypothesis HStr : forall s, P (JStr s).
  Hypothesis HArr : forall xs, Forall P xs -> P (JArr xs).
  Hypothesis HObj : forall kvs, Forall (fun kv => P (snd kv)) kvs -> P (JObj kvs).
  Fixpoint jvalue_ind2 (v : jvalue) : P v :=
    match v with
    | JNull => HNull
    | JBool b => HBool b
    | JNum k => HNum k
    | JStr s => HStr s
    | JArr xs =>
        HArr xs ((fix go (l : list jvalue) : Forall P l :=
                    match l with
                    | [] => Forall_nil P
                    | x :: r => Forall_cons x (jvalue_ind2 x) (go r)
                    end) xs)
    | JObj kvs =>
        HObj kvs ((fix go (l : list (bytes * jvalue)) : Forall (fun kv => P (snd kv)) l :=
                     match l with
                     | [] => Forall_nil _
                     | (k, x) :: r =>
                         Forall_cons (P := fun kv => P (snd kv)) (k, x) (jvalue_ind2 x) (go r)
                     end) kvs)
    end.
End jvalue_ind2.

(* named versions of the anonymous nested recursions of the model *)
Fixpoint jtoks_elems (xs : list jvalue) : list jtok :=
  match xs with [] => [JTArrClose] | x :: r => jtokens x ++ jtoks_elems r end.
Fixpoint jtoks_members (kvs : list (bytes * jvalue)) : list jtok :=
  match kvs with [] => [JTObjClose] | (k, x) :: r => JTStr k :: jtokens x ++ jtoks_members r end.
Lemma jtokens_arr xs : jtokens (JArr xs) = JTArrOpen :: jtoks_elems xs.
Proof. reflexivity. Qed.
Lemma jtokens_obj kvs : jtokens (JObj kvs) = JTObjOpen :: jtoks_members kvs.
Proof. reflexivity. Qed.

Fixpoint jwf_all (xs : list jvalue) : bool :=
  match xs with [] => true | x :: r => jwf x && jwf_all r end.
Fixpoint jwf_vals (kvs : list (bytes * jvalue)) : bool :=
  match kvs with [] => true | (_, x) :: r => jwf x && jwf_vals r end.
Lemma jwf_arr xs : jwf (JArr xs) = jwf_all xs.
Proof. reflexivity. Qed.
Lemma jwf_obj kvs : jwf (JObj kvs) = keys_distinct (map fst kvs) && jwf_vals kvs.
Proof. reflexivity. Qed.

Definition jnums_all (P : N -> Prop) : list jvalue -> Prop :=
  fix go xs := match xs with [] => True | x :: r => jnums P x /\ go r end.
Definition jnums_vals (P : N -> Prop) : list (bytes * jvalue) -> Prop :=
  fix go kvs := match kvs with [] => True | (_, x) :: r => jnums P x /\ go r end.
Lemma jnums_arr P xs : jnums P (JArr xs) = jnums_all P xs.
Proof. reflexivity. Qed.
Lemma jnums_obj P kvs : jnums P (JObj kvs) = jnums_vals P kvs.
Proof. reflexivity. Qed.

Section JsonProofs.
  Variable fmtf : N -> bytes.
  Variable parsef : bytes -> N.

  Notation jread := (jread fmtf).
  Notation jnode := (jnode fmtf).
  Notation jtree := (jtree fmtf).
  Notation wrap_up := Json.wrap_up.

  Definition jelem (x : jvalue) : tree :=
    jnode ElementNode [] (if is_scalar x then JSONProp else 0%N) x.
  Definition jmember (kv : bytes * jvalue) : tree :=
    jnode ElementNode (fst kv) JSONProp (snd kv).

  Lemma jnode_arr ty d base xs :
    jnode ty d base (JArr xs) = T ty d (FJson (N.lor base JSONArr)) (map jelem xs).
  Proof. reflexivity. Qed.
  Lemma jnode_obj ty d base kvs :
    jnode ty d base (JObj kvs) = T ty d (FJson (N.lor base JSONObj)) (map jmember kvs).
  Proof.
    simpl. f_equal. induction kvs as [|[k x] r IH]; simpl; [reflexivity|]. f_equal. exact IH.
  Qed.

  (* ================= 1. the reader builds jtree ================= *)
  Definition jcont (p : jstate * option jres) (rest : list jtok) : jres * jstate * list jtok :=
    match p with
    | (s', Some res) => (res, s', rest)
    | (s', None) => jread s' rest
    end.

  Lemma jread_cons s t r : js_stack s <> [] -> jread s (t :: r) = jcont (jstep fmtf s t) r.
  Proof.
    intro Hne. simpl. destruct (js_stack s) as [|f fs]; [contradiction|].
    destruct (jstep fmtf s t) as [s' [res|]]; reflexivity.
  Qed.

  (* children attached in order *)
  Definition jf_addl (f : jframe) (l : list tree) : jframe :=
    mkJF (jf_ty f) (jf_data f) (jf_flags f) (rev l ++ jf_kids f).

  Lemma jf_addl_nil f : jf_addl f [] = f.
  Proof. destruct f; reflexivity. Qed.
  Lemma jf_addl_cons f c l : jf_addl (jf_add f c) l = jf_addl f (c :: l).
  Proof. unfold jf_addl, jf_add. simpl. rewrite <- app_assoc. reflexivity. Qed.

  Notation ST := (Some 1%nat).   (* sp.stream = the root, once the first token came *)

  (* a value in property position: sp.cur is a fresh property node below some parent *)
  Definition PropStmt (v : jvalue) : Prop :=
    forall k p ps rest,
      jread (mkJS (mkJF ElementNode k JSONProp [] :: p :: ps) ST) (jtokens v ++ rest) =
      jread (mkJS (jf_add p (jnode ElementNode k JSONProp v) :: ps) ST) rest.

  (* a value in array position: sp.cur carries the JSONArr flag (root, property or element) *)
  Definition ArrStmt (v : jvalue) : Prop :=
    forall top ps rest,
      flag_set (jf_flags top) JSONArr = true ->
      flag_set (jf_flags top) JSONObj = false ->
      jread (mkJS (top :: ps) ST) (jtokens v ++ rest) =
      jread (mkJS (jf_add top (jelem v) :: ps) ST) rest.

  Lemma elems_run xs :
    Forall ArrStmt xs ->
    forall top ps rest,
      flag_set (jf_flags top) JSONArr = true ->
      flag_set (jf_flags top) JSONObj = false ->
      jread (mkJS (top :: ps) ST) (jtoks_elems xs ++ rest) =
      jcont (wrap_up (mkJS (jf_addl top (map jelem xs) :: ps) ST)) rest.
  Proof.
    induction 1 as [|x r Hx Hr IH]; intros top ps rest Harr Hobj.
    - simpl jtoks_elems. simpl app. rewrite jread_cons by discriminate.
      simpl map. rewrite jf_addl_nil. reflexivity.
    - simpl jtoks_elems. rewrite <- app_assoc. rewrite (Hx top ps _ Harr Hobj).
      rewrite (IH (jf_add top (jelem x)) ps rest Harr Hobj).
      rewrite jf_addl_cons. reflexivity.
  Qed.

  Lemma members_run kvs :
    Forall (fun kv => PropStmt (snd kv)) kvs ->
    forall top ps rest,
      flag_set (jf_flags top) JSONObj = true ->
      jread (mkJS (top :: ps) ST) (jtoks_members kvs ++ rest) =
      jcont (wrap_up (mkJS (jf_addl top (map jmember kvs) :: ps) ST)) rest.
  Proof.
    induction 1 as [|[k x] r Hx Hr IH]; intros top ps rest Hobj.
    - simpl jtoks_members. simpl app. rewrite jread_cons by discriminate.
      simpl map. rewrite jf_addl_nil. reflexivity.
    - simpl jtoks_members. rewrite <- app_comm_cons. rewrite jread_cons by discriminate.
      unfold jstep, parse_val. cbn [js_stack]. rewrite Hobj.
      unfold jcont, add_elem, stream_check. cbn [js_stack js_stream].
      rewrite <- app_assoc. simpl in Hx. rewrite (Hx k top ps).
      rewrite (IH (jf_add top (jnode ElementNode k JSONProp x)) ps rest Hobj).
      rewrite jf_addl_cons. reflexivity.
  Qed.

  Lemma rev_rev_nil {A} (l : list A) : rev (rev l ++ []) = l.
  Proof. rewrite app_nil_r. apply rev_involutive. Qed.

  Lemma value_positions v : PropStmt v /\ ArrStmt v.
  Proof.
    induction v as [| b | n | s | xs IH | kvs IH] using jvalue_ind2.
    - split.
      + intros k p ps rest. reflexivity.
      + intros top ps rest Harr Hobj. simpl jtokens. simpl app.
        rewrite jread_cons by discriminate. unfold jstep, parse_val. cbn [js_stack].
        rewrite Hobj, Harr. reflexivity.
    - split.
      + intros k p ps rest. reflexivity.
      + intros top ps rest Harr Hobj. simpl jtokens. simpl app.
        rewrite jread_cons by discriminate. unfold jstep, parse_val. cbn [js_stack].
        rewrite Hobj, Harr. reflexivity.
    - split.
      + intros k p ps rest. reflexivity.
      + intros top ps rest Harr Hobj. simpl jtokens. simpl app.
        rewrite jread_cons by discriminate. unfold jstep, parse_val. cbn [js_stack].
        rewrite Hobj, Harr. reflexivity.
    - split.
      + intros k p ps rest. reflexivity.
      + intros top ps rest Harr Hobj. simpl jtokens. simpl app.
        rewrite jread_cons by discriminate. unfold jstep, parse_val. cbn [js_stack].
        rewrite Hobj, Harr. reflexivity.
    - assert (HA : Forall ArrStmt xs) by (eapply Forall_impl; [|exact IH]; intros a [_ H]; exact H).
      split.
      + intros k p ps rest. rewrite jtokens_arr, <- app_comm_cons.
        rewrite jread_cons by discriminate.
        change (jstep fmtf (mkJS (mkJF ElementNode k JSONProp [] :: p :: ps) ST) JTArrOpen)
          with (mkJS (mkJF ElementNode k 12 [] :: p :: ps) ST, @None jres).
        unfold jcont. rewrite (elems_run xs HA) by reflexivity.
        rewrite jnode_arr. unfold wrap_up, jf_addl, jf_tree, jcont. cbn [js_stack js_stream jf_ty jf_data jf_flags jf_kids].
        rewrite rev_rev_nil. reflexivity.
      + intros top ps rest Harr Hobj. rewrite jtokens_arr, <- app_comm_cons.
        rewrite jread_cons by discriminate.
        unfold jstep, parse_open. cbn [js_stack]. rewrite Harr.
        unfold jcont, add_elem, stream_check. cbn [js_stack js_stream].
        rewrite (elems_run xs HA) by reflexivity.
        unfold jelem. cbn [is_scalar]. rewrite jnode_arr.
        unfold wrap_up, jf_addl, jf_tree, jcont. cbn [js_stack js_stream jf_ty jf_data jf_flags jf_kids].
        rewrite rev_rev_nil. reflexivity.
    - assert (HP : Forall (fun kv => PropStmt (snd kv)) kvs)
        by (eapply Forall_impl; [|exact IH]; intros a [H _]; exact H).
      split.
      + intros k p ps rest. rewrite jtokens_obj, <- app_comm_cons.
        rewrite jread_cons by discriminate.
        change (jstep fmtf (mkJS (mkJF ElementNode k JSONProp [] :: p :: ps) ST) JTObjOpen)
          with (mkJS (mkJF ElementNode k 10 [] :: p :: ps) ST, @None jres).
        unfold jcont. rewrite (members_run kvs HP) by reflexivity.
        rewrite jnode_obj. unfold wrap_up, jf_addl, jf_tree, jcont. cbn [js_stack js_stream jf_ty jf_data jf_flags jf_kids].
        rewrite rev_rev_nil. reflexivity.
      + intros top ps rest Harr Hobj. rewrite jtokens_obj, <- app_comm_cons.
        rewrite jread_cons by discriminate.
        unfold jstep, parse_open. cbn [js_stack]. rewrite Harr.
        unfold jcont, add_elem, stream_check. cbn [js_stack js_stream].
        rewrite (members_run kvs HP) by reflexivity.
        unfold jelem. cbn [is_scalar]. rewrite jnode_obj.
        unfold wrap_up, jf_addl, jf_tree, jcont. cbn [js_stack js_stream jf_ty jf_data jf_flags jf_kids].
        rewrite rev_rev_nil. reflexivity.
  Qed.

  (* The first Read with target "." returns the document node carrying exactly jtree v, having
     consumed exactly the tokens of v; sp.cur is nil afterwards. *)
  Lemma jread_root v rest :
    jread jinit (jtokens v ++ rest) = (JRNode (jtree v), mkJS [] ST, rest).
  Proof.
    destruct v as [| b | n | s | xs | kvs]; try reflexivity.
    - rewrite jtokens_arr, <- app_comm_cons. unfold jinit. rewrite jread_cons by discriminate.
      change (jstep fmtf (mkJS [mkJF DocumentNode [] JSONRoot []] None) JTArrOpen)
        with (mkJS [mkJF DocumentNode [] 5 []] ST, @None jres).
      unfold jcont. rewrite elems_run; [| | reflexivity | reflexivity].
      + unfold Json.jtree. rewrite jnode_arr.
        unfold wrap_up, jf_addl, jf_tree, jcont. cbn [js_stack js_stream jf_ty jf_data jf_flags jf_kids].
        rewrite rev_rev_nil. reflexivity.
      + apply Forall_forall. intros x _. apply value_positions.
    - rewrite jtokens_obj, <- app_comm_cons. unfold jinit. rewrite jread_cons by discriminate.
      change (jstep fmtf (mkJS [mkJF DocumentNode [] JSONRoot []] None) JTObjOpen)
        with (mkJS [mkJF DocumentNode [] 3 []] ST, @None jres).
      unfold jcont. rewrite members_run; [| | reflexivity].
      + unfold Json.jtree. rewrite jnode_obj.
        unfold wrap_up, jf_addl, jf_tree, jcont. cbn [js_stack js_stream jf_ty jf_data jf_flags jf_kids].
        rewrite rev_rev_nil. reflexivity.
      + apply Forall_forall. intros x _. apply value_positions.
  Qed.

  Theorem jbuild_jtree v : jbuild fmtf (jtokens v) = Some (jtree v).
  Proof.
    unfold jbuild. rewrite <- (app_nil_r (jtokens v)). rewrite jread_root. reflexivity.
  Qed.

  (* a further token after the document is the "unexpected token" error, never a second node *)
  Lemma jread_after_root v t rest :
    let '(_, s, _) := jread jinit (jtokens v) in
    fst (fst (jread s (t :: rest))) = JRErrExtra.
  Proof.
    rewrite <- (app_nil_r (jtokens v)). rewrite jread_root. reflexivity.
  Qed.

  (* ================= 2. the converter inverts jtree ================= *)
  Definition j2_arr (f : tree -> jvalue) : list tree -> list jvalue :=
    fix go ks :=
      match ks with
      | [] => []
      | c :: r => match t_type c with ElementNode => f c :: go r | _ => go r end
      end.
  Definition j2_obj (f : tree -> jvalue) :=
    fix go (ks : list tree) (obj : list (bytes * jentry)) (attrs : list (bytes * jvalue))
      : list (bytes * jentry) * list (bytes * jvalue) :=
      match ks with
      | [] => (obj, attrs)
      | c :: r =>
          match t_type c with
          | ElementNode => go r (obj_add obj (j2_node_name c) (f c)) attrs
          | AttributeNode => go r obj (map_set attrs (j2_node_name c) (f c))
          | _ => go r obj attrs
          end
      end.

  Lemma j2i_unfold old use ty d fs kids :
    j2i parsef old use (T ty d fs kids) =
    let t := T ty d fs kids in
    if is_child_text t then get_child_data parsef use t
    else if (if old then is_child_array_old use t else is_child_array use t)
         then JArr (j2_arr (j2i parsef old use) kids)
    else let '(obj, attrs) := j2_obj (j2i parsef old use) kids [] [] in
         let fields := map (fun '(k, e) => (k, jentry_val e)) obj in
         JObj (match attrs with
               | [] => fields
               | _ => map_set fields b_attributes (JObj attrs)
               end).
  Proof. reflexivity. Qed.

  (* getChildData's n.FirstChild is never nil: isChildText found a text child *)
  Lemma is_child_text_kids t : is_child_text t = true -> t_kids t <> [].
  Proof. destruct t as [ty d fs [|k r]]; [discriminate|discriminate]. Qed.

  Definition base_ok (base : N) : Prop := base = 0%N \/ base = JSONRoot \/ base = JSONProp.

  Lemma jnode_type ty d base v : t_type (jnode ty d base v) = ty.
  Proof. destruct v; reflexivity. Qed.
  Lemma jnode_name ty d base v : j2_node_name (jnode ty d base v) = d.
  Proof. destruct v; reflexivity. Qed.

  Lemma ict_elems (l : list tree) :
    Forall (fun c => t_type c = ElementNode) l -> is_child_text_from l false = false.
  Proof. destruct 1 as [|c r Hc _]; [reflexivity|]. simpl. rewrite Hc. reflexivity. Qed.

  Lemma bytes_eqb_refl b : bytes_eqb b b = true.
  Proof. apply bytes_eqb_eq. reflexivity. Qed.

  Lemma obj_add_fresh obj name v :
    existsb (bytes_eqb name) (map fst obj) = false ->
    obj_add obj name v = obj ++ [(name, ESingle v)].
  Proof.
    induction obj as [|[k e] r IH]; intro H; [reflexivity|].
    simpl in H. apply orb_false_elim in H as [H1 H2]. simpl.
    assert (Hk : bytes_eqb k name = false).
    { destruct (bytes_eqb k name) eqn:E; [|reflexivity].
      apply bytes_eqb_eq in E. subst. rewrite bytes_eqb_refl in H1. discriminate. }
    rewrite Hk, (IH H2). reflexivity.
  Qed.

  Lemma keys_distinct_app_cons acc k r :
    keys_distinct (acc ++ k :: r) = true ->
    existsb (bytes_eqb k) acc = false /\ keys_distinct ((acc ++ [k]) ++ r) = true.
  Proof.
    intro H. split.
    - induction acc as [|a acc IH]; [reflexivity|].
      simpl in H. apply andb_prop in H as [H1 H2]. simpl. rewrite (IH H2), orb_false_r.
      apply negb_true_iff in H1. rewrite existsb_app in H1. apply orb_false_elim in H1 as [_ H1].
      simpl in H1. apply orb_false_elim in H1 as [H1 _].
      destruct (bytes_eqb k a) eqn:E; [|reflexivity].
      apply bytes_eqb_eq in E. subst. rewrite bytes_eqb_refl in H1. discriminate.
    - rewrite <- app_assoc. exact H.
  Qed.

  Lemma j2_obj_members f kvs :
    Forall (fun kv => f (jmember kv) = snd kv) kvs ->
    forall acc,
      keys_distinct (map fst acc ++ map fst kvs) = true ->
      j2_obj f (map jmember kvs) acc [] =
      (acc ++ map (fun kv => (fst kv, ESingle (snd kv))) kvs, []).
  Proof.
    induction 1 as [|[k x] r Hx Hr IH]; intros acc Hd.
    - simpl. rewrite app_nil_r. reflexivity.
    - simpl map. change (jmember (k, x)) with (jnode ElementNode k JSONProp x) in *.
      cbn [j2_obj]. rewrite jnode_type, jnode_name.
      simpl in Hx. rewrite Hx.
      simpl map in Hd. apply keys_distinct_app_cons in Hd as [Hfresh Hd].
      rewrite (obj_add_fresh acc k x Hfresh).
      rewrite IH.
      + rewrite <- app_assoc. reflexivity.
      + rewrite map_app. exact Hd.
  Qed.

  Lemma j2_arr_elems f xs :
    Forall (fun x => f (jelem x) = x) xs -> j2_arr f (map jelem xs) = xs.
  Proof.
    induction 1 as [|x r Hx Hr IH]; [reflexivity|].
    simpl map. cbn [j2_arr]. unfold jelem at 1. rewrite jnode_type. rewrite Hx, IH. reflexivity.
  Qed.

  Definition float_rt (k : N) : Prop := parsef (fmtf k) = k.

  Lemma j2i_jnode v :
    jwf v = true -> jnums float_rt v ->
    forall ty d base, base_ok base -> j2i parsef false true (jnode ty d base v) = v.
  Proof.
    induction v as [| b | n | s | xs IH | kvs IH] using jvalue_ind2; intros Hwf Hnum ty d base Hb.
    - destruct Hb as [->|[->| ->]]; reflexivity.
    - destruct Hb as [->|[->| ->]]; destruct b; reflexivity.
    - simpl in Hnum. unfold float_rt in Hnum.
      destruct Hb as [->|[->| ->]]; cbn; rewrite Hnum; reflexivity.
    - destruct Hb as [->|[->| ->]]; reflexivity.
    - rewrite jnode_arr, j2i_unfold. cbv zeta.
      assert (Hty : Forall (fun c => t_type c = ElementNode) (map jelem xs)).
      { apply Forall_forall. intros c Hc. apply in_map_iff in Hc as (x & <- & _). apply jnode_type. }
      unfold is_child_text. cbn [t_kids]. rewrite (ict_elems _ Hty).
      assert (Harr : is_child_array true (T ty d (FJson (N.lor base JSONArr)) (map jelem xs)) = true)
        by (destruct Hb as [->|[->| ->]]; reflexivity).
      rewrite Harr. f_equal. apply j2_arr_elems.
      rewrite jwf_arr in Hwf. rewrite jnums_arr in Hnum.
      clear Hty Harr. induction IH as [|x r Hx Hr IHr]; [constructor|].
      simpl in Hwf. apply andb_prop in Hwf as [Hw1 Hw2]. destruct Hnum as [Hn1 Hn2].
      constructor; [|exact (IHr Hw2 Hn2)].
      unfold jelem. apply (Hx Hw1 Hn1). destruct (is_scalar x); [right; right|left]; reflexivity.
    - rewrite jnode_obj, j2i_unfold. cbv zeta.
      assert (Hty : Forall (fun c => t_type c = ElementNode) (map jmember kvs)).
      { apply Forall_forall. intros c Hc. apply in_map_iff in Hc as (x & <- & _). apply jnode_type. }
      unfold is_child_text. cbn [t_kids]. rewrite (ict_elems _ Hty).
      assert (Harr : is_child_array true (T ty d (FJson (N.lor base JSONObj)) (map jmember kvs)) = false)
        by (destruct Hb as [->|[->| ->]]; reflexivity).
      rewrite Harr.
      rewrite jwf_obj in Hwf. apply andb_prop in Hwf as [Hd Hwf]. rewrite jnums_obj in Hnum.
      rewrite (j2_obj_members (j2i parsef false true) kvs).
      + simpl app. f_equal. rewrite map_map. clear. induction kvs as [|[k x] r IHr]; [reflexivity|].
        simpl. f_equal. exact IHr.
      + clear Hty Harr Hd. induction IH as [|[k x] r Hx Hr IHr]; [constructor|].
        simpl in Hwf. apply andb_prop in Hwf as [Hw1 Hw2]. destruct Hnum as [Hn1 Hn2].
        constructor; [|exact (IHr Hw2 Hn2)].
        unfold jmember. simpl. apply (Hx Hw1 Hn1). right; right; reflexivity.
      + simpl. exact Hd.
  Qed.

  (* ================= 2b. the converter on ANY value: repeated keys are folded ================= *)
  Definition jfold_all : list jvalue -> list jvalue :=
    fix go xs := match xs with [] => [] | x :: r => jfold x :: go r end.
  Definition jfold_vals : list (bytes * jvalue) -> list (bytes * jvalue) :=
    fix go kvs := match kvs with [] => [] | (k, x) :: r => (k, jfold x) :: go r end.
  Lemma jfold_arr xs : jfold (JArr xs) = JArr (jfold_all xs).
  Proof. reflexivity. Qed.
  Lemma jfold_obj kvs : jfold (JObj kvs) = JObj (group_members (jfold_vals kvs)).
  Proof. reflexivity. Qed.

  Lemma j2_obj_fold f kvs : forall acc,
    j2_obj f (map jmember kvs) acc [] =
    (fold_left (fun a kv => obj_add a (fst kv) (f (jmember kv))) kvs acc, []).
  Proof.
    induction kvs as [|[k x] r IH]; intro acc; [reflexivity|].
    simpl map. change (jmember (k, x)) with (jnode ElementNode k JSONProp x).
    cbn [j2_obj]. rewrite jnode_type, jnode_name. simpl fold_left.
    change (jnode ElementNode k JSONProp x) with (jmember (k, x)). apply IH.
  Qed.

  Lemma fold_members_ext f kvs :
    Forall (fun kv => f (jmember kv) = jfold (snd kv)) kvs ->
    forall acc,
      fold_left (fun a kv => obj_add a (fst kv) (f (jmember kv))) kvs acc =
      fold_left (fun a kv => obj_add a (fst kv) (snd kv)) (jfold_vals kvs) acc.
  Proof.
    induction 1 as [|[k x] r Hx Hr IH]; intro acc; [reflexivity|].
    simpl. simpl in Hx. rewrite Hx. apply IH.
  Qed.

  Lemma j2_arr_fold f xs :
    Forall (fun x => f (jelem x) = jfold x) xs -> j2_arr f (map jelem xs) = jfold_all xs.
  Proof.
    induction 1 as [|x r Hx Hr IH]; [reflexivity|].
    simpl map. cbn [j2_arr]. unfold jelem at 1. rewrite jnode_type. rewrite Hx, IH. reflexivity.
  Qed.

  (* the converter on the tree of ANY value (no hypothesis on keys) *)
  Lemma j2i_jnode_fold v :
    jnums float_rt v ->
    forall ty d base, base_ok base -> j2i parsef false true (jnode ty d base v) = jfold v.
  Proof.
    induction v as [| b | n | s | xs IH | kvs IH] using jvalue_ind2; intros Hnum ty d base Hb.
    - destruct Hb as [->|[->| ->]]; reflexivity.
    - destruct Hb as [->|[->| ->]]; destruct b; reflexivity.
    - simpl in Hnum. unfold float_rt in Hnum.
      destruct Hb as [->|[->| ->]]; cbn; rewrite Hnum; reflexivity.
    - destruct Hb as [->|[->| ->]]; reflexivity.
    - rewrite jnode_arr, j2i_unfold, jfold_arr. cbv zeta.
      assert (Hty : Forall (fun c => t_type c = ElementNode) (map jelem xs)).
      { apply Forall_forall. intros c Hc. apply in_map_iff in Hc as (x & <- & _). apply jnode_type. }
      unfold is_child_text. cbn [t_kids]. rewrite (ict_elems _ Hty).
      assert (Harr : is_child_array true (T ty d (FJson (N.lor base JSONArr)) (map jelem xs)) = true)
        by (destruct Hb as [->|[->| ->]]; reflexivity).
      rewrite Harr. f_equal. apply j2_arr_fold.
      rewrite jnums_arr in Hnum.
      clear Hty Harr. induction IH as [|x r Hx Hr IHr]; [constructor|].
      destruct Hnum as [Hn1 Hn2]. constructor; [|exact (IHr Hn2)].
      unfold jelem. apply (Hx Hn1). destruct (is_scalar x); [right; right|left]; reflexivity.
    - rewrite jnode_obj, j2i_unfold, jfold_obj. cbv zeta.
      assert (Hty : Forall (fun c => t_type c = ElementNode) (map jmember kvs)).
      { apply Forall_forall. intros c Hc. apply in_map_iff in Hc as (x & <- & _). apply jnode_type. }
      unfold is_child_text. cbn [t_kids]. rewrite (ict_elems _ Hty).
      assert (Harr : is_child_array true (T ty d (FJson (N.lor base JSONObj)) (map jmember kvs)) = false)
        by (destruct Hb as [->|[->| ->]]; reflexivity).
      rewrite Harr. rewrite j2_obj_fold.
      rewrite (fold_members_ext (j2i parsef false true) kvs); [reflexivity|].
      rewrite jnums_obj in Hnum.
      clear Hty Harr. induction IH as [|[k x] r Hx Hr IHr]; [constructor|].
      destruct Hnum as [Hn1 Hn2]. constructor; [|exact (IHr Hn2)].
      unfold jmember. simpl. apply (Hx Hn1). right; right; reflexivity.
  Qed.

  Lemma fold_add_fresh kvs : forall acc,
    keys_distinct (map fst acc ++ map fst kvs) = true ->
    fold_left (fun a kv => obj_add a (fst kv) (snd kv)) kvs acc =
    acc ++ map (fun kv => (fst kv, ESingle (snd kv))) kvs.
  Proof.
    induction kvs as [|[k x] r IH]; intros acc Hd.
    - simpl. rewrite app_nil_r. reflexivity.
    - simpl map in Hd. apply keys_distinct_app_cons in Hd as [Hfresh Hd].
      simpl fold_left. rewrite (obj_add_fresh acc k x Hfresh). rewrite IH.
      + rewrite <- app_assoc. reflexivity.
      + rewrite map_app. exact Hd.
  Qed.

  (* with pairwise distinct keys nothing is folded *)
  Lemma jfold_wf v : jwf v = true -> jfold v = v.
  Proof.
    induction v as [| b | n | s | xs IH | kvs IH] using jvalue_ind2; intro Hwf; try reflexivity.
    - rewrite jfold_arr. f_equal. rewrite jwf_arr in Hwf.
      induction IH as [|x r Hx Hr IHr]; [reflexivity|].
      simpl in Hwf. apply andb_prop in Hwf as [Hw1 Hw2]. simpl. rewrite (Hx Hw1), (IHr Hw2). reflexivity.
    - rewrite jfold_obj. rewrite jwf_obj in Hwf. apply andb_prop in Hwf as [Hd Hwf].
      assert (Hv : jfold_vals kvs = kvs).
      { clear Hd. induction IH as [|[k x] r Hx Hr IHr]; [reflexivity|].
        simpl in Hwf. apply andb_prop in Hwf as [Hw1 Hw2]. simpl. simpl in Hx.
        rewrite (Hx Hw1), (IHr Hw2). reflexivity. }
      rewrite Hv. unfold group_members. rewrite fold_add_fresh by exact Hd.
      simpl app. f_equal. rewrite map_map. clear. induction kvs as [|[k x] r IHr]; [reflexivity|].
      simpl. f_equal. exact IHr.
  Qed.

  Theorem json_convert_fold v :
    jnums float_rt v ->
    option_map (j2iface parsef true) (jbuild fmtf (jtokens v)) = Some (jfold v).
  Proof.
    intro Hnum. rewrite jbuild_jtree. simpl. f_equal.
    unfold j2iface, Json.jtree. apply j2i_jnode_fold; [exact Hnum|right; left; reflexivity].
  Qed.

  (* ================= 3. round trip ================= *)
  Theorem json_roundtrip v :
    jwf v = true -> jnums float_rt v ->
    option_map (j2iface parsef true) (jbuild fmtf (jtokens v)) = Some v.
  Proof.
    intros Hwf Hnum. rewrite jbuild_jtree. simpl. f_equal.
    unfold j2iface, Json.jtree. apply j2i_jnode; [exact Hwf|exact Hnum|right; left; reflexivity].
  Qed.

  (* null, empty array, empty object, empty string, booleans: no hypothesis needed *)
  Lemma copy_empty_values v :
    In v [JNull; JArr []; JObj []; JStr []; JBool true; JBool false] ->
    option_map (copy_func parsef) (jbuild fmtf (jtokens v)) = Some v.
  Proof.
    intro H. simpl in H.
    destruct H as [<-|[<-|[<-|[<-|[<-|[<-|[]]]]]]]; reflexivity.
  Qed.

  Corollary copy_roundtrip v :
    jwf v = true -> jnums float_rt v ->
    option_map (copy_func parsef) (jbuild fmtf (jtokens v)) = Some v.
  Proof. exact (json_roundtrip v). Qed.
End JsonProofs.
