(* C02 proofs: the main statement.  For every accepted schema the uncached evaluation of the
   validated FINAL_OUTPUT is the documented evaluation of the declarations as written. *)
From Coq Require Import String List ZArith NArith Bool Lia Permutation.
From Coq.Strings Require Import Byte.
Import ListNotations.
From OV Require Import Base.Bytes Base.Cases Base.Tree Gen.Conv Model.Value Model.XPathFrag Model.Decl Model.Eval.
From OV Require Import Proofs.Value Proofs.ValuePrint Proofs.ValueOrder Proofs.EvalPure Proofs.EvalCache
     Proofs.Validate Proofs.ValidateWf Proofs.EvalSpec Proofs.ValidateSpec.

Lemma funcs_b_ok fe fsigs : (forall name, fe name = true -> fsigs name <> None) ->
  forall v, funcs_b fe v = true -> funcs_ok fsigs v.
Proof.
  intros Hfe. induction v as [i x ks IHx IHks] using vdecl_ind2. intros H d Hd K name FN.
  cbn [funcs_b] in H. apply andb_prop in H as [H Hk]. apply andb_prop in H as [H Hx].
  cbn [subdecls] in Hd. destruct Hd as [<-|Hd].
  - cbn [vd_info] in *. rewrite K, FN in H. apply Hfe. exact H.
  - apply in_app_or in Hd as [Hd|Hd].
    + destruct x as [q|]; [|contradiction]. apply (IHx Hx d Hd K name FN).
    + apply in_flat_map in Hd as (c & Hc & Hd). rewrite Forall_forall in IHks. rewrite forallb_forall in Hk.
      apply (IHks c Hc (Hk c Hc) d Hd K name FN).
Qed.

Section Full.
  Variable root : tree.
  Variable query : bytes -> path -> option (list path).
  Variable ext : bytes -> option bytes.
  Variable fsigs : bytes -> option fsig.
  Variable fcall : bytes -> path -> list value -> cfres.
  Variable pcall : bytes -> path -> cfres.

  Theorem eval_matches_spec : forall ds fexists pexists top,
    (* the engine returns nodes of the record tree *)
    (forall x p ps, valid root p -> query x p = Some ps -> Forall (valid root) ps) ->
    (* the functions the validation accepts are the registered ones *)
    (forall name, fexists name = true -> fsigs name <> None) ->
    (* transform_declarations came out of Go maps: an object lists each field name once *)
    (forall name body, lookup name ds = Some body -> decl_nodup body = true) ->
    validate ds fexists pexists = VOk top ->
    forall p, valid root p ->
    eval_spec root query ext fsigs fcall pcall ds p
    = Some (eval_nocache root query ext fsigs fcall pcall top p).
  Proof.
    intros ds fe pe top Hq Hfe Hnd Hv p Hp.
    destruct (validate_wf ds fe pe Hnd top Hv) as [Hwf Hfb].
    destruct (validate_expand ds fe pe Hnd top Hv) as (d' & Hex & Ho & Hn).
    unfold eval_spec. rewrite Hex. f_equal.
    rewrite (eval_matches_spec_tree root query ext fsigs fcall pcall Hq print_int_trim print_flt_trim
               top Hwf (funcs_b_ok fe fsigs Hfe top Hfb) p Hp).
    rewrite <- Ho. rewrite spec_tf_osort by exact Hn. reflexivity.
  Qed.
End Full.
