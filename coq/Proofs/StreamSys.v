(* Proofs about Model/Stream.v, part 6: the split per reader over the extracted facts, the xpath
   expression cache, several readers alive at once, rejected records leave no state. *)
From Coq Require Import List NArith Bool Arith Lia.
Import ListNotations.
From OV Require Import Base.Bytes Base.Cases Base.Tree Gen.StreamSplit Model.Stream
  Proofs.Stream Proofs.StreamXml Proofs.StreamJson Proofs.StreamSplit Proofs.StreamRetain.

(* ---- the split each reader installs (function extracted from New*StreamReader) -------------------- *)
Theorem split_filter_readers_proof : forall tg, target_ok tg ->
  split_filter_by gen_xml_splitfn (render_target tg) =
    Some (render_steps (t_steps tg), negb (match t_filters tg with [] => true | _ => false end))
  /\ split_filter_by gen_json_splitfn (render_target tg) =
    Some (render_steps (t_steps tg), negb (match t_filters tg with [] => true | _ => false end)).
Proof. intros tg H. split; apply (split_filter_sound_proof tg H). Qed.

(* ---- the expression cache -------------------------------------------------------------------------- *)
Lemma query_dynamic : forall c x, query_xpath c (true, x) = c.
Proof. reflexivity. Qed.

Theorem dynamic_xpaths_store_nothing_proof : forall qs c,
  Forall (fun q => fst q = true) qs -> query_all qs c = c.
Proof.
  induction qs as [|[d x] qs IH]; intros c H; [reflexivity|].
  inversion H as [|? ? Hd Hr]; subst. cbn [fst] in Hd. subst d.
  cbn [query_all fold_left]. rewrite query_dynamic. apply IH. exact Hr.
Qed.

Lemma cache_mem_In : forall x c, cache_mem x c = true -> In x c.
Proof.
  intros x c H. unfold cache_mem in H. apply existsb_exists in H as (y & Hy & E).
  apply bytes_eqb_eq in E. subst. exact Hy.
Qed.

(* whatever is in the cache afterwards was there before or is the text of a NON-dynamic query: the
   cache is bounded by the schema's constant xpaths, however many records are transformed *)
Theorem cache_only_static_proof : forall qs c x,
  In x (query_all qs c) -> In x c \/ In (false, x) qs.
Proof.
  induction qs as [|[d y] qs IH]; intros c x H; [left; exact H|].
  cbn [query_all fold_left] in H. apply IH in H as [H|H]; [|right; right; exact H].
  unfold query_xpath, load_xpath in H. cbn [fst snd] in H.
  destruct d; cbn [andb] in H.
  - left. exact H.
  - destruct (cache_mem y c); [left; exact H|].
    destruct H as [<-|H]; [right; left; reflexivity|left; exact H].
Qed.

Lemma iter_succ_r' : forall {A} (f : A -> A) n x, Nat.iter (S n) f x = Nat.iter n f (f x).
Proof.
  induction n as [|n IH]; intro x; [reflexivity|].
  change (Nat.iter (S (S n)) f x) with (f (Nat.iter (S n) f x)). rewrite IH. reflexivity.
Qed.

(* ---- several readers alive at once ----------------------------------------------------------------- *)
Section Sys.
  Variable pm : list name -> bool.
  Variable pred : tree -> bool.
  Variable has_filter : bool.
  Notation step := (xreader_step pm pred has_filter).
  Notation run := (xrun pm pred has_filter false).

  Lemma update_nth_same : forall {A} (f : A -> A) l i x,
    nth_error l i = Some x -> nth_error (update_nth i f l) i = Some (f x).
  Proof.
    induction l as [|y l IH]; intros [|i] x H; try discriminate H; cbn in *.
    - inversion H. reflexivity.
    - apply IH. exact H.
  Qed.
  Lemma update_nth_other : forall {A} (f : A -> A) l i j,
    i <> j -> nth_error (update_nth i f l) j = nth_error l j.
  Proof.
    induction l as [|y l IH]; intros [|i] [|j] H; cbn; try reflexivity; try congruence.
    apply IH. congruence.
  Qed.
  Lemma update_nth_none : forall {A} (f : A -> A) l i,
    nth_error l i = None -> update_nth i f l = l.
  Proof.
    induction l as [|y l IH]; intros [|i] H; cbn in *; try reflexivity; try discriminate H.
    rewrite IH by exact H. reflexivity.
  Qed.

  (* under ANY schedule, reader i is where its own steps - as many as the schedule gave it - take
     it from its own start: nothing another reader does enters *)
  Theorem reader_independent_proof : forall sched rds i rd,
    nth_error rds i = Some rd ->
    nth_error (sys_run pm pred has_filter sched rds) i =
    Some (Nat.iter (count_occ Nat.eq_dec sched i) step rd).
  Proof.
    induction sched as [|j sched IH]; intros rds i rd H; [exact H|].
    cbn [sys_run fold_left count_occ].
    destruct (Nat.eq_dec j i) as [->|Hne].
    - change (fold_left (fun rs k => update_nth k step rs) sched (update_nth i step rds))
        with (sys_run pm pred has_filter sched (update_nth i step rds)).
      rewrite (IH _ i (step rd) (update_nth_same _ _ _ _ H)).
      rewrite iter_succ_r'. reflexivity.
    - change (fold_left (fun rs k => update_nth k step rs) sched (update_nth j step rds))
        with (sys_run pm pred has_filter sched (update_nth j step rds)).
      apply IH. rewrite update_nth_other by exact Hne. exact H.
  Qed.

  Lemma step_ended : forall rd f, xr_status rd = Ended f -> step rd = rd.
  Proof. intros rd f H. unfold xreader_step. rewrite H. reflexivity. Qed.
  Lemma iter_ended : forall n rd f, xr_status rd = Ended f -> Nat.iter n step rd = rd.
  Proof.
    induction n as [|n IH]; intros rd f H; [reflexivity|].
    rewrite iter_succ_r', (step_ended rd f H). apply (IH rd f H).
  Qed.

  (* enough own steps = the reader's Read-to-EOF loop *)
  Lemma iter_is_xrun : forall toks st rel out n,
    length toks < n ->
    let rd := Nat.iter n step (mkXR st rel toks out Running) in
    xr_out rd = out ++ fst (run st rel toks) /\ xr_status rd = Ended (snd (run st rel toks)).
  Proof.
    induction toks as [|tk toks IH]; intros st rel out n Hn; (destruct n as [|n]; [inversion Hn|]).
    - rewrite iter_succ_r'.
      assert (E : step (mkXR st rel [] out Running) = mkXR st rel [] out (Ended FEOF)) by reflexivity.
      rewrite E, (iter_ended n _ FEOF) by reflexivity. cbn. rewrite app_nil_r. split; reflexivity.
    - rewrite iter_succ_r'. cbn [length] in Hn.
      assert (E : step (mkXR st rel (tk :: toks) out Running) =
                  match xstep pm pred has_filter false st tk with
                  | RPanic => mkXR st rel toks out (Ended FPanic)
                  | RErr => mkXR st rel toks out (Ended FErr)
                  | RCont st' => mkXR st' rel toks out Running
                  | RDeliver t k st' =>
                      match match (if hd false rel then release st' else Some st') with
                            | Some s => read_prologue s | None => None end with
                      | None => mkXR st' rel toks (out ++ [(t, k)]) (Ended FUnmodelled)
                      | Some st2 => mkXR st2 (tl rel) toks (out ++ [(t, k)]) Running
                      end
                  end) by reflexivity.
      rewrite E. clear E. cbn [xrun].
      destruct (xstep pm pred has_filter false st tk) as [st'|t k st'| |] eqn:Es.
      + apply IH. lia.
      + destruct (match (if hd false rel then release st' else Some st') with
                  | Some s => read_prologue s | None => None end) as [st2|] eqn:E2.
        * destruct (IH st2 (tl rel) (out ++ [(t, k)]) n ltac:(lia)) as [H1 H2].
          destruct (run st2 (tl rel) toks) as [ds fin] eqn:Er. cbn [fst snd] in *.
          rewrite H1, H2, <- app_assoc. split; reflexivity.
        * rewrite (iter_ended n _ FUnmodelled) by reflexivity. split; reflexivity.
      + rewrite (iter_ended n _ FErr) by reflexivity. cbn. rewrite app_nil_r. split; reflexivity.
      + rewrite (iter_ended n _ FPanic) by reflexivity. cbn. rewrite app_nil_r. split; reflexivity.
  Qed.

  (* a schedule that lets reader i run to its end: its deliveries are those of its solo run *)
  Theorem interleaved_eq_solo_proof : forall sched rds i rel toks,
    nth_error rds i = Some (xreader_init rel toks) ->
    length toks < count_occ Nat.eq_dec sched i ->
    exists rd, nth_error (sys_run pm pred has_filter sched rds) i = Some rd /\
               xr_out rd = fst (run x_init rel toks) /\
               xr_status rd = Ended (snd (run x_init rel toks)).
  Proof.
    intros sched rds i rel toks H Hn.
    eexists. split; [apply (reader_independent_proof sched rds i _ H)|].
    apply (iter_is_xrun toks x_init rel [] _ Hn).
  Qed.
End Sys.

(* ---- a rejected record leaves no state behind ----------------------------------------------------- *)
Theorem xml_rejected_restores_proof :
  forall (pm : list name -> bool) (pred : tree -> bool) (has_filter : bool),
    (has_filter = false -> forall t, pred t = true) ->
    forall recs f r rel rest,
      Inv pm (f :: r) -> Forall (on_path_record pm (chain_of (f :: r))) recs ->
      Forall (fun x => pred (xtree x) = false) recs ->
      xrun pm pred has_filter false (mkS (f :: r) None SNone) rel (flat_map xevents recs ++ rest) =
      xrun pm pred has_filter false (mkS (f :: r) None SNone) rel rest.
Proof.
  intros pm pred hf Hnf recs f r rel rest HI Hrecs Hrej.
  destruct (xml_records pm pred hf Hnf recs f r rel rest HI Hrecs) as (L & RL & _ & EL).
  assert (HL : L = []).
  { assert (E : filter pred (map xtree recs) = []).
    { clear -Hrej. induction Hrej as [|x l Hx _ IH]; [reflexivity|]. cbn [map filter]. rewrite Hx. exact IH. }
    rewrite E in EL. destruct L; [reflexivity|discriminate EL]. }
  subst L. rewrite RL, prepend_nil. reflexivity.
Qed.

Theorem json_rejected_restores_proof :
  forall (pm : list name -> bool) (pred : tree -> bool) (has_filter : bool),
    (has_filter = false -> forall t, pred t = true) ->
    forall recs keyed f r rel rest,
      mode keyed f -> Inv pm (f :: r) -> Forall (jrecord pm (chain_of (f :: r)) keyed) recs ->
      Forall (fun j => pred (jkid keyed j) = false) recs ->
      jrun pm pred has_filter false (mkS (f :: r) None SNone) rel (flat_map (jevents keyed) recs ++ rest) =
      jrun pm pred has_filter false (mkS (f :: r) None SNone) rel rest.
Proof.
  intros pm pred hf Hnf recs keyed f r rel rest Hm HI Hrecs Hrej.
  destruct (json_records pm pred hf Hnf recs keyed f r rel rest Hm HI Hrecs) as (L & RL & _ & EL).
  assert (HL : L = []).
  { assert (E : filter pred (map (jkid keyed) recs) = []).
    { clear -Hrej. induction Hrej as [|x l Hx _ IH]; [reflexivity|]. cbn [map filter]. rewrite Hx. exact IH. }
    rewrite E in EL. destruct L; [reflexivity|discriminate EL]. }
  subst L. rewrite RL, prepend_nil. reflexivity.
Qed.

(* ---- union targets ---------------------------------------------------------------------------------- *)
Lemma ends_plainly_app : forall pre x, ends_plainly x -> ends_plainly (pre ++ x).
Proof. intros pre x (y & c & -> & H1 & H2). exists (pre ++ y), c. rewrite app_assoc. auto. Qed.

(* a union without trailing filters ends with a name character, "*" or ".": nothing is stripped, no
   closing check is installed *)
Theorem split_filter_union_proof : forall alts steps,
  Forall (fun s => nt_ok (snd s)) steps ->
  split_filter (render_alts alts ++ render_steps steps) = Some (render_alts alts ++ render_steps steps, false).
Proof.
  intros alts steps Hs.
  unfold split_filter, remove_trailing_filters.
  pose proof (rtf_filters [] (S (S (length (render_alts alts ++ render_steps steps))))
                (render_alts alts ++ render_steps steps)
                (ends_plainly_app _ _ (render_steps_ends _ Hs)) (Forall_nil _)) as H.
  cbn [render_filters flat_map length] in H. rewrite app_nil_r in H.
  rewrite H by lia. rewrite bytes_eqb_refl. reflexivity.
Qed.

Theorem xml_stream_eq_select_union_proof : forall alts tg content rel,
  pm_union alts tg [] = false ->
  exists L, xrun (pm_union alts tg) ptrue false false x_init rel (xdoc_events content) = (L, FEOF) /\
            map fst L = whole_doc_selection (pm_union alts tg) ptrue (xdoc_tree content).
Proof.
  intros alts tg content rel H.
  apply (xml_stream_eq_select_proof (pm_union alts tg) ptrue false (fun _ _ => eq_refl) H).
Qed.

Theorem json_stream_eq_select_union_proof : forall alts tg j rel,
  jwf j = true ->
  exists L, jrun (pm_union alts tg) ptrue false false j_init rel (jdoc_events j) = (L, FEOF) /\
            map fst L = whole_doc_selection (pm_union alts tg) ptrue (jdoc_tree j).
Proof.
  intros alts tg j rel H.
  apply (json_stream_eq_select_proof (pm_union alts tg) ptrue false (fun _ _ => eq_refl) j rel H).
Qed.
