(* Checksum canon (Model/Pipeline.v [j2], transcribing idr/marshal2.go): what it distinguishes
   and what it does not. *)
From Coq Require Import List NArith Bool Arith Lia.
From Coq.Strings Require Import Byte.
Import ListNotations.
From OV Require Import Base.Bytes Base.Cases Base.Tree Model.Pipeline.

(* ---- XML: DESIGN section 6 F12 ---------------------------------------------------------------- *)
Definition xml_text (b : byte) : tree := T TextNode [b] FNone [].
Definition xml_attr (name v : byte) : tree := T AttributeNode [name] (FXml [] []) [xml_text v].
(* <n x="1">t</n> and <n x="2">t</n> *)
Definition f12_a : tree := T ElementNode [x6e] (FXml [] []) [xml_attr x78 x31; xml_text x74].
Definition f12_b : tree := T ElementNode [x6e] (FXml [] []) [xml_attr x78 x32; xml_text x74].
(* <n>x<a>1</a></n> and <n>y<a>1</a></n> *)
Definition xml_elem (name : byte) (ks : list tree) : tree := T ElementNode [name] (FXml [] []) ks.
Definition f12_c : tree := xml_elem x6e [xml_text x78; xml_elem x61 [xml_text x31]].
Definition f12_d : tree := xml_elem x6e [xml_text x79; xml_elem x61 [xml_text x31]].

Lemma xml_checksum_refuted_attr : f12_a <> f12_b /\ j2 f12_a = j2 f12_b.
Proof. split; [discriminate|vm_compute; reflexivity]. Qed.

Lemma xml_checksum_refuted_mixed : f12_c <> f12_d /\ j2 f12_c = j2 f12_d.
Proof. split; [discriminate|vm_compute; reflexivity]. Qed.

(* ---- flat formats (csv, csv2 columns, fixed-length, fixedlength2 columns, EDI elements without
   components): a record is a node (element; document node for the old csv reader) whose children
   are elements with one text child - Model/Pipeline.v flat_rec; the harness checks on every flat
   raw record that it has this shape (check_c15, C15Flat) ------------------------------------------ *)
Definition flat_obj (fields : list (bytes * bytes)) : list (bytes * jv) :=
  map (fun nv => (fst nv, JStr (snd nv))) fields.

Lemma j2_flat_field nv : j2 (flat_field nv) = JStr (snd nv).
Proof. destruct nv as [n v]. simpl. unfold child_data. simpl. now rewrite app_nil_r. Qed.

Lemma obj_put_fresh name v arr o :
  (forall k x, In (k, x) o -> k <> name) -> obj_put name v arr o = (o ++ [(name, v)], arr).
Proof.
  induction o as [|[k x] o IH]; intros Hf; simpl; [reflexivity|].
  destruct (bytes_eqb k name) eqn:E.
  - apply bytes_eqb_eq in E. exfalso. apply (Hf k x); [now left|exact E].
  - rewrite IH; [reflexivity|]. intros k' x' Hi. apply (Hf k' x'). now right.
Qed.

Lemma obj_step_flat x obj attrs arr n v :
  obj_step x (obj, attrs, arr) (flat_field (n, v)) =
  let '(obj', arr') := obj_put n x arr obj in (obj', attrs, arr').
Proof. reflexivity. Qed.

Lemma fold_flat fields : forall obj arr,
  NoDup (map fst fields) ->
  (forall k x, In (k, x) obj -> ~ In k (map fst fields)) ->
  fold_left (fun acc k => obj_step (j2 k) acc k) (map flat_field fields) (obj, [], arr)
  = (obj ++ flat_obj fields, [], arr).
Proof.
  induction fields as [|[n v] fields IH]; intros obj arr Hnd Hf.
  - simpl. now rewrite app_nil_r.
  - inversion Hnd; subst. cbn [map fold_left].
    rewrite (j2_flat_field (n, v)). rewrite obj_step_flat. cbn [snd].
    rewrite obj_put_fresh.
    + rewrite IH; auto.
      * now rewrite <- app_assoc.
      * intros k x Hi. apply in_app_or in Hi as [Hi|[E|[]]].
        { intro Hk. apply (Hf k x Hi). now right. }
        { inversion E; subst. assumption. }
    + intros k x Hi E. subst. apply (Hf n x Hi). now left.
Qed.

Lemma flat_no_text fields : existsb is_text (map flat_field fields) = false.
Proof. induction fields as [|nv f IH]; simpl; auto. Qed.

Lemma flat_elem_names fields :
  map j2_name (filter is_elem (map flat_field fields)) = map fst fields.
Proof. induction fields as [|[n v] f IH]; simpl; [reflexivity|]. now rewrite IH. Qed.

Lemma flat_is_child_array rty r fields fields' :
  map fst fields = map fst fields' ->
  is_child_array (flat_rec rty r fields) = is_child_array (flat_rec rty r fields').
Proof.
  intros E. unfold is_child_array, flat_rec. simpl. now rewrite !flat_elem_names, E.
Qed.

Theorem j2_flat rty r fields :
  NoDup (map fst fields) -> is_child_array (flat_rec rty r fields) = false ->
  j2 (flat_rec rty r fields) = JObj (flat_obj fields).
Proof.
  intros Hnd Ha. unfold flat_rec in *.
  cbn [j2]. unfold is_child_text. cbn [t_kids]. rewrite flat_no_text. cbn [andb].
  rewrite Ha. rewrite (fold_flat fields [] []); auto.
Qed.

(* with at least two distinct column names the record is never taken for an array *)
Lemma flat_not_array rty r fields :
  NoDup (map fst fields) -> 2 <= length fields -> is_child_array (flat_rec rty r fields) = false.
Proof.
  intros Hnd Hl. unfold is_child_array, flat_rec. simpl. rewrite flat_elem_names.
  destruct fields as [|[n1 v1] [|[n2 v2] rest]]; simpl in *; try lia.
  inversion Hnd; subst.
  destruct (bytes_eqb n1 n2) eqn:E; [|reflexivity].
  apply bytes_eqb_eq in E. subst. exfalso. apply H1. now left.
Qed.

Lemma flat_obj_inj names : forall vals vals',
  length vals = length names -> length vals' = length names ->
  flat_obj (combine names vals) = flat_obj (combine names vals') -> vals = vals'.
Proof.
  induction names as [|n names IH]; intros [|v vals] [|v' vals'] H1 H2 E; simpl in *; try discriminate; auto.
  inversion E; subst. f_equal. apply IH; auto.
Qed.

Lemma map_fst_combine {A B} (a : list A) : forall (b : list B),
  length b = length a -> map fst (combine a b) = a.
Proof.
  induction a as [|x a IH]; intros [|y b] Hl; simpl in *; try discriminate; auto.
  f_equal. apply IH. lia.
Qed.

(* different ingested values => different canon, for the flat formats *)
Theorem canon_injective_flat rty r names vals vals' :
  NoDup names -> 2 <= length names ->
  length vals = length names -> length vals' = length names ->
  j2 (flat_rec rty r (combine names vals)) = j2 (flat_rec rty r (combine names vals')) -> vals = vals'.
Proof.
  intros Hnd Hl H1 H2 E.
  assert (Hn : map fst (combine names vals) = names) by now apply map_fst_combine.
  assert (Hn' : map fst (combine names vals') = names) by now apply map_fst_combine.
  rewrite !j2_flat in E.
  - inversion E. eapply flat_obj_inj; eauto.
  - now rewrite Hn'.
  - apply flat_not_array; [now rewrite Hn'|]. rewrite combine_length. lia.
  - now rewrite Hn.
  - apply flat_not_array; [now rewrite Hn|]. rewrite combine_length. lia.
Qed.

(* checksum = H (enc (j2 t)): H = MD5/UUIDv3 (collisions excluded), enc = json.Marshal of the
   value tree (an injective encoding) *)
Section Checksum.
  Variable enc : jv -> bytes.
  Variable H : bytes -> bytes.
  Hypothesis enc_injective : forall a b, enc a = enc b -> a = b.
  Hypothesis H_injective : forall a b, H a = H b -> a = b.

  Definition checksum (t : tree) : bytes := H (enc (j2 t)).

  Theorem checksum_injective_flat rty r names vals vals' :
    NoDup names -> 2 <= length names ->
    length vals = length names -> length vals' = length names ->
    checksum (flat_rec rty r (combine names vals)) = checksum (flat_rec rty r (combine names vals')) ->
    vals = vals'.
  Proof.
    intros Hnd Hl H1 H2 E. apply (canon_injective_flat rty r names); try assumption.
    apply enc_injective, H_injective, E.
  Qed.

  Theorem checksum_xml_refuted :
    exists t t', t <> t' /\ checksum t = checksum t'.
  Proof.
    exists f12_a, f12_b. destruct xml_checksum_refuted_attr as [Hne He].
    split; [exact Hne|]. unfold checksum. now rewrite He.
  Qed.
End Checksum.
