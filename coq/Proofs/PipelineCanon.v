(* Checksum canon (Model/Pipeline.v [j2], transcribing idr/marshal2.go): what it distinguishes
   and what it does not. *)
From Coq Require Import List NArith Bool Arith Lia.
From Coq.Strings Require Import Byte.
Import ListNotations.
From OV Require Import Base.Bytes Base.Cases Base.Tree Model.Pipeline.

(* ---- XML: DESIGN section 6 F12 ---------------------------------------------------------------- *)
Definition xml_text (b : byte) : tree := T TextNode [b] FNone [].
Definition xml_attr (name v : byte) : tree := T AttributeNode [name] (FXml [] []) [xml_text v].
(* <n x="1">t</n> and <n x="2">t</n> *)
Definition f12_a : tree := T ElementNode [x6e] (FXml [] []) [xml_attr x78 x31; xml_text x74].
Definition f12_b : tree := T ElementNode [x6e] (FXml [] []) [xml_attr x78 x32; xml_text x74].
(* <n>x<a>1</a></n> and <n>y<a>1</a></n> *)
Definition xml_elem (name : byte) (ks : list tree) : tree := T ElementNode [name] (FXml [] []) ks.
Definition f12_c : tree := xml_elem x6e [xml_text x78; xml_elem x61 [xml_text x31]].
Definition f12_d : tree := xml_elem x6e [xml_text x79; xml_elem x61 [xml_text x31]].

Lemma xml_checksum_refuted_attr : f12_a <> f12_b /\ j2 f12_a = j2 f12_b.
Proof. split; [discriminate|vm_compute; reflexivity]. Qed.

Lemma xml_checksum_refuted_mixed : f12_c <> f12_d /\ j2 f12_c = j2 f12_d.
Proof. split; [discriminate|vm_compute; reflexivity]. Qed.
