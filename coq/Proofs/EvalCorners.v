(* C02 proofs: two corners of the evaluator stated directly.
   (1) An xpath_dynamic that cannot be computed (error, nil, non-string, blank) makes the anchored
       declaration yield the null result - it never fails the record.
   (2) ignore_error turns a failing custom function into the null result; without it the record
       fails. *)
From Coq Require Import String List ZArith NArith Bool Lia.
From Coq.Strings Require Import Byte.
Import ListNotations.
From OV Require Import Base.Bytes Base.Cases Base.Tree Gen.Conv Model.Value Model.XPathFrag Model.Decl Model.Eval.
From OV Require Import Proofs.EvalPure Proofs.EvalCache.

Section Corners.
  Variable root : tree.
  Variable query : bytes -> path -> option (list path).
  Variable ext : bytes -> option bytes.
  Variable fsigs : bytes -> option fsig.
  Variable fcall : bytes -> path -> list value -> cfres.
  Variable pcall : bytes -> path -> cfres.
  Notation eval_nocache := (eval_nocache root query ext fsigs fcall pcall).

  Definition anchoring_kind (k : kind) : bool :=
    match k with KField | KObject | KCustomFunc | KCustomParse => true | _ => false end.

  Theorem xpath_dynamic_failure_is_null : forall i q ks p,
    anchoring_kind (p_kind (v_pub i)) = true ->
    needed i true = true ->
    static_xpath (einfo_of i true) = None ->
    (forall s, eval_nocache q p = Ok (VStr s) -> is_nonblank s = false) ->
    eval_nocache q p <> Panic ->
    eval_nocache (VD i (Some q) ks) p = Ok VNil.
  Proof.
    intros i q ks p Hk Hn Hs Hstr Hnp. rewrite nocache_peval in Hnp. rewrite nocache_peval.
    assert (Hstr' : forall s, peval root query ext fsigs fcall pcall q p = Ok (VStr s) -> is_nonblank s = false) by (intros s E; apply Hstr; rewrite nocache_peval; exact E). clear Hstr. rename Hstr' into Hstr.
    assert (Hq : p_query_single query (einfo_of i true)
                   (Some (pc_ev (pcompile root query ext fsigs fcall pcall q))) p = QNone).
    { unfold p_query_single. cbn [einfo_of e_needed]. rewrite Hn. simpl negb. cbv iota.
      unfold p_compute_xpath. rewrite Hs.
      change (pc_ev (pcompile root query ext fsigs fcall pcall q) p) with (peval root query ext fsigs fcall pcall q p).
      destruct (peval root query ext fsigs fcall pcall q p) as [v| |] eqn:E; simpl; try reflexivity; [|contradiction].
      destruct v; try reflexivity. rewrite (Hstr s eq_refl). reflexivity. }
    unfold EvalPure.peval. cbn [EvalPure.pcompile pc_ev is_some]. unfold p_dispatch. cbn [einfo_of e_pub].
    destruct (p_kind (v_pub i)); try discriminate; unfold p_anchored; cbn [einfo_of] in Hq; rewrite Hq; reflexivity.
  Qed.

  Theorem ignore_error_corner : forall i name p,
    p_kind (v_pub i) = KCustomFunc -> p_fname (v_pub i) = Some name ->
    needed i false = false ->
    fsigs name = Some (mkSig [] None) -> fcall name p [] = CfErr ->
    eval_nocache (VD i None []) p = if p_ignore (v_pub i) then Ok VNil else Err.
  Proof.
    intros i name p K FN Hn Hs Hc. rewrite nocache_peval.
    unfold EvalPure.peval. cbn [EvalPure.pcompile pc_ev is_some map]. unfold p_dispatch. cbn [einfo_of e_pub]. rewrite K.
    unfold p_anchored, p_query_single. cbn [einfo_of e_needed]. rewrite Hn. simpl negb. cbv iota.
    unfold p_invoke. cbn [einfo_of e_pub]. rewrite FN, Hs. simpl. rewrite Hc.
    destruct (p_ignore (v_pub i)); [|reflexivity].
    unfold p_then_norm, norm_ret, normalize_ret. cbn [einfo_of e_pub]. simpl.
    unfold check_to_save. simpl. destruct (p_keep (v_pub i)); reflexivity.
  Qed.
End Corners.
