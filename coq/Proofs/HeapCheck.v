(* C12 proofs, part 9: the Boolean checker the correspondence runs (tree_ok_b) decides the
   representation predicate the theorems are about. *)
From Coq Require Import List NArith ZArith Bool Lia.
From stdpp Require Import pmap.
From OV Require Import Base.Bytes Base.Cases Base.Tree Model.Heap Proofs.HeapTree Proofs.HeapOps Proofs.HeapPath.
Import ListNotations.

Lemma node_links_b_spec x par prev next first last :
  node_links_b x par prev next first last = true <->
  n_parent x = par /\ n_prev x = prev /\ n_next x = next /\ n_first x = first /\ n_last x = last.
Proof.
  unfold node_links_b. rewrite !andb_true_iff, !oaddr_eqb_spec. tauto.
Qed.

Lemma tree_ok_b_spec h : forall t par prev next,
  tree_ok_b h par prev next t = true <-> tree_ok h par prev next t.
Proof.
  induction t as [a ks IH] using atree_ind2. intros par prev next.
  rewrite tree_ok_unfold. unfold node_at. simpl.
  destruct (h !! a) as [x|] eqn:Hx.
  - rewrite andb_true_iff, node_links_b_spec.
    assert (Hgo : forall l pv, (forall k, k ∈ l -> k ∈ ks) ->
              (fix go (pv : option addr) (l : list atree) {struct l} : bool :=
                 match l with
                 | [] => true
                 | k :: r => tree_ok_b h (Some a) pv (hd_addr r) k && go (Some (root k)) r
                 end) pv l = true <-> chain (tree_ok h (Some a)) pv None l).
    { rewrite Forall_forall in IH.
      induction l as [|k r IHr]; intros pv Hsub; simpl; [tauto|].
      rewrite andb_true_iff. rewrite (IH k (Hsub k (elem_of_list_here _ _))).
      rewrite IHr by (intros k' Hk'; apply Hsub; apply elem_of_cons; auto).
      rewrite (nx_of_none r). tauto. }
    rewrite (Hgo ks None (fun k Hk => Hk)). split.
    + intros [H1 H2]. split; [exists x; split; [reflexivity|exact H1]|exact H2].
    + intros [[y [Hy H1]] H2]. inversion Hy; subst y. auto.
  - split; [discriminate|]. intros [[y [Hy _]] _]. discriminate.
Qed.
