(* C06 proofs, part 3: fixed-length readers.
   - fixed2_no_poison: over every sequence of RecReader calls (MoreUnprocessedData, ReadAndMatch
     with any declaration - rows based or header/footer based - and any createIDR flag), no line
     of the fixedlength2 line buffer is read through a stale reference into the bufio buffer
     (upstream issue 213), and no slice index goes out of range.
   - empty lines are ignored by both fixed-length line readers. *)
From Coq Require Import List NArith Bool Arith Lia.
From Coq.Strings Require Import Byte.
Import ListNotations.
From OV Require Import Base.Bytes Base.Utf8 Base.Cases Base.Tree Model.Csv Model.Fixed Proofs.DelimCsv.

(* ---- the invariant of the line buffer -------------------------------------------------------------- *)
Definition owned (l : fline) : Prop := exists b, l = mkFL (Own b) true.
Definition fresh (gen : nat) (l : fline) : Prop := exists b, l = mkFL (Ref gen b) false.

(* all lines but the last own their bytes; the last owns them or references the current generation *)
Inductive buf_ok (gen : nat) : list fline -> Prop :=
| BufNil : buf_ok gen []
| BufLast l : owned l \/ fresh gen l -> buf_ok gen [l]
| BufCons l l' r : owned l -> buf_ok gen (l' :: r) -> buf_ok gen (l :: l' :: r).

Definition inv (s : fst2) : Prop := buf_ok (h_gen s) (h_lines s).

Definition bad (o : outcome) : Prop :=
  o = OPoison \/ exists k, o = OPanic k.

Definition res_ok {A} (r : res A) : Prop := forall o, r = Err o -> ~ bad o.

Lemma res_ok_err {A B} o : @res_ok A (Err o) -> @res_ok B (Err o).
Proof. intros H o' E. inversion E; subst. apply H. reflexivity. Qed.

Lemma buf_ok_all_owned gen ls : Forall owned ls -> buf_ok gen ls.
Proof.
  induction ls as [|l ls IH]; intro H; [constructor|].
  inversion H as [|x y Hl Hr]; subst. destruct ls as [|l' r]; [constructor; auto|].
  constructor; auto.
Qed.

Lemma buf_ok_deref gen ls : buf_ok gen ls ->
  Forall (fun l => exists b, deref gen (fl_b l) = Some b) ls.
Proof.
  induction 1 as [|l [Ho|Hf]|l l' r Ho _ IH].
  - constructor.
  - constructor; [|constructor]. destruct Ho as (b & ->). simpl. eauto.
  - constructor; [|constructor]. destruct Hf as (b & ->). simpl. rewrite Nat.eqb_refl. eauto.
  - constructor; [|exact IH]. destruct Ho as (b & ->). simpl. eauto.
Qed.

Lemma buf_ok_skipn gen n : forall ls, buf_ok gen ls -> buf_ok gen (skipn n ls).
Proof.
  induction n as [|n IH]; intros ls H; [exact H|].
  destruct ls as [|l ls]; [constructor|]. cbn [skipn]. apply IH.
  inversion H; subst; [constructor|assumption].
Qed.

(* copying the last line makes every line owned *)
Lemma buf_ok_fix gen ls : buf_ok gen ls ->
  match last (map Some ls) None with
  | Some l =>
      if fl_copied l then Forall owned ls
      else exists b, deref gen (fl_b l) = Some b /\ Forall owned (upd_last (mkFL (Own b) true) ls)
  | None => ls = []
  end.
Proof.
  induction 1 as [|l [Ho|Hf]|l l' r Ho H IH].
  - reflexivity.
  - destruct Ho as (b & ->). simpl. repeat constructor. exists b. reflexivity.
  - destruct Hf as (b & ->). simpl. rewrite Nat.eqb_refl. exists b. split; [reflexivity|].
    repeat constructor. exists b. reflexivity.
  - change (last (map Some (l :: l' :: r)) None) with (last (map Some (l' :: r)) None).
    destruct (last (map Some (l' :: r)) None) as [x|]; [|discriminate].
    destruct (fl_copied x).
    + constructor; assumption.
    + destruct IH as (b & Hd & Hf). exists b. split; [exact Hd|].
      change (upd_last (mkFL (Own b) true) (l :: l' :: r))
        with (l :: upd_last (mkFL (Own b) true) (l' :: r)).
      constructor; assumption.
Qed.

Lemma buf_ok_snoc ls b g : Forall owned ls -> buf_ok g (ls ++ [mkFL (Ref g b) false]).
Proof.
  induction ls as [|l ls IH]; intro H.
  - constructor. right. exists b. reflexivity.
  - inversion H as [|x y Hl Hr]; subst. cbn [app].
    destruct (ls ++ [mkFL (Ref g b) false]) as [|l' r] eqn:E; [destruct ls; discriminate|].
    constructor; [exact Hl|]. apply IH. exact Hr.
Qed.

Lemma upd_last_length {A} (x : A) l : length (upd_last x l) = length l.
Proof.
  induction l as [|y r IH]; [reflexivity|]. destruct r as [|z r]; [reflexivity|].
  change (upd_last x (y :: z :: r)) with (y :: upd_last x (z :: r)).
  simpl length in *. rewrite IH. reflexivity.
Qed.

Lemma f2_readline_true_len s s1 :
  f2_readline s = (Ok true, s1) -> length (h_lines s1) = S (length (h_lines s)).
Proof.
  unfold f2_readline. intro E.
  destruct (match last (map Some (h_lines s)) None with
            | Some l => _ | None => _ end) as [ls|o] eqn:Ef; [|inversion E].
  assert (Hls : length ls = length (h_lines s)).
  { destruct (last (map Some (h_lines s)) None) as [l|].
    - destruct (fl_copied l); [inversion Ef; reflexivity|].
      destruct (deref (h_gen s) (fl_b l)); inversion Ef. apply upd_last_length.
    - inversion Ef. reflexivity. }
  destruct (f2_fetch _ _ _) as [[[[b|] rest] g]|]; inversion E; subst.
  cbn [h_lines]. rewrite app_length. simpl. lia.
Qed.

Section NoPoison.
  Variable re_match : pat -> bytes -> bool.

  Lemma f2_readline_ok s : inv s ->
    let '(r, s') := f2_readline s in inv s' /\ res_ok r.
  Proof.
    intro H. unfold f2_readline. pose proof (buf_ok_fix _ _ H) as Hf.
    assert (Hres : forall A (x : A), res_ok (Ok x)) by (intros A x o E; discriminate).
    assert (Hfuel : res_ok (@Err bool OFuel)).
    { intros o E. inversion E; subst. intros [E2|(k & E2)]; discriminate. }
    destruct (last (map Some (h_lines s)) None) as [l|].
    - destruct (fl_copied l).
      + destruct (f2_fetch _ _ _) as [[[[b|] rest] g]|]; cbn [inv h_gen h_lines].
        * split; [apply buf_ok_snoc; exact Hf|apply Hres].
        * split; [apply buf_ok_all_owned; exact Hf|apply Hres].
        * split; [apply buf_ok_all_owned; exact Hf|exact Hfuel].
      + destruct Hf as (b0 & Hd & Hf). rewrite Hd.
        destruct (f2_fetch _ _ _) as [[[[b|] rest] g]|]; cbn [inv h_gen h_lines].
        * split; [apply buf_ok_snoc; exact Hf|apply Hres].
        * split; [apply buf_ok_all_owned; exact Hf|apply Hres].
        * split; [apply buf_ok_all_owned; exact Hf|exact Hfuel].
    - rewrite Hf in *.
      destruct (f2_fetch _ _ _) as [[[[b|] rest] g]|]; cbn [inv h_gen h_lines].
      + split; [apply (buf_ok_snoc []); constructor|apply Hres].
      + split; [constructor|apply Hres].
      + split; [constructor|exact Hfuel].
  Qed.

  (* a line inside the buffer is readable *)
  Lemma line_at_ok s i : inv s -> i < length (h_lines s) -> exists b, line_at s i = Ok b.
  Proof.
    intros H Hi. unfold line_at. destruct (nth_error (h_lines s) i) as [l|] eqn:E.
    - pose proof (buf_ok_deref _ _ H) as Hd. rewrite Forall_forall in Hd.
      destruct (Hd l (nth_error_In _ _ E)) as (b & Eb). rewrite Eb. eauto.
    - apply nth_error_None in E. lia.
  Qed.

  Lemma col_nodeF_ok c s : inv s -> forall n i, i + n <= length (h_lines s) ->
    exists x, col_nodeF re_match c n i s = Ok x.
  Proof.
    intros H n. induction n as [|n IH]; intros i Hi; [simpl; eauto|].
    cbn [col_nodeF]. destruct (line_at_ok s i H ltac:(lia)) as (b & ->).
    destruct (line_matchF re_match c i b); [eauto|]. apply IH. lia.
  Qed.

  Lemma cols_nodesF_ok s n : inv s -> n <= length (h_lines s) -> forall cs,
    exists x, cols_nodesF re_match cs n s = Ok x.
  Proof.
    intros H Hn cs. induction cs as [|c cs IH]; [simpl; eauto|].
    cbn [cols_nodesF]. destruct (col_nodeF_ok c s H n 0 ltac:(lia)) as (x & ->).
    destruct IH as (xs & ->). eauto.
  Qed.

  Lemma take_recordF_ok d n create s : inv s -> n <= length (h_lines s) ->
    let '(r, s') := take_recordF re_match d n create s in inv s' /\ res_ok r.
  Proof.
    intros H Hn. unfold take_recordF. destruct create.
    - unfold lines_to_nodeF. assert (E : (length (h_lines s) <? n) = false) by (apply Nat.ltb_ge; lia).
      rewrite E. destruct (cols_nodesF_ok s n H Hn (v_cols d)) as (ks & ->).
      unfold pop_frontF. rewrite E. split; [|intros o Eo; discriminate].
      unfold inv. cbn [h_gen h_lines]. apply buf_ok_skipn. exact H.
    - split; [exact H|intros o Eo; discriminate].
  Qed.

  Lemma fill_rowsF_ok rows : forall fuel s, inv s ->
    let '(r, s') := fill_rowsF fuel rows s in
    inv s' /\ res_ok r /\ (r = Ok true -> rows <= length (h_lines s')).
  Proof.
    induction fuel as [|fuel IH]; intros s H.
    - cbn. split; [exact H|]. split; [|discriminate]. intros o E. inversion E; subst.
      intros [E2|(k & E2)]; discriminate.
    - cbn [fill_rowsF]. destruct (length (h_lines s) <? rows) eqn:El.
      + pose proof (f2_readline_ok s H) as Hr. destruct (f2_readline s) as [r s1]. destruct Hr as [H1 Hr].
        destruct r as [[|]|o].
        * apply IH. exact H1.
        * destruct (Nat.eqb (length (h_lines s1)) 0).
          -- split; [exact H1|]. split; [|discriminate]. intros o E. inversion E; subst.
             intros [E2|(k & E2)]; discriminate.
          -- split; [exact H1|]. split; [intros o E; discriminate|discriminate].
        * split; [exact H1|]. split; [exact Hr|discriminate].
      + apply Nat.ltb_ge in El. split; [exact H|]. split; [intros o E; discriminate|auto].
  Qed.

  Lemma footer_loopF_ok d footer create : forall fuel i s, inv s -> i < length (h_lines s) ->
    let '(r, s') := footer_loopF re_match fuel d footer create i s in inv s' /\ res_ok r.
  Proof.
    induction fuel as [|fuel IH]; intros i s H Hi.
    - cbn. split; [exact H|]. intros o E. inversion E; subst. intros [E2|(k & E2)]; discriminate.
    - cbn [footer_loopF].
      assert (Hm : exists m, match footer with
                            | None => Ok true
                            | Some p => match line_at s i with
                                        | Ok line => Ok (re_match p line)
                                        | Err o => Err o
                                        end
                            end = Ok m).
      { destruct footer as [p|]; [|eauto]. destruct (line_at_ok s i H Hi) as (b & ->). eauto. }
      destruct Hm as (m & ->). destruct m.
      + apply take_recordF_ok; [exact H|lia].
      + destruct (length (h_lines s) - 1 <=? i) eqn:El.
        * pose proof (f2_readline_ok s H) as Hr.
          pose proof (f2_readline_true_len s) as Hlen.
          destruct (f2_readline s) as [r s1]. destruct Hr as [H1 Hr].
          destruct r as [[|]|o].
          -- apply IH; [exact H1|]. rewrite (Hlen s1 eq_refl). lia.
          -- split; [exact H1|intros o E; discriminate].
          -- split; [exact H1|exact (res_ok_err o Hr)].
        * apply Nat.leb_gt in El. apply IH; [exact H|lia].
  Qed.

  Lemma read_and_matchF_ok d create s : inv s ->
    let '(r, s') := read_and_matchF re_match d create s in inv s' /\ res_ok r.
  Proof.
    intro H. unfold read_and_matchF. destruct (v_shape d) as [rows|header footer].
    - pose proof (fill_rowsF_ok rows (S (rows + f2_fuel s)) s H) as Hf.
      destruct (fill_rowsF _ rows s) as [f s1]. destruct Hf as (H1 & Hr & Hlen).
      destruct f as [[|]|o].
      + apply take_recordF_ok; [exact H1|auto].
      + split; [exact H1|intros o E; discriminate].
      + split; [exact H1|]. intros o' E. inversion E; subst. apply Hr. reflexivity.
    - assert (H0 : let '(r0, s0) := if Nat.eqb (length (h_lines s)) 0 then f2_readline s else (Ok true, s) in
                   inv s0 /\ res_ok r0 /\ (r0 = Ok true -> 0 < length (h_lines s0))).
      { destruct (Nat.eqb (length (h_lines s)) 0) eqn:E0.
        - pose proof (f2_readline_ok s H) as Hr. unfold f2_readline in *.
          destruct (match last (map Some (h_lines s)) None with Some l => _ | None => _ end) as [ls|o].
          + destruct (f2_fetch _ _ _) as [[[[b|] rest] g]|]; destruct Hr as [Hr1 Hr2];
              (split; [exact Hr1|split; [exact Hr2|]]); try discriminate.
            intros _. cbn [h_lines]. rewrite app_length. simpl. lia.
          + destruct Hr as [Hr1 Hr2]. split; [exact Hr1|split; [exact Hr2|discriminate]].
        - apply Nat.eqb_neq in E0. split; [exact H|]. split; [intros o E; discriminate|]. intros _. lia. }
      destruct (if Nat.eqb (length (h_lines s)) 0 then f2_readline s else (Ok true, s)) as [r0 s0].
      destruct H0 as (Hi0 & Hr0 & Hl0).
      destruct r0 as [[|]|o].
      + destruct (line_at_ok s0 0 Hi0 (Hl0 eq_refl)) as (b & ->).
        destruct (re_match header b).
        * apply footer_loopF_ok; [exact Hi0|auto].
        * split; [exact Hi0|intros o E; discriminate].
      + split; [exact Hi0|]. intros o E. inversion E; subst. intros [E2|(k & E2)]; discriminate.
      + split; [exact Hi0|]. intros o' E. inversion E; subst. apply Hr0. reflexivity.
  Qed.

  Lemma moreF_ok s : inv s -> let '(r, s') := moreF s in inv s' /\ res_ok r.
  Proof.
    intro H. unfold moreF. destruct (negb (Nat.eqb (length (h_lines s)) 0)).
    - split; [exact H|intros o E; discriminate].
    - pose proof (f2_readline_ok s H) as Hr. destruct (f2_readline s) as [r s1]. destruct Hr as [H1 Hr].
      destruct r as [b|o]; (split; [exact H1|]).
      + intros o E. discriminate.
      + intros o' E. inversion E; subst. apply Hr. reflexivity.
  Qed.

  (* ---- arbitrary call sequences ------------------------------------------------------------------- *)
  Inductive rr_op := OpMore | OpReadAndMatch (d : env2) (create : bool).

  Definition rr_step (s : fst2) (op : rr_op) : option outcome * fst2 :=
    match op with
    | OpMore => let '(r, s') := moreF s in (match r with Err o => Some o | Ok _ => None end, s')
    | OpReadAndMatch d create =>
        let '(r, s') := read_and_matchF re_match d create s in
        (match r with Err o => Some o | Ok _ => None end, s')
    end.

  Fixpoint rr_run (s : fst2) (ops : list rr_op) : list (option outcome) :=
    match ops with
    | [] => []
    | op :: r => let '(o, s') := rr_step s op in o :: rr_run s' r
    end.

  Lemma rr_run_ok : forall ops s, inv s ->
    Forall (fun o => match o with Some e => ~ bad e | None => True end) (rr_run s ops).
  Proof.
    induction ops as [|op ops IH]; intros s H; [constructor|].
    cbn [rr_run]. destruct (rr_step s op) as [o s'] eqn:E.
    assert (Hs : inv s' /\ match o with Some e => ~ bad e | None => True end).
    { destruct op as [|d create]; cbn [rr_step] in E.
      - pose proof (moreF_ok s H) as Hm. destruct (moreF s) as [r s1]. destruct Hm as [H1 Hr].
        inversion E; subst. split; [exact H1|]. destruct r as [b|e]; [exact I|]. apply Hr. reflexivity.
      - pose proof (read_and_matchF_ok d create s H) as Hm.
        destruct (read_and_matchF re_match d create s) as [r s1]. destruct Hm as [H1 Hr].
        inversion E; subst. split; [exact H1|]. destruct r as [b|e]; [exact I|]. apply Hr. reflexivity. }
    destruct Hs as [H1 Ho]. constructor; [exact Ho|]. apply IH. exact H1.
  Qed.

  Theorem fixed2_no_poison_proof input ops :
    Forall (fun o => o <> Some OPoison /\ forall k, o <> Some (OPanic k)) (rr_run (f2_init input) ops).
  Proof.
    pose proof (rr_run_ok ops (f2_init input) (BufNil 0)) as H.
    rewrite Forall_forall in *. intros o Hin. specialize (H o Hin).
    destruct o as [e|]; [|split; [discriminate|intros; discriminate]].
    split.
    - intro E. inversion E; subst. apply H. left. reflexivity.
    - intros k E. inversion E; subst. apply H. right. eauto.
  Qed.
End NoPoison.

(* ---- the line reader --------------------------------------------------------------------------------- *)
Lemma split_lf_firstn_found n : forall T x r, split_lf T = (x, Some r) -> length x < n ->
  exists r', split_lf (firstn n T) = (x, Some r').
Proof.
  induction n as [|n IH]; intros T x r E Hl; [lia|].
  destruct T as [|b T]; [discriminate|]. cbn [firstn split_lf] in *.
  destruct (Byte.eqb b LF); [inversion E; subst; eauto|].
  destruct (split_lf T) as [x0 y0] eqn:E0. inversion E; subst.
  simpl length in Hl. destruct (IH T x0 r E0 ltac:(lia)) as (r' & ->). eauto.
Qed.

Lemma split_lf_firstn_none n : forall T x, split_lf T = (x, None) ->
  split_lf (firstn n T) = (firstn n T, None) /\ x = T.
Proof.
  induction n as [|n IH]; intros T x E.
  - split; [reflexivity|]. revert x E. induction T as [|b T IHT]; intros x E; [inversion E; reflexivity|].
    cbn [split_lf] in E. destruct (Byte.eqb b LF); [discriminate|].
    destruct (split_lf T) as [x0 y0] eqn:E0. inversion E; subst. f_equal. apply IHT. reflexivity.
  - destruct T as [|b T]; [inversion E; split; reflexivity|].
    cbn [firstn split_lf] in *. destruct (Byte.eqb b LF); [discriminate|].
    destruct (split_lf T) as [x0 y0] eqn:E0. inversion E; subst.
    destruct (IH T x0 E0) as [-> ->]. split; reflexivity.
Qed.

Lemma split_lf_skipn : forall T x r, split_lf T = (x, Some r) -> skipn (S (length x)) T = r.
Proof.
  induction T as [|b T IH]; intros x r E; [discriminate|].
  cbn [split_lf] in E. destruct (Byte.eqb b LF); [inversion E; reflexivity|].
  destruct (split_lf T) as [x0 y0] eqn:E0. inversion E; subst. simpl length. apply (IH x0 r eq_refl).
Qed.

(* The guard of known finding F22: the line, with its terminator, fits the reader's buffer, or it
   is the unterminated last line and shorter than the buffer. *)
Definition line_fits (T : bytes) : Prop :=
  match split_lf T with
  | (x, Some _) => length x < BUFSZ
  | (x, None) => length x < BUFSZ
  end.

(* Under the guard ByteReadLine is the ideal line reader: the text up to the next LF, without a CR
   directly before it; the rest of the text at EOF.
   Full statement (proved here only under line_fits; for lines longer than the buffer it needs the
   fragment-joining argument, which is validated by the correspondence runs with lines of up to
   3 x 4096 bytes but not proved):
     forall T, (exists x r, split_lf T = (x, Some r)) \/ length T mod BUFSZ <> 0 (modulo the CR
     put-back) -> read_line T = ideal_read_line T. *)
Theorem read_line_ideal_partial T : line_fits T -> read_line T = ideal_read_line T.
Proof.
  unfold line_fits, read_line, ideal_read_line. intro H.
  destruct T as [|b T]; [reflexivity|].
  set (U := b :: T) in *. cbn [byte_read_line]. unfold buf_readline.
  assert (EU : U = b :: T) by reflexivity. rewrite EU at 1.
  destruct (split_lf U) as [x y] eqn:E. destruct y as [r|].
  - destruct (split_lf_firstn_found BUFSZ U x r E H) as (r' & ->).
    rewrite (split_lf_skipn U x r E). reflexivity.
  - destruct (split_lf_firstn_none BUFSZ U x E) as [-> ->].
    assert (Hf : firstn BUFSZ U = U) by (apply firstn_all2; lia).
    rewrite Hf. apply Nat.ltb_lt in H. rewrite H. reflexivity.
Qed.

(* F22: the unterminated last line of exactly one buffer is lost: ByteReadLine reports io.EOF
   although 4096 bytes of text were read.  Replayed on the Go code: replays/corpus/C06/lastline4096.json *)
Theorem fixed_last_line_refuted_proof :
  exists T, T <> [] /\ read_line T = RLEof /\ ideal_read_line T = RLOk T [].
Proof.
  exists (repeat x61 BUFSZ). split; [discriminate|]. split; vm_compute; reflexivity.
Qed.

(* ---- empty lines --------------------------------------------------------------------------------- *)
Lemma read_line_eol b X : read_line (eol b ++ X) = RLOk [] X.
Proof.
  unfold read_line. destruct b; cbn [eol app length byte_read_line]; unfold buf_readline.
  - change (firstn BUFSZ (CR :: LF :: X)) with (CR :: LF :: firstn (BUFSZ - 2) X). reflexivity.
  - change (firstn BUFSZ (LF :: X)) with (LF :: firstn (BUFSZ - 1) X). reflexivity.
Qed.

(* old reader: an empty line (LF or CRLF) before any text is skipped *)
Lemma f1_readline_skips_empty b X fuel :
  f1_readline (S fuel) (eol b ++ X) = f1_readline fuel X.
Proof. cbn [f1_readline]. rewrite read_line_eol. reflexivity. Qed.

(* fixedlength2: the same, and the skipped line only advances the buffer generation *)
Lemma f2_fetch_skips_empty b X fuel gen :
  f2_fetch (S fuel) (eol b ++ X) gen = f2_fetch fuel X (S gen).
Proof. cbn [f2_fetch]. rewrite read_line_eol. reflexivity. Qed.
