(* C06 proofs, part 4: the old csv reader (column fidelity, delivery order, header rejection) and
   the csv2 record buffer (index arithmetic of readLine / popFrontLinesBuf / lineToColumnValue). *)
From Coq Require Import List NArith Bool Arith Lia.
From Coq.Strings Require Import Byte.
Import ListNotations.
From OV Require Import Base.Bytes Base.Utf8 Base.Cases Base.Tree Model.Csv Model.Fixed Model.Delim
  Proofs.DelimUtf8 Proofs.DelimCsv.

Lemma nth_error_combine {A B} : forall (l : list A) (l' : list B) j,
  nth_error (combine l l') j =
  match nth_error l j, nth_error l' j with
  | Some a, Some b => Some (a, b)
  | _, _ => None
  end.
Proof.
  induction l as [|a l IH]; intros l' j.
  - destruct j; reflexivity.
  - destruct l' as [|b l']; [destruct j; [reflexivity|]; simpl; destruct (nth_error l j); reflexivity|].
    destruct j; [reflexivity|]. simpl. apply IH.
Qed.

Lemma nth_error_skipn' {A} : forall n (l : list A) k, nth_error (skipn n l) k = nth_error l (n + k).
Proof.
  induction n as [|n IH]; intros l k; [reflexivity|].
  destruct l as [|a l]; [destruct k; reflexivity|]. simpl. apply IH.
Qed.

Lemma nth_error_firstn' {A} : forall n (l : list A) k, k < n -> nth_error (firstn n l) k = nth_error l k.
Proof.
  induction n as [|n IH]; intros l k H; [lia|].
  destruct l as [|a l]; [destruct k; reflexivity|].
  destruct k as [|k]; [reflexivity|]. simpl. apply IH. lia.
Qed.

(* ---- old csv: a record becomes a node whose j-th child is column j with field j ------------------- *)
Theorem csv_node_columns_proof d rec :
  let ks := t_kids (record_to_node d rec) in
  length ks = Nat.min (length rec) (length (d_cols d)) /\
  forall j v c, nth_error rec j = Some v -> nth_error (d_cols d) j = Some c ->
                nth_error ks j = Some (text_elem (snd c) v).
Proof.
  cbn [record_to_node t_kids]. split.
  - rewrite map_length, combine_length. reflexivity.
  - intros j v c Hv Hc. rewrite nth_error_map, nth_error_combine, Hv, Hc. reflexivity.
Qed.

Definition row_node (d : csvdecl) (r : erow) : outcome :=
  ONode (record_to_node d (norm_fields (r_fields r))).

Section OldCsv.
  Variable trim : bytes -> bytes.
  Variable d : csvdecl.
  Hypothesis V : valid_delim (d_delim d) = true.
  Let enc := encode_rune (d_delim d).
  Notation oread := (old_read trim d).

  Lemma old_fetch_row r rest n : wf_row enc r ->
    exists n', old_fetch d (mkO (mkC (enc_row enc r ++ rest) n) true false)
               = (row_node d r, mkO (mkC rest n') true false).
  Proof.
    intro H. unfold old_fetch. cbn [o_c]. unfold enc. rewrite (csv_next_row _ V r rest n H).
    unfold row_out. eauto.
  Qed.

  Lemma old_fetch_eof bl n : exists n', old_fetch d (mkO (mkC (flat_map eol bl) n) true false)
                                     = (OEOF, mkO (mkC [] n') true false).
  Proof.
    unfold old_fetch. cbn [o_c]. destruct (csv_next_eof _ V bl n) as (n' & ->). eauto.
  Qed.

  (* after the header check: every row is delivered once, in input order, then io.EOF *)
  Lemma old_rows trailing : forall t n, Forall (wf_row enc) t ->
    run_reads ost oread (S (length t))
              (mkO (mkC (flat_map (enc_row enc) t ++ flat_map eol trailing) n) true false)
    = map (row_node d) t ++ [OEOF].
  Proof.
    induction t as [|r t IH]; intros n Hwf.
    - cbn [flat_map app length run_reads map]. unfold old_read. cbn [o_latched o_checked].
      destruct (old_fetch_eof trailing n) as (n' & ->). reflexivity.
    - inversion Hwf as [|r' t' Hr Ht]; subst r' t'.
      cbn [flat_map length map app]. rewrite <- app_assoc.
      change (run_reads ost oread (S (S (length t))) ?s)
        with (let '(o, s') := oread s in if terminal o then [o] else o :: run_reads ost oread (S (length t)) s').
      unfold old_read at 1. cbn [o_latched o_checked].
      destruct (old_fetch_row r (flat_map (enc_row enc) t ++ flat_map eol trailing) n Hr) as (n' & ->).
      unfold row_node at 1. cbn [terminal]. rewrite (IH n' Ht). reflexivity.
  Qed.

  (* ---- header ---- *)
  Lemma old_read_init input :
    oread (old_init d input) =
    let '(e, st1) := check_header trim d (o_c (old_init d input)) in
    match e with
    | Some o => (o, mkO st1 true false)
    | None => old_fetch d (mkO st1 true false)
    end.
  Proof. reflexivity. Qed.

  Lemma header_rejects_general input h st1 r st2 :
    d_header d = Some h ->
    jump_to (S h) (d_delim d) (h - 1) (o_c (old_init d input)) = Some (JOk, st1) ->
    csv_next (d_delim d) st1 = (r, st2) ->
    r <> CFuel ->
    (forall hdr, r = CRec hdr -> header_matches trim d hdr = false) ->
    forall k, run_reads ost oread (S k) (old_init d input) = [OFatal].
  Proof.
    intros Hh Hj Hn Hf Hm k. cbn [run_reads]. rewrite old_read_init.
    unfold check_header. rewrite Hh, Hj, Hn.
    destruct r as [hdr| | | |]; try reflexivity; [|congruence].
    rewrite (Hm hdr eq_refl). reflexivity.
  Qed.

  Lemma header_unreadable input h st1 :
    d_header d = Some h ->
    jump_to (S h) (d_delim d) (h - 1) (o_c (old_init d input)) = Some (JEof, st1) ->
    forall k, run_reads ost oread (S k) (old_init d input) = [OFatal].
  Proof.
    intros Hh Hj k. cbn [run_reads]. rewrite old_read_init.
    unfold check_header. rewrite Hh, Hj. reflexivity.
  Qed.

  (* a declared header on the first line that does not match: fatal, before any record *)
  Lemma header_rejects_first_line hdr rest :
    d_header d = Some 1 -> d_replace_dq d = false -> wf_row enc hdr ->
    header_matches trim d (norm_fields (r_fields hdr)) = false ->
    forall k, run_reads ost oread (S k) (old_init d (enc_row enc hdr ++ rest)) = [OFatal].
  Proof.
    intros Hh Hq Hw Hm k.
    eapply (header_rejects_general _ 1 _ (row_out hdr)); try exact Hh.
    - unfold old_init. rewrite Hq. reflexivity.
    - unfold enc. apply (csv_next_row _ V hdr rest 0 Hw).
    - discriminate.
    - intros x E. inversion E; subst. exact Hm.
  Qed.

  (* the header line is one on which the csv decoder itself fails: rejected with the fatal header
     error as well, whatever the names on it are - no Read after it can deliver a record *)
  Lemma header_parse_error input h st1 st2 :
    d_header d = Some h ->
    jump_to (S h) (d_delim d) (h - 1) (o_c (old_init d input)) = Some (JOk, st1) ->
    csv_next (d_delim d) st1 = (CParseErr, st2) ->
    forall k, run_reads ost oread (S k) (old_init d input) = [OFatal].
  Proof.
    intros Hh Hj Hn. eapply header_rejects_general; try eassumption; [discriminate|].
    intros hdr E. discriminate.
  Qed.

  (* a quote inside an unquoted first header cell, header on the first line *)
  Lemma header_bare_quote_first_line f tailf rest :
    d_header d = Some 1 -> d_replace_dq d = false ->
    f <> [] -> head_is_quote f = false -> index_sub enc f = None -> mem_byte QUOTE f = true ->
    (tailf = [] \/ exists g, tailf = enc ++ g) ->
    mem_byte LF (f ++ tailf) = false -> mem_byte CR (f ++ tailf) = false ->
    forall k, run_reads ost oread (S k) (old_init d ((f ++ tailf) ++ LF :: rest)) = [OFatal].
  Proof.
    intros Hh Hq Hne Hhd Hi Hqu Ht Hlf Hcr k.
    eapply (header_parse_error _ 1); [exact Hh| |].
    - unfold old_init. rewrite Hq. reflexivity.
    - apply (csv_next_bare_quote (d_delim d) f tailf rest 0 V); assumption.
  Qed.

  (* header on line 1, data from line 2: the header row is consumed, then every row in order *)
  Lemma header_then_rows hdr t trailing :
    d_header d = Some 1 -> d_data d = 2 -> d_replace_dq d = false ->
    wf_row enc hdr -> r_blanks hdr = [] -> nl_fields (r_fields hdr) = 0 ->
    header_matches trim d (norm_fields (r_fields hdr)) = true ->
    Forall (wf_row enc) t ->
    run_reads ost oread (S (length t))
              (old_init d (enc_row enc hdr ++ flat_map (enc_row enc) t ++ flat_map eol trailing))
    = map (row_node d) t ++ [OEOF].
  Proof.
    intros Hh Hd Hq Hw Hb Hn Hm Ht.
    assert (Hc : check_header trim d (o_c (old_init d (enc_row enc hdr ++ flat_map (enc_row enc) t ++ flat_map eol trailing)))
                 = (None, mkC (flat_map (enc_row enc) t ++ flat_map eol trailing) 1)).
    { unfold check_header, old_init. rewrite Hh, Hq. cbn [o_c jump_to c_line Nat.sub Nat.ltb Nat.leb].
      unfold enc. rewrite (csv_next_row _ V hdr _ 0 Hw). unfold row_out. fold enc. rewrite Hm.
      rewrite Hb, Hn. cbn [length Nat.add]. unfold skip_to_data. rewrite Hd. reflexivity. }
    destruct t as [|r t].
    - cbn [length run_reads map app]. rewrite old_read_init.
      rewrite Hc. cbn [flat_map app]. destruct (old_fetch_eof trailing 1) as (n' & ->). reflexivity.
    - inversion Ht as [|r' t' Hr Ht']; subst r' t'.
      change (run_reads ost oread (S (length (r :: t))) ?s)
        with (let '(o, s') := oread s in if terminal o then [o] else o :: run_reads ost oread (S (length t)) s').
      rewrite old_read_init.
      rewrite Hc. cbn [flat_map]. rewrite <- app_assoc.
      destruct (old_fetch_row r (flat_map (enc_row enc) t ++ flat_map eol trailing) 1 Hr) as (n' & ->).
      unfold row_node at 1. cbn [terminal map app]. rewrite (old_rows trailing t n' Ht'). reflexivity.
  Qed.
End OldCsv.

(* ---- csv2: the reader-owned records slice and the per-line (recordStart, recordNum) ---------------- *)
Section Csv2.
  Variable re_match : pat -> bytes -> bool.
  Variable comma : rune.
  Variable delim : bytes.

  (* the buffered lines lay out consecutive slices of `records`, starting at offset off *)
  Fixpoint layout (off : nat) (ls : list line2) (rows : list (list bytes)) : Prop :=
    match ls, rows with
    | [], [] => True
    | l :: ls', row :: rows' =>
        l_start l = off /\ l_num l = length row /\ (l_raw l = [] \/ l_raw l = join delim row)
        /\ layout (off + length row) ls' rows'
    | _, _ => False
    end.

  (* the buffer represents the rows (field lists) read and not yet consumed *)
  Definition rep (s : st2) (rows : list (list bytes)) : Prop :=
    layout 0 (s_lines s) rows /\ s_records s = concat rows.

  Lemma layout_length off ls rows : layout off ls rows -> length ls = length rows.
  Proof.
    revert off rows. induction ls as [|l ls IH]; intros off [|row rows] H; try contradiction; [reflexivity|].
    destruct H as (_ & _ & _ & H). simpl. f_equal. exact (IH _ _ H).
  Qed.

  Lemma layout_snoc rec : forall ls off rows, layout off ls rows ->
    layout off (ls ++ [mkL2 (off + length (concat rows)) (length rec) []]) (rows ++ [rec]).
  Proof.
    induction ls as [|l ls IH]; intros off [|row rows] H; try contradiction.
    - cbn. rewrite Nat.add_0_r. auto.
    - destruct H as (H1 & H2 & H3 & H). cbn [app layout]. repeat split; try assumption.
      cbn [concat]. rewrite app_length, Nat.add_assoc. apply IH. exact H.
  Qed.

  Lemma layout_nth : forall ls off rows i l row, layout off ls rows ->
    nth_error ls i = Some l -> nth_error rows i = Some row ->
    l_start l = off + length (concat (firstn i rows)) /\ l_num l = length row
    /\ (l_raw l = [] \/ l_raw l = join delim row).
  Proof.
    induction ls as [|l0 ls IH]; intros off [|row0 rows] i l row H Hl Hr; try contradiction.
    - destruct i; discriminate.
    - destruct H as (H1 & H2 & H3 & H). destruct i as [|i].
      + inversion Hl; inversion Hr; subst. cbn. rewrite Nat.add_0_r. auto.
      + cbn [nth_error] in Hl, Hr. destruct (IH _ _ _ _ _ H Hl Hr) as (E1 & E2 & E3).
        cbn [firstn concat]. rewrite app_length. repeat split; try assumption. lia.
  Qed.

  Lemma concat_nth_slice {A} : forall (rows : list (list A)) i row, nth_error rows i = Some row ->
    firstn (length row) (skipn (length (concat (firstn i rows))) (concat rows)) = row.
  Proof.
    induction rows as [|r0 rows IH]; intros i row H; [destruct i; discriminate|].
    destruct i as [|i].
    - inversion H; subst. cbn. apply firstn_app_len.
    - cbn [nth_error] in H. cbn [firstn concat]. rewrite app_length.
      rewrite <- (skipn_skipn' (length r0)). rewrite skipn_app_len. apply IH. exact H.
  Qed.

  (* reader.readLine: appends exactly the record encoding/csv returned *)
  Lemma c2_readline_rep s rows : rep s rows ->
    match csv_next comma (s_c s) with
    | (CRec rec, c') => exists s', c2_readline comma s = (Ok true, s') /\ rep s' (rows ++ [rec]) /\ s_c s' = c'
    | (CEOF, c') => exists s', c2_readline comma s = (Ok false, s') /\ rep s' rows /\ s_c s' = c'
    | (_, c') => exists o s', c2_readline comma s = (Err o, s') /\ (o = OFatal \/ o = OFuel) /\ rep s' rows
    end.
  Proof.
    intros [Hl Hr]. unfold c2_readline. destruct (csv_next comma (s_c s)) as [r c'].
    destruct r as [rec| | | |].
    - eexists. split; [reflexivity|]. split; [|reflexivity]. split; cbn [s_lines s_records].
      + rewrite Hr. apply (layout_snoc rec _ 0 rows Hl).
      + rewrite Hr, concat_app. cbn. rewrite app_nil_r. reflexivity.
    - do 2 eexists. split; [reflexivity|]. split; [left; reflexivity|]. split; assumption.
    - eexists. split; [reflexivity|]. split; [|reflexivity]. split; assumption.
    - do 2 eexists. split; [reflexivity|]. split; [left; reflexivity|]. split; assumption.
    - do 2 eexists. split; [reflexivity|]. split; [right; reflexivity|]. split; assumption.
  Qed.

  (* ColumnDecl.lineToColumnValue: field `index` of the line's row, "" beyond the row; never out
     of range *)
  Lemma col_value2_rep s rows i l row c : rep s rows ->
    nth_error (s_lines s) i = Some l -> nth_error rows i = Some row ->
    col_value2 c l (s_records s) =
    Ok (if (k_index c <? 1) || (length row <? k_index c) then [] else nth (k_index c - 1) row []).
  Proof.
    intros [Hl Hr] El Er. destruct (layout_nth _ _ _ _ _ _ Hl El Er) as (E1 & E2 & _).
    unfold col_value2. rewrite E2.
    destruct ((k_index c <? 1) || (length row <? k_index c)) eqn:Eb; [reflexivity|].
    apply orb_false_iff in Eb as [Eb1 Eb2]. apply Nat.ltb_ge in Eb1, Eb2.
    rewrite E1, Hr. cbn [Nat.add].
    pose proof (concat_nth_slice rows i row Er) as Hs.
    assert (Hn : nth_error (concat rows) (length (concat (firstn i rows)) + k_index c - 1)
                 = nth_error row (k_index c - 1)).
    { replace (length (concat (firstn i rows)) + k_index c - 1)
        with (length (concat (firstn i rows)) + (k_index c - 1)) by lia.
      rewrite <- nth_error_skipn'. rewrite <- (nth_error_firstn' (length row)) by lia.
      rewrite Hs. reflexivity. }
    rewrite Hn. destruct (nth_error row (k_index c - 1)) as [v|] eqn:En.
    - f_equal. symmetry. apply nth_error_nth. exact En.
    - apply nth_error_None in En. lia.
  Qed.

  (* popFrontLinesBuf: the remaining lines still denote their rows *)
  Lemma fold_layout : forall n ls off rows a, layout off ls rows ->
    fold_left (fun a l => a + l_num l) (firstn n ls) a = a + length (concat (firstn n rows)).
  Proof.
    induction n as [|n IH]; intros ls off rows a H; [simpl; lia|].
    destruct ls as [|l ls]; destruct rows as [|row rows]; try contradiction; [simpl; lia|].
    destruct H as (_ & H2 & _ & H). cbn [firstn fold_left concat].
    rewrite (IH ls _ rows _ H), app_length, H2. lia.
  Qed.

  Lemma layout_skipn : forall n ls off rows, layout off ls rows ->
    layout (off + length (concat (firstn n rows))) (skipn n ls) (skipn n rows).
  Proof.
    induction n as [|n IH]; intros ls off rows H; [cbn; rewrite Nat.add_0_r; exact H|].
    destruct ls as [|l ls]; destruct rows as [|row rows]; try contradiction; [cbn; exact I|].
    destruct H as (_ & _ & _ & H). cbn [skipn firstn concat]. rewrite app_length, Nat.add_assoc.
    apply IH. exact H.
  Qed.

  Lemma layout_shift k : forall ls off rows, layout off ls rows -> k <= off ->
    layout (off - k) (map (fun l => mkL2 (l_start l - k) (l_num l) (l_raw l)) ls) rows.
  Proof.
    induction ls as [|l ls IH]; intros off [|row rows] H Hk; try contradiction; [exact I|].
    destruct H as (H1 & H2 & H3 & H). cbn [map layout l_start l_num l_raw].
    repeat split; try assumption; [lia|].
    replace (off - k + length row) with (off + length row - k) by lia. apply IH; [exact H|lia].
  Qed.

  Lemma pop_front2_rep s rows n : rep s rows -> n <= length rows ->
    exists s', pop_front2 n s = (Ok tt, s') /\ rep s' (skipn n rows) /\ s_c s' = s_c s.
  Proof.
    intros [Hl Hr] Hn. unfold pop_front2.
    pose proof (layout_length _ _ _ Hl) as Hlen.
    assert (E1 : (length (s_lines s) <? n) = false) by (apply Nat.ltb_ge; lia). rewrite E1.
    rewrite (fold_layout n _ 0 rows 0 Hl). cbn [Nat.add].
    set (shift := length (concat (firstn n rows))).
    assert (Hc : concat rows = concat (firstn n rows) ++ concat (skipn n rows)).
    { rewrite <- concat_app, firstn_skipn. reflexivity. }
    assert (E2 : (length (s_records s) <? shift) = false).
    { apply Nat.ltb_ge. rewrite Hr, Hc, app_length. unfold shift. lia. }
    rewrite E2. eexists. split; [reflexivity|]. split; [|reflexivity]. split; cbn [s_lines s_records].
    - pose proof (layout_skipn n _ 0 rows Hl) as H. cbn [Nat.add] in H. fold shift in H.
      pose proof (layout_shift shift _ _ _ H (le_n _)) as H'. rewrite Nat.sub_diag in H'. exact H'.
    - rewrite Hr, Hc. unfold shift. apply skipn_app_len.
  Qed.

  (* matchLine: the regexp sees the row's fields joined by the delimiter; the raw cache is
     semantically invisible *)
  Lemma upd_nth_layout : forall ls off rows i l row, layout off ls rows ->
    nth_error ls i = Some l -> nth_error rows i = Some row ->
    layout off (upd_nth i (mkL2 (l_start l) (l_num l) (join delim row)) ls) rows.
  Proof.
    induction ls as [|l0 ls IH]; intros off [|row0 rows] i l row H Hl Hr; try contradiction.
    - destruct i; discriminate.
    - destruct H as (H1 & H2 & H3 & H). destruct i as [|i].
      + inversion Hl; inversion Hr; subst. cbn [upd_nth layout l_start l_num l_raw]. auto.
      + cbn [nth_error] in Hl, Hr. cbn [upd_nth layout]. repeat split; try assumption.
        apply (IH _ _ _ _ _ H Hl Hr).
  Qed.

  Lemma match_line_rep p s rows i row : rep s rows -> nth_error rows i = Some row ->
    exists s', match_line re_match delim p i s = (Ok (re_match p (join delim row)), s')
               /\ rep s' rows /\ s_c s' = s_c s.
  Proof.
    intros [Hl Hr] Er. unfold match_line.
    destruct (nth_error (s_lines s) i) as [l|] eqn:El.
    2:{ apply nth_error_None in El. pose proof (layout_length _ _ _ Hl).
        assert (i < length rows) by (apply nth_error_Some; congruence). lia. }
    destruct (layout_nth _ _ _ _ _ _ Hl El Er) as (E1 & E2 & E3).
    destruct (l_raw l) as [|b raw] eqn:Eraw.
    - unfold slice. rewrite E1, E2, Hr. cbn [Nat.add].
      assert (Hc : concat rows = concat (firstn i rows) ++ row ++ concat (skipn (S i) rows)).
      { rewrite <- (firstn_skipn i rows) at 1. rewrite concat_app. f_equal.
        clear - Er. revert i Er. induction rows as [|r0 rows IH]; intros i Er; [destruct i; discriminate|].
        destruct i; [inversion Er; reflexivity|]. cbn [nth_error] in Er. cbn [skipn]. apply (IH i Er). }
      assert (Eb : (length (concat (firstn i rows)) + length row <=? length (concat rows)) = true).
      { apply Nat.leb_le. rewrite Hc, !app_length. lia. }
      rewrite Eb. rewrite (concat_nth_slice rows i row Er).
      eexists. split; [reflexivity|]. split; [|reflexivity]. split; cbn [s_lines s_records]; [|reflexivity].
      cbn [Nat.add] in E1. rewrite <- E1, <- E2. apply (upd_nth_layout _ _ _ _ _ _ Hl El Er).
    - destruct E3 as [E3|E3]; [discriminate|]. rewrite <- E3.
      eexists. split; [reflexivity|]. split; [split; assumption|reflexivity].
  Qed.

  (* ---- linesToNode against a specification over rows --------------------------------------------- *)
  Definition sel (c : col2) (i : nat) (row : list bytes) : bool :=
    match k_line_index c with
    | Some li => Nat.eqb li (S i)
    | None => match k_line_pat c with
              | Some p => re_match p (join delim row)
              | None => true
              end
    end.

  Definition val (c : col2) (row : list bytes) : bytes :=
    if (k_index c <? 1) || (length row <? k_index c) then [] else nth (k_index c - 1) row [].

  (* the first of the record's rows (numbered from i) that the column's line_index / line_pattern
     selects *)
  Fixpoint find_row (c : col2) (i : nat) (rws : list (list bytes)) : option (list bytes) :=
    match rws with
    | [] => None
    | row :: r => if sel c i row then Some row else find_row c (S i) r
    end.

  Definition col_spec (c : col2) (rws : list (list bytes)) : list tree :=
    match find_row c 0 rws with
    | Some row => [text_elem (k_name c) (val c row)]
    | None => []
    end.

  (* what a record node must be: per declared column, in declaration order, field `index` of the
     selected row ("" beyond the row); a column that selects no row is absent *)
  Definition node_spec (d : rec2) (rws : list (list bytes)) : tree :=
    T ElementNode (q_name d) FNone (flat_map (fun c => col_spec c rws) (q_cols d)).

  Lemma skipn_nth_cons {A} : forall i (l : list A) x, nth_error l i = Some x ->
    skipn i l = x :: skipn (S i) l.
  Proof.
    induction i as [|i IH]; intros l x H; destruct l as [|a l]; try discriminate.
    - inversion H; reflexivity.
    - cbn [nth_error] in H. cbn [skipn]. apply (IH l x H).
  Qed.

  Lemma line_match2_rep c s rows i row : rep s rows -> nth_error rows i = Some row ->
    exists s', line_match2 re_match delim c i s = (Ok (sel c i row), s') /\ rep s' rows /\ s_c s' = s_c s.
  Proof.
    intros H Er. unfold line_match2, sel. destruct (k_line_index c) as [li|]; [eauto|].
    destruct (k_line_pat c) as [p|]; [|eauto]. apply match_line_rep; assumption.
  Qed.

  Lemma col_node2_rep c rows : forall n i s, rep s rows -> i + n <= length rows ->
    exists s', col_node2 re_match delim c n i s
               = (Ok (option_map (fun row => text_elem (k_name c) (val c row))
                                 (find_row c i (firstn n (skipn i rows)))), s')
               /\ rep s' rows /\ s_c s' = s_c s.
  Proof.
    induction n as [|n IH]; intros i s H Hi; [cbn; eauto|].
    destruct (nth_error rows i) as [row|] eqn:Er.
    2:{ apply nth_error_None in Er. lia. }
    cbn [col_node2]. destruct (line_match2_rep c s rows i row H Er) as (s1 & -> & H1 & Hc1).
    rewrite (skipn_nth_cons i rows row Er). cbn [firstn find_row].
    destruct (sel c i row).
    - destruct H1 as [Hl1 Hr1]. pose proof (layout_length _ _ _ Hl1) as Hlen.
      destruct (nth_error (s_lines s1) i) as [l|] eqn:El.
      2:{ apply nth_error_None in El. lia. }
      rewrite (col_value2_rep s1 rows i l row c (conj Hl1 Hr1) El Er). cbn [option_map].
      eexists. split; [reflexivity|]. split; [split; assumption|exact Hc1].
    - destruct (IH (S i) s1 H1 ltac:(lia)) as (s2 & E2 & H2 & Hc2).
      rewrite E2. eexists. split; [reflexivity|]. split; [exact H2|congruence].
  Qed.

  Lemma cols_nodes2_rep rows n : n <= length rows -> forall cs s, rep s rows ->
    exists s', cols_nodes2 re_match delim cs n s
               = (Ok (flat_map (fun c => col_spec c (firstn n rows)) cs), s')
               /\ rep s' rows /\ s_c s' = s_c s.
  Proof.
    intros Hn cs. induction cs as [|c cs IH]; intros s H; [cbn; eauto|].
    cbn [cols_nodes2]. destruct (col_node2_rep c rows n 0 s H ltac:(lia)) as (s1 & -> & H1 & Hc1).
    destruct (IH s1 H1) as (s2 & -> & H2 & Hc2).
    eexists. split; [|split; [exact H2|congruence]].
    cbn [flat_map skipn]. unfold col_spec.
    destruct (find_row c 0 (firstn n rows)); reflexivity.
  Qed.

  (* linesToNode + popFrontLinesBuf: the node is the specified one for the first n buffered rows,
     and exactly those rows leave the buffer *)
  Lemma take_record2_rep d n s rows : rep s rows -> n <= length rows ->
    exists s', take_record2 re_match delim d n true s = (Ok (true, Some (node_spec d (firstn n rows))), s')
               /\ rep s' (skipn n rows) /\ s_c s' = s_c s.
  Proof.
    intros H Hn. unfold take_record2, lines_to_node2.
    destruct H as [Hl Hr]. pose proof (layout_length _ _ _ Hl) as Hlen.
    assert (E : (length (s_lines s) <? n) = false) by (apply Nat.ltb_ge; lia). rewrite E.
    destruct (cols_nodes2_rep rows n Hn (q_cols d) s (conj Hl Hr)) as (s1 & -> & H1 & Hc1).
    destruct (pop_front2_rep s1 rows n H1 Hn) as (s2 & -> & H2 & Hc2).
    eexists. split; [reflexivity|]. split; [exact H2|congruence].
  Qed.

  (* the fill loop of readAndMatchRowsBasedRecord only appends rows, in reading order *)
  Lemma fill_rows2_rep n : forall fuel s rows, rep s rows ->
    exists more, rep (snd (fill_rows2 comma fuel n s)) (rows ++ more)
      /\ (fst (fill_rows2 comma fuel n s) = Ok true -> n <= length (rows ++ more))
      /\ (forall k, fst (fill_rows2 comma fuel n s) <> Err (OPanic k)).
  Proof.
    induction fuel as [|fuel IH]; intros s rows H.
    - exists []. rewrite app_nil_r. cbn. split; [exact H|]. split; [discriminate|]. intros k E; discriminate.
    - cbn [fill_rows2]. destruct (length (s_lines s) <? n) eqn:El.
      + pose proof (c2_readline_rep s rows H) as Hr.
        destruct (csv_next comma (s_c s)) as [r c'].
        destruct r as [rec| | | |].
        * destruct Hr as (s1 & -> & H1 & _). destruct (IH s1 _ H1) as (more & Hm1 & Hm2 & Hm3).
          exists (rec :: more). rewrite <- app_assoc in Hm1, Hm2. cbn [app] in Hm1, Hm2. auto.
        * destruct Hr as (o & s1 & -> & [->| ->] & H1); exists []; rewrite app_nil_r; cbn [fst snd];
            (split; [exact H1|split; [discriminate|intros k E; discriminate]]).
        * destruct Hr as (s1 & -> & H1 & _). exists []. rewrite app_nil_r.
          destruct (Nat.eqb (length (s_lines s1)) 0); cbn [fst snd];
            (split; [exact H1|split; [discriminate|intros k E; discriminate]]).
        * destruct Hr as (o & s1 & -> & [->| ->] & H1); exists []; rewrite app_nil_r; cbn [fst snd];
            (split; [exact H1|split; [discriminate|intros k E; discriminate]]).
        * destruct Hr as (o & s1 & -> & [->| ->] & H1); exists []; rewrite app_nil_r; cbn [fst snd];
            (split; [exact H1|split; [discriminate|intros k E; discriminate]]).
      + exists []. rewrite app_nil_r. cbn [fst snd]. split; [exact H|]. split; [|intros k E; discriminate].
        intros _. apply Nat.ltb_ge in El. destruct H as [Hl _]. rewrite <- (layout_length _ _ _ Hl). exact El.
  Qed.

  (* a rows based record: the node is the specified one for the next n rows in reading order, and
     exactly those rows are consumed *)
  Theorem csv2_rows_record_proof d n s rows t s' :
    rep s rows -> q_shape d = Rows n ->
    read_and_match2 re_match comma delim d true s = (Ok (true, Some t), s') ->
    exists more, t = node_spec d (firstn n (rows ++ more)) /\ rep s' (skipn n (rows ++ more)).
  Proof.
    intros H Hs. unfold read_and_match2. rewrite Hs.
    destruct (fill_rows2_rep n (S (n + c2_fuel s)) s rows H) as (more & Hm1 & Hm2 & _).
    destruct (fill_rows2 comma (S (n + c2_fuel s)) n s) as [f s1]. cbn [fst snd] in *.
    destruct f as [[|]|o]; try discriminate.
    destruct (take_record2_rep d n s1 _ Hm1 (Hm2 eq_refl)) as (s2 & -> & H2 & _).
    intro E. inversion E; subst. eauto.
  Qed.

  (* ---- header/footer based records ------------------------------------------------------------------ *)
  Definition fsel (footer : option pat) (row : list bytes) : bool :=
    match footer with None => true | Some p => re_match p (join delim row) end.

  (* j is the first row at or after i that the footer selects *)
  Definition first_footer (footer : option pat) (R : list (list bytes)) (i j : nat) : Prop :=
    i <= j /\ (exists row, nth_error R j = Some row /\ fsel footer row = true) /\
    forall j' row', i <= j' < j -> nth_error R j' = Some row' -> fsel footer row' = false.

  Lemma footer_match_rep footer s rows i row : rep s rows -> nth_error rows i = Some row ->
    exists s', (match footer with
                | None => (Ok true, s)
                | Some p => match_line re_match delim p i s
                end) = (Ok (fsel footer row), s') /\ rep s' rows /\ s_c s' = s_c s.
  Proof.
    intros H Er. destruct footer as [p|]; [apply match_line_rep; assumption|].
    exists s. cbn. auto.
  Qed.

  Lemma footer_loop2_rep d footer : forall fuel i s rows t s',
    rep s rows -> i < length rows ->
    footer_loop2 re_match comma delim fuel d footer true i s = (Ok (true, Some t), s') ->
    exists more j, first_footer footer (rows ++ more) i j
      /\ t = node_spec d (firstn (S j) (rows ++ more))
      /\ rep s' (skipn (S j) (rows ++ more)).
  Proof.
    induction fuel as [|fuel IH]; intros i s rows t s' H Hi E; [discriminate|].
    cbn [footer_loop2] in E.
    destruct (nth_error rows i) as [row|] eqn:Er.
    2:{ apply nth_error_None in Er. lia. }
    destruct (footer_match_rep footer s rows i row H Er) as (s1 & Em & H1 & _).
    rewrite Em in E. destruct (fsel footer row) eqn:Ef.
    - (* the footer is on row i *)
      destruct (take_record2_rep d (S i) s1 rows H1 ltac:(lia)) as (s2 & Et & H2 & _).
      rewrite Et in E. inversion E; subst.
      exists [], i. rewrite app_nil_r. split; [|split; [reflexivity|exact H2]].
      split; [lia|]. split; [eauto|]. intros j' row' Hj. lia.
    - pose proof (layout_length _ _ _ (proj1 H1)) as Hlen.
      destruct (length (s_lines s1) - 1 <=? i) eqn:El.
      + (* read one more line *)
        pose proof (c2_readline_rep s1 rows H1) as Hr.
        destruct (csv_next comma (s_c s1)) as [r c'].
        destruct r as [rec| | | |].
        * destruct Hr as (s2 & Er2 & H2 & _). rewrite Er2 in E.
          destruct (IH (S i) s2 (rows ++ [rec]) t s' H2 ltac:(rewrite app_length; simpl; lia) E)
            as (more & j & (Hj1 & Hj2 & Hj3) & Ht & Hs).
          rewrite <- app_assoc in *. cbn [app] in *.
          exists (rec :: more), j. split; [|split; assumption].
          split; [lia|]. split; [exact Hj2|].
          intros j' row' Hj' En. destruct (Nat.eq_dec j' i) as [->|Hne].
          -- rewrite nth_error_app1 in En by lia. rewrite Er in En. inversion En; subst. exact Ef.
          -- apply (Hj3 j' row'); [lia|exact En].
        * destruct Hr as (o & s2 & Er2 & _). rewrite Er2 in E. discriminate.
        * destruct Hr as (s2 & Er2 & _). rewrite Er2 in E. discriminate.
        * destruct Hr as (o & s2 & Er2 & _). rewrite Er2 in E. discriminate.
        * destruct Hr as (o & s2 & Er2 & _). rewrite Er2 in E. discriminate.
      + apply Nat.leb_gt in El.
        destruct (IH (S i) s1 rows t s' H1 ltac:(lia) E) as (more & j & (Hj1 & Hj2 & Hj3) & Ht & Hs).
        exists more, j. split; [|split; assumption].
        split; [lia|]. split; [exact Hj2|].
        intros j' row' Hj' En. destruct (Nat.eq_dec j' i) as [->|Hne].
        * rewrite nth_error_app1 in En by lia. rewrite Er in En. inversion En; subst. exact Ef.
        * apply (Hj3 j' row'); [lia|exact En].
  Qed.

  (* a header/footer based record: the first unconsumed row matches the header, the record ends
     with the first row from there on that matches the footer (the header row itself when no
     footer is declared), the node is the specified one for exactly these rows, in reading order,
     and exactly these rows are consumed *)
  Theorem csv2_hf_record_proof d header footer s rows t s' :
    rep s rows -> q_shape d = HeaderFooter header footer ->
    read_and_match2 re_match comma delim d true s = (Ok (true, Some t), s') ->
    exists more j row0,
      nth_error (rows ++ more) 0 = Some row0 /\ re_match header (join delim row0) = true
      /\ first_footer footer (rows ++ more) 0 j
      /\ t = node_spec d (firstn (S j) (rows ++ more))
      /\ rep s' (skipn (S j) (rows ++ more)).
  Proof.
    intros H Hs E. unfold read_and_match2 in E. rewrite Hs in E.
    pose proof (layout_length _ _ _ (proj1 H)) as Hlen.
    assert (H0 : exists s0 more0 row0, (if Nat.eqb (length (s_lines s)) 0 then c2_readline comma s else (Ok true, s))
                    = (Ok true, s0) /\ rep s0 (rows ++ more0) /\ nth_error (rows ++ more0) 0 = Some row0).
    { destruct (Nat.eqb (length (s_lines s)) 0) eqn:E0.
      - apply Nat.eqb_eq in E0. destruct rows as [|r0 rows]; [|simpl in Hlen; lia].
        pose proof (c2_readline_rep s [] H) as Hr.
        destruct (csv_next comma (s_c s)) as [r c'].
        destruct r as [rec| | | |].
        + destruct Hr as (s0 & Er & H1 & _). exists s0, [rec], rec. auto.
        + destruct Hr as (o & s0 & Er & _). rewrite Er in E. discriminate.
        + destruct Hr as (s0 & Er & _). rewrite Er in E. discriminate.
        + destruct Hr as (o & s0 & Er & _). rewrite Er in E. discriminate.
        + destruct Hr as (o & s0 & Er & _). rewrite Er in E. discriminate.
      - apply Nat.eqb_neq in E0. destruct rows as [|r0 rows]; [simpl in Hlen; lia|].
        exists s, [], r0. rewrite app_nil_r. auto. }
    destruct H0 as (s0 & more0 & row0 & E0 & H0 & Er0). rewrite E0 in E.
    destruct (match_line_rep header s0 _ 0 row0 H0 Er0) as (s1 & Em & H1 & _). rewrite Em in E.
    destruct (re_match header (join delim row0)) eqn:Eh; [|discriminate].
    assert (Hpos : 0 < length (rows ++ more0)).
    { destruct (rows ++ more0); [discriminate|simpl; lia]. }
    destruct (footer_loop2_rep d footer _ 0 s1 _ t s' H1 Hpos E) as (more & j & Hf & Ht & Hrep).
    rewrite <- app_assoc in *.
    exists (more0 ++ more), j, row0. split; [|auto].
    rewrite app_assoc. rewrite nth_error_app1; [exact Er0|exact Hpos].
  Qed.
End Csv2.
