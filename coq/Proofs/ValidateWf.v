(* C02 proofs: what validate returns has the shape wf_b (and only registered custom functions). *)
From Coq Require Import String List ZArith NArith Bool Lia Permutation.
From Coq.Strings Require Import Byte.
Import ListNotations.
From OV Require Import Base.Bytes Base.Cases Gen.Conv Model.Value Model.Decl.
From OV Require Import Proofs.ValueOrder Proofs.EvalPure Proofs.Validate.

(* ---- reflexivity of the boolean equalities ------------------------------------------------------- *)
Lemma obytes_eqb_refl a : obytes_eqb a a = true.
Proof. destruct a; simpl; [apply bytes_eqb_refl|reflexivity]. Qed.
Lemma pinfo_eqb_refl a : pinfo_eqb a a = true.
Proof.
  unfold pinfo_eqb. repeat (apply andb_true_intro; split);
    try apply kind_eqb_refl; try apply obytes_eqb_refl; try apply Bool.eqb_reflx.
  destruct (p_rtype a) as [[]|]; reflexivity.
Qed.
Lemma pdecl_eqb_refl : forall a, pdecl_eqb a a = true.
Proof.
  induction a as [i x ks IHx IHks] using pdecl_ind2. cbn [pdecl_eqb]. rewrite pinfo_eqb_refl. cbn [andb].
  apply andb_true_intro. split.
  - destruct x; [exact IHx|reflexivity].
  - clear IHx. induction IHks as [|[k c] r Hc _ IH]; [reflexivity|]. simpl in Hc.
    rewrite bytes_eqb_refl, Hc. simpl. exact IH.
Qed.

(* ---- resolveKind, case by case (over the extracted order) ------------------------------------------ *)
Lemma resolve_kind_cases c e x xd fn args ig pa tm ob ar ty nt kp :
  resolve_kind (Decl c e x xd fn args ig pa tm ob ar ty nt kp) =
  match c, e, fn, pa, ob, ar, tm with
  | Some _, _, _, _, _, _, _ => KConst
  | None, Some _, _, _, _, _, _ => KExternal
  | None, None, Some _, _, _, _, _ => KCustomFunc
  | None, None, None, Some _, _, _, _ => KCustomParse
  | None, None, None, None, Some _, _, _ => KObject
  | None, None, None, None, None, Some _, _ => KArray
  | None, None, None, None, None, None, Some _ => KTemplate
  | None, None, None, None, None, None, None => KField
  end.
Proof. destruct c, e, fn, pa, ob, ar, tm; reflexivity. Qed.

(* ---- sorting the children of an object --------------------------------------------------------------- *)
Definition kkey (c : vdecl) : bytes := last_namelet (v_fqdn (vd_info c)).

Lemma keys_sorted_cons a l :
  keys_sorted (a :: l) = match l with [] => true | b :: _ => bytes_ltb a b && keys_sorted l end.
Proof. destruct l; reflexivity. Qed.

Lemma insert_kid_perm c : forall l, Permutation (insert_kid c l) (c :: l).
Proof.
  induction l as [|h r IH]; simpl; [apply Permutation_refl|].
  destruct (bytes_ltb _ _); [|apply Permutation_refl].
  eapply perm_trans; [apply perm_skip; exact IH|apply perm_swap].
Qed.

Lemma sort_kids_perm : forall l, Permutation (sort_kids l) l.
Proof.
  induction l as [|c r IH]; simpl; [constructor|].
  eapply perm_trans; [apply insert_kid_perm|apply perm_skip; exact IH].
Qed.

Lemma insert_kid_sorted c : forall l,
  keys_sorted (map kkey l) = true -> ~ In (kkey c) (map kkey l) ->
  keys_sorted (map kkey (insert_kid c l)) = true.
Proof.
  induction l as [|h r IH]; intros S N; [reflexivity|]. cbn [insert_kid]. fold (kkey h) (kkey c).
  destruct (bytes_ltb (kkey h) (kkey c)) eqn:L.
  - cbn [map]. rewrite keys_sorted_cons. cbn [map] in S. rewrite keys_sorted_cons in S.
    assert (Sr : keys_sorted (map kkey r) = true).
    { destruct (map kkey r) eqn:E; [reflexivity|]. apply andb_prop in S as [_ S]. exact S. }
    assert (Nr : ~ In (kkey c) (map kkey r)) by (intro H; apply N; right; exact H).
    specialize (IH Sr Nr).
    destruct r as [|h' r'].
    + simpl. rewrite L. reflexivity.
    + cbn [insert_kid] in *. fold (kkey h') (kkey c) in *.
      destruct (bytes_ltb (kkey h') (kkey c)); cbn [map] in *.
      * apply andb_prop in S as [S1 _]. rewrite S1, IH. reflexivity.
      * rewrite L, IH. reflexivity.
  - cbn [map]. rewrite keys_sorted_cons. cbn [map] in S. rewrite S, andb_true_r.
    destruct (bytes_ltb_trich (kkey c) (kkey h)) as [T|[T|T]]; [exact T| |congruence].
    exfalso. apply N. left. symmetry. exact T.
Qed.

Lemma sort_kids_sorted : forall l, NoDup (map kkey l) -> keys_sorted (map kkey (sort_kids l)) = true.
Proof.
  induction l as [|c r IH]; intro N; [reflexivity|]. simpl. inversion N as [|? ? Hn Nr]; subst.
  apply insert_kid_sorted; [apply IH; exact Nr|].
  intro H. apply Hn. eapply Permutation_in; [apply Permutation_map, sort_kids_perm|exact H].
Qed.

(* ---- distinct field names, registered functions ------------------------------------------------------ *)
Fixpoint nodup_keys (l : list bytes) : bool :=
  match l with [] => true | k :: r => negb (existsb (bytes_eqb k) r) && nodup_keys r end.

Lemma nodup_keys_NoDup l : nodup_keys l = true -> NoDup l.
Proof.
  induction l as [|k r IH]; simpl; [constructor|]. intro H. apply andb_prop in H as [H1 H2].
  constructor; [|apply IH; exact H2]. intro Hin. apply negb_true_iff in H1.
  assert (existsb (bytes_eqb k) r = true); [|congruence].
  apply existsb_exists. exists k. split; [exact Hin|apply bytes_eqb_refl].
Qed.

(* a Go map has no duplicate keys: every object of the declaration lists each field name once *)
Fixpoint decl_nodup (d : decl) : bool :=
  let 'Decl _ _ _ xd _ args _ _ _ ob ar _ _ _ := d in
  match xd with Some q => decl_nodup q | None => true end
  && forallb decl_nodup args
  && match ob with
     | Some l => nodup_keys (map fst l) && forallb (fun kc => decl_nodup (snd kc)) l
     | None => true
     end
  && match ar with Some l => forallb decl_nodup l | None => true end.

Fixpoint funcs_b (fe : bytes -> bool) (d : vdecl) : bool :=
  let 'VD i x ks := d in
  match p_kind (v_pub i), p_fname (v_pub i) with
  | KCustomFunc, Some name => fe name
  | KCustomFunc, None => false
  | _, _ => true
  end
  && match x with Some q => funcs_b fe q | None => true end
  && forallb (funcs_b fe) ks.

Lemma esc_name_inj a b : esc_name a = esc_name b -> a = b.
Proof. intro H. rewrite <- (unesc_esc a), <- (unesc_esc b), H. reflexivity. Qed.

Lemma final_app fqdn x : fqdn <> [] -> fqdn_is_final (fqdn ++ [x]) = false.
Proof. destruct fqdn as [|a [|b r]]; simpl; [contradiction|reflexivity|reflexivity]. Qed.

Lemma vmapi_ok {A} (f : nat -> A -> vres vdecl) : forall l i vs, vmapi f i l = VOk vs ->
  Forall2 (fun a v => exists j, f j a = VOk v) l vs.
Proof.
  induction l as [|a r IH]; intros i vs H; simpl in H.
  - injection H as <-. constructor.
  - destruct (f i a) as [v| |] eqn:E; try discriminate.
    destruct (vmapi f (S i) r) as [vs'| |] eqn:E'; try discriminate. injection H as <-.
    constructor; [exists i; exact E|eapply IH; eauto].
Qed.

Section Wf.
  Variable ds : list (bytes * decl).
  Variable fe pe : bytes -> bool.

  Definition good (fqdn : list bytes) (par : option kind) (v : vdecl) : Prop :=
    v_fqdn (vd_info v) = fqdn /\ v_parent (vd_info v) = par /\
    wf_b (fqdn_is_final fqdn) v = true /\ funcs_b fe v = true.

  Definition leaf_kind (k : kind) : bool :=
    match k with KObject | KArray | KCustomFunc => false | _ => true end.

  Definition kid_good (k : kind) (c : vdecl) : Prop :=
    parent_is_array (vd_info c) = kind_eqb k KArray /\ wf_b false c = true /\ funcs_b fe c = true.

  Lemma mk_vd_good c e x xd fn args ig pa tm ob ar ty nt kp fqdn par vx ks :
    let d := Decl c e x xd fn args ig pa tm ob ar ty nt kp in
    let k := resolve_kind d in
    k <> KTemplate -> fqdn <> [] ->
    match vx with
    | Some q => is_some x = false /\ good (fqdn ++ [bs "xpath_dynamic"]) None q
    | None => True
    end ->
    Forall (kid_good k) ks ->
    (leaf_kind k = true -> ks = []) ->
    (k = KObject -> keys_sorted (map kkey ks) = true /\
                    forallb (fun c => bytes_eqb (esc_name (unesc_name (kkey c))) (kkey c)) ks = true) ->
    (k = KCustomFunc -> exists name, fn = Some name /\ fe name = true) ->
    good fqdn par (mk_vd (pinfo_of k d) fqdn par vx ks).
  Proof.
    intros d k Hnt Hfq Hx Hks Hleaf Hobj Hfn.
    assert (Hk : k = resolve_kind d) by reflexivity. clearbody k. unfold d in Hk.
    rewrite resolve_kind_cases in Hk.
    subst d. unfold good, mk_vd. cbn [vd_info v_fqdn v_parent]. split; [reflexivity|]. split; [reflexivity|].
    split.
    - cbn [wf_b v_fqdn v_pub v_hash pinfo_of p_kind p_const p_external p_fname p_parse p_xpath].
      repeat match goal with |- (_ && _)%bool = true => apply andb_true_intro; split end.
      + apply Bool.eqb_reflx.
      + apply pdecl_eqb_refl.
      + destruct k; try reflexivity. contradiction.
      + destruct k; try reflexivity; destruct c, e, fn, pa, ob, ar, tm; try discriminate; reflexivity.
      + destruct k; try reflexivity; rewrite (Hleaf eq_refl); reflexivity.
      + destruct k; try reflexivity. destruct (Hobj eq_refl) as [H1 H2]. unfold kkey in *.
        rewrite H1, H2. reflexivity.
      + destruct vx as [q|]; [|reflexivity]. destruct Hx as [Hxs (Hqf & Hqp & Hqw & _)].
        rewrite Hxs. unfold parent_is_array. rewrite Hqp. rewrite (final_app _ _ Hfq) in Hqw. rewrite Hqw. reflexivity.
      + apply forallb_forall. intros c0 Hc. rewrite Forall_forall in Hks. destruct (Hks c0 Hc) as (H1 & H2 & _).
        rewrite H1, H2, Bool.eqb_reflx. reflexivity.
    - cbn [funcs_b v_pub pinfo_of p_kind p_fname].
      repeat match goal with |- (_ && _)%bool = true => apply andb_true_intro; split end.
      + destruct k; try reflexivity. destruct (Hfn eq_refl) as (name & -> & Hfe). exact Hfe.
      + destruct vx as [q|]; [|reflexivity]. destruct Hx as [_ (_ & _ & _ & Hqf)]. exact Hqf.
      + apply forallb_forall. intros c0 Hc. rewrite Forall_forall in Hks. destruct (Hks c0 Hc) as (_ & _ & H3). exact H3.
  Qed.

  Lemma with_xpath_nodup site body :
    decl_nodup site = true -> decl_nodup body = true -> decl_nodup (with_xpath_of site body) = true.
  Proof.
    destruct site as [c e x xd fn args ig pa tm ob ar ty nt kp], body as [c' e' x' xd' fn' args' ig' pa' tm' ob' ar' ty' nt' kp'].
    cbn [with_xpath_of d_xpath_of d_xdyn_of decl_nodup]. intros H1 H2.
    repeat (apply andb_prop in H1; destruct H1 as [H1 ?]). repeat (apply andb_prop in H2; destruct H2 as [H2 ?]).
    repeat match goal with |- (_ && _)%bool = true => apply andb_true_intro; split end; assumption.
  Qed.

  Lemma good_kid fqdn x k linked v :
    fqdn <> [] -> good (fqdn ++ [x]) (par_of linked k) v -> kid_good k v.
  Proof.
    intros Hfq (Hf & Hp & Hw & Hfn). rewrite (final_app _ _ Hfq) in Hw.
    split; [|split; assumption]. unfold parent_is_array. rewrite Hp.
    destruct k, linked; reflexivity.
  Qed.

  Lemma vgo_wf stack jump :
    (forall st fq dn par lk v, decl_nodup dn = true -> fq <> [] -> jump st fq dn par lk = VOk v -> good fq par v) ->
    (forall name body, lookup name ds = Some body -> decl_nodup body = true) ->
    forall d fqdn par linked v, decl_nodup d = true -> fqdn <> [] ->
      vgo ds fe pe stack jump fqdn d par linked = VOk v -> good fqdn par v.
  Proof.
    intros Hj Hds.
    induction d as [c e x xd fn args ig pa tm ob ar ty nt kp IHxd IHargs IHob IHar] using decl_ind2.
    intros fqdn par linked v Hnd Hfq H.
    cbn [decl_nodup] in Hnd. repeat (apply andb_prop in Hnd; destruct Hnd as [Hnd ?]).
    rename Hnd into Hnxd.
    match goal with Ha : forallb decl_nodup args = true |- _ => rename Ha into Hnargs end.
    cbn [vgo] in H.
    destruct (is_some x && is_some xd)%bool eqn:EX; [discriminate|].
    (* xpath_dynamic *)
    assert (Hvx : forall vx,
              (match xd with
               | Some q => match vgo ds fe pe stack jump (fqdn ++ [bs "xpath_dynamic"]) q None false with
                           | VOk v0 => VOk (Some v0) | VErr => VErr | VFuel => VFuel end
               | None => VOk None end) = VOk vx ->
              match vx with
              | Some q => is_some x = false /\ good (fqdn ++ [bs "xpath_dynamic"]) None q
              | None => True
              end).
    { intros vx E. destruct xd as [q|]; [|injection E as <-; exact I].
      destruct (vgo ds fe pe stack jump (fqdn ++ [bs "xpath_dynamic"]) q None false) as [v0| |] eqn:Q; try discriminate.
      injection E as <-. split; [destruct x; [discriminate|reflexivity]|].
      simpl in IHxd. apply (IHxd _ _ _ _ Hnxd) in Q; [exact Q|]. destruct fqdn; discriminate. }
    match type of H with match ?t with VOk _ => _ | VErr => _ | VFuel => _ end = _ =>
      destruct t as [vx| |] eqn:EXD end; try discriminate.
    specialize (Hvx vx eq_refl).
    set (d := Decl c e x xd fn args ig pa tm ob ar ty nt kp) in *.
    destruct (resolve_kind d) eqn:K.
    - (* const *) injection H as <-. rewrite <- K.
      apply mk_vd_good; fold d; rewrite ?K; try discriminate; try assumption; try (intros; reflexivity); constructor.
    - (* external *) injection H as <-. rewrite <- K.
      apply mk_vd_good; fold d; rewrite ?K; try discriminate; try assumption; try (intros; reflexivity); constructor.
    - (* field *) injection H as <-. rewrite <- K.
      apply mk_vd_good; fold d; rewrite ?K; try discriminate; try assumption; try (intros; reflexivity); constructor.
    - (* object *)
      destruct ob as [l|]; [|discriminate].
      match goal with Ho : (nodup_keys _ && _)%bool = true |- _ => apply andb_prop in Ho as [Hkeys Hnl] end.
      match type of H with context [vmapi ?f 1 l] => destruct (vmapi f 1 l) as [vs| |] eqn:M end; try discriminate.
      injection H as <-. apply vmapi_ok in M.
      (* every member is good under its escaped name *)
      assert (Hmem : Forall2 (fun nc v0 => good (fqdn ++ [esc_name (fst nc)]) (par_of linked KObject) v0) l vs).
      { simpl in IHob. clear - M IHob Hnl Hfq. induction M as [|[name cd] v0 l vs [j Hv] M IH]; constructor.
        - inversion IHob as [|? ? Hc _]; subst. simpl in Hnl. apply andb_prop in Hnl as [Hn _].
          simpl in Hc. apply (Hc _ _ _ _ Hn) in Hv; [exact Hv|]. destruct fqdn; discriminate.
        - inversion IHob; subst. simpl in Hnl. apply andb_prop in Hnl as [_ Hn]. apply IH; assumption. }
      assert (Hkk : map kkey vs = map (fun nc => esc_name (fst nc)) l).
      { clear - Hmem. induction Hmem as [|nc v0 l vs (Hf & _) _ IH]; [reflexivity|]. simpl. f_equal; [|exact IH].
        unfold kkey, last_namelet. rewrite Hf. apply last_last. }
      assert (Hnd : NoDup (map kkey vs)).
      { rewrite Hkk, <- map_map. apply FinFun.Injective_map_NoDup; [intros a b; apply esc_name_inj|].
        apply nodup_keys_NoDup. exact Hkeys. }
      rewrite <- K. apply mk_vd_good; fold d; rewrite ?K; try discriminate; try assumption.
      + apply Forall_forall. intros c0 Hc0. apply (Permutation_in _ (sort_kids_perm vs)) in Hc0.
        clear - Hmem Hc0 Hfq. induction Hmem as [|nc v0 l vs Hg _ IH]; [contradiction|].
        destruct Hc0 as [<-|Hc0]; [eapply good_kid; eauto|apply IH; exact Hc0].
      + intros _. split; [apply sort_kids_sorted; exact Hnd|].
        apply forallb_forall. intros c0 Hc0. apply (Permutation_in _ (sort_kids_perm vs)) in Hc0.
        apply (in_map kkey) in Hc0. rewrite Hkk in Hc0. apply in_map_iff in Hc0 as (nc & <- & _).
        rewrite unesc_esc. apply bytes_eqb_refl.
    - (* array *)
      destruct ar as [l|]; [|discriminate].
      match goal with Ha : forallb decl_nodup l = true |- _ => rename Ha into Hnl end.
      match type of H with context [vmapi ?f 1 l] => destruct (vmapi f 1 l) as [vs| |] eqn:M end; try discriminate.
      injection H as <-. apply vmapi_ok in M.
      rewrite <- K. apply mk_vd_good; fold d; rewrite ?K; try discriminate; try assumption.
      simpl in IHar. clear - M IHar Hnl Hfq. induction M as [|cd v0 l vs [j Hv] M IH]; constructor.
      + inversion IHar as [|? ? Hc _]; subst. simpl in Hnl. apply andb_prop in Hnl as [Hn _].
        apply (Hc _ _ _ _ Hn) in Hv; [eapply good_kid; eauto|]. destruct fqdn; discriminate.
      + inversion IHar; subst. simpl in Hnl. apply andb_prop in Hnl as [_ Hn]. apply IH; assumption.
    - (* custom_func *)
      destruct fn as [name|]; [|discriminate]. destruct (fe name) eqn:FE; [|discriminate]. simpl in H.
      match type of H with context [vmapi ?f 1 args] => destruct (vmapi f 1 args) as [vs| |] eqn:M end; try discriminate.
      injection H as <-. apply vmapi_ok in M.
      rewrite <- K. apply mk_vd_good; fold d; rewrite ?K; try discriminate; try assumption.
      + clear - M IHargs Hnargs Hfq. induction M as [|cd v0 l vs [j Hv] M IH]; constructor.
        * inversion IHargs as [|? ? Hc _]; subst. simpl in Hnargs. apply andb_prop in Hnargs as [Hn _].
          apply (Hc _ _ _ _ Hn) in Hv.
          -- change (fqdn ++ [func_name name; arg_name j]) with (fqdn ++ [func_name name] ++ [arg_name j]) in Hv.
             rewrite app_assoc in Hv. eapply good_kid; [|exact Hv]. destruct fqdn; discriminate.
          -- destruct fqdn; discriminate.
        * inversion IHargs; subst. simpl in Hnargs. apply andb_prop in Hnargs as [_ Hn]. apply IH; assumption.
      + intros _. exists name. split; [reflexivity|exact FE].
    - (* custom_parse *)
      destruct pa as [name|]; [|discriminate]. destruct (pe name); [|discriminate]. injection H as <-. rewrite <- K.
      apply mk_vd_good; fold d; rewrite ?K; try discriminate; try assumption; try (intros; reflexivity); constructor.
    - (* template *)
      destruct tm as [name|]; [|discriminate].
      destruct (lookup name ds) as [body|] eqn:L; [|discriminate].
      destruct (has_dup (stack ++ [name])); [discriminate|].
      destruct (d_isx body && d_isx d)%bool; [discriminate|].
      apply Hj in H; [exact H| |exact Hfq].
      destruct (d_isx d); [|eapply Hds; eauto].
      apply with_xpath_nodup; [|eapply Hds; eauto].
      unfold d. cbn [decl_nodup]. repeat match goal with |- (_ && _)%bool = true => apply andb_true_intro; split end; try assumption.
  Qed.

  Hypothesis ds_nodup : forall name body, lookup name ds = Some body -> decl_nodup body = true.

  Lemma validate_decl_wf : forall fuel stack fqdn d par linked v, decl_nodup d = true -> fqdn <> [] ->
    validate_decl ds fe pe fuel stack fqdn d par linked = VOk v -> good fqdn par v.
  Proof.
    induction fuel as [|f IH]; intros stack fqdn d par linked v Hn Hfq H; [discriminate|].
    cbn [validate_decl] in H. eapply vgo_wf; eauto.
  Qed.

  (* what validate accepts has the shape wf_b, and calls registered functions only *)
  Theorem validate_wf top : validate ds fe pe = VOk top -> wf_b true top = true /\ funcs_b fe top = true.
  Proof.
    unfold validate. destruct (lookup FINAL_OUTPUT ds) as [d|] eqn:L; [|discriminate]. intro H.
    apply validate_decl_wf in H; [|eapply ds_nodup; eauto|discriminate].
    destruct H as (_ & _ & Hw & Hf). split; [|exact Hf].
    assert (E : fqdn_is_final [FINAL_OUTPUT] = true) by (vm_compute; reflexivity). rewrite E in Hw. exact Hw.
  Qed.
End Wf.
