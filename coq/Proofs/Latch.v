(* C01 proofs: the Read/RawRecord contract of transform.go for every ingester and every
   history of calls, and the classification of the built-in ingester. *)
From Coq Require Import List NArith Bool Lia.
Import ListNotations.
From OV Require Import Base.Cases Base.ErrClass Model.Latch Gen.Continuable.

Section LatchProofs.
  Variable S : Type.
  Variable ing_step : S -> S * (option N * option N * option errv).
  Variable ing_cont : S -> errv -> bool.

  Notation read := (read S ing_step ing_cont).
  Notation do_read := (do_read S ing_step ing_cont).
  Notation step := (step S ing_step ing_cont).
  Notation run := (run S ing_step ing_cont).

  (* The three kinds of Read result. *)
  Definition is_record (o : out) : Prop := exists b, o = OutRead b None.
  Definition is_failure (o : out) : Prop :=
    exists e, o = OutRead None (Some e) /\ is_failed e = true.
  Definition is_terminal (o : out) (e : errv) : Prop :=
    o = OutRead None (Some e) /\ is_failed e = false.

  (* ---- one call ---- *)
  Lemma read_unfold ts s :
    read (ts, s) =
    match lastErr ts with
    | Some e => if is_failed e then do_read s else ((ts, s), OutRead None (Some e))
    | None => do_read s
    end.
  Proof. unfold Latch.read. destruct (lastErr ts) as [e|]; [destruct (is_failed e)|]; reflexivity. Qed.

  Lemma do_read_inv s st' o :
    do_read s = (st', o) ->
    exists s1 raw b err, ing_step s = (s1, (raw, b, err)) /\
      match err with
      | None => o = OutRead b None /\ st' = (mkT None raw, s1)
      | Some e0 => let e := if ing_cont s1 e0 then wrap_failed e0 else e0 in
                   o = OutRead None (Some e) /\ st' = (mkT (Some e) None, s1)
      end.
  Proof.
    unfold Latch.do_read. destruct (ing_step s) as [s1 [[raw b] err]]. intro H.
    exists s1, raw, b, err. split; [reflexivity|].
    destruct err as [e0|]; inversion H; subst; split; reflexivity.
  Qed.

  Lemma read_is_read st : exists st' b e, read st = (st', OutRead b e).
  Proof.
    destruct st as [ts s]. rewrite read_unfold.
    assert (Hd : exists st' b e, do_read s = (st', OutRead b e)).
    { destruct (do_read s) as [st' o] eqn:E. apply do_read_inv in E as (s1&raw&b&err&_&H).
      destruct err; destruct H as [-> _]; eauto. }
    destruct (lastErr ts) as [e|]; [destruct (is_failed e)|]; eauto.
  Qed.

  (* Every Read returns exactly one of the three kinds. *)
  Lemma read_trichotomy st :
    let o := snd (read st) in
    is_record o \/ is_failure o \/ (exists e, is_terminal o e).
  Proof.
    destruct st as [ts s]. rewrite read_unfold.
    assert (Hd : let o := snd (do_read s) in
                 is_record o \/ is_failure o \/ (exists e, is_terminal o e)).
    { destruct (do_read s) as [st' o] eqn:E. apply do_read_inv in E as (s1&raw&b&err&_&H).
      destruct err as [e0|]; simpl in *.
      - destruct H as [-> _].
        destruct (is_failed (if ing_cont s1 e0 then wrap_failed e0 else e0)) eqn:Hf.
        + right; left. eexists; split; [reflexivity|exact Hf].
        + right; right. eexists; split; [reflexivity|exact Hf].
      - destruct H as [-> _]. left. exists b. reflexivity. }
    destruct (lastErr ts) as [e|]; [|exact Hd].
    destruct (is_failed e) eqn:Hf; [exact Hd|].
    right; right. exists e. split; [reflexivity|assumption].
  Qed.

  Lemma kinds_exclusive o :
    (is_record o -> ~ is_failure o /\ forall e, ~ is_terminal o e) /\
    (is_failure o -> forall e, ~ is_terminal o e).
  Proof.
    split.
    - intros [b Hb]; subst; split.
      + intros [e' [H _]]; discriminate.
      + intros e [H _]; discriminate.
    - intros [e1 [H1 Hf1]] e' [H2 Hf2]. subst. inversion H2; subst. congruence.
  Qed.

  Lemma read_bytes_nil_on_error st b e :
    snd (read st) = OutRead b (Some e) -> b = None.
  Proof.
    intro H. pose proof (read_trichotomy st) as [[b' Hb]|[[e' [He' _]]|[e' [He' _]]]];
      simpl in *; rewrite H in *; congruence.
  Qed.

  (* What a Read leaves behind. *)
  Lemma read_post st st' b e :
    read st = (st', OutRead b e) ->
    match e with
    | Some e1 => lastErr (fst st') = Some e1
    | None => lastErr (fst st') = None /\
              exists s1 b1, ing_step (snd st) = (s1, (lastRaw (fst st'), b1, None))
    end.
  Proof.
    destruct st as [ts s]. rewrite read_unfold.
    assert (Hd : do_read s = (st', OutRead b e) ->
      match e with
      | Some e1 => lastErr (fst st') = Some e1
      | None => lastErr (fst st') = None /\
                exists s1 b1, ing_step s = (s1, (lastRaw (fst st'), b1, None))
      end).
    { intro E. apply do_read_inv in E as (s1&raw&b0&err&Hs&H).
      destruct err as [e0|]; simpl in H; destruct H as [Ho ->]; inversion Ho; subst; simpl.
      - reflexivity.
      - split; [reflexivity|]. eauto. }
    destruct (lastErr ts) as [e0|] eqn:He; [|exact Hd].
    destruct (is_failed e0); [exact Hd|].
    intro H; inversion H; subst. simpl. exact He.
  Qed.

  Definition sticky_out (e : errv) (o : op) : out :=
    match o with OpRead => OutRead None (Some e) | OpRaw => OutRaw (RRErr e) end.

  (* Once a non-ErrTransformFailed error is latched, every later call returns that same error
     value, and the whole state -- in particular the ingester -- is never touched again. *)
  Lemma terminal_sticky st e ops :
    lastErr (fst st) = Some e -> is_failed e = false ->
    run st ops = (st, map (sticky_out e) ops).
  Proof.
    intros He Hf. induction ops as [|o ops IH]; [reflexivity|].
    cbn [Latch.run map]. destruct o; cbn [Latch.step].
    - destruct st as [ts s]. rewrite read_unfold. simpl in He. rewrite He, Hf.
      rewrite IH. reflexivity.
    - rewrite IH. unfold Latch.rawrecord. rewrite He. reflexivity.
  Qed.

  Lemma run_app st ops1 ops2 :
    run st (ops1 ++ ops2) =
    let '(st1, o1) := run st ops1 in let '(st2, o2) := run st1 ops2 in (st2, o1 ++ o2).
  Proof.
    revert st; induction ops1 as [|o ops1 IH]; intro st; cbn [app Latch.run].
    - destruct (run st ops2); reflexivity.
    - destruct (step st o) as [st1 x]. rewrite IH.
      destruct (run st1 ops1) as [st2 o1]. destruct (run st2 ops2) as [st3 o2]. reflexivity.
  Qed.

  (* History form: whatever happened before (ops1), if the Read at some position returns a
     terminal error e, then every later call (ops2: any length, any mix of Read and RawRecord)
     returns e again and the final state is the state right after that Read. *)
  Theorem latch_terminal_sticky st ops1 ops2 e :
    let st1 := fst (run st ops1) in
    is_terminal (snd (read st1)) e ->
    run st (ops1 ++ OpRead :: ops2) =
      (fst (read st1), snd (run st ops1) ++ snd (read st1) :: map (sticky_out e) ops2).
  Proof.
    intros st1 [Ho Hf]. subst st1.
    rewrite run_app. destruct (run st ops1) as [st1 o1]. cbn [fst snd] in *.
    cbn [Latch.run Latch.step].
    destruct (read st1) as [st2 o] eqn:Hr. cbn [fst snd] in *. subst o.
    apply read_post in Hr. rewrite (terminal_sticky st2 e ops2 Hr Hf). reflexivity.
  Qed.

  (* After a per-record failure (or a success) the next Read does consult the ingester. *)
  Theorem latch_continue_after_failed ts s e :
    lastErr ts = Some e -> is_failed e = true -> read (ts, s) = do_read s.
  Proof. intros He Hf. rewrite read_unfold, He, Hf. reflexivity. Qed.

  Theorem latch_fresh_reads ts s : lastErr ts = None -> read (ts, s) = do_read s.
  Proof. intros He. rewrite read_unfold, He. reflexivity. Qed.

  (* ---- RawRecord ---- *)
  (* State-level law: right after a Read, RawRecord describes exactly that Read: its error, or
     the raw record the ingester returned in that very call. *)
  Theorem rawrecord_after_read st st' b e :
    read st = (st', OutRead b e) ->
    match e with
    | Some e1 => rawrecord (fst st') = RRErr e1
    | None => exists s1 raw b1, ing_step (snd st) = (s1, (raw, b1, None)) /\
              rawrecord (fst st') = match raw with Some r => RROk r | None => RRCallFirst end
    end.
  Proof.
    intro H. apply read_post in H. unfold Latch.rawrecord. destruct e as [e1|].
    - rewrite H. reflexivity.
    - destruct H as [H1 (s1&b1&H2)]. rewrite H1. exists s1, (lastRaw (fst st')), b1.
      split; [exact H2|]. destruct (lastRaw (fst st')); reflexivity.
  Qed.

  Theorem rawrecord_before_any_read : rawrecord t_init = RRCallFirst.
  Proof. reflexivity. Qed.

  Theorem rawrecord_pure st : step st OpRaw = (st, OutRaw (rawrecord (fst st))).
  Proof. reflexivity. Qed.

  (* History-level law.  [raws_ok last outs]: every RawRecord output in the trace is the one
     determined by the most recent Read output before it. *)
  Fixpoint raws_ok (last : option out) (outs : list out) : Prop :=
    match outs with
    | [] => True
    | OutRead b e :: r => raws_ok (Some (OutRead b e)) r
    | OutRaw x :: r =>
        match last with
        | None => x = RRCallFirst
        | Some (OutRead _ (Some e)) => x = RRErr e
        | Some (OutRead _ None) => exists raw, x = RROk raw
        | Some (OutRaw _) => False
        end /\ raws_ok last r
    end.

  (* The ingester hands out a raw record whenever it reports success (true of the built-in
     ingester: builtin_ing_raw_on_success below; a caller-supplied one must do the same -- this
     is the hypothesis the proof forces). *)
  Definition ing_raw_on_success : Prop :=
    forall s s1 raw b, ing_step s = (s1, (raw, b, None)) -> raw <> None.

  Definition state_matches (last : option out) (ts : tstate) : Prop :=
    match last with
    | None => ts = t_init
    | Some (OutRead _ (Some e)) => lastErr ts = Some e
    | Some (OutRead _ None) => lastErr ts = None /\ lastRaw ts <> None
    | Some (OutRaw _) => False
    end.

  Lemma raws_ok_run (Hraw : ing_raw_on_success) ops : forall st last,
    state_matches last (fst st) -> raws_ok last (snd (run st ops)).
  Proof.
    induction ops as [|o ops IH]; intros st last Hm; [exact I|].
    cbn [Latch.run]. destruct o; cbn [Latch.step].
    - destruct (read_is_read st) as (st1&b&e&Hrd). rewrite Hrd.
      specialize (IH st1 (Some (OutRead b e))).
      destruct (run st1 ops) as [st2 xs]. cbn [snd raws_ok] in *. apply IH.
      apply read_post in Hrd. destruct e as [e1|]; simpl.
      + exact Hrd.
      + destruct Hrd as [H1 (s1&b1&H2)]. split; [exact H1|]. eapply Hraw; eassumption.
    - specialize (IH st last Hm). destruct (run st ops) as [st2 xs]. cbn [snd raws_ok] in *.
      split; [|exact IH].
      unfold Latch.rawrecord. destruct last as [[b [e|]|]|]; simpl in Hm.
      + rewrite Hm. reflexivity.
      + destruct Hm as [H1 H2]. rewrite H1. destruct (lastRaw (fst st)); [eauto|congruence].
      + contradiction.
      + rewrite Hm. reflexivity.
  Qed.

  Theorem rawrecord_law (Hraw : ing_raw_on_success) s ops :
    raws_ok None (snd (run (t_init, s) ops)).
  Proof. apply raws_ok_run; [exact Hraw|reflexivity]. Qed.

  (* All Read outputs of any history are of one of the three kinds. *)
  Theorem latch_trichotomy st ops :
    Forall (fun o => match o with
                     | OutRaw _ => True
                     | _ => is_record o \/ is_failure o \/ exists e, is_terminal o e
                     end) (snd (run st ops)).
  Proof.
    revert st; induction ops as [|o ops IH]; intro st; [constructor|].
    cbn [Latch.run]. destruct o; cbn [Latch.step].
    - pose proof (read_trichotomy st) as Ht. destruct (read_is_read st) as (st1&b&e&Hrd).
      rewrite Hrd in *. specialize (IH st1). destruct (run st1 ops). constructor; assumption.
    - specialize (IH st). destruct (run st ops). constructor; [exact I|assumption].
  Qed.
End LatchProofs.

(* ---- every history, with the ingester call made for each output ---------------------------- *)
Section LatchHistories.
  Variable S : Type.
  Variable ing_step : S -> S * (option N * option N * option errv).
  Variable ing_cont : S -> errv -> bool.

  Notation read := (read S ing_step ing_cont).
  Notation do_read := (do_read S ing_step ing_cont).
  Notation step := (step S ing_step ing_cont).
  Notation run := (run S ing_step ing_cont).
  Notation runx := (runx S ing_step ing_cont).
  Notation consulted := (consulted S ing_step).

  Lemma read_consults st :
    read st = if consults (fst st) then do_read (snd st)
              else (st, OutRead None (lastErr (fst st))).
  Proof.
    destruct st as [ts s]. rewrite read_unfold. unfold consults. cbn [fst snd].
    destruct (lastErr ts) as [e|]; [destruct (is_failed e)|]; reflexivity.
  Qed.

  (* [consulted] is where the ingester state moves: an operation that consults nothing leaves the
     ingester as it was, one that consults leaves it as that call left it. *)
  Lemma consulted_spec st o :
    match consulted st o with
    | None => snd (fst (step st o)) = snd st
    | Some (s1, _) => snd (fst (step st o)) = s1
    end.
  Proof.
    destruct o; cbn [Latch.consulted Latch.step]; [|reflexivity].
    rewrite read_consults. destruct (consults (fst st)); [|reflexivity].
    unfold Latch.do_read. destruct (ing_step (snd st)) as [s1 [[raw b] [e|]]]; reflexivity.
  Qed.

  Lemma runx_run ops : forall st,
    fst (runx st ops) = fst (run st ops) /\ map fst (snd (runx st ops)) = snd (run st ops).
  Proof.
    induction ops as [|o ops IH]; intro st; [split; reflexivity|].
    cbn [Latch.runx Latch.run]. destruct (step st o) as [st1 x]. specialize (IH st1).
    destruct (runx st1 ops) as [st2 xs]. destruct (run st1 ops) as [st2' xs'].
    cbn [fst snd map] in *. destruct IH as [-> ->]. split; reflexivity.
  Qed.

  Lemma runx_app st ops1 ops2 :
    runx st (ops1 ++ ops2) =
    let '(st1, o1) := runx st ops1 in let '(st2, o2) := runx st1 ops2 in (st2, o1 ++ o2).
  Proof.
    revert st; induction ops1 as [|o ops1 IH]; intro st; cbn [app Latch.runx].
    - destruct (runx st ops2); reflexivity.
    - destruct (step st o) as [st1 x]. rewrite IH.
      destruct (runx st1 ops1) as [st2 o1]. destruct (runx st2 ops2) as [st3 o2]. reflexivity.
  Qed.

  (* a property of every (output, ingester call) pair of every history follows from one step *)
  Lemma runx_Forall (P : out * option (S * ingr) -> Prop) :
    (forall st o, P (snd (step st o), consulted st o)) ->
    forall ops st, Forall P (snd (runx st ops)).
  Proof.
    intros H ops. induction ops as [|o ops IH]; intro st; [constructor|].
    cbn [Latch.runx]. specialize (H st o). destruct (step st o) as [st1 x]. specialize (IH st1).
    destruct (runx st1 ops) as [st2 xs]. constructor; assumption.
  Qed.

  (* What one call returns, by the ingester call made for it. *)
  Lemma step_by_consulted st o :
    match o, consulted st o with
    | OpRaw, _ => snd (step st o) = OutRaw (rawrecord (fst st))
    | OpRead, None => exists e, lastErr (fst st) = Some e /\ is_failed e = false /\
                                step st o = (st, OutRead None (Some e))
    | OpRead, Some (s1, (raw, b, None)) => step st o = ((mkT None raw, s1), OutRead b None)
    | OpRead, Some (s1, (raw, b, Some e0)) =>
        let e := if ing_cont s1 e0 then wrap_failed e0 else e0 in
        step st o = ((mkT (Some e) None, s1), OutRead None (Some e))
    end.
  Proof.
    destruct o; [|reflexivity]. cbn [Latch.consulted Latch.step]. rewrite read_consults.
    unfold consults. destruct (lastErr (fst st)) as [e|] eqn:He.
    - destruct (is_failed e) eqn:Hf.
      + unfold Latch.do_read. destruct (ing_step (snd st)) as [s1 [[raw b] [e0|]]]; reflexivity.
      + exists e. repeat split; auto.
    - unfold Latch.do_read. destruct (ing_step (snd st)) as [s1 [[raw b] [e0|]]]; reflexivity.
  Qed.

  (* Non-nil bytes come out of a Read exactly when the ingester was called for it and reported
     success with those bytes. *)
  Theorem bytes_only_on_success st ops :
    Forall (fun p => forall b,
              (exists e, fst p = OutRead (Some b) e) <->
              (exists s1 raw, snd p = Some (s1, (raw, Some b, None))))
           (snd (runx st ops)).
  Proof.
    apply runx_Forall. clear st ops. intros st o b. cbn [fst snd].
    pose proof (step_by_consulted st o) as H. destruct o.
    - destruct (consulted st OpRead) as [[s1 [[raw b1] [e0|]]]|].
      + cbn zeta in H. rewrite H. cbn [snd]. split.
        * intros [e He]. discriminate.
        * intros (s2 & raw2 & Hc). discriminate.
      + rewrite H. cbn [snd]. split.
        * intros [e He]. inversion He; subst. eauto.
        * intros (s2 & raw2 & Hc). inversion Hc; subst. eauto.
      + destruct H as (e & _ & _ & H). rewrite H. cbn [snd]. split.
        * intros [e1 He]. discriminate.
        * intros (s2 & raw2 & Hc). discriminate.
    - cbn [Latch.consulted]. rewrite H. split.
      + intros [e He]. discriminate.
      + intros (s2 & raw2 & Hc). discriminate.
  Qed.

  (* A per-record failure always stems from an ingester error of that very call and carries its
     message: either the ingester's continuable error wrapped into ErrTransformFailed, or an
     ErrTransformFailed the ingester returned itself. *)
  Theorem failed_wraps_ingester_error st ops :
    Forall (fun p => forall e, fst p = OutRead None (Some e) -> is_failed e = true ->
              exists s1 raw b e0, snd p = Some (s1, (raw, b, Some e0)) /\ e_msg e = e_msg e0 /\
                ((ing_cont s1 e0 = true /\ e = wrap_failed e0) \/
                 (ing_cont s1 e0 = false /\ e = e0)))
           (snd (runx st ops)).
  Proof.
    apply runx_Forall. clear st ops. intros st o e. cbn [fst snd]. intros Ho Hf.
    pose proof (step_by_consulted st o) as H. destruct o.
    - destruct (consulted st OpRead) as [[s1 [[raw b1] [e0|]]]|].
      + cbn zeta in H. rewrite H in Ho. cbn [snd] in Ho. inversion Ho as [He].
        exists s1, raw, b1, e0. split; [reflexivity|].
        destruct (ing_cont s1 e0); (split; [reflexivity|]); [left|right]; split; reflexivity.
      + rewrite H in Ho. discriminate.
      + destruct H as (e1 & _ & Hf1 & H). rewrite H in Ho. inversion Ho; subst. congruence.
    - rewrite H in Ho. discriminate.
  Qed.

  Lemma runx_terminal st e ops :
    lastErr (fst st) = Some e -> is_failed e = false ->
    map snd (snd (runx st ops)) = repeat None (length ops).
  Proof.
    intros He Hf. induction ops as [|o ops IH]; [reflexivity|].
    cbn [Latch.runx]. pose proof (terminal_sticky S ing_step ing_cont st e [o] He Hf) as Hs.
    cbn [Latch.run map] in Hs. destruct (step st o) as [st1 x]. inversion Hs; subst st1.
    destruct (runx st ops) as [st2 xs]. cbn [snd map length repeat] in *. rewrite IH. f_equal.
    destruct o; cbn [Latch.consulted]; [|reflexivity]. unfold consults. rewrite He, Hf. reflexivity.
  Qed.

  (* After the Read that returned a terminal error no call of any later history reaches the
     ingester: the list of ingester calls is the one up to that Read, then only None. *)
  Theorem ingester_not_called_after_terminal st ops1 ops2 e :
    let st1 := fst (run st ops1) in
    is_terminal (snd (read st1)) e ->
    map snd (snd (runx st (ops1 ++ OpRead :: ops2))) =
      map snd (snd (runx st ops1)) ++ consulted st1 OpRead :: repeat None (length ops2).
  Proof.
    intros st1 [Ho Hf]. subst st1. rewrite runx_app.
    destruct (runx_run ops1 st) as [H1 _]. rewrite <- H1 in *.
    destruct (runx st ops1) as [st1 o1]. cbn [fst snd] in *. cbn [Latch.runx Latch.step].
    destruct (read st1) as [st2 o] eqn:Hr. cbn [snd] in Ho. subst o.
    apply read_post in Hr. pose proof (runx_terminal st2 e ops2 Hr Hf) as Ht.
    destruct (runx st2 ops2) as [st3 o2]. cbn [snd] in *. rewrite map_app. cbn [map snd].
    rewrite Ht. reflexivity.
  Qed.

  (* Error identity down to the ingester: when the ingester, consulted at some point of any
     history, returns an error e0 that is neither continuable nor an ErrTransformFailed, that Read
     and every later call return e0 itself (the same value, not merely the same class). *)
  Theorem error_identity st ops1 ops2 s1 raw b e0 :
    let st1 := fst (run st ops1) in
    consulted st1 OpRead = Some (s1, (raw, b, Some e0)) ->
    ing_cont s1 e0 = false -> is_failed e0 = false ->
    snd (run st (ops1 ++ OpRead :: ops2)) =
      snd (run st ops1) ++ OutRead None (Some e0) :: map (sticky_out e0) ops2.
  Proof.
    intros st1 Hc Hcont Hf.
    pose proof (step_by_consulted st1 OpRead) as H. rewrite Hc in H. cbn zeta in H.
    rewrite Hcont in H. cbn [Latch.step] in H.
    pose proof (latch_terminal_sticky S ing_step ing_cont st ops1 ops2 e0) as L.
    cbn zeta in L. fold st1 in L. rewrite H in L. cbn [fst snd] in L.
    rewrite L; [reflexivity|]. split; [reflexivity|exact Hf].
  Qed.

  (* RawRecord never hands out an older record.  [raws_fresh last l]: every RawRecord output is
     determined by the most recent Read before it: that Read's error, or the raw record the
     ingester returned in that very call -- no hypothesis on the ingester. *)
  Fixpoint raws_fresh (last : option (out * option (S * ingr)))
                      (l : list (out * option (S * ingr))) : Prop :=
    match l with
    | [] => True
    | (OutRead b e, c) :: r => raws_fresh (Some (OutRead b e, c)) r
    | (OutRaw x, _) :: r =>
        match last with
        | None => x = RRCallFirst
        | Some (OutRead _ (Some e), _) => x = RRErr e
        | Some (OutRead _ None, Some (_, (raw, _, _))) =>
            x = match raw with Some r0 => RROk r0 | None => RRCallFirst end
        | Some (OutRead _ None, None) => False
        | Some (OutRaw _, _) => False
        end /\ raws_fresh last r
    end.

  Definition state_fresh (last : option (out * option (S * ingr))) (ts : tstate) : Prop :=
    match last with
    | None => ts = t_init
    | Some (OutRead _ (Some e), _) => lastErr ts = Some e
    | Some (OutRead _ None, Some (_, (raw, _, _))) => lastErr ts = None /\ lastRaw ts = raw
    | Some (OutRead _ None, None) => False
    | Some (OutRaw _, _) => False
    end.

  Lemma raws_fresh_run ops : forall st last,
    state_fresh last (fst st) -> raws_fresh last (snd (runx st ops)).
  Proof.
    induction ops as [|o ops IH]; intros st last Hm; [exact I|].
    cbn [Latch.runx]. pose proof (step_by_consulted st o) as H. destruct o.
    - destruct (consulted st OpRead) as [[s1 [[raw b1] [e0|]]]|].
      + cbn zeta in H. rewrite H.
        match goal with |- context [Latch.runx _ _ _ ?st1 ops] =>
          specialize (IH st1 (Some (OutRead None (Some (if ing_cont s1 e0 then wrap_failed e0 else e0)),
                                    Some (s1, (raw, b1, Some e0))))) end.
        destruct (runx _ ops) as [st2 xs]. cbn [snd raws_fresh] in *. apply IH. reflexivity.
      + rewrite H.
        specialize (IH (mkT None raw, s1) (Some (OutRead b1 None, Some (s1, (raw, b1, None))))).
        destruct (runx _ ops) as [st2 xs]. cbn [snd raws_fresh] in *. apply IH. split; reflexivity.
      + destruct H as (e & He & Hf & H). rewrite H.
        specialize (IH st (Some (OutRead None (Some e), None))).
        destruct (runx st ops) as [st2 xs]. cbn [snd raws_fresh] in *. apply IH. exact He.
    - cbn [Latch.step Latch.consulted]. specialize (IH st last Hm).
      destruct (runx st ops) as [st2 xs]. cbn [snd raws_fresh] in *. split; [|exact IH].
      unfold Latch.rawrecord.
      destruct last as [[[b [e|]|x] [[s1 [[raw b2] e2]]|]]|]; cbn [state_fresh] in Hm;
        try contradiction;
        try (rewrite Hm; reflexivity);
        destruct Hm as [Hm1 Hm2]; rewrite Hm1, Hm2; reflexivity.
  Qed.

  Theorem rawrecord_never_stale s ops : raws_fresh None (snd (runx (t_init, s) ops)).
  Proof. apply raws_fresh_run. reflexivity. Qed.
End LatchHistories.

(* ---- the built-in ingester ---------------------------------------------------------------- *)
Section BuiltinIngester.
  Variable R : Type.
  Variable rd_step : R -> R * rdres.
  Variable rd_cont : R -> errv -> bool.
  Variable parse : R -> option N -> parse_res.
  Variable marshal : R -> N -> marshal_res.

  Notation ing_read := (ing_read R rd_step parse marshal).

  Theorem builtin_ing_raw_on_success : ing_raw_on_success (istate R) ing_read.
  Proof.
    intros g g1 raw b. unfold Latch.ing_read.
    destruct (rd_step (i_rd g)) as [r' res].
    destruct (rd_err res); [intro H; inversion H|].
    destruct (parse r' (rd_node res)); [|intro H; inversion H].
    destruct (marshal r' v); intro H; inversion H; subst; discriminate.
  Qed.

  (* The ingester releases the node of the previous Read exactly once, before reading again. *)
  Theorem builtin_ing_release g :
    let '(g', _) := ing_read g in
    i_evs g' = i_evs g ++ match i_cur g with Some n => [EvRelease n] | None => [] end ++ [EvRead].
  Proof.
    unfold Latch.ing_read. destruct (rd_step (i_rd g)) as [r' res].
    destruct (rd_err res); [|destruct (parse r' (rd_node res)); [destruct (marshal r' v)|]];
      simpl; destruct (i_cur g); simpl; rewrite <- ?app_assoc; reflexivity.
  Qed.
End BuiltinIngester.

(* Classification, over the decision tables extracted from the seven IsContinuableError bodies
   and from ingester.IsContinuableError (Gen/Continuable.v, regenerated from /repo each run):
   an error is continuable iff it is neither io.EOF nor the format's fatal type; in particular
   ErrTransformFailed is continuable, EOF and fatal errors are not. *)
Theorem builtin_classification :
  Forall (fun reader_cont =>
    forall c, c <> RcLatched ->
      (continuable_ingester reader_cont c = true <-> (c <> RcEOF /\ c <> RcFatal)))
    all_formats.
Proof.
  unfold all_formats.
  repeat (apply Forall_cons; [intros []; vm_compute; split; intros; intuition congruence|]).
  apply Forall_nil.
Qed.

(* The old csv reader is the only one that latches an input-I/O error instance (r.readErr);
   that instance is not continuable. *)
Theorem csv_latched_not_continuable : continuable_ingester continuable_csv RcLatched = false.
Proof. reflexivity. Qed.

(* Composition: what Transform.Read returns when the built-in ingester's reader reports an error,
   for every one of the seven formats: EOF and the format's fatal error come out unwrapped (the
   same value) and terminal; anything else comes out as ErrTransformFailed. *)
Section BuiltinTransform.
  Variable R : Type.
  Variable rd_step : R -> R * rdres.
  Variable parse : R -> option N -> parse_res.
  Variable marshal : R -> N -> marshal_res.
  Variable fmt : nat.
  Variable fatal_ty : N.
  Hypothesis fmt_ok : fmt < length all_formats.

  Definition b_cont (_ : R) (e : errv) : bool := fmt_cont fmt (rcls_of fatal_ty e).
  Notation ing_read := (ing_read R rd_step parse marshal).
  Notation ing_cont := (ing_is_cont R b_cont).

  Lemma fmt_cont_spec c : c <> RcLatched ->
    (orb (rc_is_failed c) (fmt_cont fmt c) = true <-> c <> RcEOF /\ c <> RcFatal).
  Proof.
    pose proof builtin_classification as H. rewrite Forall_forall in H.
    specialize (H (fmt_cont fmt)). apply H. unfold fmt_cont. apply nth_In. exact fmt_ok.
  Qed.

  Theorem builtin_reader_error_surfaces g r' n e :
    rd_step (i_rd g) = (r', mkRd n (Some e)) ->
    let o := snd (do_read (istate R) ing_read ing_cont g) in
    match rcls_of fatal_ty e with
    | RcEOF | RcFatal => is_terminal o e
    | _ => is_failure o
    end.
  Proof.
    intro Hs. unfold Latch.do_read, Latch.ing_read. rewrite Hs. cbn [rd_err rd_node snd].
    unfold Latch.ing_is_cont, b_cont. cbn [i_rd].
    assert (Hc : orb (rc_is_failed (rcls_of fatal_ty e)) (fmt_cont fmt (rcls_of fatal_ty e)) = true
                 <-> rcls_of fatal_ty e <> RcEOF /\ rcls_of fatal_ty e <> RcFatal).
    { apply fmt_cont_spec. unfold rcls_of. destruct (e_cls e); try discriminate.
      destruct (N.eqb (e_ty e) fatal_ty); discriminate. }
    assert (Hf : is_failed e = rc_is_failed (rcls_of fatal_ty e)).
    { unfold is_failed, rcls_of. destruct (e_cls e); try reflexivity.
      destruct (N.eqb (e_ty e) fatal_ty); reflexivity. }
    rewrite Hf.
    destruct (rcls_of fatal_ty e) eqn:Hcls; cbn [rc_is_failed orb] in *.
    - destruct (fmt_cont fmt RcEOF) eqn:E.
      + exfalso. destruct Hc as [Hc _]. specialize (Hc eq_refl). tauto.
      + split; [reflexivity|]. rewrite Hf. reflexivity.
    - destruct (fmt_cont fmt RcFatal) eqn:E.
      + exfalso. destruct Hc as [Hc _]. specialize (Hc eq_refl). tauto.
      + split; [reflexivity|]. rewrite Hf. reflexivity.
    - eexists; split; reflexivity.
    - exfalso. unfold rcls_of in Hcls. destruct (e_cls e); try discriminate.
      destruct (N.eqb (e_ty e) fatal_ty); discriminate.
    - destruct (fmt_cont fmt RcPlain) eqn:E.
      + eexists; split; reflexivity.
      + exfalso. destruct Hc as [_ Hc]. discriminate Hc. split; discriminate.
  Qed.
End BuiltinTransform.

Theorem builtin_formats_complete : length all_formats = 7.
Proof. reflexivity. Qed.
