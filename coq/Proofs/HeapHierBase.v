(* C12 bridge proofs, part 6: zipper actions without a payload simulation (the hierarchy readers'
   abstract model carries no payload trees): closing a frame, removing the node closed last,
   building a record node with its columns, attaching it below the current frame. *)
From Coq Require Import List NArith ZArith Bool Lia.
From stdpp Require Import pmap.
From OV Require Import Base.Bytes Base.Cases Base.Tree Model.Stream Model.Heap Model.HeapReaders
  Proofs.HeapIds Proofs.HeapTree Proofs.HeapOps Proofs.HeapPath Proofs.HeapRep Proofs.HeapRemove
  Proofs.Heap Proofs.HeapPay Proofs.HeapZip Proofs.HeapPrims Proofs.HeapReaders.
Import ListNotations.

Lemma go_up_wf r a ks up :
  wf r -> r_stack r = (a, ks) :: up ->
  exists r', go_up r = Some r' /\ r_m r' = r_m r /\ wf r' /\ r_env r' = r_env r /\
    last_closed r' = Some (AT a ks) /\
    map fst (r_stack r') = map fst up /\ length (r_stack r') = length up /\
    (r_stack r' <> [] -> r_done r' = None).
Proof.
  intros Hwf Est. unfold go_up. rewrite Est. destruct up as [|[p pks] up'].
  - eexists. split; [reflexivity|]. simpl. split; [reflexivity|split; [|split; [reflexivity|split; [reflexivity|split; [reflexivity|split; [reflexivity|congruence]]]]]].
    unfold wf, r_forest, r_tree in *. simpl. rewrite Est in Hwf. simpl in Hwf. rewrite app_nil_r in Hwf. exact Hwf.
  - eexists. split; [reflexivity|]. simpl. split; [reflexivity|split; [|split; [reflexivity|split; [|split; [reflexivity|split; [reflexivity|reflexivity]]]]]].
    + unfold wf, r_forest, r_tree in *. simpl. rewrite Est in Hwf. simpl in Hwf. rewrite !app_nil_r in *. exact Hwf.
    + unfold last_closed. simpl. rewrite rev_app_distr. reflexivity.
Qed.

Lemma graft_env' c env t tn :
  root tn ∉ addrs_f (env ++ [t]) -> c ∉ addrs_f env ->
  graft c (root tn) ((env ++ [t]) ++ [tn]) = env ++ [graft_t c tn t].
Proof.
  intros Hn Hc. unfold graft. rewrite (find_root_last (root tn) (env ++ [t]) tn Hn eq_refl).
  rewrite (drop_root_last (root tn) (env ++ [t]) tn Hn eq_refl). rewrite map_app. simpl. f_equal.
  apply map_id_on. intros e He. apply graft_t_id. intros Hin. apply Hc. eapply addrs_f_in; eauto.
Qed.

(* idr.AddChild(parent, node) for a detached tree that is the last tree of the forest *)
Lemma attach_ok caching (main body : rd) (t : atree) (n : addr) (cs : list atree) (cur : addr) (ks : list atree)
      (up : list aframe) (descend : bool) :
  good caching (r_m body) -> wf body ->
  r_stack body = [(n, cs)] -> r_stack main = (cur, ks) :: up -> r_tree main = Some t ->
  r_env body = r_env main ++ [t] ->
  exists r', (match do_op caching (r_m body) (OAdd cur n) with
              | Some (m2, _) =>
                  Some (mkRd m2 (r_env main)
                          (if descend then (n, cs) :: (cur, ks) :: up else (cur, ks ++ [AT n cs]) :: up) None)
              | None => None
              end) = Some r' /\
    good caching (r_m r') /\ wf r' /\ r_env r' = r_env main /\ ext caching (r_m body) (r_m r') /\
    r_stack r' = (if descend then (n, cs) :: (cur, ks) :: up else (cur, ks ++ [AT n cs]) :: up) /\
    r_done r' = None.
Proof.
  intros Hg Hwf Eb Em Ht Henv. pose proof Hg as [HR _].
  assert (HF : m_F (r_m body) = (r_env main ++ [t]) ++ [AT n cs]).
  { rewrite Hwf. unfold r_forest, r_tree. rewrite Eb, Henv. simpl. rewrite app_nil_r. reflexivity. }
  pose proof (R_nodup _ _ _ HR) as Hnd. apply NoDup_app in Hnd as (HndF & _ & _). rewrite HF in HndF.
  unfold addrs_f in HndF. rewrite flat_map_app in HndF. simpl in HndF. rewrite app_nil_r in HndF.
  apply NoDup_app in HndF as (Hnd1 & Hd1 & Hndb).
  fold (addrs_f (r_env main ++ [t])) in Hnd1, Hd1.
  rewrite addrs_f_app in Hnd1. simpl in Hnd1. rewrite app_nil_r in Hnd1.
  apply NoDup_app in Hnd1 as (Hnde & Hde & Hndt).
  unfold r_tree in Ht. rewrite Em, azip_cons_none in Ht.
  pose proof (azip_addrs _ _ _ Ht) as Hperm.
  assert (Hcur_t : cur ∈ addrs t).
  { rewrite Hperm. apply elem_of_app. left. simpl. apply elem_of_cons. auto. }
  assert (Hn : n ∉ addrs_f (r_env main ++ [t])).
  { intros Hin. apply (Hd1 n Hin). simpl. apply elem_of_cons. auto. }
  assert (Hcur_env : cur ∉ addrs_f (r_env main)) by (intros Hin; exact (Hde cur Hin Hcur_t)).
  assert (Hpre : pre_b caching (m_s (r_m body)) (m_F (r_m body)) (OAdd cur n) = true).
  { simpl. rewrite HF. rewrite (find_root_last n (r_env main ++ [t]) (AT n cs) Hn eq_refl).
    apply andb_true_intro. split.
    - apply mem_spec. rewrite !addrs_f_app. apply elem_of_app. left. apply elem_of_app. right. simpl. rewrite app_nil_r. exact Hcur_t.
    - destruct (mem cur (addrs (AT n cs))) eqn:E; [|reflexivity]. apply mem_spec in E. exfalso.
      apply (Hd1 cur); [|exact E]. rewrite addrs_f_app. apply elem_of_app. right. simpl. rewrite app_nil_r. exact Hcur_t. }
  destruct (do_op_ok caching _ _ Hg Hpre) as (m2 & ret & Hdo & Hg2 & Hstep & HF2 & Hlog).
  rewrite Hdo. eexists. split; [reflexivity|]. simpl.
  assert (Hup : cur ∉ frames_addrs up).
  { rewrite Hperm in Hndt. simpl in Hndt. apply NoDup_cons in Hndt as [Hc _]. intros Hin. apply Hc.
    apply elem_of_app. right. exact Hin. }
  assert (Hgraft : azip up (Some (AT cur (ks ++ [AT n cs]))) = Some (graft_t cur (AT n cs) t)).
  { pose proof (graft_azip cur (AT n cs) up (AT cur ks) Hup) as Hg'. rewrite Ht in Hg'. simpl in Hg'.
    rewrite Pos.eqb_refl in Hg'. symmetry. exact Hg'. }
  assert (HF2' : m_F m2 = r_env main ++ [graft_t cur (AT n cs) t]).
  { rewrite HF2. simpl. rewrite HF. apply (graft_env' cur (r_env main) t (AT n cs)); assumption. }
  split; [exact Hg2|split; [|split; [reflexivity|split; [eapply do_op_ext; eauto|split; reflexivity]]]].
  unfold wf, r_forest, r_tree. simpl. rewrite HF2'. f_equal.
  destruct descend; simpl; rewrite ?app_nil_r; rewrite Hgraft; reflexivity.
Qed.

(* RemoveAndReleaseTree of the node closed last, without a payload simulation *)
Lemma remove_last_wf caching r :
  good caching (r_m r) -> wf r ->
  (match r_stack r with
   | [] => exists ta, r_done r = Some ta
   | (_, ks) :: _ => exists ks' ta, ks = ks' ++ [ta]
   end) ->
  exists r', remove_last caching r = Some r' /\ good caching (r_m r') /\ wf r' /\ r_env r' = r_env r /\
    ext caching (r_m r) (r_m r') /\ map fst (r_stack r') = map fst (r_stack r) /\
    (r_stack r' <> [] -> r_done r' = None).
Proof.
  intros Hg Hwf Hlast. pose proof Hg as [HR _].
  pose proof (R_nodup _ _ _ HR) as HndAll. apply NoDup_app in HndAll as (HndF & _ & _).
  unfold remove_last. destruct (r_stack r) as [|[p pks] up] eqn:Est.
  - destruct Hlast as [ta Hd]. rewrite Hd.
    assert (HFr : m_F (r_m r) = r_env r ++ [ta]).
    { rewrite Hwf. unfold r_forest, r_tree. rewrite Est, Hd. reflexivity. }
    assert (Hx_env : root ta ∉ addrs_f (r_env r)).
    { rewrite HFr in HndF. unfold addrs_f in HndF. rewrite flat_map_app in HndF. simpl in HndF. rewrite app_nil_r in HndF.
      apply NoDup_app in HndF as (_ & Hd' & _). intros Hin. exact (Hd' _ Hin (root_in ta)). }
    assert (Hpre : pre_b caching (m_s (r_m r)) (m_F (r_m r)) (ORemove (root ta)) = true).
    { simpl. apply mem_spec. rewrite HFr, addrs_f_app. apply elem_of_app. right. simpl. rewrite app_nil_r. apply root_in. }
    destruct (do_op_ok caching _ _ Hg Hpre) as (m1 & ret & Hdo & Hg1 & Hstep & HF1 & Hlog).
    rewrite Hdo. eexists. split; [reflexivity|]. simpl.
    split; [exact Hg1|split; [|split; [reflexivity|split; [eapply do_op_ext; eauto|split; [reflexivity|congruence]]]]].
    unfold wf, r_forest, r_tree. simpl. rewrite HF1. simpl. rewrite HFr, app_nil_r.
    apply prune_env_root; [exact Hx_env|reflexivity].
  - destruct Hlast as (ks' & tx & ->). rewrite rev_app_distr. simpl. rewrite rev_involutive.
    assert (Hne : r_stack r <> []) by (rewrite Est; discriminate).
    destruct (r_tree_some r Hne) as [t Ht].
    destruct (frames_in_forest caching r t Hg Hwf Hne Ht) as (Hndfr & Hfr_t & Ht_env & Ht_F).
    rewrite Est in Hndfr, Hfr_t.
    assert (HFr : m_F (r_m r) = r_env r ++ [t]) by (rewrite Hwf; unfold r_forest; rewrite Ht; reflexivity).
    set (x := root tx).
    assert (Hx_fr : x ∈ frames_addrs ((p, ks' ++ [tx]) :: up)).
    { rewrite frames_addrs_cons. apply elem_of_app. left. unfold frame_addrs. simpl. apply elem_of_cons. right.
      rewrite flat_map_app. apply elem_of_app. right. simpl. rewrite app_nil_r. apply root_in. }
    assert (Hx_t : x ∈ addrs t) by (apply Hfr_t; exact Hx_fr).
    assert (Hpre : pre_b caching (m_s (r_m r)) (m_F (r_m r)) (ORemove x) = true).
    { simpl. apply mem_spec. apply Ht_F. exact Hx_t. }
    destruct (do_op_ok caching _ _ Hg Hpre) as (m1 & ret & Hdo & Hg1 & Hstep & HF1 & Hlog).
    rewrite Hdo. eexists. split; [reflexivity|]. simpl.
    rewrite frames_addrs_cons in Hndfr. apply NoDup_app in Hndfr as (Hndtop & Hdtop & Hndup).
    unfold frame_addrs in Hndtop. simpl in Hndtop. apply NoDup_cons in Hndtop as [Hp_ks Hndks].
    rewrite flat_map_app in Hndks. simpl in Hndks. rewrite app_nil_r in Hndks.
    apply NoDup_app in Hndks as (Hndks' & Hdks & Hndtx).
    assert (Hx_ks' : x ∉ flat_map addrs ks') by (intros Hin; exact (Hdks x Hin (root_in tx))).
    assert (Hx_p : p <> x).
    { intros E. apply Hp_ks. rewrite flat_map_app. apply elem_of_app. right. simpl. rewrite app_nil_r. rewrite E. apply root_in. }
    assert (Hx_up : x ∉ frames_addrs up).
    { apply Hdtop. unfold frame_addrs. simpl. apply elem_of_cons. right. rewrite flat_map_app. apply elem_of_app. right.
      simpl. rewrite app_nil_r. apply root_in. }
    unfold r_tree in Ht. rewrite Est, azip_cons_none in Ht.
    assert (Hroot : root t <> x).
    { destruct (azip_root_in _ _ _ Ht) as [E|E]; simpl in E.
      - rewrite E. exact Hx_p.
      - intros E'. rewrite E' in E. apply Hx_up. apply fst_in_frames. exact E. }
    assert (Hprune : azip up (Some (AT p ks')) = Some (prune_t x t)).
    { pose proof (prune_azip x up (AT p (ks' ++ [tx])) Hx_up Hx_p) as Hp'. rewrite Ht in Hp'. simpl option_map in Hp'.
      rewrite (prune_t_last x p ks' tx eq_refl Hx_ks') in Hp'. symmetry. exact Hp'. }
    assert (HF1' : m_F m1 = r_env r ++ [prune_t x t]).
    { rewrite HF1. simpl. rewrite HFr. apply prune_env_inner; [|exact Hroot].
      intros Hin. exact (Ht_env x Hx_t Hin). }
    split; [exact Hg1|split; [|split; [reflexivity|split; [eapply do_op_ext; eauto|split; [reflexivity|reflexivity]]]]].
    unfold wf, r_forest, r_tree. simpl. rewrite HF1', app_nil_r, Hprune. reflexivity.
Qed.
