(* The loading caches of Model/Pipeline.v are observationally the loader: for every capacity
   (unbounded, n, one, zero entries kept) and every content consistent with the loader.  For the
   node-JSON cache "consistent" is relative to the node content per ID - which is where the F6
   guard comes from. *)
From Coq Require Import List NArith Bool Arith Lia.
From Coq.Strings Require Import Byte.
Import ListNotations.
From OV Require Import Base.Bytes Base.Cases Base.Tree Model.Pipeline.

Section LCacheProofs.
  Variable K V : Type.
  Variable keqb : K -> K -> bool.
  Hypothesis keqb_eq : forall a b, keqb a b = true <-> a = b.

  (* every entry is what the loader would produce for its key *)
  Definition LcOK (load : K -> option V) (c : lcache K V) : Prop :=
    forall k v, In (k, v) (lc_entries c) -> load k = Some v.

  Lemma lc_find_Some load k l v rest :
    (forall k' v', In (k', v') l -> load k' = Some v') ->
    lc_find K V keqb k l = Some (v, rest) ->
    load k = Some v /\ (forall k' v', In (k', v') rest -> In (k', v') l).
  Proof.
    revert v rest. induction l as [|[k0 v0] r IH]; intros v rest Hok Hf; simpl in Hf; [discriminate|].
    destruct (keqb k k0) eqn:E.
    - inversion Hf; subst. apply keqb_eq in E. subst. split.
      + apply Hok. now left.
      + intros k' v' Hi. now right.
    - destruct (lc_find K V keqb k r) as [[x r']|] eqn:Er; [|discriminate].
      injection Hf as <- <-.
      destruct (IH x r') as [Hl Hs]; auto.
      { intros k' v' Hi. apply Hok. now right. }
      split; [exact Hl|]. intros k' v' [Hi|Hi]; [now left|right; auto].
  Qed.

  Lemma lc_trim_In cap (l : list (K * V)) x : In x (lc_trim K V cap l) -> In x l.
  Proof.
    destruct cap as [n|]; simpl; [|auto]. revert l. induction n as [|n IH]; intros [|y l]; simpl; try tauto.
    intros [->|Hi]; [now left|right; auto].
  Qed.

  (* Get returns the loader's answer and keeps the cache consistent - whatever the capacity *)
  Theorem lc_get_pure load k c :
    LcOK load c ->
    fst (lc_get K V keqb load k c) = load k /\ LcOK load (snd (lc_get K V keqb load k c)).
  Proof.
    intros Hok. unfold lc_get.
    destruct (lc_find K V keqb k (lc_entries c)) as [[v rest]|] eqn:Ef.
    - destruct (lc_find_Some load k _ v rest Hok Ef) as [Hl Hs]. simpl. split; [now rewrite Hl|].
      intros k' v' [E|Hi]; [inversion E; subst; exact Hl|apply Hok; auto].
    - destruct (load k) as [v|] eqn:El; simpl; [|split; [reflexivity|exact Hok]].
      split; [reflexivity|]. intros k' v' Hi. simpl in Hi. apply lc_trim_In in Hi.
      destruct Hi as [E|Hi]; [inversion E; subst; exact El|apply Hok; auto].
  Qed.

  (* two caches of any capacities and any consistent contents give the same answer *)
  Corollary lc_get_capacity_irrelevant load k c c' :
    LcOK load c -> LcOK load c' ->
    fst (lc_get K V keqb load k c) = fst (lc_get K V keqb load k c').
  Proof.
    intros H1 H2. rewrite (proj1 (lc_get_pure load k c H1)), (proj1 (lc_get_pure load k c' H2)).
    reflexivity.
  Qed.
End LCacheProofs.

Lemma bytes_eqb_iff : forall a b, bytes_eqb a b = true <-> a = b.
Proof. exact bytes_eqb_eq. Qed.

Lemma Neqb_iff : forall a b, N.eqb a b = true <-> a = b.
Proof. exact N.eqb_eq. Qed.

(* xpath expression cache: a compiled expression is a function of its text; dynamic xpaths bypass
   the cache (and leave it untouched) *)
Theorem expr_cache_pure {E} (compile : bytes -> option E) dynamic text c :
  LcOK bytes E compile c ->
  fst (load_xpath_expr compile dynamic text c) = compile text /\
  LcOK bytes E compile (snd (load_xpath_expr compile dynamic text c)) /\
  (dynamic = true -> snd (load_xpath_expr compile dynamic text c) = c).
Proof.
  intros Hok. unfold load_xpath_expr. destruct dynamic; simpl.
  - repeat split; auto.
  - destruct (lc_get_pure bytes E bytes_eqb bytes_eqb_iff compile text c Hok) as [H1 H2].
    split; [exact H1|]. split; [exact H2|discriminate].
Qed.

(* JS program cache, with the disableCaching switch *)
Theorem program_cache_pure {P} (compile : bytes -> option P) off js c :
  LcOK bytes P compile c ->
  fst (get_program compile off js c) = compile js /\
  LcOK bytes P compile (snd (get_program compile off js c)).
Proof.
  intros Hok. unfold get_program. destruct off; simpl; [auto|].
  apply (lc_get_pure bytes P bytes_eqb bytes_eqb_iff compile js c Hok).
Qed.

(* node-JSON cache: content k = the JSON of the node(s) that carry ID k.  If that is a function
   of the ID (content_stable_per_id), the cache is invisible. *)
Theorem node_json_fresh (content : N -> bytes) off id json c :
  LcOK N bytes (fun k => Some (content k)) c ->
  content id = json ->
  fst (get_node_json off id json c) = json /\
  LcOK N bytes (fun k => Some (content k)) (snd (get_node_json off id json c)).
Proof.
  intros Hok Hc. unfold get_node_json. destruct off; simpl; [auto|].
  destruct (lc_find N bytes N.eqb id (lc_entries c)) as [[v rest]|] eqn:Ef.
  - destruct (lc_find_Some N bytes N.eqb Neqb_iff (fun k => Some (content k)) id _ v rest Hok Ef) as [Hl Hs].
    unfold lc_get. rewrite Ef. simpl. split; [congruence|].
    intros k' v' [E|Hi]; [inversion E; subst; exact Hl|apply Hok; auto].
  - unfold lc_get. rewrite Ef. simpl. split; [reflexivity|].
    intros k' v' Hi. simpl in Hi. apply lc_trim_In in Hi.
    destruct Hi as [E|Hi]; [inversion E; subst; reflexivity|apply Hok; auto].
Qed.

(* ... and it is visible as soon as a node's content changes under a constant ID (F6): the
   second call returns the JSON the first call stored. *)
Theorem node_json_refuted :
  exists (id : N) (j1 j2 : bytes) (c : lcache N bytes),
    j1 <> j2 /\
    let c1 := snd (get_node_json false id j1 c) in
    fst (get_node_json false id j2 c1) = j1 /\ fst (get_node_json true id j2 c1) = j2.
Proof.
  exists 1%N, [x31], [x32], (mkLC None []). split; [discriminate|]. vm_compute. auto.
Qed.
