(* C12 bridge proofs, part 3: the primitive actions of the stream readers on the heap. *)
From Coq Require Import List NArith ZArith Bool Lia.
From stdpp Require Import pmap.
From OV Require Import Base.Bytes Base.Cases Base.Tree Model.Stream Model.Heap Model.HeapReaders
  Proofs.HeapIds Proofs.HeapTree Proofs.HeapOps Proofs.HeapPath Proofs.HeapRep Proofs.HeapRemove
  Proofs.Heap Proofs.HeapPay Proofs.HeapZip.
Import ListNotations.

(* [ext m m']: m' is reached from m by API calls only, each meeting its precondition in the state
   it is issued in (run2 checks pre_b before every call), and the log says which calls *)
Definition ext (caching : bool) (m m' : mach) : Prop :=
  exists ops, m_log m' = m_log m ++ ops /\
    run2 caching (m_s m) (m_F m) (m_acq m) ops = Some (m_s m', m_F m', m_acq m').

Lemma ext_refl caching m : ext caching m m.
Proof. exists []. rewrite app_nil_r. split; reflexivity. Qed.

Lemma run2_app caching : forall ops1 ops2 s F acq s1 F1 acq1,
  run2 caching s F acq ops1 = Some (s1, F1, acq1) ->
  run2 caching s F acq (ops1 ++ ops2) = run2 caching s1 F1 acq1 ops2.
Proof.
  induction ops1 as [|o r IH]; intros ops2 s F acq s1 F1 acq1 H; simpl in *.
  - inversion H; subst. reflexivity.
  - destruct (pre_b caching s F o); [|discriminate].
    destruct (step caching s o) as [[s' ret]| | |]; try discriminate. eapply IH; eauto.
Qed.

Lemma ext_trans caching m1 m2 m3 : ext caching m1 m2 -> ext caching m2 m3 -> ext caching m1 m3.
Proof.
  intros (o1 & L1 & R1) (o2 & L2 & R2). exists (o1 ++ o2). split.
  - rewrite L2, L1, app_assoc. reflexivity.
  - rewrite (run2_app caching _ _ _ _ _ _ _ _ R1). exact R2.
Qed.

Lemma do_op_ext caching m o m1 ret : do_op caching m o = Some (m1, ret) -> ext caching m m1.
Proof.
  unfold do_op. destruct (pre_b caching (m_s m) (m_F m) o) eqn:Hpre; [|discriminate].
  destruct (step caching (m_s m) o) as [[s' r]| | |] eqn:Hstep; try discriminate.
  intros H. inversion H; subst. exists [o]. simpl. split; [reflexivity|].
  rewrite Hpre, Hstep. reflexivity.
Qed.

Lemma payloads_single h k t : payload h k = Some t -> payloads h [k] = Some [t].
Proof. intros H. unfold payloads. rewrite H. reflexivity. Qed.

(* ---- create-and-attach ---------------------------------------------------------------------------------- *)
Lemma sim_stack_ne st r : sim st r -> r_stack r <> [] -> s_stack st <> [].
Proof. intros [H _] Hne E. rewrite E in H. inversion H. congruence. Qed.

Lemma frames_in_forest caching r t :
  good caching (r_m r) -> wf r -> r_stack r <> [] -> r_tree r = Some t ->
  NoDup (frames_addrs (r_stack r)) /\
  (forall a, a ∈ frames_addrs (r_stack r) -> a ∈ addrs t) /\
  (forall a, a ∈ addrs t -> a ∉ addrs_f (r_env r)) /\
  (forall a, a ∈ addrs t -> a ∈ addrs_f (m_F (r_m r))).
Proof.
  intros [HR _] Hwf Hne Ht.
  pose proof (R_nodup _ _ _ HR) as Hnd. apply NoDup_app in Hnd as (HndF & _ & _).
  rewrite Hwf in HndF. unfold r_forest in HndF. rewrite Ht in HndF. simpl in HndF.
  unfold addrs_f in HndF. rewrite flat_map_app in HndF. simpl in HndF. rewrite app_nil_r in HndF.
  apply NoDup_app in HndF as (Hnde & Hd & Hndt).
  pose proof (r_tree_addrs r t Hne Ht) as Hperm.
  split; [rewrite <- Hperm; exact Hndt|split; [intros a Ha; rewrite Hperm; exact Ha|split]].
  - intros a Ha Hae. exact (Hd a Hae Ha).
  - intros a Ha. rewrite Hwf. unfold r_forest. rewrite Ht. simpl. unfold addrs_f. rewrite flat_map_app. simpl.
    rewrite app_nil_r. apply elem_of_app. auto.
Qed.

Lemma step_add_inv caching s p n s' ret :
  step caching s (OAdd p n) = Ok (s', ret) -> exists h', add_child (heap s) p n = Ok h' /\ s' = with_heap s h'.
Proof.
  simpl. destruct (add_child (heap s) p n) as [h'| | |]; simpl; try discriminate.
  intros H. inversion H. eauto.
Qed.

Lemma step_remove_inv caching s n s' ret :
  step caching s (ORemove n) = Ok (s', ret) -> remove_and_release caching (fuel_of s) s n = Ok s'.
Proof.
  simpl. destruct (remove_and_release caching (fuel_of s) s n) as [s1| | |]; simpl; try discriminate.
  intros H. inversion H. reflexivity.
Qed.

Lemma new_child_ok caching choose st r ty d fs descend :
  legal caching choose -> good caching (r_m r) -> wf r -> sim st r -> r_stack r <> [] ->
  exists r', new_child caching choose r ty d fs descend = Some r' /\
    good caching (r_m r') /\ wf r' /\ r_env r' = r_env r /\ ext caching (r_m r) (r_m r') /\
    sim (if descend then Stream.push (mkF ty d fs []) st else add_text st (T ty d fs [])) r'.
Proof.
  intros HL Hg Hwf Hsim Hne.
  destruct (r_tree_some r Hne) as [t Ht].
  destruct (frames_in_forest caching r t Hg Hwf Hne Ht) as (Hndfr & Hfr_t & Ht_env & Ht_F).
  unfold new_child. destruct (r_stack r) as [|[cur ks] up] eqn:Est; [congruence|].
  destruct (do_create caching choose (r_m r) (N_of_ntype ty) d fs HL Hg)
    as (m1 & n & id & Hdo1 & Hg1 & HF1 & Hn & Hlog1 & Hnode & Hother).
  rewrite Hdo1.
  assert (Hcur_t : cur ∈ addrs t).
  { apply Hfr_t. rewrite frames_addrs_cons. apply elem_of_app. left. apply elem_of_cons. auto. }
  assert (Hcn : cur <> n) by (intros ->; apply Hn; apply Ht_F; exact Hcur_t).
  assert (HFr : m_F (r_m r) = r_env r ++ [t]) by (rewrite Hwf; unfold r_forest; rewrite Ht; reflexivity).
  assert (Hpre : pre_b caching (m_s m1) (m_F m1) (OAdd cur n) = true).
  { simpl. rewrite HF1. rewrite (find_root_last n (m_F (r_m r)) (AT n []) Hn eq_refl).
    apply andb_true_intro. split.
    - apply mem_spec. rewrite addrs_f_app. apply elem_of_app. left. apply Ht_F. exact Hcur_t.
    - simpl. destruct (Pos.eqb_spec cur n); [contradiction|reflexivity]. }
  destruct (do_op_ok caching m1 _ Hg1 Hpre) as (m2 & ret & Hdo2 & Hg2 & Hstep2 & HF2 & Hlog2).
  rewrite Hdo2.
  destruct (step_add_inv _ _ _ _ _ _ Hstep2) as (h2 & Hadd & Hs2).
  pose proof (add_child_pay _ _ _ _ Hadd) as Ppay.
  eexists. split; [reflexivity|]. simpl.
  (* the tree after the graft *)
  assert (Hup : cur ∉ frames_addrs up).
  { rewrite frames_addrs_cons in Hndfr. apply NoDup_app in Hndfr as (_ & Hd & _). apply Hd. apply elem_of_cons. auto. }
  assert (Htz : t = t) by reflexivity.
  unfold r_tree in Ht. rewrite Est in Ht. rewrite azip_cons_none in Ht.
  assert (Hgraft : azip up (Some (AT cur (ks ++ [AT n []]))) = Some (graft_t cur (AT n []) t)).
  { pose proof (graft_azip cur (AT n []) up (AT cur ks) Hup) as Hg'. rewrite Ht in Hg'. simpl in Hg'.
    rewrite Pos.eqb_refl in Hg'. symmetry. exact Hg'. }
  assert (HF2' : m_F m2 = r_env r ++ [graft_t cur (AT n []) t]).
  { rewrite HF2. simpl. rewrite HF1, HFr. apply graft_env.
    - rewrite <- HFr. exact Hn.
    - intros Hin. exact (Ht_env cur Hcur_t Hin). }
  (* payloads: everything but the new node keeps its payload *)
  assert (Hpay_old : forall b, b <> n -> opay (heap (m_s m2) !! b) = opay (heap (m_s (r_m r)) !! b)).
  { intros b Hb. rewrite Hs2. simpl. rewrite Ppay. rewrite Hother by exact Hb. reflexivity. }
  assert (Hpay_new : node_pay (heap (m_s m2)) n ty d fs).
  { unfold node_pay. rewrite Hs2. simpl. rewrite Ppay, Hnode. reflexivity. }
  assert (Hfr_n : forall b, b ∈ frames_addrs ((cur, ks) :: up) -> b <> n).
  { intros b Hb ->. apply Hn. apply Ht_F. apply Hfr_t. exact Hb. }
  destruct Hsim as (Hst & _ & _). rewrite Est in Hst.
  destruct (s_stack st) as [|f fr] eqn:Eabs; [inversion Hst|].
  assert (Hst' : Forall2 (frame_sim (heap (m_s m2))) (f :: fr) ((cur, ks) :: up)).
  { eapply stack_sim_pres; [|exact Hst]. intros b Hb. apply Hpay_old. apply Hfr_n. exact Hb. }
  split; [exact Hg2|split; [|split; [reflexivity|split]]].
  - (* wf *)
    unfold wf, r_forest, r_tree. simpl. rewrite HF2'. f_equal.
    destruct descend; simpl; rewrite ?app_nil_r; rewrite Hgraft; reflexivity.
  - eapply ext_trans; eapply do_op_ext; eauto.
  - (* sim *)
    inversion Hst' as [|f0 af0 fr0 afr0 Hf' Hrest' E3 E4]; subst.
    destruct descend.
    + split; [|split; [intros E; discriminate|intros _; reflexivity]]. simpl.
      rewrite Eabs. constructor; [|constructor; assumption].
      split; [exact Hpay_new|reflexivity].
    + split; [|split; [intros E; discriminate|intros _; reflexivity]]. simpl.
      unfold add_text. rewrite Eabs. simpl. constructor; [|exact Hrest'].
      destruct Hf' as [Hf1 Hf2]. split; [exact Hf1|]. simpl.
      apply payloads_app; [exact Hf2|]. apply payloads_single.
      exact (payload_node _ n [] ty d fs [] Hpay_new eq_refl).
Qed.

(* ---- cur = cur.Parent ----------------------------------------------------------------------------------------- *)
Lemma go_up_ok st r :
  wf r -> sim st r -> r_stack r <> [] ->
  exists r', go_up r = Some r' /\ r_m r' = r_m r /\ wf r' /\ r_env r' = r_env r /\
    sim (abs_up st) r' /\
    (* the node just closed is the last closed node now, and it carries the closed frame *)
    (exists f rest ta, s_stack st = f :: rest /\
       (match r_stack r' with
        | [] => r_done r' = Some ta
        | (_, ks) :: _ => exists ks', ks = ks' ++ [ta]
        end) /\ payload (heap (m_s (r_m r))) ta = Some (close_frame f)).
Proof.
  intros Hwf (Hst & Hdone & Hdn) Hne. unfold go_up.
  destruct (r_stack r) as [|[a ks] up] eqn:Est; [congruence|].
  destruct (s_stack st) as [|f fr] eqn:Eabs; [inversion Hst|].
  inversion Hst as [|f' af fr' afr Hf Hrest E1 E2]; subst. destruct Hf as [Hf1 Hf2]. simpl in Hf1, Hf2.
  assert (Hclosed : payload (heap (m_s (r_m r))) (AT a ks) = Some (close_frame f)).
  { apply payload_node; assumption. }
  destruct up as [|[p pks] up'].
  - inversion Hrest; subst. eexists. split; [reflexivity|]. simpl.
    split; [reflexivity|split; [|split; [reflexivity|split]]].
    + unfold wf, r_forest, r_tree in *. simpl. rewrite Est in Hwf. simpl in Hwf. rewrite app_nil_r in Hwf. exact Hwf.
    + unfold sim, abs_up. rewrite Eabs. simpl. split; [constructor|split; [|intros E; congruence]].
      intros _. eexists. split; [reflexivity|exact Hclosed].
    + exists f, [], (AT a ks). split; [reflexivity|split; [reflexivity|exact Hclosed]].
  - inversion Hrest as [|fp afp frr afrr Hfp Hrest' E3 E4]; subst. destruct Hfp as [Hp1 Hp2]. simpl in Hp1, Hp2.
    eexists. split; [reflexivity|]. simpl.
    split; [reflexivity|split; [|split; [reflexivity|split]]].
    + unfold wf, r_forest, r_tree in *. simpl. rewrite Est in Hwf. simpl in Hwf. rewrite !app_nil_r in *. exact Hwf.
    + unfold sim, abs_up. rewrite Eabs. simpl. split; [|split; [intros E; discriminate|intros _; reflexivity]].
      constructor; [|exact Hrest']. split; [exact Hp1|]. simpl.
      apply payloads_app; [exact Hp2|]. apply payloads_single. exact Hclosed.
    + exists f, (fp :: frr), (AT a ks). split; [reflexivity|split; [exists pks; reflexivity|exact Hclosed]].
Qed.

(* ---- RemoveAndReleaseTree of the node closed last ---------------------------------------------------------------- *)
Lemma payloads_snoc_inv h l k ts :
  payloads h (l ++ [k]) = Some ts ->
  exists ts' t, ts = ts' ++ [t] /\ payloads h l = Some ts' /\ payload h k = Some t.
Proof.
  revert ts. induction l as [|x l IH]; intros ts H; simpl in H.
  - destruct (payload h k) as [t|]; [|discriminate]. inversion H. exists [], t. auto.
  - destruct (payload h x) as [tx|] eqn:Ex; [|discriminate].
    destruct (payloads h (l ++ [k])) as [tl|] eqn:El; [|discriminate]. inversion H; subst.
    destruct (IH tl eq_refl) as (ts' & t & -> & H1 & H2). exists (tx :: ts'), t. simpl. rewrite Ex, H1. auto.
Qed.

Lemma azip_root_in r : forall sub t, azip r (Some sub) = Some t ->
  root t = root sub \/ root t ∈ map fst r.
Proof.
  induction r as [|[a ks] r IH]; intros sub t H; simpl in H.
  - inversion H. auto.
  - destruct (IH _ _ H) as [E|E]; simpl in *.
    + right. rewrite E. apply elem_of_cons. auto.
    + right. apply elem_of_cons. auto.
Qed.

Lemma fst_in_frames a r : a ∈ map fst r -> a ∈ frames_addrs r.
Proof.
  intros H. apply elem_of_list_fmap in H as [[b ks] [-> Hin]]. apply elem_of_flat_map.
  exists (b, ks). split; [auto|]. unfold frame_addrs. simpl. apply elem_of_cons. auto.
Qed.

Lemma remove_last_ok caching st r :
  good caching (r_m r) -> wf r -> sim st r ->
  (match r_stack r with
   | [] => exists ta, r_done r = Some ta
   | (_, ks) :: _ => exists ks' ta, ks = ks' ++ [ta]
   end) ->
  exists r', remove_last caching r = Some r' /\ good caching (r_m r') /\ wf r' /\ r_env r' = r_env r /\
    ext caching (r_m r) (r_m r') /\ sim (remove_closed st) r'.
Proof.
  intros Hg Hwf Hsim Hlast. pose proof Hg as [HR _].
  pose proof (R_nodup _ _ _ HR) as HndAll. apply NoDup_app in HndAll as (HndF & _ & _).
  unfold remove_last. destruct (r_stack r) as [|[p pks] up] eqn:Est.
  - (* the closed root *)
    destruct Hlast as [ta Hd]. rewrite Hd.
    assert (HFr : m_F (r_m r) = r_env r ++ [ta]).
    { rewrite Hwf. unfold r_forest, r_tree. rewrite Est, Hd. reflexivity. }
    assert (Hx_env : root ta ∉ addrs_f (r_env r)).
    { rewrite HFr in HndF. unfold addrs_f in HndF. rewrite flat_map_app in HndF. simpl in HndF. rewrite app_nil_r in HndF.
      apply NoDup_app in HndF as (_ & Hd' & _). intros Hin. exact (Hd' _ Hin (root_in ta)). }
    assert (Hpre : pre_b caching (m_s (r_m r)) (m_F (r_m r)) (ORemove (root ta)) = true).
    { simpl. apply mem_spec. rewrite HFr, addrs_f_app. apply elem_of_app. right. simpl. rewrite app_nil_r. apply root_in. }
    destruct (do_op_ok caching _ _ Hg Hpre) as (m1 & ret & Hdo & Hg1 & Hstep & HF1 & Hlog).
    rewrite Hdo. eexists. split; [reflexivity|]. simpl.
    split; [exact Hg1|split; [|split; [reflexivity|split; [eapply do_op_ext; eauto|]]]].
    + unfold wf, r_forest, r_tree. simpl. rewrite HF1. simpl. rewrite HFr, app_nil_r.
      apply prune_env_root; [exact Hx_env|reflexivity].
    + destruct Hsim as (Hst & _ & _). rewrite Est in Hst.
      destruct (s_stack st) as [|f fr] eqn:Eabs; [|inversion Hst].
      unfold sim, remove_closed. rewrite Eabs. simpl. split; [constructor|split; [reflexivity|intros E; congruence]].
  - (* the last child of cur *)
    destruct Hlast as (ks' & tx & ->). rewrite rev_app_distr. simpl. rewrite rev_involutive.
    assert (Hne : r_stack r <> []) by (rewrite Est; discriminate).
    destruct (r_tree_some r Hne) as [t Ht].
    destruct (frames_in_forest caching r t Hg Hwf Hne Ht) as (Hndfr & Hfr_t & Ht_env & Ht_F).
    rewrite Est in Hndfr, Hfr_t.
    assert (HFr : m_F (r_m r) = r_env r ++ [t]) by (rewrite Hwf; unfold r_forest; rewrite Ht; reflexivity).
    set (x := root tx).
    assert (Hx_fr : x ∈ frames_addrs ((p, ks' ++ [tx]) :: up)).
    { rewrite frames_addrs_cons. apply elem_of_app. left. unfold frame_addrs. simpl. apply elem_of_cons. right.
      rewrite flat_map_app. apply elem_of_app. right. simpl. rewrite app_nil_r. apply root_in. }
    assert (Hx_t : x ∈ addrs t) by (apply Hfr_t; exact Hx_fr).
    assert (Hpre : pre_b caching (m_s (r_m r)) (m_F (r_m r)) (ORemove x) = true).
    { simpl. apply mem_spec. apply Ht_F. exact Hx_t. }
    destruct (do_op_ok caching _ _ Hg Hpre) as (m1 & ret & Hdo & Hg1 & Hstep & HF1 & Hlog).
    rewrite Hdo. eexists. split; [reflexivity|]. simpl.
    (* distinctness facts from NoDup of the frames *)
    rewrite frames_addrs_cons in Hndfr. apply NoDup_app in Hndfr as (Hndtop & Hdtop & Hndup).
    unfold frame_addrs in Hndtop. simpl in Hndtop. apply NoDup_cons in Hndtop as [Hp_ks Hndks].
    rewrite flat_map_app in Hndks. simpl in Hndks. rewrite app_nil_r in Hndks.
    apply NoDup_app in Hndks as (Hndks' & Hdks & Hndtx).
    assert (Hx_ks' : x ∉ flat_map addrs ks') by (intros Hin; exact (Hdks x Hin (root_in tx))).
    assert (Hx_p : p <> x).
    { intros E. apply Hp_ks. rewrite flat_map_app. apply elem_of_app. right. simpl. rewrite app_nil_r. rewrite E. apply root_in. }
    assert (Hx_up : x ∉ frames_addrs up).
    { apply Hdtop. unfold frame_addrs. simpl. apply elem_of_cons. right. rewrite flat_map_app. apply elem_of_app. right.
      simpl. rewrite app_nil_r. apply root_in. }
    unfold r_tree in Ht. rewrite Est, azip_cons_none in Ht.
    assert (Hroot : root t <> x).
    { destruct (azip_root_in _ _ _ Ht) as [E|E]; simpl in E.
      - rewrite E. exact Hx_p.
      - intros E'. rewrite E' in E. apply Hx_up. apply fst_in_frames. exact E. }
    assert (Hprune : azip up (Some (AT p ks')) = Some (prune_t x t)).
    { pose proof (prune_azip x up (AT p (ks' ++ [tx])) Hx_up Hx_p) as Hp'. rewrite Ht in Hp'. simpl option_map in Hp'.
      rewrite (prune_t_last x p ks' tx eq_refl Hx_ks') in Hp'. symmetry. exact Hp'. }
    assert (HF1' : m_F m1 = r_env r ++ [prune_t x t]).
    { rewrite HF1. simpl. rewrite HFr. apply prune_env_inner; [|exact Hroot].
      intros Hin. exact (Ht_env x Hx_t Hin). }
    split; [exact Hg1|split; [|split; [reflexivity|split; [eapply do_op_ext; eauto|]]]].
    + unfold wf, r_forest, r_tree. simpl. rewrite HF1', app_nil_r, Hprune. reflexivity.
    + (* sim: the surviving nodes keep their payload *)
      pose proof (step_remove_inv _ _ _ _ _ Hstep) as Hrm.
      assert (Hpay : forall b, b ∈ frames_addrs ((p, ks') :: up) -> opay (heap (m_s m1) !! b) = opay (heap (m_s (r_m r)) !! b)).
      { intros b Hb. eapply (remove_pay caching _ _ x); [exact HR|apply Ht_F; exact Hx_t|exact Hrm|].
        rewrite HFr. rewrite (prune_env_inner x (r_env r) t); [|intros Hin; exact (Ht_env x Hx_t Hin)|exact Hroot].
        rewrite addrs_f_app. apply elem_of_app. right. simpl. rewrite app_nil_r.
        rewrite (azip_addrs _ _ _ Hprune). rewrite frames_addrs_cons in Hb. unfold frame_addrs in Hb. simpl in Hb. exact Hb. }
      destruct Hsim as (Hst & _ & _). rewrite Est in Hst.
      destruct (s_stack st) as [|f fr] eqn:Eabs; [inversion Hst|].
      inversion Hst as [|f' af fr' afr Hf Hrest E1 E2]; subst. destruct Hf as [Hf1 Hf2]. simpl in Hf1, Hf2.
      destruct (payloads_snoc_inv _ _ _ _ Hf2) as (ts' & tt & Ekids & Hk1 & Hk2).
      unfold sim, remove_closed. rewrite Eabs. simpl.
      split; [|split; [intros E; discriminate|intros _; reflexivity]].
      eapply stack_sim_pres; [exact Hpay|].
      constructor; [|exact Hrest]. split; [exact Hf1|]. simpl.
      rewrite Ekids, removelast_last. exact Hk1.
Qed.
