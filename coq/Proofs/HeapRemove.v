(* C12 proofs, part 6: RemoveAndReleaseTree preserves the representation invariant and prunes
   the abstract forest. *)
From Coq Require Import List NArith ZArith Bool Lia.
From stdpp Require Import pmap.
From OV Require Import Base.Bytes Base.Cases Base.Tree Model.Heap
  Proofs.HeapIds Proofs.HeapTree Proofs.HeapOps Proofs.HeapPath Proofs.HeapRep.
Import ListNotations.

(* ---- what the heap says around a node that is about to be unlinked ---------------------------------- *)
Section facts.
  Context (h : heapT) (n : addr) (tn : atree).

  Lemma prune_facts : forall t t', Prune n tn t t' ->
    forall par prev next, tree_ok h par prev next t -> NoDup (addrs t) ->
    exists xn q xq,
      h !! n = Some xn /\ n_parent xn = Some q /\ h !! q = Some xq /\ q <> n /\
      (n_first xq = Some n <-> n_prev xn = None) /\ (n_last xq = Some n <-> n_next xn = None) /\
      (forall a, n_prev xn = Some a -> a <> n /\ a <> q /\ exists xa, h !! a = Some xa) /\
      (forall b, n_next xn = Some b -> b <> n /\ b <> q /\ exists xb, h !! b = Some xb) /\
      (forall a b, n_prev xn = Some a -> n_next xn = Some b -> a <> b) /\
      q ∈ addrs t /\ oin (n_prev xn) (addrs t) /\ oin (n_next xn) (addrs t).
  Proof.
    induction 1 as [a l1 l2 Hr|a l1 k k' l2 HP IH]; intros par prev next Hok Hnd.
    - destruct Hok as [Hnode Hc]. destruct Hnode as [x [Hx (_ & _ & _ & Hf & Hl)]].
      apply chain_app in Hc as [Hc1 Hc2]. simpl in Hc2. destruct Hc2 as [Hoktn Hc2].
      rewrite pv_of_none, nx_of_none in Hoktn.
      destruct (tree_ok_root _ _ _ _ _ Hoktn) as [xn [Hxn (Hy1 & Hy2 & Hy3 & _)]]. rewrite Hr in Hxn.
      simpl in Hnd. apply NoDup_cons in Hnd as [Hak Hnd].
      destruct (NoDup_flat_map_split _ _ _ _ Hnd) as (Hnd1 & Hndtn & Hnd2 & Hdtn & Hd12).
      assert (Hntn : n ∈ addrs tn) by (rewrite <- Hr; apply root_in).
      destruct (Hdtn n Hntn) as [Hn1 Hn2].
      assert (Hroot1 : forall b, last_addr l1 = Some b -> b ∈ flat_map addrs l1 /\ exists xb, h !! b = Some xb).
      { intros b E. apply last_addr_in in E as [kl [Hkl <-]]. split; [apply elem_of_flat_map; exists kl; split; [auto|apply root_in]|].
        destruct (chain_elem _ _ _ _ _ Hc1 Hkl) as [pv [nx Hokl]].
        destruct (tree_ok_root _ _ _ _ _ Hokl) as [xb [Hxb _]]. eauto. }
      assert (Hroot2 : forall b, hd_addr l2 = Some b -> b ∈ flat_map addrs l2 /\ exists xb, h !! b = Some xb).
      { intros b E. apply hd_addr_in in E as [kl [Hkl <-]]. split; [apply elem_of_flat_map; exists kl; split; [auto|apply root_in]|].
        destruct (chain_elem _ _ _ _ _ Hc2 Hkl) as [pv [nx Hokl]].
        destruct (tree_ok_root _ _ _ _ _ Hokl) as [xb [Hxb _]]. eauto. }
      assert (Hin_t : forall b, b ∈ flat_map addrs l1 \/ b ∈ flat_map addrs l2 -> b ∈ addrs (AT a (l1 ++ tn :: l2))).
      { intros b Hb. simpl. apply elem_of_cons. right. rewrite flat_map_app. simpl.
        apply elem_of_app. destruct Hb; [auto|right; apply elem_of_app; auto]. }
      assert (Ha_not : forall b, b ∈ flat_map addrs (l1 ++ tn :: l2) -> b <> a) by (intros b Hb ->; contradiction).
      exists xn, a, x. rewrite Hy2, Hy3.
      split; [exact Hxn|split; [exact Hy1|split; [exact Hx|split; [|split; [|split; [|split; [|split; [|split; [|split; [|split]]]]]]]]]].
      + intros ->. apply Hak. rewrite flat_map_app. simpl. apply elem_of_app. right. apply elem_of_app. auto.
      + rewrite Hf, hd_addr_app. destruct l1 as [|k1 l1'].
        * simpl. rewrite Hr. split; reflexivity.
        * split; intros E.
          -- inversion E as [E']. exfalso. apply Hn1. simpl. apply elem_of_app. left. rewrite <- E'. apply root_in.
          -- apply last_addr_none in E. discriminate.
      + rewrite Hl, last_addr_app, last_addr_cons. destruct l2 as [|k2 l2'].
        * simpl. rewrite Hr. split; reflexivity.
        * split; intros E; [|discriminate].
          exfalso. apply last_addr_in in E as [kl [Hkl E']]. apply Hn2. apply elem_of_flat_map.
          exists kl. split; [auto|]. rewrite <- E'. apply root_in.
      + intros b E. destruct (Hroot1 b E) as [Hb1 Hb2]. split; [intros ->; contradiction|split; [|exact Hb2]].
        apply Ha_not. rewrite flat_map_app. apply elem_of_app. auto.
      + intros b E. destruct (Hroot2 b E) as [Hb1 Hb2]. split; [intros ->; contradiction|split; [|exact Hb2]].
        apply Ha_not. rewrite flat_map_app. simpl. apply elem_of_app. right. apply elem_of_app. auto.
      + intros b c E1 E2 ->. destruct (Hroot1 c E1) as [Hb1 _]. destruct (Hroot2 c E2) as [Hb2 _].
        apply (Hd12 c Hb1 Hb2).
      + apply (root_in (AT a (l1 ++ tn :: l2))).
      + destruct (last_addr l1) as [b|] eqn:E; simpl; [|exact I]. destruct (Hroot1 b eq_refl). apply Hin_t. auto.
      + destruct (hd_addr l2) as [b|] eqn:E; simpl; [|exact I]. destruct (Hroot2 b eq_refl). apply Hin_t. auto.
    - destruct Hok as [Hnode Hc]. apply chain_app in Hc as [_ Hc2]. simpl in Hc2. destruct Hc2 as [Hokk _].
      simpl in Hnd. apply NoDup_cons in Hnd as [_ Hnd].
      destruct (NoDup_flat_map_split _ _ _ _ Hnd) as (_ & Hndk & _).
      destruct (IH _ _ _ Hokk Hndk) as (xn & q & xq & H1 & H2 & H3 & H4 & H5 & H6 & H7 & H8 & H9 & H10 & H11 & H12).
      assert (Hsub : forall b, b ∈ addrs k -> b ∈ addrs (AT a (l1 ++ k :: l2))).
      { intros b Hb. eapply addrs_kid_in; [|exact Hb]. apply elem_of_app. right. apply elem_of_cons. auto. }
      exists xn, q, xq. repeat (split; [assumption|]). split; [auto|split].
      + destruct (n_prev xn); simpl in *; auto.
      + destruct (n_next xn); simpl in *; auto.
  Qed.
End facts.

(* ---- the unlinking half, on a forest ------------------------------------------------------------------- *)
Lemma drop_root_none n F : (forall t, t ∈ F -> root t <> n) -> drop_root n F = F.
Proof.
  intros H. apply filter_id. intros t Ht. destruct (Pos.eqb_spec (root t) n) as [E|E]; [|reflexivity].
  exfalso. exact (H t Ht E).
Qed.

Lemma unlink_forest h F n :
  Forall (tree_ok h None None None) F -> NoDup (addrs_f F) -> n ∈ addrs_f F ->
  exists h1 tn par' pv' nx',
    unlink h n = Ok h1 /\ root tn = n /\ tree_ok h1 par' pv' nx' tn /\
    Forall (tree_ok h1 None None None) (prune n F) /\
    addrs_f F ≡ₚ addrs_f (prune n F) ++ addrs tn /\
    (forall a, a ∉ addrs_f F -> h1 !! a = h !! a) /\
    (forall a x1, h1 !! a = Some x1 -> exists x, h !! a = Some x /\ n_id x = n_id x1) /\
    (forall a x, h !! a = Some x -> exists x1, h1 !! a = Some x1).
Proof.
  intros Hlinks Hnd Hn.
  apply elem_of_flat_map in Hn as [t [Ht Hnt]].
  apply elem_of_list_split in Ht as [F1 [F2 ->]].
  destruct (NoDup_flat_map_split _ _ _ _ Hnd) as (Hnd1 & Hndt & Hnd2 & Hdt & Hd12).
  destruct (Hdt n Hnt) as [Hn1 Hn2].
  apply Forall_app in Hlinks as [Hl1 Hl2]. apply Forall_cons in Hl2 as [Hokt Hl2].
  assert (Hr1 : forall t', t' ∈ F1 -> root t' <> n).
  { intros t' Ht' E. apply Hn1. apply elem_of_flat_map. exists t'. split; [auto|]. rewrite <- E. apply root_in. }
  assert (Hr2 : forall t', t' ∈ F2 -> root t' <> n).
  { intros t' Ht' E. apply Hn2. apply elem_of_flat_map. exists t'. split; [auto|]. rewrite <- E. apply root_in. }
  assert (Hid1 : map (prune_t n) F1 = F1).
  { apply map_id_on. intros t' Ht'. apply prune_t_id. intros Hin. apply Hn1. apply elem_of_flat_map. eauto. }
  assert (Hid2 : map (prune_t n) F2 = F2).
  { apply map_id_on. intros t' Ht'. apply prune_t_id. intros Hin. apply Hn2. apply elem_of_flat_map. eauto. }
  unfold prune, drop_root. rewrite filter_app'. simpl List.filter.
  fold (drop_root n F1). fold (drop_root n F2). rewrite (drop_root_none n F1 Hr1), (drop_root_none n F2 Hr2).
  destruct (Pos.eqb_spec (root t) n) as [E|E]; simpl.
  - (* n is a root: nothing to unlink *)
    destruct (tree_ok_root _ _ _ _ _ Hokt) as [xn [Hxn (Hp & _)]]. rewrite E in Hxn.
    exists h, t, None, None, None. rewrite (unlink_root h n xn Hxn Hp).
    rewrite map_app, Hid1, Hid2.
    split; [reflexivity|split; [exact E|split; [exact Hokt|split; [apply Forall_app; auto|split; [|split; [auto|split; [eauto|eauto]]]]]]].
    unfold addrs_f. rewrite !flat_map_app. simpl. rewrite <- app_assoc.
    apply Permutation_app_head. apply Permutation_app_comm.
  - destruct (prune_path n t Hnt E Hndt) as [tn [HP Hrn]].
    destruct (prune_facts h n tn _ _ HP _ _ _ Hokt Hndt)
      as (xn & q & xq & Hxn & Hpar & Hxq & Hqn & Hfi & Hla & Hpv & Hnx & Hab & Hqt & Hpvt & Hnxt).
    destruct (unlink_spec h n xn q xq Hxn Hpar Hxq Hqn Hfi Hla Hpv Hnx Hab)
      as (h1 & Hun & Hq1 & Hpv1 & Hnx1 & Hother).
    destruct (prune_ok h h1 n tn xn q xq Hxn Hpar Hxq Hq1 Hpv1 Hnx1 Hother _ _ HP _ _ _ Hokt Hndt) as [Hokt' Hoktn].
    assert (Hframe : forall a, a ∉ addrs t -> h1 !! a = h !! a).
    { intros a Ha. apply Hother.
      - intros ->. contradiction.
      - intros E'. rewrite <- E' in Hpvt. contradiction.
      - intros E'. rewrite <- E' in Hnxt. contradiction. }
    exists h1, tn, (Some q), (n_prev xn), (n_next xn).
    rewrite map_app. simpl map. rewrite Hid1, Hid2.
    split; [exact Hun|split; [exact Hrn|split; [exact Hoktn|split; [|split; [|split; [|split]]]]]].
    + apply Forall_app. split; [|apply Forall_cons; split; [exact Hokt'|]].
      * eapply forest_frame; [exact Hl1|]. intros a Ha. apply Hframe. intros Hat. destruct (Hdt a Hat). contradiction.
      * eapply forest_frame; [exact Hl2|]. intros a Ha. apply Hframe. intros Hat. destruct (Hdt a Hat). contradiction.
    + unfold addrs_f. rewrite !flat_map_app. simpl. rewrite (Prune_perm _ _ _ _ HP).
      rewrite <- !app_assoc. apply Permutation_app_head. apply Permutation_app_head. apply Permutation_app_comm.
    + intros a Ha. apply Hframe. intros Hat. apply Ha. unfold addrs_f. rewrite flat_map_app. simpl.
      apply elem_of_app. right. apply elem_of_app. auto.
    + intros a x1 Hx1. destruct (decide (a = q)) as [->|Haq].
      { rewrite Hq1 in Hx1. inversion Hx1; subst. eauto. }
      destruct (decide (Some a = n_prev xn)) as [E1|E1].
      { symmetry in E1. destruct (Hpv a E1) as (_ & _ & xa & Hxa). rewrite (Hpv1 a xa E1 Hxa) in Hx1. inversion Hx1; subst. eauto. }
      destruct (decide (Some a = n_next xn)) as [E2|E2].
      { symmetry in E2. destruct (Hnx a E2) as (_ & _ & xa & Hxa). rewrite (Hnx1 a xa E2 Hxa) in Hx1. inversion Hx1; subst. eauto. }
      rewrite (Hother a Haq E1 E2) in Hx1. eauto.
    + intros a x Hx. destruct (decide (a = q)) as [->|Haq]; [eauto|].
      destruct (decide (Some a = n_prev xn)) as [E1|E1]; [symmetry in E1; eauto|].
      destruct (decide (Some a = n_next xn)) as [E2|E2]; [symmetry in E2; eauto|].
      rewrite (Hother a Haq E1 E2). eauto.
Qed.

(* ---- IDs written by recycle --------------------------------------------------------------------------------- *)
Lemma blank_all_ids l : forall h id, NoDup l ->
  NoDup (map (id_of (blank_all h id l)) l) /\
  Forall (fun v => (id < v <= id + Z.of_nat (length l))%Z) (map (id_of (blank_all h id l)) l).
Proof.
  induction l as [|a r IH]; intros h id Hnd; [split; constructor|].
  apply NoDup_cons in Hnd as [Ha Hnd]. simpl.
  destruct (IH (<[a:=blank (id + 1)]> h) (id + 1)%Z Hnd) as [IH1 IH2].
  assert (Eid : id_of (blank_all (<[a:=blank (id + 1)]> h) (id + 1) r) a = (id + 1)%Z).
  { unfold id_of. rewrite blank_all_notin by exact Ha. rewrite lookup_insert. reflexivity. }
  rewrite Eid. split.
  - apply NoDup_cons. split; [|exact IH1]. intros Hin. rewrite Forall_forall in IH2. specialize (IH2 _ Hin). lia.
  - constructor; [lia|]. eapply List.Forall_impl; [|exact IH2]. intros v Hv. simpl in Hv. lia.
Qed.

(* ---- RemoveAndReleaseTree -------------------------------------------------------------------------------------- *)
Lemma rep_remove caching s F acq n :
  Rep caching s F -> AcqInv s acq -> pre_b caching s F (ORemove n) = true ->
  exists s', remove_and_release caching (fuel_of s) s n = Ok s' /\
    Rep caching s' (prune n F) /\ AcqInv s' acq.
Proof.
  intros HR (HA1 & HA2 & HA3) Hpre. simpl in Hpre. apply mem_spec in Hpre.
  pose proof (R_nodup _ _ _ HR) as Hnd. apply NoDup_app in Hnd as (HndF & HdFP & Hndpool).
  destruct (unlink_forest (heap s) F n (R_links _ _ _ HR) HndF Hpre)
    as (h1 & tn & par' & pv' & nx' & Hun & Hrn & Hoktn & Hlinks1 & Hperm & Hout & Hidrec & Hdom).
  set (G := prune n F) in *.
  unfold remove_and_release. rewrite Hun. simpl.
  assert (HndGtn : NoDup (addrs_f G ++ addrs tn)) by (rewrite <- Hperm; exact HndF).
  apply NoDup_app in HndGtn as (HndG & HdGtn & Hndtn).
  assert (HsubG : forall a, a ∈ addrs_f G -> a ∈ addrs_f F) by (intros a Ha; rewrite Hperm; apply elem_of_app; auto).
  assert (Hsubtn : forall a, a ∈ addrs tn -> a ∈ addrs_f F) by (intros a Ha; rewrite Hperm; apply elem_of_app; auto).
  assert (Hids1 : forall a, id_of h1 a = id_of (heap s) a).
  { intros a. unfold id_of. destruct (h1 !! a) as [x1|] eqn:E1.
    - destruct (Hidrec a x1 E1) as [x [Hx Hid]]. rewrite Hx. auto.
    - destruct (heap s !! a) as [x|] eqn:E; [|reflexivity]. destruct (Hdom a x E) as [x1 Hx1]. congruence. }
  assert (Hpool1 : forall a, a ∈ pool s -> h1 !! a = heap s !! a).
  { intros a Ha. apply Hout. intros HaF. apply (HdFP a HaF Ha). }
  (* the IDs of the surviving live nodes and of the old pool are still pairwise distinct *)
  assert (HidsG : NoDup (map (id_of (heap s)) (addrs_f G ++ pool s))).
  { pose proof (R_ids _ _ _ HR) as Hn. rewrite Hperm in Hn.
    rewrite <- app_assoc in Hn. rewrite map_app in Hn. rewrite map_app.
    apply NoDup_app in Hn as (Hn1 & Hn2 & Hn3). rewrite map_app in Hn3. apply NoDup_app in Hn3 as (_ & _ & Hn3).
    apply NoDup_app. split; [exact Hn1|split; [|exact Hn3]].
    intros v Hv Hv'. apply (Hn2 v Hv). rewrite map_app. apply elem_of_app. auto. }
  destruct caching.
  - (* pooling on: the subtree is reset and pooled *)
    assert (Hfuel : (2 * tsize tn <= fuel_of s)%nat).
    { unfold fuel_of. rewrite tsize_length.
      pose proof (nodup_below_length (addrs tn) (next_addr s) Hndtn) as Hlen.
      assert (Hlt : forall a, a ∈ addrs tn -> (a < next_addr s)%positive).
      { intros a Ha. apply (R_bound _ _ _ HR). apply elem_of_app. left. auto. }
      specialize (Hlen Hlt). lia. }
    rewrite <- Hrn.
    rewrite (recycle_spec tn (fuel_of s) (with_heap s h1) par' pv' nx' Hoktn Hndtn Hfuel).
    eexists. split; [reflexivity|].
    set (l := postorder tn).
    assert (Hlperm : l ≡ₚ addrs tn) by apply postorder_perm.
    assert (Hndl : NoDup l) by (rewrite Hlperm; exact Hndtn).
    assert (Hl_F : forall a, a ∈ l -> a ∈ addrs_f F) by (intros a Ha; apply Hsubtn; rewrite <- Hlperm; exact Ha).
    assert (Hl_G : forall a, a ∈ addrs_f G -> a ∉ l) by (intros a Ha Hal; rewrite Hlperm in Hal; apply (HdGtn a Ha Hal)).
    assert (Hl_pool : forall a, a ∈ pool s -> a ∉ l) by (intros a Ha Hal; apply (HdFP a (Hl_F a Hal) Ha)).
    destruct (blank_all_ids l h1 (next_id s) Hndl) as [Hnew1 Hnew2].
    assert (Hold : forall a, a ∉ l -> id_of (blank_all h1 (next_id s) l) a = id_of (heap s) a).
    { intros a Ha. unfold id_of at 1. rewrite blank_all_notin by exact Ha. apply Hids1. }
    assert (Hold_le : forall a, a ∈ addrs_f G ++ pool s -> (id_of (heap s) a <= next_id s)%Z).
    { intros a Ha. eapply rep_id_le; [exact HR|]. apply elem_of_app in Ha as [Ha|Ha]; apply elem_of_app; auto. }
    split; [split; simpl|split; [exact HA1|split]]; simpl.
    + eapply forest_frame; [exact Hlinks1|]. intros a Ha. apply blank_all_notin. auto.
    + assert (Hp : addrs_f G ++ rev l ++ pool s ≡ₚ addrs_f F ++ pool s).
      { rewrite Hperm, <- app_assoc. apply Permutation_app_head. apply Permutation_app_tail.
        rewrite <- Hlperm. symmetry. apply Permutation_rev. }
      rewrite Hp. apply (R_nodup _ _ _ HR).
    + intros a Ha. apply elem_of_app in Ha as [Ha|Ha].
      * apply elem_of_list_In in Ha. apply in_rev in Ha. apply elem_of_list_In in Ha.
        destruct (blank_all_in l h1 (next_id s) a Ha) as [id' [_ Hid']]. eauto.
      * destruct (R_blank _ _ _ HR a Ha) as [id Hid]. exists id.
        rewrite blank_all_notin by auto. rewrite Hpool1 by exact Ha. exact Hid.
    + intros a Ha. apply (R_bound _ _ _ HR). apply elem_of_app in Ha as [Ha|Ha]; [apply elem_of_app; auto|].
      apply elem_of_app in Ha as [Ha|Ha]; apply elem_of_app; [left|auto].
      apply Hl_F. apply elem_of_list_In in Ha. apply in_rev in Ha. apply elem_of_list_In. exact Ha.
    + intros a Ha.
      assert (HaF : a ∉ addrs_f F).
      { intros HaF. pose proof (R_bound _ _ _ HR a (proj2 (elem_of_app _ _ _) (or_introl HaF))). lia. }
      rewrite blank_all_notin by (intros Hal; apply HaF; auto). rewrite Hout by exact HaF. apply (R_dom _ _ _ HR a Ha).
    + intros a x Hx. destruct (decide (a ∈ l)) as [Hal|Hal].
      * destruct (blank_all_in l h1 (next_id s) a Hal) as [id' [Hr' Hid']]. rewrite Hid' in Hx. inversion Hx; subst. simpl. lia.
      * rewrite blank_all_notin in Hx by exact Hal. destruct (Hidrec a x Hx) as [x0 [Hx0 Hid]].
        pose proof (R_idle _ _ _ HR a x0 Hx0). lia.
    + (* IDs: new ones are above the old counter, old ones are unchanged *)
      assert (Hp : addrs_f G ++ rev l ++ pool s ≡ₚ l ++ (addrs_f G ++ pool s)).
      { rewrite (Permutation_app_comm (addrs_f G) (rev l ++ pool s)), <- app_assoc.
        rewrite <- (Permutation_rev l). apply Permutation_app_head. apply Permutation_app_comm. }
      rewrite Hp, map_app. apply NoDup_app. split; [exact Hnew1|split].
      * intros v Hv Hv'. rewrite Forall_forall in Hnew2. specialize (Hnew2 v Hv).
        apply elem_of_list_fmap in Hv' as [a [-> Ha]].
        rewrite Hold in Hnew2.
        -- specialize (Hold_le a Ha). lia.
        -- apply elem_of_app in Ha as [Ha|Ha]; auto.
      * rewrite (map_ext_elem _ (id_of (heap s))); [exact HidsG|].
        intros a Ha. apply Hold. apply elem_of_app in Ha as [Ha|Ha]; auto.
    + discriminate.
    + intros i Hi. specialize (HA2 i Hi). lia.
    + intros a Ha. apply elem_of_app in Ha as [Ha|Ha].
      * apply elem_of_list_In in Ha. apply in_rev in Ha. apply elem_of_list_In in Ha.
        intros Hin. specialize (HA2 _ Hin).
        rewrite Forall_forall in Hnew2.
        assert (Hv : id_of (blank_all h1 (next_id s) l) a ∈ map (id_of (blank_all h1 (next_id s) l)) l)
          by (apply elem_of_list_fmap; eauto).
        specialize (Hnew2 _ Hv). lia.
      * rewrite Hold by auto. apply (HA3 a Ha).
  - (* pooling off: the subtree is simply dropped *)
    eexists. split; [reflexivity|].
    pose proof (R_nocache _ _ _ HR eq_refl) as Hpool.
    split; [split; simpl|split; [exact HA1|split]]; simpl.
    + exact Hlinks1.
    + rewrite Hpool, app_nil_r. exact HndG.
    + rewrite Hpool. intros a Ha. inversion Ha.
    + intros a Ha. apply (R_bound _ _ _ HR). apply elem_of_app in Ha as [Ha|Ha]; apply elem_of_app; auto.
    + intros a Ha.
      assert (HaF : a ∉ addrs_f F).
      { intros HaF. pose proof (R_bound _ _ _ HR a (proj2 (elem_of_app _ _ _) (or_introl HaF))). lia. }
      rewrite Hout by exact HaF. apply (R_dom _ _ _ HR a Ha).
    + intros a x Hx. destruct (Hidrec a x Hx) as [x0 [Hx0 Hid]]. rewrite <- Hid. apply (R_idle _ _ _ HR a x0 Hx0).
    + rewrite (map_ext_elem _ (id_of (heap s))) by (intros; apply Hids1). exact HidsG.
    + intros _. exact Hpool.
    + exact HA2.
    + intros a Ha. rewrite Hids1. apply (HA3 a Ha).
Qed.
