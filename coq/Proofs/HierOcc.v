(* C05 proofs, part 8: the extracted min/max resolution rules give the documented defaults. *)
From Coq Require Import List Arith Bool ZArith Lia.
Import ListNotations.
From OV Require Import Gen.Occurs Model.Hier Model.HierSpec Model.HierOcc.

Lemma occurs_defaults_lemma :
  resolve_min occ_csv2 None = 0 /\ resolve_max occ_csv2 None = None /\
  resolve_min occ_fixedlength2 None = 0 /\ resolve_max occ_fixedlength2 None = None /\
  resolve_min occ_edi None = 1 /\ resolve_max occ_edi None = Some 1 /\
  forall r, In r [occ_csv2; occ_fixedlength2; occ_edi] ->
    (forall z, (z < 0)%Z -> resolve_max r (Some z) = None) /\
    (forall z, (0 <= z)%Z -> resolve_max r (Some z) = Some (Z.to_nat z) /\ resolve_min r (Some z) = Z.to_nat z).
Proof.
  repeat (split; [reflexivity|]).
  intros r Hr. assert (Hn : occ_neg_unbounded r = true).
  { simpl in Hr. destruct Hr as [<-|[<-|[<-|[]]]]; reflexivity. }
  split; intros z Hz; unfold resolve_max, resolve_min.
  - apply Z.ltb_lt in Hz. rewrite Hz, Hn. reflexivity.
  - assert (Hge : (z <? 0)%Z = false) by (apply Z.ltb_ge; exact Hz). rewrite Hge. split; reflexivity.
Qed.
