From Coq Require Import List NArith Bool Arith Lia.
From Coq.Strings Require Import Byte.
Import ListNotations.
From OV Require Import Base.Bytes Base.Cases Base.Utf8 Model.Chunk Proofs.Chunk Proofs.ChunkLines.

Ltac boolN :=
  repeat match goal with
  | H : (_ <? _)%N = true |- _ => apply N.ltb_lt in H
  | H : (_ <? _)%N = false |- _ => apply N.ltb_ge in H
  | H : (_ =? _)%N = true |- _ => apply N.eqb_eq in H
  | H : (_ =? _)%N = false |- _ => apply N.eqb_neq in H
  end.

Lemma decode_rune_stable d rest :
  (4 <= length d \/ full_rune d = true) -> decode_rune (d ++ rest) = decode_rune d.
Proof.
  intros [H|H].
  - destruct d as [|b0 [|b1 [|b2 [|b3 r]]]]; simpl in H; try lia. reflexivity.
  - destruct d as [|b0 [|b1 [|b2 [|b3 r]]]]; try reflexivity; [discriminate| | |];
      unfold full_rune, decode_rune in *; cbn [app length] in *;
      set (x := b2n b0) in *;
      destruct (x <? 128)%N eqn:E1; try reflexivity;
      destruct (x <? 194)%N eqn:E2; try reflexivity;
      destruct (x <? 224)%N eqn:E3;
      destruct (x <? 240)%N eqn:E4;
      destruct (x <? 245)%N eqn:E5; cbn [Nat.leb] in H; try discriminate H; try reflexivity;
      try (boolN; lia);
      destruct (x =? 224)%N eqn:F1; destruct (x =? 237)%N eqn:F2;
      destruct (x =? 240)%N eqn:F3; destruct (x =? 244)%N eqn:F4;
      try (boolN; lia);
      try (destruct (in_range _ _ b1); cbn [negb andb] in *; try discriminate H; try reflexivity;
           try (destruct (in_range _ _ b2); cbn [negb andb] in *; try discriminate H; reflexivity)).
  all: destruct rest; try reflexivity.
  all: try (match goal with |- context [in_range 128 191 ?b && _] => destruct (in_range 128 191 b) eqn:G end; cbn [negb andb] in *; try discriminate H; try reflexivity).
  all: destruct rest; reflexivity.
Qed.

Lemma decode_rune_size d : d <> [] -> 1 <= snd (decode_rune d) <= length d.
Proof.
  intro Hd. destruct d as [|b0 [|b1 [|b2 [|b3 r]]]]; [congruence| | | |];
    unfold decode_rune; cbn [length];
    repeat match goal with |- context [if ?c then _ else _] => destruct c end; cbn [snd]; lia.
Qed.

Lemma dropn_app_exact {A} (p l : list A) : dropn (length l) (p ++ l) = p.
Proof.
  unfold dropn. rewrite app_length. replace (length p + length l - length l) with (length p) by lia.
  apply firstn_app_exact.
Qed.

Lemma lastn_app_exact {A} (p l : list A) : lastn (length l) (p ++ l) = l.
Proof.
  unfold lastn. rewrite app_length. replace (length p + length l - length l) with (length p) by lia.
  apply skipn_app_exact.
Qed.

Section BomProofs.
  Variable St : Type.
  Variable sread : St -> nat -> rres * St.
  Variable Rep : St -> bytes -> tail -> Prop.
  Variable wt : St -> nat.
  Variable lead : St -> nat.
  Hypothesis Hok : reader_ok St sread Rep wt lead.
  Variable N : nat.
  Hypothesis HN : 4 <= N.

  Notation BR := (BR St Rep N).

  Lemma BR_init x data t : Rep x data t -> BR (b_init, x) (data, t).
  Proof. intro H. unfold Chunk.BR. simpl. split; [lia|]. eauto. Qed.

  (* the fill loop of ReadRune: ends with 4 buffered bytes, a full rune, or the reader's error *)
  Lemma read_rune_fill_spec fuel : forall b x data t,
    BR (b, x) (data, t) -> 4 <= length (b_data b) + fuel ->
    exists b' x', read_rune_fill St sread N fuel b x = Ok (b', x') /\ BR (b', x') (data, t) /\
                  wt x' <= wt x /\ need_more_rune N b' = false /\
                  (b_pre b = [] -> b_pre b' = []) /\ b_lastrune b' = b_lastrune b.
  Proof.
    induction fuel as [|k IH]; intros b x data t HBR Hlen.
    - cbn [Chunk.read_rune_fill].
      assert (Hn : need_more_rune N b = false).
      { unfold need_more_rune. destruct (Nat.ltb_spec (length (b_data b)) 4); [lia|reflexivity]. }
      rewrite Hn. eauto 10.
    - cbn [Chunk.read_rune_fill]. destruct (need_more_rune N b) eqn:Hn; [|eauto 10].
      unfold need_more_rune in Hn. apply andb_prop in Hn as [Hn H4]. apply andb_prop in Hn as [Hn H3].
      apply andb_prop in Hn as [H1 H2].
      assert (He : b_err b = None) by (destruct (b_err b); [discriminate|reflexivity]).
      apply Nat.ltb_lt in H4.
      destruct HBR as [HdN HBR]. rewrite He in HBR. destruct HBR as (rest&HR&->).
      destruct (fill_spec St sread Rep wt lead Hok N HN b x rest t He HR H4)
        as (b'&x'&Hfill&Hp&Hlr&HBR'&Hw&Hprog&(c&Hc)).
      rewrite Hfill.
      destruct (b_err b') eqn:Ee'.
      + (* error pending: the loop stops at once *)
        assert (Hn' : need_more_rune N b' = false).
        { unfold need_more_rune. rewrite Ee'. cbn [is_none]. rewrite andb_false_r. reflexivity. }
        exists b', x'. split; [destruct k; cbn [Chunk.read_rune_fill]; rewrite Hn'; reflexivity|].
        split; [exact HBR'|]. repeat split; auto.
      + destruct (Hprog eq_refl) as [Hlonger Hwt].
        destruct (IH b' x' (b_data b ++ rest) t HBR' ltac:(lia)) as (b2&x2&A&B&C&D&E&F).
        exists b2, x2. split; [exact A|]. split; [exact B|]. split; [lia|]. split; [exact D|]. split; [intro; apply E; exact Hp|congruence].
  Qed.

  (* ios.StripBOM over any well-behaved reader = a_strip_bom of the stream *)
  Theorem strip_bom_spec x data t :
    Rep x data t ->
    match a_strip_bom (data, t) with
    | inl e => exists x', strip_bom St sread N x = Ok (inl e, x')
    | inr a' => exists b x', strip_bom St sread N x = Ok (inr b, x') /\ BR (b, x') a' /\ wt x' <= wt x
    end.
  Proof.
    intro HR. unfold Chunk.strip_bom, Chunk.read_rune.
    destruct (read_rune_fill_spec 5 b_init x data t (BR_init x data t HR) ltac:(simpl; lia))
      as (b&x1&Hf&HBR&Hw&Hn&Hp&Hl).
    rewrite Hf. specialize (Hp eq_refl).
    destruct HBR as [HdN HBR]. unfold a_strip_bom.
    destruct (b_data b) as [|c0 d] eqn:Ed.
    - (* nothing buffered: the reader's error *)
      unfold need_more_rune in Hn. rewrite Ed in Hn. cbn [length full_rune negb andb Nat.ltb Nat.leb] in Hn.
      destruct (b_err b) as [e|] eqn:Ee.
      2:{ cbn [is_none andb] in Hn. destruct N; [lia|discriminate]. }
      destruct HBR as (HR'&->&->). cbn [app].
      destruct (tail_err t) eqn:Et; try (eexists; reflexivity).
      exists b_init, x1. split; [reflexivity|]. split; [|exact Hw].
      unfold Chunk.BR. simpl. split; [lia|]. exists []. split; [exact HR'|reflexivity].
    - (* a rune is decoded from the buffered bytes *)
      assert (Hdata : exists rest, data = (c0 :: d) ++ rest /\
                                   match b_err b with None => Rep x1 rest t
                                   | Some e => rest = [] /\ Rep x1 [] (tail_next t) /\ e = tail_err t end).
      { destruct (b_err b); [destruct HBR as (A&B&C); exists []; rewrite app_nil_r; auto
                            |destruct HBR as (r&A&B); eauto]. }
      destruct Hdata as (rest&->&Hrest).
      assert (Hstable : decode_rune ((c0 :: d) ++ rest) = decode_rune (c0 :: d)).
      { destruct (b_err b) eqn:Ee.
        - destruct Hrest as (->&_). rewrite app_nil_r. reflexivity.
        - apply decode_rune_stable. unfold need_more_rune in Hn. rewrite Ed, Ee in Hn.
          cbn [is_none] in Hn. rewrite andb_true_r in Hn.
          destruct (Nat.ltb_spec (length (c0 :: d)) 4) as [H4|H4]; [|left; exact H4].
          destruct (Nat.ltb_spec (length (c0 :: d)) N) as [_|]; [|lia].
          rewrite andb_true_r in Hn. cbn [andb] in Hn. right.
          destruct (full_rune (c0 :: d)); [reflexivity|discriminate]. }
      cbn [app] in Hstable |- *. rewrite Hstable.
      pose proof (decode_rune_size (c0 :: d) ltac:(discriminate)) as Hsz.
      destruct (decode_rune (c0 :: d)) as [r size] eqn:Edec. cbn [snd] in Hsz.
      destruct (r =? 65279)%N eqn:Ebom.
      + (* BOM: skipped *)
        unfold BOM. rewrite Ebom. eexists _, _. split; [reflexivity|]. split; [|exact Hw].
        unfold Chunk.BR. cbn [b_data b_err]. split; [rewrite skipn_length; lia|].
        change (c0 :: d ++ rest) with ((c0 :: d) ++ rest). rewrite skipn_app_le by lia.
        destruct (b_err b).
        * destruct Hrest as (->&A&B). rewrite app_nil_r. auto.
        * eauto.
      + (* anything else: UnreadRune *)
        unfold BOM. rewrite Ebom. unfold unread_rune. cbn [b_lastrune b_pre b_data b_err].
        rewrite Hp. cbn [app].
        assert (Hlen : length (firstn size (c0 :: d)) = size) by (rewrite firstn_length; lia).
        destruct (Nat.ltb_spec (length (firstn size (c0 :: d))) size) as [|_]; [lia|].
        cbn [snd]. eexists _, _. split; [reflexivity|]. split; [|exact Hw].
        unfold dropn, lastn. rewrite Hlen, Nat.sub_diag. cbn [firstn skipn].
        rewrite firstn_skipn.
        unfold Chunk.BR. cbn [b_data b_err]. split; [exact HdN|].
        destruct (b_err b).
        * destruct Hrest as (->&A&B). rewrite app_nil_r. auto.
        * eauto.
  Qed.
End BomProofs.
