(* C05 proofs, part 2: the stack of the machine is the defunctionalised continuation of the
   recursive matcher.  [Kst fin st] is what the recursive matcher still produces from machine
   state st; one machine step preserves it (hstep_K), hence every terminating run of the machine
   yields exactly the specification's result (run_K). *)
From Coq Require Import List Arith Bool Lia.
Import ListNotations.
From OV Require Import Base.Cases Model.Hier Model.HierSpec Proofs.HierBase.

Global Arguments occ_loop : simpl never.

Definition res := (list inst * term)%type.
Definition app_res (e : list inst) (r : res) : res := (e ++ fst r, snd r).
Definition mbind {A} (r : mres A) (k : A -> list unt -> res) : res :=
  match r with MErr e t => (e, t) | MOk e a us => app_res e (k a us) end.
Definition tl_of (t : option inst) : list inst := match t with Some i => [i] | None => [] end.

Lemma app_res_nil : forall r, app_res [] r = r.
Proof. intros [a b]. reflexivity. Qed.
Lemma app_res_app : forall e1 e2 r, app_res e1 (app_res e2 r) = app_res (e1 ++ e2) r.
Proof. intros e1 e2 [a b]. unfold app_res. simpl. rewrite app_assoc. reflexivity. Qed.
Lemma snd_app_res : forall e r, snd (app_res e r) = snd r.
Proof. reflexivity. Qed.

Lemma mbind_ext_strong : forall A (r : mres A) k1 k2,
  (forall e a us, r = MOk e a us -> k1 a us = k2 a us) -> mbind r k1 = mbind r k2.
Proof. intros A [e a us|e t] k1 k2 H; simpl; [rewrite (H e a us eq_refl)|]; reflexivity. Qed.
Lemma mbind_ext : forall A (r : mres A) k1 k2,
  (forall a us, k1 a us = k2 a us) -> mbind r k1 = mbind r k2.
Proof. intros. apply mbind_ext_strong. auto. Qed.

Section Sim.
  Variable try_leaf : leaf -> list unt -> option nat.
  Notation occl := (occ_loop try_leaf (sp_inst try_leaf)).
  Notation seql := (seq_loop try_leaf (sp_inst try_leaf)).
  Notation WF := (WF try_leaf).

  (* ---- equations of the recursive matcher under mbind ---------------------------------------- *)
  Lemma mbind_seq_nil : forall us k, mbind (seql [] us) k = k [] us.
  Proof. intros. simpl. apply app_res_nil. Qed.

  Lemma mbind_seq_cons : forall d ds us k,
    mbind (seql (d :: ds) us) k =
    mbind (occl d (S (length us)) 0 us) (fun is1 us1 =>
      mbind (seql ds us1) (fun is2 us2 => k (is1 ++ is2) us2)).
  Proof.
    intros. rewrite seq_loop_cons.
    destruct (occl d (S (length us)) 0 us) as [e1 is1 us1|e1 t]; [|reflexivity].
    simpl. destruct (seql ds us1) as [e2 is2 us2|e2 t]; simpl.
    - rewrite app_res_app. reflexivity.
    - unfold app_res. reflexivity.
  Qed.

  Lemma mbind_occ_S : forall d f n us k,
    mbind (occl d (S f) n us) k =
    if lt_max n (d_max d) && starts try_leaf d us then
      mbind (sp_inst try_leaf d us) (fun i us' =>
        app_res (if d_tgt d then [i] else [])
          (mbind (occl d f (S n) us') (fun is us'' => k (i :: is) us'')))
    else if n <? d_min d then ([], TErrMin (d_name d) n) else k [] us.
  Proof.
    intros. rewrite occ_loop_S.
    destruct (lt_max n (d_max d) && starts try_leaf d us).
    - destruct (sp_inst try_leaf d us) as [e i us'|e t]; [|reflexivity]. simpl.
      destruct (occl d f (S n) us') as [e2 is us''|e2 t]; simpl.
      + rewrite !app_res_app. destruct (d_tgt d); rewrite <- ?app_assoc; simpl; rewrite ?app_nil_r; reflexivity.
      + unfold app_res. simpl. destruct (d_tgt d); rewrite <- ?app_assoc; reflexivity.
    - destruct (n <? d_min d); [reflexivity|]. simpl. apply app_res_nil.
  Qed.

  Lemma mbind_inst : forall d us k n,
    (if d_grp d then n = 0 else try_leaf (d_leaf d) us = Some n) ->
    mbind (sp_inst try_leaf d us) k =
    mbind (seql (d_kids d) (skipn n us)) (fun ks us' =>
      k (I (d_name d) (map u_id (firstn n us)) ks) us').
  Proof.
    intros [nm g t mn mx lf kids] us k n H. simpl in *. destruct g.
    - subst n. simpl. destruct (seql kids us); reflexivity.
    - rewrite H. destruct (seql kids (skipn n us)); reflexivity.
  Qed.

  (* after an instance, the fuel of the remaining occurrences can be re-based *)
  Lemma mbind_inst_fuel : forall d us n (F : inst -> list unt -> mres (list inst) -> res),
    WF d -> starts try_leaf d us = true ->
    mbind (sp_inst try_leaf d us) (fun i us' => F i us' (occl d (length us) n us')) =
    mbind (sp_inst try_leaf d us) (fun i us' => F i us' (occl d (S (length us')) n us')).
  Proof.
    intros d us n F Hd Hs. apply mbind_ext_strong. intros e a us' E.
    pose proof (sp_inst_shrinks try_leaf d Hd) as Hsh.
    destruct (Hsh _ _ _ _ E) as [_ Hlt]. specialize (Hlt Hs).
    rewrite (occ_loop_irrel try_leaf (sp_inst try_leaf) d Hsh (length us) (S (length us')) n us'); [reflexivity|lia|lia].
  Qed.

  (* ---- the continuation read off the stack ------------------------------------------------------ *)
  (* the terminal result once the root frame is done; it is told the root declaration *)
  Variable fin : decl -> list unt -> res.

  Fixpoint Kopen (opens : list entry) (ld : decl) (extra : list inst) (us : list unt) : res :=
    match opens with
    | [] => fin ld us
    | p :: b =>
        match e_node p with
        | None => ([], TPanic 0)
        | Some (I nm ids ks0) =>
            mbind (seql (skipn (S (e_cur p)) (d_kids (e_decl p))) us) (fun ks us1 =>
              let i := I nm ids (ks0 ++ extra ++ ks) in
              app_res (if d_tgt (e_decl p) then [i] else [])
                (mbind (occl (e_decl p) (S (length us1)) (S (e_occ p)) us1)
                   (fun is us2 => Kopen b (e_decl p) (i :: is) us2)))
        end
    end.

  Definition Ktop (stk : list entry) (us : list unt) : res :=
    match stk with
    | [] => ([], TPanic 0)
    | top :: opens =>
        mbind (occl (e_decl top) (S (length us)) (e_occ top) us) (fun is us1 => Kopen opens (e_decl top) is us1)
    end.

  Definition Kst (st : mstate) : res := app_res (tl_of (m_tgt st)) (Ktop (m_stk st) (m_rest st)).

  Lemma skipn_nth : forall A (l : list A) c k, nth_error l c = Some k -> skipn c l = k :: skipn (S c) l.
  Proof.
    induction l as [|x l IH]; intros [|c] k H; simpl in *; try discriminate.
    - congruence.
    - apply IH. exact H.
  Qed.

  Lemma Kopen_sibling : forall q b ld ld' extra us nq iq kq k,
    e_node q = Some (I nq iq kq) -> nth_error (d_kids (e_decl q)) (S (e_cur q)) = Some k ->
    Kopen (q :: b) ld extra us =
    mbind (occl k (S (length us)) 0 us) (fun is1 us1 =>
      Kopen (E (e_decl q) (Some (I nq iq (kq ++ extra))) (S (e_cur q)) (e_occ q) :: b) ld' is1 us1).
  Proof.
    intros q b ld ld' extra us nq iq kq k Hn Hk. cbn [Kopen e_node e_decl e_cur e_occ]. rewrite Hn.
    rewrite (skipn_nth _ _ _ _ Hk), mbind_seq_cons.
    apply mbind_ext. intros is1 us1. apply mbind_ext. intros is2 us2.
    rewrite <- !app_assoc. reflexivity.
  Qed.

  Lemma Kopen_last : forall q b ld extra us nq iq kq,
    e_node q = Some (I nq iq kq) -> length (d_kids (e_decl q)) <= S (e_cur q) ->
    Kopen (q :: b) ld extra us =
    app_res (if d_tgt (e_decl q) then [I nq iq (kq ++ extra)] else [])
      (mbind (occl (e_decl q) (S (length us)) (S (e_occ q)) us)
         (fun is us2 => Kopen b (e_decl q) (I nq iq (kq ++ extra) :: is) us2)).
  Proof.
    intros q b ld extra us nq iq kq Hn Hl. cbn [Kopen]. rewrite Hn.
    rewrite skipn_all2 by exact Hl. rewrite mbind_seq_nil. rewrite app_nil_r. reflexivity.
  Qed.

  Lemma Kopen_commit : forall q b ld ld' i is us,
    (exists nq iq kq, e_node q = Some (I nq iq kq)) ->
    Kopen (commit q (Some i) :: b) ld is us = Kopen (q :: b) ld' (i :: is) us.
  Proof.
    intros q b ld ld' i is us (nq & iq & kq & Hn). unfold commit. cbn [Kopen e_node e_decl e_cur e_occ add_kid]. rewrite Hn. cbn [add_kid].
    apply mbind_ext. intros ks us1. rewrite <- !app_assoc. reflexivity.
  Qed.

  (* ---- the invariant of loop-head states ---------------------------------------------------------- *)
  Definition has_node (p : entry) : Prop := exists nm ids ks, e_node p = Some (I nm ids ks).
  Definition is_bottom (p : entry) : Prop :=
    d_grp (e_decl p) = true /\ d_tgt (e_decl p) = false /\
    d_min (e_decl p) = 1 /\ d_max (e_decl p) = Some 1.

  (* the frames below the top: each is an instance in progress whose current child is the frame
     above it *)
  Fixpoint opens_ok (above : decl) (opens : list entry) : Prop :=
    match opens with
    | [] => True
    | p :: b =>
        has_node p /\ nth_error (d_kids (e_decl p)) (e_cur p) = Some above /\ WF (e_decl p) /\
        (b = [] -> is_bottom p) /\ opens_ok (e_decl p) b
    end.

  (* at most one target declaration on the path the stack describes *)
  Fixpoint tp (dl : list decl) : Prop :=
    match dl with
    | [] => True
    | x :: r => count_tgt x + length (filter d_tgt r) <= 1 /\ tp r
    end.

  Definition InvS (stk : list entry) : Prop :=
    match stk with
    | [] => False
    | top :: opens =>
        WF (e_decl top) /\ e_cur top = 0 /\ opens_ok (e_decl top) opens /\ tp (map e_decl stk) /\
        match opens with
        | [] => is_bottom top /\
                lt_max (e_occ top) (d_max (e_decl top)) = false /\ (e_occ top <? d_min (e_decl top)) = false
        | _ :: _ => lt_max (e_occ top) (d_max (e_decl top)) = true
        end
    end.

  Definition quiet (x : entry) : Prop := d_tgt (e_decl x) = false.

  Lemma count_kid : forall d k, In k (d_kids d) ->
    count_tgt k + (if d_tgt d then 1 else 0) <= count_tgt d.
  Proof.
    intros [n g t mn mx lf kids] k Hin. simpl in *.
    assert (count_tgt k <= fold_right (fun k n => count_tgt k + n) 0 kids).
    { induction kids as [|x r IH]; simpl in *; [tauto|]. destruct Hin as [->|Hin]; [lia|]. apply IH in Hin. lia. }
    destruct t; lia.
  Qed.

  Lemma count_tgt_self : forall d, (if d_tgt d then 1 else 0) <= count_tgt d.
  Proof. intros [n g t mn mx lf kids]. simpl. destruct t; lia. Qed.

  Lemma tp_push : forall k d r, In k (d_kids d) -> tp (d :: r) -> tp (k :: d :: r).
  Proof.
    intros k d r Hin Htp. split; [|exact Htp]. destruct Htp as [H _]. simpl.
    pose proof (count_kid d k Hin). destruct (d_tgt d); simpl; lia.
  Qed.

  Lemma tp_quiet : forall x r, tp (map e_decl (x :: r)) -> d_tgt (e_decl x) = true -> Forall quiet r.
  Proof.
    intros x r [H _] Ht. pose proof (count_tgt_self (e_decl x)) as Hc. rewrite Ht in Hc.
    assert (Hz : length (filter d_tgt (map e_decl r)) = 0) by (simpl in H; lia).
    clear H Hc. induction r as [|y r IH]; [constructor|]. simpl in Hz.
    destruct (d_tgt (e_decl y)) eqn:E; simpl in Hz; [discriminate|]. constructor; auto.
  Qed.

  Lemma nth_error_WF : forall d c k, WF d -> nth_error (d_kids d) c = Some k -> WF k.
  Proof.
    intros d c k Hd Hk. apply nth_error_In in Hk. pose proof (WF_kids try_leaf d Hd) as Hf.
    rewrite Forall_forall in Hf. auto.
  Qed.

  (* ---- recDone (with the unfolded recNext) against the continuation -------------------------------- *)
  Lemma rec_done_K : forall b p tgt us nm ids ks,
    e_node p = Some (I nm ids ks) -> WF (e_decl p) -> opens_ok (e_decl p) b ->
    tp (map e_decl (p :: b)) ->
    (tgt <> None -> Forall quiet (p :: b)) ->
    (b = [] -> is_bottom p) ->
    exists stk' tgt', rec_done p b tgt = ROk stk' tgt' /\ InvS stk' /\
      app_res (tl_of tgt') (Ktop stk' us) =
      app_res (tl_of tgt) (app_res (if d_tgt (e_decl p) then [I nm ids ks] else [])
        (mbind (occl (e_decl p) (S (length us)) (S (e_occ p)) us)
           (fun is us2 => Kopen b (e_decl p) (I nm ids ks :: is) us2))).
  Proof.
    induction b as [|q b' IH]; intros p tgt us nm ids ks Hn Hwf Hop Htp Hq Hbot.
    - (* only the root frame *)
      pose proof (Hbot eq_refl) as Hb0. destruct Hb0 as (Hgrp & Htg0 & Hmin & Hmax).
      assert (Htg : exists tgt1, (if d_tgt (e_decl p)
                 then match tgt with Some _ => inl P_TARGET_SET
                      | None => match e_node p with None => inl P_NODE_NIL | Some n => inr (Some n) end end
                 else inr tgt) = inr tgt1 /\
                 tl_of tgt1 = tl_of tgt ++ (if d_tgt (e_decl p) then [I nm ids ks] else [])).
      { destruct (d_tgt (e_decl p)) eqn:Et.
        - destruct tgt as [t|].
          + assert (Hf : Forall quiet [p]) by (apply Hq; discriminate). inversion Hf; subst. unfold quiet in *. congruence.
          + rewrite Hn. eexists. split; reflexivity.
        - eexists. split; [reflexivity|]. rewrite app_nil_r. reflexivity. }
      destruct Htg as (tgt1 & Htg & Htl).
      exists [E (e_decl p) (e_node p) 0 (S (e_occ p))], tgt1. split; [|split].
      + cbn [rec_done]. rewrite Htg. reflexivity.
      + cbn [InvS e_decl e_cur e_occ map]. repeat split; auto.
        * destruct Htp as [Htp _]. exact Htp.
        * rewrite Hmax. reflexivity.
        * rewrite Hmin. reflexivity.
      + cbn [Ktop e_decl e_occ Kopen]. rewrite Htl, <- app_res_app. reflexivity.
    - (* a parent frame q below *)
      destruct Hop as (Hqn & Hnth & Hwq & Hqbot & Hop').
      destruct Hqn as (nq & iq & kq & Hqn).
      assert (Htg : exists tgt1, (if d_tgt (e_decl p)
                 then match tgt with Some _ => inl P_TARGET_SET
                      | None => match e_node p with None => inl P_NODE_NIL | Some n => inr (Some n) end end
                 else inr tgt) = inr tgt1 /\
                 tl_of tgt1 = tl_of tgt ++ (if d_tgt (e_decl p) then [I nm ids ks] else []) /\
                 (tgt1 <> None -> Forall quiet (q :: b'))).
      { destruct (d_tgt (e_decl p)) eqn:Et.
        - destruct tgt as [t|].
          + assert (Hf : Forall quiet (p :: q :: b')) by (apply Hq; discriminate). inversion Hf; subst. unfold quiet in *. congruence.
          + rewrite Hn. eexists. split; [reflexivity|]. split; [reflexivity|]. intros _.
            eapply tp_quiet; eauto.
        - eexists. split; [reflexivity|]. split; [rewrite app_nil_r; reflexivity|].
          intros Hne. specialize (Hq Hne). inversion Hq; auto. }
      destruct Htg as (tgt1 & Htg & Htl & Hq1).
      cbn [rec_done]. rewrite Htg.
      remember (commit q (e_node p)) as q0 eqn:Eq0.
      assert (Hq0 : q0 = E (e_decl q) (Some (I nq iq (kq ++ [I nm ids ks]))) (e_cur q) (e_occ q)).
      { subst q0. unfold commit. rewrite Hn, Hqn. reflexivity. }
      rewrite Hn in Eq0.
      assert (Hrhs : forall X, app_res (tl_of tgt1) X =
                app_res (tl_of tgt) (app_res (if d_tgt (e_decl p) then [I nm ids ks] else []) X)).
      { intros X. rewrite Htl, app_res_app. reflexivity. }
      cbn [e_occ e_decl].
      destruct (lt_max (S (e_occ p)) (d_max (e_decl p))) eqn:Elt.
      + (* stays on top for a further instance *)
        eexists _, _. split; [reflexivity|]. split.
        * cbn [InvS e_decl e_cur e_occ]. split; [exact Hwf|]. split; [reflexivity|]. split.
          { rewrite Hq0. cbn [opens_ok].
            split; [eexists _, _, _; reflexivity|].
            split; [cbn; exact Hnth|]. split; [cbn; exact Hwq|].
            split; [unfold is_bottom; cbn; exact Hqbot|cbn; exact Hop']. }
          split; [|exact Elt].
          rewrite Hq0. exact Htp.
        * rewrite Hrhs. do 2 f_equal. cbn [Ktop e_decl e_occ]. apply mbind_ext. intros is us1.
          rewrite Eq0. apply Kopen_commit. eexists _, _, _. exact Hqn.
      + (* maximum reached: pop *)
        rewrite (max_then_min try_leaf _ _ Hwf Elt).
        assert (HK : mbind (occl (e_decl p) (S (length us)) (S (e_occ p)) us)
                       (fun is us2 => Kopen (q :: b') (e_decl p) (I nm ids ks :: is) us2) =
                     Kopen (q :: b') (e_decl p) [I nm ids ks] us).
        { rewrite mbind_occ_S, Elt. cbn [andb]. rewrite (max_then_min try_leaf _ _ Hwf Elt). reflexivity. }
        rewrite HK.
        assert (Hd0 : e_decl q0 = e_decl q) by (rewrite Hq0; reflexivity).
        assert (Hc0 : e_cur q0 = e_cur q) by (rewrite Hq0; reflexivity).
        rewrite Hd0, Hc0.
        destruct (S (e_cur q) <? length (d_kids (e_decl q))) eqn:Esib.
        * (* next sibling *)
          apply Nat.ltb_lt in Esib.
          destruct (nth_error (d_kids (e_decl q)) (S (e_cur q))) as [k|] eqn:Ek;
            [|apply nth_error_None in Ek; lia].
          eexists _, _. split; [reflexivity|]. split.
          { cbn [InvS e_decl e_cur e_occ]. split; [eapply nth_error_WF; eauto|]. split; [reflexivity|]. split.
            - cbn [opens_ok]. rewrite Hq0.
              split; [eexists _, _, _; reflexivity|].
              split; [cbn; exact Ek|]. split; [cbn; exact Hwq|].
              split; [unfold is_bottom; cbn; exact Hqbot|cbn; exact Hop'].
            - split; [|apply (lt_max_0 try_leaf); eapply nth_error_WF; eauto].
              cbn [map e_decl]. apply tp_push; [eapply nth_error_In; eauto|].
              destruct Htp as [_ Htp]. exact Htp. }
          { rewrite Hrhs. do 2 f_equal. cbn [Ktop e_decl e_occ].
            rewrite (Kopen_sibling q b' (e_decl p) k [I nm ids ks] us nq iq kq k Hqn Ek).
            rewrite Hq0. reflexivity. }
        * (* q's instance is complete as well *)
          apply Nat.ltb_ge in Esib.
          destruct (IH q0 tgt1 us nq iq (kq ++ [I nm ids ks])) as (stk' & tgt' & Hr & Hinv & HKr).
          { rewrite Hq0. reflexivity. }
          { rewrite Hd0. exact Hwq. }
          { rewrite Hd0. exact Hop'. }
          { rewrite Hq0. destruct Htp as [_ Htp]. exact Htp. }
          { intros Hne. specialize (Hq1 Hne). inversion Hq1 as [|? ? Hx Hy].
            constructor; [unfold quiet in *; rewrite Hd0; exact Hx | exact Hy]. }
          { intros Hb. specialize (Hqbot Hb). unfold is_bottom in *. rewrite Hq0. exact Hqbot. }
          exists stk', tgt'. split; [exact Hr|]. split; [exact Hinv|].
          rewrite HKr, Hrhs. do 2 f_equal. rewrite Hd0.
          rewrite (Kopen_last q b' (e_decl p) [I nm ids ks] us nq iq kq Hqn Esib).
          rewrite Hq0. reflexivity.
  Qed.

  (* one successful iteration of the occurrence loop, with the fuel re-based *)
  Lemma occ_step_K : forall d n us m k,
    WF d -> lt_max n (d_max d) = true -> starts try_leaf d us = true ->
    (if d_grp d then m = 0 else try_leaf (d_leaf d) us = Some m) ->
    mbind (occl d (S (length us)) n us) k =
    mbind (seql (d_kids d) (skipn m us)) (fun ks us' =>
      app_res (if d_tgt d then [I (d_name d) (map u_id (firstn m us)) ks] else [])
        (mbind (occl d (S (length us')) (S n) us')
           (fun is us'' => k (I (d_name d) (map u_id (firstn m us)) ks :: is) us''))).
  Proof.
    intros d n us m k Hd Hlt Hst Hm. rewrite mbind_occ_S, Hlt, Hst. cbn [andb].
    transitivity (mbind (sp_inst try_leaf d us) (fun i us' =>
        app_res (if d_tgt d then [i] else [])
          (mbind (occl d (S (length us')) (S n) us') (fun is us'' => k (i :: is) us'')))).
    - apply mbind_ext_strong. intros e a us' E.
      pose proof (sp_inst_shrinks try_leaf d Hd) as Hsh.
      destruct (Hsh _ _ _ _ E) as [_ Hl]. specialize (Hl Hst).
      rewrite (occ_loop_irrel try_leaf (sp_inst try_leaf) d Hsh (length us) (S (length us')) (S n) us'); [reflexivity|lia|lia].
    - rewrite (mbind_inst d us _ m Hm). reflexivity.
  Qed.

  (* ---- recNext ------------------------------------------------------------------------------------ *)
  Lemma rec_next_K : forall top q b us,
    InvS (top :: q :: b) -> starts try_leaf (e_decl top) us = false ->
    match rec_next (top :: q :: b) None with
    | ROk stk' tgt' => InvS stk' /\ app_res (tl_of tgt') (Ktop stk' us) = Ktop (top :: q :: b) us
    | RErr t => Ktop (top :: q :: b) us = ([], t)
    | RPanic _ => False
    end.
  Proof.
    intros top q b us (Hwf & Hcur & Hop & Htp & Hlt) Hst.
    destruct Hop as (Hqn & Hnth & Hwq & Hqbot & Hop').
    destruct Hqn as (nq & iq & kq & Hqn).
    cbn [Ktop]. rewrite mbind_occ_S, Hst, andb_false_r.
    unfold rec_next.
    destruct (e_occ top <? d_min (e_decl top)); [reflexivity|].
    destruct (S (e_cur q) <? length (d_kids (e_decl q))) eqn:Esib.
    - apply Nat.ltb_lt in Esib.
      destruct (nth_error (d_kids (e_decl q)) (S (e_cur q))) as [k|] eqn:Ek;
        [|apply nth_error_None in Ek; lia].
      split.
      + cbn [InvS e_decl e_cur e_occ]. split; [eapply nth_error_WF; eauto|]. split; [reflexivity|]. split.
        * cbn [opens_ok]. split; [eexists _, _, _; cbn; exact Hqn|].
          split; [cbn; exact Ek|]. split; [cbn; exact Hwq|].
          split; [unfold is_bottom; cbn; exact Hqbot|cbn; exact Hop'].
        * split; [|apply (lt_max_0 try_leaf); eapply nth_error_WF; eauto].
          cbn [map e_decl]. apply tp_push; [eapply nth_error_In; eauto|].
          destruct Htp as [_ Htp]. exact Htp.
      + cbn [tl_of]. rewrite app_res_nil. cbn [Ktop e_decl e_occ].
        rewrite (Kopen_sibling q b (e_decl top) k [] us nq iq kq k Hqn Ek). rewrite app_nil_r, Hqn. reflexivity.
    - apply Nat.ltb_ge in Esib.
      destruct (rec_done_K b q None us nq iq kq Hqn Hwq Hop') as (stk' & tgt' & Hr & Hinv & HK).
      + destruct Htp as [_ Htp]. exact Htp.
      + intros H. congruence.
      + exact Hqbot.
      + rewrite Hr. split; [exact Hinv|]. rewrite HK. cbn [tl_of]. rewrite app_res_nil.
        rewrite (Kopen_last q b (e_decl top) [] us nq iq kq Hqn Esib). rewrite app_nil_r. reflexivity.
  Qed.

  (* ---- a match: the frame gets its node; push the first child or finish the instance ------------------ *)
  Lemma instantiate_K : forall top q b us n st,
    InvS (top :: q :: b) -> read_rec try_leaf (e_decl top) us = Some n ->
    match instantiate top (q :: b) None n us false st with
    | Cont st' => InvS (m_stk st') /\ Kst st' = Ktop (top :: q :: b) us
    | Ret _ _ => False
    end.
  Proof.
    intros top q b us n st Hinv Hrr.
    pose proof Hinv as (Hwf & Hcur & Hop & Htp & Hlt).
    destruct (read_rec_some try_leaf _ _ _ Hrr) as [Hst Hm].
    destruct (WF_parts try_leaf _ Hwf) as (Hshape & _ & _).
    assert (Hn : (length us <? n) = false).
    { apply Nat.ltb_ge. destruct (d_grp (e_decl top)); [subst n; lia|].
      apply Hshape in Hm. lia. }
    pose proof Hop as (Hqn & Hnth & Hwq & Hqbot & Hop').
    destruct Hqn as (nq & iq & kq & Hqn).
    unfold instantiate. rewrite Hn, Hqn. cbn [Ktop].
    rewrite (occ_step_K (e_decl top) (e_occ top) us n _ Hwf Hlt Hst Hm).
    destruct (d_kids (e_decl top)) as [|k r] eqn:Ekids.
    - (* no children: the instance is complete *)
      rewrite mbind_seq_nil.
      set (cur1 := E (e_decl top) (Some (I (d_name (e_decl top)) (map u_id (firstn n us)) [])) (e_cur top) (e_occ top)).
      destruct (rec_done_K (q :: b) cur1 None (skipn n us) (d_name (e_decl top)) (map u_id (firstn n us)) [])
        as (stk' & tgt' & Hr & Hinv' & HK).
      + reflexivity.
      + exact Hwf.
      + exact Hop.
      + exact Htp.
      + intros H. congruence.
      + intros H. discriminate.
      + rewrite Hr. cbn [of_rres]. split; [exact Hinv'|].
        unfold Kst. cbn [m_tgt m_stk m_rest]. rewrite HK. cbn [tl_of]. rewrite app_res_nil. reflexivity.
    - (* push the first child *)
      split.
      + cbn [m_stk InvS e_decl e_cur e_occ].
        assert (Hk : nth_error (d_kids (e_decl top)) 0 = Some k) by (rewrite Ekids; reflexivity).
        split; [exact (nth_error_WF _ _ _ Hwf Hk)|]. split; [reflexivity|]. split.
        * cbn [opens_ok]. split; [eexists _, _, _; cbn; reflexivity|].
          split; [cbn; rewrite Hcur; exact Hk|]. split; [cbn; exact Hwf|].
          split; [intros H; discriminate|cbn; exact Hop].
        * split; [|apply (lt_max_0 try_leaf); exact (nth_error_WF _ _ _ Hwf Hk)].
          cbn [map e_decl]. apply tp_push; [exact (nth_error_In _ _ Hk)|]. exact Htp.
      + unfold Kst. cbn [m_tgt m_stk m_rest tl_of]. rewrite app_res_nil.
        cbn [Ktop e_decl e_occ]. rewrite mbind_seq_cons.
        apply mbind_ext. intros is1 us1. cbn [Kopen e_node e_decl e_cur e_occ].
        rewrite Hcur, Ekids. cbn [skipn]. apply mbind_ext. intros ks us2. reflexivity.
  Qed.

  (* ---- one iteration of HierarchyReader.Read's loop -------------------------------------------------- *)
  Definition std_fin (us : list unt) : term := match us with [] => TEof | _ :: _ => TErrUnexpected end.

  Lemma Ktop_single : forall top us,
    InvS [top] -> Ktop [top] us = fin (e_decl top) us.
  Proof.
    intros top us (_ & _ & _ & _ & _ & Hlt & Hmin). cbn [Ktop].
    rewrite mbind_occ_S, Hlt, Hmin. reflexivity.
  Qed.

  Lemma hstep_K : forall st, InvS (m_stk st) -> m_tgt st = None ->
    (forall top, m_stk st = [top] -> fin (e_decl top) (m_rest st) = ([], std_fin (m_rest st))) ->
    match hstep try_leaf st with
    | Cont st' => InvS (m_stk st') /\ Kst st' = Kst st
    | Ret (OTerm t) _ => Kst st = ([], t)
    | Ret (ODeliver _) _ => False
    end.
  Proof.
    intros [stk tgt us] Hinv Htgt Hfin. cbn [m_stk m_tgt m_rest] in *. subst tgt.
    unfold hstep, Kst. cbn [m_stk m_tgt m_rest tl_of]. rewrite app_res_nil.
    destruct stk as [|top opens]; [destruct Hinv|].
    destruct opens as [|q b].
    - (* only the root frame is left *)
      cbn [length]. rewrite (Ktop_single top us Hinv), (Hfin top eq_refl).
      destruct us; reflexivity.
    - cbn [length].
      assert (Hlen : (S (S (length b)) <=? 1) = false) by (apply Nat.leb_gt; lia).
      rewrite Hlen.
      destruct us as [|u r].
      + pose proof (rec_next_K top q b [] Hinv) as H.
        destruct Hinv as (Hwf & _). specialize (H (starts_nil try_leaf _ Hwf)).
        destruct (rec_next (top :: q :: b) None) as [stk' tgt'|t|s]; cbn [of_rres]; auto; contradiction.
      + destruct (read_rec try_leaf (e_decl top) (u :: r)) as [n|] eqn:Err.
        * pose proof (instantiate_K top q b (u :: r) n (M (top :: q :: b) None (u :: r)) Hinv Err) as H.
          destruct (instantiate top (q :: b) None n (u :: r) false _); auto; contradiction.
        * apply read_rec_none in Err.
          pose proof (rec_next_K top q b (u :: r) Hinv Err) as H.
          destruct (rec_next (top :: q :: b) None) as [stk' tgt'|t|s]; cbn [of_rres]; auto; contradiction.
  Qed.
End Sim.
