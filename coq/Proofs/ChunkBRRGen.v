(* C09 proofs, part 13: go-corelib BytesReplacingReader for ANY non-empty search token and ANY
   replacement (shorter, equal or longer), over any well-behaved reader, is a well-behaved reader
   of a_replace search repl 0 data.  The one-byte instances of part 6 are corollaries. *)
From Coq Require Import List NArith Bool Arith Lia.
From Coq.Strings Require Import Byte.
Import ListNotations.
From OV Require Import Base.Bytes Base.Cases Base.Utf8 Model.Chunk Proofs.Chunk Proofs.ChunkLines
  Proofs.ChunkBRR Proofs.ChunkFind.

Section Replace.
  Variable search repl : bytes.
  Hypothesis Hs : 1 <= length search.
  Notation slen := (length search).
  Notation rep := (a_replace search repl).

  Lemma rep_skip k : forall l, k <= length l -> rep k l = rep 0 (skipn k l).
  Proof.
    induction k as [|k IH]; intros l H; [reflexivity|].
    destruct l as [|c r]; [simpl in H; lia|]. cbn [a_replace skipn]. apply IH. simpl in H. lia.
  Qed.

  Lemma rep_match l : prefix_eqb search l = true -> rep 0 l = repl ++ rep 0 (skipn slen l).
  Proof.
    intro H. pose proof (prefix_eqb_len _ _ H) as Hl.
    destruct l as [|c r]; [simpl in Hl; lia|]. cbn [a_replace]. rewrite H.
    rewrite rep_skip by (simpl in Hl; lia).
    replace slen with (S (slen - 1)) at 2 by lia. reflexivity.
  Qed.

  Lemma rep_nomatch_step c r : prefix_eqb search (c :: r) = false -> rep 0 (c :: r) = c :: rep 0 r.
  Proof. intro H. cbn [a_replace]. rewrite H. reflexivity. Qed.

  (* no occurrence starts before position k *)
  Definition clear_before (k : nat) (l : bytes) : Prop :=
    forall j, j < k -> prefix_eqb search (skipn j l) = false.

  Lemma rep_clear k : forall l, k <= length l -> clear_before k l ->
    rep 0 l = firstn k l ++ rep 0 (skipn k l).
  Proof.
    induction k as [|k IH]; intros l Hl Hc; [reflexivity|].
    destruct l as [|c r]; [simpl in Hl; lia|].
    rewrite rep_nomatch_step by (apply (Hc 0); lia).
    cbn [firstn skipn app]. f_equal. apply IH; [simpl in Hl; lia|].
    intros j Hj. apply (Hc (S j)). lia.
  Qed.

  Lemma rep_short l : length l < slen -> rep 0 l = l.
  Proof.
    intro H. rewrite (rep_clear (length l) l (le_n _)).
    - rewrite firstn_all, skipn_all. simpl. apply app_nil_r.
    - intros j Hj. destruct (prefix_eqb search (skipn j l)) eqn:E; [|reflexivity].
      apply prefix_eqb_len in E. rewrite skipn_length in E. lia.
  Qed.

  (* index_sub finds the first occurrence *)
  Lemma index_sub_some l : forall i, index_sub search l = Some i ->
    prefix_eqb search (skipn i l) = true /\ clear_before i l /\ i + slen <= length l.
  Proof.
    induction l as [|a l IH]; intros i H; cbn [index_sub] in H.
    - destruct (prefix_eqb search []) eqn:E; [|discriminate]. injection H as <-.
      apply prefix_eqb_len in E. simpl in E. lia.
    - destruct (prefix_eqb search (a :: l)) eqn:E.
      + injection H as <-. split; [exact E|]. split; [intros j Hj; lia|].
        apply prefix_eqb_len in E. lia.
      + destruct (index_sub search l) as [j|] eqn:Ej; [|discriminate]. injection H as <-.
        destruct (IH j eq_refl) as (A&B&C). split; [exact A|]. split.
        * intros [|j'] Hj'; [exact E|]. cbn [skipn]. apply B. lia.
        * simpl. lia.
  Qed.

  Lemma index_sub_none l : index_sub search l = None -> forall j, prefix_eqb search (skipn j l) = false.
  Proof.
    induction l as [|a l IH]; intros H j; cbn [index_sub] in H.
    - destruct (prefix_eqb search []) eqn:E; [discriminate|]. destruct j; exact E.
    - destruct (prefix_eqb search (a :: l)) eqn:E; [discriminate|].
      destruct (index_sub search l) eqn:Ej; [discriminate|].
      destruct j as [|j]; [exact E|]. cbn [skipn]. apply IH. reflexivity.
  Qed.

  (* occurrences that lie completely inside u do not depend on what follows u *)
  Lemma prefix_in_app u rest j : j + slen <= length u ->
    prefix_eqb search (skipn j (u ++ rest)) = prefix_eqb search (skipn j u).
  Proof.
    intro H. rewrite skipn_app_le by lia. apply prefix_eqb_app_inv. rewrite skipn_length. lia.
  Qed.

  (* greedy step of the reader, occurrence found in the buffered bytes *)
  Lemma rep_found u rest i : index_sub search u = Some i ->
    rep 0 (u ++ rest) = firstn i u ++ repl ++ rep 0 (skipn (i + slen) u ++ rest).
  Proof.
    intro H. destruct (index_sub_some u i H) as (A&B&C).
    rewrite (rep_clear i (u ++ rest)).
    - rewrite firstn_app_le, skipn_app_le by lia. f_equal.
      rewrite rep_match.
      + f_equal. rewrite <- skipn_app_le by lia. rewrite <- skipn_add. f_equal. rewrite skipn_app_le by lia.
        reflexivity.
      + rewrite <- skipn_app_le by lia. rewrite prefix_in_app by lia. exact A.
    - rewrite app_length. lia.
    - intros j Hj. rewrite prefix_in_app by lia. apply B. exact Hj.
  Qed.

  (* greedy step, no occurrence in the buffered bytes: all but the last slen-1 are final *)
  Lemma rep_notfound u rest : index_sub search u = None ->
    let k := length u + 1 - slen in
    rep 0 (u ++ rest) = firstn k u ++ rep 0 (skipn k u ++ rest).
  Proof.
    intros H k. pose proof (index_sub_none u H) as Hn.
    assert (Hk : k <= length u) by (unfold k; lia).
    rewrite (rep_clear k (u ++ rest)).
    - rewrite firstn_app_le, skipn_app_le by lia. reflexivity.
    - rewrite app_length. lia.
    - intros j Hj. rewrite prefix_in_app by (unfold k in Hj; lia). apply Hn.
  Qed.
End Replace.

Section BRRGen.
  Variable search repl : bytes.
  Hypothesis Hs : 1 <= length search.
  Variable bufsize : nat.
  Hypothesis Hbs : length search <= bufsize /\ length repl <= bufsize /\ 0 < bufsize.
  Notation slen := (length search).
  Notation rlen := (length repl).
  Notation rep := (a_replace search repl).
  Definition mm : nat := Nat.max slen rlen.

  Lemma mm_facts : slen <= mm /\ rlen <= mm /\ 1 <= mm.
  Proof. unfold mm. lia. Qed.

  (* the inner loop of Read: everything up to the new buf0 is final, fewer than slen bytes stay
     pending, and the buffer never outgrows its size *)
  Lemma brr_replace_gen fuel : forall D U,
    length U < fuel -> length D * slen + length U * mm <= bufsize * slen ->
    exists buf' buf0',
      brr_replace search repl bufsize fuel (D ++ U) (length D) = Ok (buf', buf0') /\
      buf0' <= length buf' /\ length buf' - buf0' < slen /\ length buf' <= bufsize /\
      buf0' * slen + (length buf' - buf0') * mm <= length D * slen + length U * mm /\
      forall rest, D ++ rep 0 (U ++ rest) = firstn buf0' buf' ++ rep 0 (skipn buf0' buf' ++ rest).
  Proof.
    pose proof mm_facts as (M1&M2&M3).
    induction fuel as [|k IH]; intros D U Hf Hphi; [lia|].
    cbn [brr_replace]. rewrite skipn_app_exact.
    destruct (index_sub search U) as [i|] eqn:Ei.
    - destruct (index_sub_some search Hs U i Ei) as (A&B&C).
      set (D1 := D ++ firstn i U ++ repl). set (U1 := skipn (i + slen) U).
      assert (E1 : firstn (length D + i) (D ++ U) = D ++ firstn i U).
      { rewrite firstn_app. rewrite firstn_all2 by lia. f_equal. f_equal. lia. }
      assert (E2 : skipn (length D + i + slen) (D ++ U) = U1).
      { rewrite skipn_app. rewrite skipn_all2 by lia. cbn [app]. unfold U1. f_equal. lia. }
      rewrite E1, E2.
      assert (HD1 : length D1 = length D + i + rlen).
      { unfold D1. rewrite !app_length, firstn_length. lia. }
      assert (HU1 : length U1 = length U - i - slen) by (unfold U1; rewrite skipn_length; lia).
      assert (Hphi1 : length D1 * slen + length U1 * mm <= length D * slen + length U * mm).
      { rewrite HD1, HU1. nia. }
      assert (Hbuf1 : length ((D ++ firstn i U) ++ repl ++ U1) <= bufsize).
      { assert (length ((D ++ firstn i U) ++ repl ++ U1) = length D1 + length U1).
        { unfold D1. rewrite !app_length. lia. }
        rewrite H. nia. }
      destruct (Nat.ltb_spec bufsize (length ((D ++ firstn i U) ++ repl ++ U1))) as [|_]; [lia|].
      replace ((D ++ firstn i U) ++ repl ++ U1) with (D1 ++ U1)
        by (unfold D1; rewrite <- !app_assoc; reflexivity).
      replace (length D + i + rlen) with (length D1) by lia.
      destruct (IH D1 U1 ltac:(lia) ltac:(lia)) as (buf'&buf0'&R1&R2&R3&R4&R5&R6).
      exists buf', buf0'. split; [exact R1|]. split; [exact R2|]. split; [exact R3|]. split; [exact R4|].
      split; [lia|]. intro rest. rewrite <- R6. unfold D1, U1.
      rewrite (rep_found search repl Hs U rest i Ei). rewrite <- !app_assoc. reflexivity.
    - exists (D ++ U), (length D + (length U + 1 - slen)).
      assert (Hmax : Nat.max (length D) (length (D ++ U) + 1 - slen) = length D + (length U + 1 - slen)).
      { rewrite app_length. lia. }
      rewrite Hmax. split; [reflexivity|]. rewrite app_length.
      split; [lia|]. split; [lia|]. split; [nia|]. split; [nia|].
      intro rest. rewrite firstn_app, skipn_app. rewrite firstn_all2, skipn_all2 by lia.
      replace (length D + (length U + 1 - slen) - length D) with (length U + 1 - slen) by lia.
      cbn [app]. rewrite <- app_assoc. f_equal.
      apply (rep_notfound search repl Hs U rest Ei).
  Qed.
End BRRGen.

Section BRRGenRead.
  Variable search repl : bytes.
  Hypothesis Hs : 1 <= length search.
  Variable bufsize : nat.
  Hypothesis Hbs : length search <= bufsize /\ length repl <= bufsize /\ 0 < bufsize.
  Notation slen := (length search).
  Notation rlen := (length repl).
  Notation rep := (a_replace search repl).
  Notation mm := (mm search repl).

  Variable St : Type.
  Variable sread : St -> nat -> rres * St.
  Variable Rep : St -> bytes -> tail -> Prop.
  Variable wt : St -> nat.
  Variable lead : St -> nat.
  Hypothesis Hok : reader_ok St sread Rep wt lead.

  Notation brr_read := (brr_read St sread search repl bufsize).

  Lemma brr_max_facts :
    slen <= brr_max search repl bufsize /\ brr_max search repl bufsize * mm <= bufsize * slen.
  Proof.
    destruct Hbs as (B1&B2&B3). unfold brr_max, Proofs.ChunkBRRGen.mm.
    destruct (Nat.ltb_spec slen rlen) as [Hlt|Hge].
    - assert (Hq : 1 <= bufsize / rlen) by (apply Nat.div_le_lower_bound; lia).
      pose proof (Nat.mul_div_le bufsize rlen ltac:(lia)) as Hd.
      rewrite Nat.max_r by lia. split; nia.
    - rewrite Nat.max_l by lia. split; lia.
  Qed.

  Definition brrg_rep (st : brr * St) (out : bytes) (T : tail) : Prop :=
    let '(r, x) := st in
    r_buf0 r <= length (r_buf r) /\ length (r_buf r) <= bufsize /\
    length (r_buf r) - r_buf0 r < slen /\
    match r_err r with
    | None => exists rest t, T = latch t /\ Rep x rest t /\
                out = firstn (r_buf0 r) (r_buf r) ++ rep 0 (skipn (r_buf0 r) (r_buf r) ++ rest)
    | Some e => e = tail_err T /\ tail_next T = T /\ r_buf0 r = length (r_buf r) /\ out = r_buf r
    end.
  Definition brrg_wt (st : brr * St) : nat :=
    2 * r_buf0 (fst st) + 2 * mm * (length (r_buf (fst st)) - r_buf0 (fst st)) + 2 * mm * wt (snd st).

  Lemma firstn_skipn_comm {A} n m (l : list A) : firstn m (skipn n l) = skipn n (firstn (n + m) l).
  Proof.
    revert l; induction n as [|n IH]; intro l; [reflexivity|].
    destruct l as [|a l]; [rewrite !firstn_nil; reflexivity|]. simpl. apply IH.
  Qed.

  Lemma brrg_read_spec fuel : forall r x out T cap,
    brrg_rep (r, x) out T -> 0 < cap -> brr_m St wt (r, x) < fuel ->
    exists c oe st', brr_read fuel (r, x) cap = Ok ((c, oe), st') /\ brr_m St wt st' <= brr_m St wt (r, x) /\
      length c <= cap /\
      match oe with
      | None => c <> [] /\ exists out', out = c ++ out' /\ brrg_rep st' out' T /\
                                         brrg_wt st' + length c < brrg_wt (r, x)
      | Some e => out = c /\ e = tail_err T /\ brrg_rep st' [] T /\ brrg_wt st' + length c <= brrg_wt (r, x)
      end.
  Proof.
    pose proof (mm_facts search repl Hs bufsize Hbs) as (M1&M2&M3).
    pose proof brr_max_facts as (X1&X2).
    induction fuel as [|k IH]; intros r x out T cap HR Hcap Hf; [lia|].
    destruct HR as (H0&Hb&Hp&HR). cbn [Chunk.brr_read].
    destruct (Nat.ltb_spec 0 (r_buf0 r)) as [Hpos|Hzero].
    - (* processed bytes ready *)
      set (n := Nat.min cap (r_buf0 r)).
      assert (Hn : 1 <= n <= r_buf0 r) by (unfold n; lia).
      assert (Hfl : length (firstn n (r_buf r)) = n) by (rewrite firstn_length; lia).
      assert (Hsl : length (skipn n (r_buf r)) = length (r_buf r) - n) by apply skipn_length.
      assert (Hne : firstn n (r_buf r) <> []).
      { intro E. rewrite E in Hfl. simpl in Hfl. lia. }
      assert (Hfs : firstn (r_buf0 r - n) (skipn n (r_buf r)) = skipn n (firstn (r_buf0 r) (r_buf r))).
      { rewrite firstn_skipn_comm. f_equal. f_equal. lia. }
      assert (Hss : skipn (r_buf0 r - n) (skipn n (r_buf r)) = skipn (r_buf0 r) (r_buf r)).
      { rewrite <- skipn_add. f_equal. lia. }
      assert (Hdone : firstn (r_buf0 r) (r_buf r) = firstn n (r_buf r) ++ skipn n (firstn (r_buf0 r) (r_buf r))).
      { rewrite <- (firstn_skipn n (firstn (r_buf0 r) (r_buf r))) at 1. f_equal.
        rewrite firstn_firstn. f_equal. lia. }
      destruct (skipn n (r_buf r)) as [|c1 rest1] eqn:Es.
      + (* the buffer is drained by this call *)
        assert (Hall : n = length (r_buf r)) by (simpl in Hsl; lia).
        assert (Hb0 : r_buf0 r = length (r_buf r)) by lia.
        assert (Hfa : firstn n (r_buf r) = r_buf r) by (rewrite Hall; apply firstn_all).
        destruct (r_err r) as [e|] eqn:Ee.
        * destruct HR as (->&Hnx&_&->). eexists _, _, _. split; [reflexivity|].
          split; [unfold brr_m; cbn [fst snd r_err]; try rewrite Ee; lia|].
          split; [rewrite Hfl; unfold n; lia|].
          split; [symmetry; exact Hfa|]. split; [reflexivity|]. split.
          -- unfold brrg_rep. cbn [r_buf r_buf0 r_err length]. split; [lia|]. split; [lia|]. split; [lia|].
             repeat split; auto. lia.
          -- unfold brrg_wt. cbn [fst snd r_buf r_buf0 length]. rewrite Hfa. nia.
        * destruct HR as (rest&t&->&HRx&->). eexists _, _, _. split; [reflexivity|].
          split; [unfold brr_m; cbn [fst snd r_err]; try rewrite Ee; lia|].
          split; [rewrite Hfl; unfold n; lia|]. split; [exact Hne|].
          exists (rep 0 rest). split.
          { rewrite Hb0, firstn_all, skipn_all, Hfa. reflexivity. }
          split.
          -- unfold brrg_rep. cbn [r_buf r_buf0 r_err length]. split; [lia|]. split; [lia|]. split; [lia|].
             exists rest, t. rewrite Hb0, Hall, Nat.sub_diag. cbn [firstn skipn app]. auto.
          -- unfold brrg_wt. cbn [fst snd r_buf r_buf0 length]. rewrite Hfa. nia.
      + eexists _, _, _. split; [reflexivity|].
        split; [unfold brr_m; cbn [fst snd r_err]; lia|].
        split; [rewrite Hfl; unfold n; lia|]. split; [exact Hne|].
        rewrite <- Es in *.
        destruct (r_err r) as [e|] eqn:Ee.
        * destruct HR as (->&Hnx&Hb0&->). exists (skipn n (r_buf r)).
          split; [symmetry; apply firstn_skipn|]. split.
          -- unfold brrg_rep. cbn [r_buf r_buf0 r_err]. try rewrite Ee; rewrite Hsl. split; [lia|]. split; [lia|]. split; [lia|].
             repeat split; auto; lia.
          -- unfold brrg_wt. cbn [fst snd r_buf r_buf0]. rewrite Hsl, Hfl. nia.
        * destruct HR as (rest&t&->&HRx&->).
          exists (skipn n (firstn (r_buf0 r) (r_buf r)) ++ rep 0 (skipn (r_buf0 r) (r_buf r) ++ rest)).
          split; [rewrite app_assoc, <- Hdone; reflexivity|]. split.
          -- unfold brrg_rep. cbn [r_buf r_buf0 r_err]. try rewrite Ee; rewrite Hsl. split; [lia|]. split; [lia|]. split; [lia|].
             exists rest, t. rewrite Hfs, Hss. auto.
          -- unfold brrg_wt. cbn [fst snd r_buf r_buf0]. rewrite Hsl, Hfl. nia.
    - (* nothing processed is waiting *)
      assert (Hb0 : r_buf0 r = 0) by lia.
      destruct (r_err r) as [e|] eqn:Ee.
      + destruct HR as (->&Hnx&Hbl&->). eexists _, _, _. split; [reflexivity|].
        split; [lia|]. assert (r_buf r = []) by (destruct (r_buf r); [reflexivity|simpl in Hbl; lia]).
        rewrite H. split; [simpl; lia|]. split; [reflexivity|]. split; [reflexivity|]. split; [|simpl; lia].
        unfold brrg_rep. rewrite Ee, H. cbn [length]. repeat split; auto; lia.
      + destruct HR as (rest&t&->&HRx&->). rewrite Hb0 in *. cbn [firstn skipn app] in *.
        assert (Hcap' : 0 < brr_max search repl bufsize - length (r_buf r)) by lia.
        destruct (Hok x rest t _ HRx Hcap') as [_ Hsrc].
        destruct (sread x (brr_max search repl bufsize - length (r_buf r))) as [[c oe] x'].
        (* what the inner loop does with the new bytes *)
        assert (Hrepl : exists buf' buf0',
                  (if is_nil c then Ok (r_buf r, 0)
                   else brr_replace search repl bufsize (S (length (r_buf r ++ c))) (r_buf r ++ c) 0) = Ok (buf', buf0') /\
                  buf0' <= length buf' /\ length buf' - buf0' < slen /\ length buf' <= bufsize /\
                  buf0' * slen + (length buf' - buf0') * mm <= length (r_buf r ++ c) * mm /\
                  forall rest', rep 0 ((r_buf r ++ c) ++ rest') = firstn buf0' buf' ++ rep 0 (skipn buf0' buf' ++ rest')).
        { assert (Hlc : length c <= brr_max search repl bufsize - length (r_buf r)).
          { destruct oe; [destruct Hsrc as (_&_&_&A&_); exact A|destruct Hsrc as (?&_&_&_&A&_); exact A]. }
          destruct c as [|c0 c]; cbn [is_nil].
          - exists (r_buf r), 0. rewrite app_nil_r. split; [reflexivity|]. split; [lia|]. split; [lia|]. split; [lia|].
            split; [nia|]. intro rest'. reflexivity.
          - destruct (brr_replace_gen search repl Hs bufsize Hbs (S (length (r_buf r ++ c0 :: c))) [] (r_buf r ++ c0 :: c)
                        ltac:(lia)) as (buf'&buf0'&R1&R2&R3&R4&R5&R6).
            { cbn [length]. rewrite app_length in *. nia. }
            exists buf', buf0'. cbn [app length] in R1, R5, R6. repeat split; auto. } 
        destruct Hrepl as (buf'&buf0'&Hrp&R2&R3&R4&R5&R6). rewrite Hrp.
        destruct oe as [e|]; cbn [is_none].
        * (* the input reader's error (possibly with its last bytes): flush *)
          destruct Hsrc as (->&->&HRx'&Hlc&Hw').
          specialize (R6 []). rewrite !app_nil_r in R6.
          assert (Hflush : rep 0 (r_buf r ++ c) = buf').
          { rewrite R6. rewrite (rep_short search repl Hs (skipn buf0' buf')) by (rewrite skipn_length; lia).
            apply firstn_skipn. }
          destruct (IH (mkBRR buf' (length buf') (Some (tail_err t))) x' buf' (latch t) cap)
            as (c2&oe2&st2&A&Hm2&Hl2&HS).
          -- unfold brrg_rep. cbn [r_buf r_buf0 r_err]. rewrite latch_err, latch_next.
             split; [lia|]. split; [lia|]. split; [lia|]. repeat split; auto.
          -- exact Hcap.
          -- unfold brr_m in *. cbn [fst snd r_err] in *. rewrite Ee in Hf. lia.
          -- exists c2, oe2, st2. split; [exact A|].
             split; [unfold brr_m in *; cbn [fst snd r_err] in *; rewrite Ee; lia|]. split; [exact Hl2|].
             rewrite Hflush.
             unfold brrg_wt in *. cbn [fst snd r_buf r_buf0] in *. rewrite Hb0. rewrite app_length in R5.
             destruct oe2 as [e2|].
             ++ destruct HS as (P1&P2&P3&P4). split; [exact P1|]. split; [exact P2|]. split; [exact P3|]. nia.
             ++ destruct HS as (P0&(out'&P1&P3&P4)). split; [exact P0|]. exists out'.
                split; [exact P1|]. split; [exact P3|]. nia.
        * destruct Hsrc as (rest'&->&HRx'&Hw'&Hlc&Hlead).
          destruct (IH (mkBRR buf' buf0' None) x' (rep 0 (r_buf r ++ c ++ rest')) (latch t) cap)
            as (c2&oe2&st2&A&Hm2&Hl2&HS).
          -- unfold brrg_rep. cbn [r_buf r_buf0 r_err]. split; [lia|]. split; [lia|]. split; [lia|].
             exists rest', t. split; [reflexivity|]. split; [exact HRx'|].
             rewrite <- R6, <- app_assoc. reflexivity.
          -- exact Hcap.
          -- unfold brr_m in *. cbn [fst snd r_err] in *. rewrite Ee in Hf. lia.
          -- exists c2, oe2, st2. split; [exact A|].
             split; [unfold brr_m in *; cbn [fst snd r_err] in *; rewrite Ee; lia|]. split; [exact Hl2|].
             unfold brrg_wt in *. cbn [fst snd r_buf r_buf0] in *. rewrite Hb0. rewrite app_length in R5.
             destruct oe2 as [e2|].
             ++ destruct HS as (P1&P2&P3&P4). split; [exact P1|]. split; [exact P2|]. split; [exact P3|]. nia.
             ++ destruct HS as (P0&(out'&P1&P3&P4)). split; [exact P0|]. exists out'.
                split; [exact P1|]. split; [exact P3|]. nia.
  Qed.
End BRRGenRead.

Section BRRGenLayer.
  Variable search repl : bytes.
  Hypothesis Hs : 1 <= length search.
  Variable bufsize : nat.
  Hypothesis Hbs : length search <= bufsize /\ length repl <= bufsize /\ 0 < bufsize.
  Variable St : Type.
  Variable sread : St -> nat -> rres * St.
  Variable Rep : St -> bytes -> tail -> Prop.
  Variable wt : St -> nat.
  Variable lead : St -> nat.
  Hypothesis Hok : reader_ok St sread Rep wt lead.
  Variable fuel : nat.

  Definition brrg_rd : brr * St -> nat -> rres * (brr * St) :=
    total (brr_read St sread search repl bufsize fuel).
  Definition brrg_rep_f (st : brr * St) (out : bytes) (T : tail) : Prop :=
    brrg_rep search repl bufsize St Rep st out T /\ brr_m St wt st < fuel.

  (* BytesReplacingReader, any token and replacement, over a well-behaved reader is a well-behaved
     reader of the replaced bytes; it never returns an empty read. *)
  Theorem brrg_reader_ok :
    reader_ok (brr * St) brrg_rd brrg_rep_f (brrg_wt search repl St wt) (fun _ => 0).
  Proof.
    intros [r x] out T cap [HR Hm] Hcap. split; [lia|].
    destruct (brrg_read_spec search repl Hs bufsize Hbs St sread Rep wt lead Hok fuel r x out T cap HR Hcap Hm)
      as (c&oe&st'&E&Hm'&Hl&HS).
    unfold brrg_rd, total. rewrite E.
    destruct oe as [e|].
    - destruct HS as (->&->&HR'&Hw). split; [reflexivity|]. split; [reflexivity|].
      split; [|split; [exact Hl|exact Hw]].
      assert (tail_next T = T) as ->.
      { destruct st' as [r' x']. destruct HR' as (_&_&_&HR'). destruct (r_err r').
        - tauto.
        - destruct HR' as (rest&t&->&_). apply latch_next. }
      split; [exact HR'|lia].
    - destruct HS as (Hne&(out'&->&HR'&Hw)). exists out'. split; [reflexivity|].
      split; [split; [exact HR'|lia]|]. split; [exact Hw|]. split; [exact Hl|]. intro; contradiction.
  Qed.
End BRRGenLayer.

(* Over chunk sources. *)
Theorem brrg_spec search repl bufsize cap fuel F cs wl t :
  1 <= length search -> length search <= bufsize -> length repl <= bufsize ->
  0 < cap -> runs_ok cs = true -> weight cs + 1 < fuel ->
  2 * mm search repl * weight cs < F ->
  drain_rd _ (brrg_rd search repl bufsize source io_read fuel) F cap (brr_init, mkSrc cs wl t)
  = Ok (a_replace search repl 0 (concat cs), tail_err t).
Proof.
  intros Hs Hb1 Hb2 Hcap Hr Hfuel HF.
  rewrite <- (latch_err t).
  apply (drain_rd_spec _ _ _ _ _
           (brrg_reader_ok search repl Hs bufsize ltac:(lia) source io_read src_rep src_wt src_lead
                           source_reader_ok fuel) cap Hcap).
  - split.
    + unfold brrg_rep. cbn [brr_init r_buf r_buf0 r_err length]. split; [lia|]. split; [lia|]. split; [lia|].
      exists (concat cs), t. repeat split; auto.
    + unfold brr_m, src_wt. cbn. lia.
  - unfold brrg_wt, src_wt. cbn [fst snd brr_init r_buf r_buf0 length chunks]. lia.
Qed.

Theorem brrg_chunk_invariant search repl bufsize cap fuel fuel' F F' cs cs' wl wl' t :
  1 <= length search -> length search <= bufsize -> length repl <= bufsize ->
  0 < cap -> concat cs = concat cs' -> runs_ok cs = true -> runs_ok cs' = true ->
  weight cs + 1 < fuel -> weight cs' + 1 < fuel' ->
  2 * mm search repl * weight cs < F -> 2 * mm search repl * weight cs' < F' ->
  drain_rd _ (brrg_rd search repl bufsize source io_read fuel) F cap (brr_init, mkSrc cs wl t) =
  drain_rd _ (brrg_rd search repl bufsize source io_read fuel') F' cap (brr_init, mkSrc cs' wl' t).
Proof. intros. rewrite !brrg_spec by assumption. congruence. Qed.

(* the one-byte instances are the special case *)
Lemma a_replace_single s repl l : a_replace [s] repl 0 l = a_replace1 s repl l.
Proof.
  induction l as [|c r IH]; [reflexivity|].
  cbn [a_replace prefix_eqb length Nat.sub]. unfold a_replace1 in *. cbn [flat_map].
  rewrite (byte_eqb_sym s c), andb_true_r. destruct (Byte.eqb c s); rewrite IH; reflexivity.
Qed.

Corollary brr1_from_general s repl cap fuel F cs wl t :
  length repl <= 1 -> 0 < cap -> runs_ok cs = true -> weight cs + 1 < fuel -> 2 * weight cs < F ->
  drain_rd _ (brrg_rd [s] repl 4096 source io_read fuel) F cap (brr_init, mkSrc cs wl t)
  = Ok (a_replace1 s repl (concat cs), tail_err t).
Proof.
  intros Hrepl Hcap Hr Hf HF. rewrite <- a_replace_single.
  apply brrg_spec; cbn [length]; try lia; try assumption.
  unfold mm. cbn [length]. rewrite Nat.max_l by lia. lia.
Qed.
