(* C05 specification: the documented greedy, non-backtracking matcher of a declaration hierarchy,
   written as a recursive function from doc/edi_in_depth.md ("Segment Ambiguity", the comment of
   matchSegName), doc/csv2_in_depth.md and doc/fixedlength2_in_depth.md -- independently of the
   stack machines of Model/Hier.v (only the data types are shared).

     * a declaration may occur between min and max consecutive times;
     * the declarations of one level are matched in the order declared;
     * an instance of a non-group declaration is the units its own pattern takes, followed by
       the instances of its child declarations; an instance of a group is the instances of its
       child declarations, and a group is present exactly when the first unit of the remaining
       input starts its first child (recursively);
     * greedy: while the maximum is not reached and the next unit starts an instance, take it;
       never reconsider;
     * every completed instance of the target declaration is handed out, in input order;
     * fewer than min instances: error naming the declaration and the count; when all
       declarations are done and input is left: unexpected data; otherwise end of input. *)
From Coq Require Import List Arith Bool NArith.
Import ListNotations.
From OV Require Import Base.Cases Model.Hier.

(* result of matching: the target instances completed so far, then either a value with the
   remaining input or the terminal error *)
Inductive mres (A : Type) :=
| MOk (emits : list inst) (a : A) (rest : list unt)
| MErr (emits : list inst) (t : term).
Arguments MOk {A}. Arguments MErr {A}.

Section Spec.
  Variable try_leaf : leaf -> list unt -> option nat.

  (* does the remaining input start an instance of d? *)
  Fixpoint starts (d : decl) (us : list unt) : bool :=
    match d with
    | D _ g _ _ _ lf kids =>
        if g then match kids with k :: _ => starts k us | [] => false end
        else match try_leaf lf us with Some _ => true | None => false end
    end.

  Section Loops.
    Variable inst_of : decl -> list unt -> mres inst.

    (* the instances number n, n+1, ... of d.  [f] bounds the number of instances; every
       instance takes at least one unit, so length us + 1 is always enough (spec_fuel_enough). *)
    Definition occ_loop (d : decl) :=
      fix go (f n : nat) (us : list unt) : mres (list inst) :=
        match f with
        | 0 => MErr [] TOutOfFuel
        | S f' =>
            if lt_max n (d_max d) && starts d us then
              match inst_of d us with
              | MErr e t => MErr e t
              | MOk e i us' =>
                  let e1 := if d_tgt d then e ++ [i] else e in
                  match go f' (S n) us' with
                  | MOk e2 is us'' => MOk (e1 ++ e2) (i :: is) us''
                  | MErr e2 t => MErr (e1 ++ e2) t
                  end
              end
            else if n <? d_min d then MErr [] (TErrMin (d_name d) n)
            else MOk [] [] us
        end.

    Fixpoint seq_loop (ds : list decl) (us : list unt) : mres (list inst) :=
      match ds with
      | [] => MOk [] [] us
      | d :: ds' =>
          match occ_loop d (S (length us)) 0 us with
          | MErr e t => MErr e t
          | MOk e1 is1 us1 =>
              match seq_loop ds' us1 with
              | MErr e2 t => MErr (e1 ++ e2) t
              | MOk e2 is2 us2 => MOk (e1 ++ e2) (is1 ++ is2) us2
              end
          end
      end.
  End Loops.

  (* one instance of d at the front of us (called when [starts d us]) *)
  Fixpoint sp_inst (d : decl) (us : list unt) : mres inst :=
    match d with
    | D nm g _ _ _ lf kids =>
        if g then
          match seq_loop sp_inst kids us with
          | MErr e t => MErr e t
          | MOk e ks us' => MOk e (I nm [] ks) us'
          end
        else
          match try_leaf lf us with
          | None => MErr [] TErrUnexpected
          | Some n =>
              match seq_loop sp_inst kids (skipn n us) with
              | MErr e t => MErr e t
              | MOk e ks us' => MOk e (I nm (map u_id (firstn n us)) ks) us'
              end
          end
    end.

  (* What the EDI reader does at the top level beyond the documentation (known finding F14): when
     the declared top-level sequence has completed and the next unit starts the first top-level
     declaration again, the whole sequence is matched again -- as often as that happens; top-level
     maxima are per round.  [f] bounds the number of rounds (every round takes a unit). *)
  Fixpoint rep_loop (f : nat) (root : decl) (us : list unt) : list inst * term :=
    match f with
    | 0 => ([], TOutOfFuel)
    | S f' =>
        match us with
        | [] => ([], TEof)
        | _ :: _ =>
            if starts root us then
              match seq_loop sp_inst (d_kids root) us with
              | MErr e t => (e, t)
              | MOk e _ us' => let r := rep_loop f' root us' in (e ++ fst r, snd r)
              end
            else ([], TErrUnexpected)
        end
    end.

  Definition spec_repeat (ds : list decl) (us : list unt) : list inst * term :=
    match seq_loop sp_inst ds us with
    | MErr e t => (e, t)
    | MOk e _ us1 =>
        let r := rep_loop (S (length us1)) (root_decl ds) us1 in (e ++ fst r, snd r)
    end.

  Definition spec (ds : list decl) (us : list unt) : list inst * term :=
    match seq_loop sp_inst ds us with
    | MErr e t => (e, t)
    | MOk e _ [] => (e, TEof)
    | MOk e _ (_ :: _) => (e, TErrUnexpected)
    end.
End Spec.

(* ---- correspondence check ---------------------------------------------------------------------- *)
Definition spec_kind (k : mkind) (ds : list decl) (us : list unt) : list inst * term :=
  match k with
  | KHier => spec flat_leaf ds us
  | KFlat => spec flat_leaf (flat_default_target ds) us
  | KEdi => spec edi_leaf ds us
  end.

Definition result_matches (r : list inst * term) (c : hcase) : bool :=
  list_eqb inst_eqb (fst r) (hc_deliv c) && term_matches (snd r) (hc_term c).

(* the machine model reproduces what the implementation did; inside the guards of the theorems
   the recursive specification does too *)
(* with a target filter the documented behaviour is: the deliveries of the matcher minus the
   rejected ones; the terminal result is untouched *)
Definition filter_res (keep : inst -> bool) (r : list inst * term) : list inst * term :=
  (filter keep (fst r), snd r).

Definition check_hcase (c : hcase) : bool :=
  let keep := keep_unflagged (hc_rej c) in
  result_matches (run_kind_f keep (hc_kind c) (hc_decls c) (hc_units c)) c
  && (if hc_guard c
      then result_matches (filter_res keep (spec_kind (hc_kind c) (hc_decls c) (hc_units c))) c
      else true)
  (* EDI, with or without the guard no_root_repeat: the top-level sequence repeated (F14 class) *)
  && (match hc_kind c with
      | KEdi => if hc_wf c
                then result_matches (filter_res keep (spec_repeat edi_leaf (hc_decls c) (hc_units c))) c
                else true
      | _ => true
      end).

(* numbers in case files are written in binary (N): a unary nat literal of a few thousand per unit id
   makes coqc spend its time parsing *)
Definition Un (n i : N) : unt := U (N.to_nat n) (N.to_nat i).
Definition In_ (nm : N) (ids : list N) (ks : list inst) : inst := I (N.to_nat nm) (map N.to_nat ids) ks.
Definition rejN (l : list N) : list nat := map N.to_nat l.
