(* C07 model: EDI tokenisation at unescaped delimiters.
   Transcribes, line by line,
     go-corelib@v0.0.14 strs/strs.go : ByteIndexWithEsc, ByteSplitWithEsc, ByteUnescape
     (with the parts of Go's bytes.Index / bytes.Split / explode they fall back to),
     edi/reader2.go : runeCountAndHasOnlyCRLF, NonValidatingReader.Read / readToken,
     edi/reader.go  : rawSegToNode (element lookup, default, empty_if_missing, fatal),
   and defines the generator's inverse [edi_encode].
   The byte-stream scanner (bufio.Scanner + ios.NewScannerByDelim3, buffer growth) is C09's; here
   it is the pure function [scan_tokens]: cut the whole input after every unescaped segment
   delimiter, delimiter included (ScannerByDelimFlagIncludeDelimInReturn), and drop what follows
   the last one (ScannerByDelimFlagEofNotAsDelim; DESIGN section 6 F8).  ignore_crlf
   (two ios.BytesReplacingReader) is the pure function [strip_crlf].
   Executable definitions only; proofs are in Proofs/Edi*.v. *)
From Coq Require Import List NArith Bool Arith.
(* Byte is re-exported: the generated Cases files write byte strings as explicit lists [x41; x2a; ...]
   (elaborating those is about four times cheaper than hex string literals) *)
From Coq.Strings Require Export Byte.
Import ListNotations.
From OV Require Import Base.Bytes Base.Cases Base.Utf8 Base.ErrClass Gen.EdiConsts Gen.EdiShape.

(* ---- outcomes ----------------------------------------------------------------------------- *)
(* Go slice expressions panic when out of range and the loops are fuelled: both are outcomes,
   and the theorems of Props/C07.v exclude them for every input. *)
Inductive res (A : Type) := Ok (a : A) | Panic | Fuel.
Arguments Ok {A}. Arguments Panic {A}. Arguments Fuel {A}.

Definition bind {A B} (r : res A) (f : A -> res B) : res B :=
  match r with Ok a => f a | Panic => Panic | Fuel => Fuel end.

(* s[a:b] and s[a:] *)
Definition slice (s : bytes) (a b : nat) : res bytes :=
  if (a <=? b) && (b <=? length s) then Ok (firstn (b - a) (skipn a s)) else Panic.
Definition slice_from (s : bytes) (a : nat) : res bytes :=
  if a <=? length s then Ok (skipn a s) else Panic.

Definition is_empty (s : bytes) : bool := match s with [] => true | _ => false end.

(* ---- Go bytes package ----------------------------------------------------------------------- *)
(* bytes.HasPrefix(s, p) *)
Fixpoint has_prefix (s p : bytes) : bool :=
  match p, s with
  | [], _ => true
  | x :: p', y :: s' => Byte.eqb x y && has_prefix s' p'
  | _ :: _, [] => false
  end.

Definition has_suffix (s p : bytes) : bool := has_prefix (rev s) (rev p).

(* bytes.Index(s, sep): first i with sep a prefix of s[i:]; 0 for an empty sep; None is -1 *)
Fixpoint bindex (s sep : bytes) : option nat :=
  match s with
  | [] => if has_prefix [] sep then Some 0 else None
  | _ :: r => if has_prefix s sep then Some 0 else option_map S (bindex r sep)
  end.

(* bytes.Split(s, nil) = explode(s, -1): one piece per UTF-8 sequence (invalid byte = 1 byte) *)
Fixpoint explode_fuel (fuel : nat) (s : bytes) : list bytes :=
  match fuel with
  | O => []
  | S k => match s with
           | [] => []
           | _ => let '(_, n) := decode_rune s in firstn n s :: explode_fuel k (skipn n s)
           end
  end.
Definition explode (s : bytes) : list bytes := explode_fuel (length s) s.

(* ---- strs.ByteIndexWithEsc ------------------------------------------------------------------ *)
(* isEscPreceding(i): count the esc blocks that end at i, walking backwards; odd = escaped *)
Fixpoint esc_preceding (fuel : nat) (s esc : bytes) (i found : nat) : res bool :=
  match fuel with
  | O => Fuel
  | S k =>
      if length esc <=? i then
        bind (slice s (i - length esc) i) (fun w =>
          match bindex w esc with
          | None => Ok (Nat.odd found)
          | Some _ => esc_preceding k s esc (i - length esc) (S found)
          end)
      else Ok (Nat.odd found)
  end.

Fixpoint index_loop (fuel : nat) (s delim esc : bytes) (begin : nat) : res (option nat) :=
  match fuel with
  | O => Fuel
  | S k =>
      bind (slice_from s begin) (fun t =>
        match bindex t delim with
        | None => Ok None
        | Some i =>
            let begin := begin + i in
            bind (esc_preceding (S begin) s esc begin 0) (fun escaped =>
              if escaped then
                (* skip the first rune of the escaped delimiter occurrence and search again *)
                bind (slice_from s begin) (fun t2 =>
                  let '(_, size) := decode_rune t2 in
                  index_loop k s delim esc (begin + size))
              else Ok (Some begin))
        end)
  end.

Definition index_with_esc (s delim esc : bytes) : res (option nat) :=
  if is_empty s || is_empty delim || is_empty esc then Ok (bindex s delim)
  else index_loop (S (length s)) s delim esc 0.

(* ---- strs.ByteSplitWithEsc ------------------------------------------------------------------ *)
(* the loop shared by ByteSplitWithEsc and (with esc = []) bytes.Split for a non-empty sep *)
Fixpoint split_loop (fuel : nat) (s delim esc : bytes) : res (list bytes) :=
  match fuel with
  | O => Fuel
  | S k =>
      bind (index_with_esc s delim esc) (fun oi =>
        match oi with
        | None => Ok [s]
        | Some idx =>
            bind (slice s 0 idx) (fun piece =>
            bind (slice_from s (idx + length delim)) (fun rest =>
            bind (split_loop k rest delim esc) (fun l => Ok (piece :: l))))
        end)
  end.

(* bytes.Split(s, sep) *)
Definition bytes_split (s sep : bytes) : res (list bytes) :=
  if is_empty sep then Ok (explode s) else split_loop (S (length s)) s sep [].

Definition split_with_esc (s delim esc : bytes) : res (list bytes) :=
  if is_empty s || is_empty delim || is_empty esc then bytes_split s delim
  else split_loop (S (length s)) s delim esc.

(* ---- strs.ByteUnescape(b, esc, false) ------------------------------------------------------- *)
(* The copy variant: the result is a fresh slice of capacity len(b); writes stay in range because
   the output never grows (lemma unescape_length in Proofs/Edi.v).  A release sequence that is
   last in b, or followed by an undecodable byte or by a literal U+FFFD, ends the loop: whatever
   follows is dropped. *)
Fixpoint unescape_loop (fuel : nat) (b esc : bytes) : res bytes :=
  match fuel with
  | O => Fuel
  | S k =>
      match bindex b esc with
      | None => Ok b
      | Some i =>
          bind (slice b 0 i) (fun pre =>
          bind (slice_from b (i + length esc)) (fun after =>
            let '(r, size) := decode_rune after in
            if N.eqb r RuneError then Ok pre
            else
              bind (slice b (i + length esc) (i + length esc + size)) (fun ch =>
              bind (slice_from b (i + length esc + size)) (fun rest =>
              bind (unescape_loop k rest esc) (fun o => Ok (pre ++ ch ++ o))))))
      end
  end.

Definition unescape (b esc : bytes) : res bytes :=
  if is_empty esc then Ok b else unescape_loop (S (length b)) b esc.

(* The in-place variant (what rawSegToNode used before the F9 repair): the same bytes are
   written over the front of the region, the tail of the region keeps its old content.  Returns
   (result, region afterwards). *)
Definition unescape_in_place (region esc : bytes) : res (bytes * bytes) :=
  bind (unescape region esc) (fun o => Ok (o, o ++ skipn (length o) region)).

(* ---- configuration -------------------------------------------------------------------------- *)
(* FileDecl: CompDelim / RepDelim / ReleaseChar are *string; newStrPtrByte turns nil into a nil
   []byte, and every use tests len(..) != 0, so None and Some [] behave alike. *)
Record cfg := mkCfg {
  c_seg : bytes; c_elem : bytes; c_comp : option bytes; c_rep : option bytes;
  c_rel : option bytes; c_ignore_crlf : bool }.

Definition optb (o : option bytes) : bytes := match o with Some b => b | None => [] end.

Definition CR : byte := x0d.
Definition LF : byte := x0a.

(* ---- edi/reader2.go -------------------------------------------------------------------------- *)
Record rawelem := mkRE { re_ei : nat; re_ci : nat; re_data : bytes }.

(* runeCountAndHasOnlyCRLF, second result; the runes ('\n', '\r') come from the source: Gen/EdiShape.v *)
Fixpoint only_crlf_fuel (fuel : nat) (b : bytes) : bool :=
  match fuel with
  | O => true
  | S k => match b with
           | [] => true
           | _ => let '(r, n) := decode_rune b in
                  existsb (N.eqb r) edi_blank_runes && only_crlf_fuel k (skipn n b)
           end
  end.
Definition only_crlf (b : bytes) : bool := only_crlf_fuel (length b) b.

Inductive segres :=
| SegOk (name : bytes) (elems : list rawelem)
| SegErr.                                        (* ErrInvalidEDI "missing segment name" *)

Fixpoint comps_of (i j : nat) (l : list bytes) : list rawelem :=
  match l with
  | [] => []
  | c :: r => mkRE i (S j) c :: comps_of i (S j) r
  end.

(* the two inner loops of readToken for element number i *)
Fixpoint vals_to_elems (c : cfg) (i : nat) (vals : list bytes) : res (list rawelem) :=
  match vals with
  | [] => Ok []
  | v :: r =>
      bind (if is_empty (optb (c_comp c)) then Ok [mkRE i 1 v]
            else bind (split_with_esc v (optb (c_comp c)) (optb (c_rel c))) (fun cs =>
                   Ok (comps_of i 0 cs))) (fun here =>
      bind (vals_to_elems c i r) (fun rest => Ok (here ++ rest)))
  end.

Fixpoint elems_to_raw (c : cfg) (i : nat) (els : list bytes) : res (list rawelem) :=
  match els with
  | [] => Ok []
  | e :: r =>
      bind (if is_empty (optb (c_rep c)) then Ok [e]
            else split_with_esc e (optb (c_rep c)) (optb (c_rel c))) (fun vals =>
      bind (vals_to_elems c i vals) (fun here =>
      bind (elems_to_raw c (S i) r) (fun rest => Ok (here ++ rest))))
  end.

(* the constants of the LF rule of readToken, extracted from the source (Gen/EdiShape.v):
   if *r.segDelim.strptr == "\n" && bytes.HasSuffix(noSegDelim, crBytes) { drop utf8.RuneLen('\r') } *)
Definition lf_rule_delim : bytes := map byte_of_N edi_lf_rule_delim.
Definition lf_rule_suffix : bytes := map byte_of_N edi_lf_rule_suffix.

Definition read_token (c : cfg) (token : bytes) : res segres :=
  if length token <? length (c_seg c) then Panic else
  bind (slice token 0 (length token - length (c_seg c))) (fun nsd =>
  bind (if bytes_eqb (c_seg c) lf_rule_delim && has_suffix nsd lf_rule_suffix
        then slice nsd 0 (length nsd - edi_lf_rule_drop) else Ok nsd) (fun nsd =>
  bind (split_with_esc nsd (c_elem c) (optb (c_rel c))) (fun els =>
  bind (elems_to_raw c 0 els) (fun raw =>
    match raw with
    | [] => Ok SegErr
    | e0 :: _ => if is_empty (re_data e0) then Ok SegErr else Ok (SegOk (re_data e0) raw)
    end)))).

(* The scanner as a pure function (see the header).  The two flags are read from the source on
   every run (Gen/EdiConsts.v): /repo passes EofNotAsDelim | IncludeDelimInReturn. *)
Fixpoint scan_tokens (fuel : nat) (data seg rel : bytes) : res (list bytes) :=
  match fuel with
  | O => Fuel
  | S k =>
      match data with
      | [] => Ok []
      | _ =>
          bind (index_with_esc data seg rel) (fun oi =>
            match oi with
            | None => if edi_scanner_eof_as_delim then Ok [data] else Ok []
            | Some idx =>
                bind (slice data 0 (idx + (if edi_scanner_drop_delim then 0 else length seg))) (fun tok =>
                bind (slice_from data (idx + length seg)) (fun rest =>
                bind (scan_tokens k rest seg rel) (fun l => Ok (tok :: l))))
            end)
      end
  end.

Definition is_crlf (b : byte) : bool := Byte.eqb b CR || Byte.eqb b LF.
(* ignore_crlf: ios.NewBytesReplacingReader(r, <seq>, nil) for each extracted sequence, in order
   (Gen/EdiShape.v: "\r" then "\n"); only single-byte sequences are modelled *)
Fixpoint strip_seqs (xs : list bytes) (s : bytes) : bytes :=
  match xs with
  | [] => s
  | [b0] :: r => strip_seqs r (filter (fun b => negb (Byte.eqb b b0)) s)
  | _ :: r => strip_seqs r s
  end.
Definition strip_crlf (s : bytes) : bytes :=
  strip_seqs (map (map byte_of_N) edi_ignore_crlf_strips) s.

Fixpoint read_tokens (c : cfg) (toks : list bytes) : res (list segres) :=
  match toks with
  | [] => Ok []
  | t :: r =>
      if only_crlf t then read_tokens c r
      else bind (read_token c t) (fun x => bind (read_tokens c r) (fun l => Ok (x :: l)))
  end.

(* Every result NonValidatingReader.Read returns before io.EOF.  The segment delimiter must be
   non-empty (the JSON schema demands minLength 1; with "" the Go scanner never advances). *)
Definition nv_read_all (c : cfg) (input : bytes) : res (list segres) :=
  if is_empty (c_seg c) then Panic else
  let inp := if c_ignore_crlf c then strip_crlf input else input in
  bind (scan_tokens (S (length inp)) inp (c_seg c) (optb (c_rel c))) (read_tokens c).

(* ---- edi/reader.go: rawSegToNode -------------------------------------------------------------- *)
Record edecl := mkED {
  d_index : nat; d_comp : option nat; d_empty_if_missing : bool; d_default : option bytes }.
(* Elem.compIndex; the default comes from the source (Gen/EdiShape.v) *)
Definition comp_index (d : edecl) : nat :=
  match d_comp d with Some c => c | None => edi_default_comp_index end.
(* ... and what the property says it is *)
Definition spec_comp_index (d : edecl) : nat := match d_comp d with Some c => c | None => 1 end.

(* children of the segment node: (position of the declaration, text); None = fatal ErrInvalidEDI *)
Fixpoint matching (rel : bytes) (k : nat) (d : edecl) (raw : list rawelem) : res (list (nat * bytes)) :=
  match raw with
  | [] => Ok []
  | e :: r =>
      if Nat.eqb (re_ei e) (d_index d) && Nat.eqb (re_ci e) (comp_index d) then
        bind (unescape (re_data e) rel) (fun txt =>
        bind (matching rel k d r) (fun l => Ok ((k, txt) :: l)))
      else matching rel k d r
  end.

Fixpoint seg_to_node (rel : bytes) (k : nat) (decls : list edecl) (raw : list rawelem)
  : res (option (list (nat * bytes))) :=
  match decls with
  | [] => Ok (Some [])
  | d :: ds =>
      bind (matching rel k d raw) (fun found =>
        match found with
        | _ :: _ =>
            bind (seg_to_node rel (S k) ds raw) (fun o =>
              Ok (match o with Some l => Some (found ++ l) | None => None end))
        | [] =>
            if edi_use_default (d_empty_if_missing d) (match d_default d with Some _ => true | None => false end) then
              bind (seg_to_node rel (S k) ds raw) (fun o =>
                Ok (match o with
                    | Some l => Some ((k, optb (d_default d)) :: l)
                    | None => None end))
            else Ok None
        end)
  end.

(* rawSegToNode as it was before the F9 repair: each match unescapes the shared raw buffer in
   place, so a later declaration naming the same raw element reads the already-shrunk bytes. *)
Fixpoint matching_old (rel : bytes) (k : nat) (d : edecl) (raw : list rawelem)
  : res (list (nat * bytes) * list rawelem) :=
  match raw with
  | [] => Ok ([], [])
  | e :: r =>
      if Nat.eqb (re_ei e) (d_index d) && Nat.eqb (re_ci e) (comp_index d) then
        bind (unescape_in_place (re_data e) rel) (fun p =>
        bind (matching_old rel k d r) (fun q =>
          Ok ((k, fst p) :: fst q, mkRE (re_ei e) (re_ci e) (snd p) :: snd q)))
      else bind (matching_old rel k d r) (fun q => Ok (fst q, e :: snd q))
  end.

Fixpoint seg_to_node_old (rel : bytes) (k : nat) (decls : list edecl) (raw : list rawelem)
  : res (option (list (nat * bytes))) :=
  match decls with
  | [] => Ok (Some [])
  | d :: ds =>
      bind (matching_old rel k d raw) (fun fr =>
        match fst fr with
        | _ :: _ =>
            bind (seg_to_node_old rel (S k) ds (snd fr)) (fun o =>
              Ok (match o with Some l => Some (fst fr ++ l) | None => None end))
        | [] =>
            if edi_use_default (d_empty_if_missing d) (match d_default d with Some _ => true | None => false end) then
              bind (seg_to_node_old rel (S k) ds raw) (fun o =>
                Ok (match o with
                    | Some l => Some ((k, optb (d_default d)) :: l)
                    | None => None end))
            else Ok None
        end)
  end.

(* The full reader over one non-group segment declaration (min 0, max unbounded, is_target; the
   hierarchy machine itself is C05's): one result per Read until the first fatal error / EOF. *)
Inductive readres := RNode (kids : list (nat * bytes)) | RFatal.

Fixpoint full_results (rel : bytes) (sname : bytes) (decls : list edecl) (segs : list segres)
  : res (list readres) :=
  match segs with
  | [] => Ok []
  | SegErr :: _ => Ok [RFatal]
  | SegOk name raw :: r =>
      if negb (bytes_eqb name sname) then Ok [RFatal] else
      bind (seg_to_node rel 0 decls raw) (fun o =>
        match o with
        | None => Ok [RFatal]
        | Some kids => bind (full_results rel sname decls r) (fun l => Ok (RNode kids :: l))
        end)
  end.

Definition full_read_all (c : cfg) (sname : bytes) (decls : list edecl) (input : bytes)
  : res (list readres) :=
  bind (nv_read_all c input) (full_results (optb (c_rel c)) sname decls).

(* ---- the generator's inverse ------------------------------------------------------------------ *)
(* Logical segment: elements (element 0 carries the segment name) x repetitions x components. *)
Definition lrep := list bytes.
Definition lelem := list lrep.
Definition lseg := list lelem.
(* what precedes and ends a segment in the input: blank lines (each with or without a CR), and
   whether a CR is put before the segment delimiter (CRLF input for an LF delimiter) *)
Record lsegx := mkLS { ls_blanks : list bool; ls_seg : lseg; ls_cr : bool }.

(* the delimiters and the release character that are in use *)
Definition delims (c : cfg) : list bytes :=
  filter (fun d => negb (is_empty d)) [c_seg c; c_elem c; optb (c_rep c); optb (c_comp c)].
Definition specials (c : cfg) : list bytes :=
  delims c ++ filter (fun d => negb (is_empty d)) [optb (c_rel c)].

Definition head_of (s : bytes) : list byte := match s with b :: _ => [b] | [] => [] end.
Definition heads (l : list bytes) : list byte := flat_map head_of l.
Definition is_head (hs : list byte) (b : byte) : bool := existsb (Byte.eqb b) hs.

(* escape, byte-wise: the release character goes before every byte that starts a delimiter or the
   release character.  Adequate when those first bytes are ASCII (the ASCII corollaries). *)
Definition escape_b (hs : list byte) (rel : bytes) (d : bytes) : bytes :=
  flat_map (fun b => if is_head hs b then rel ++ [b] else [b]) d.

(* escape, rune-wise (what the generator does): d is cut into UTF-8 sequences the way Go decodes
   it ([explode]: an undecodable byte is a sequence of its own); the release character goes
   before every decodable rune other than U+FFFD whose first byte starts a delimiter or the
   release character.  (ByteUnescape gives up at a release character followed by an undecodable
   byte or U+FFFD, so those are never escaped.) *)
Definition escapable (hs : list byte) (u : bytes) : bool :=
  match u with
  | [] => false
  | b :: _ => negb (N.eqb (fst (decode_rune u)) RuneError) && is_head hs b
  end.
Definition enc_units (hs : list byte) (rel : bytes) (us : list bytes) : bytes :=
  flat_map (fun u => (if escapable hs u then rel else []) ++ u) us.
Definition escape (hs : list byte) (rel : bytes) (d : bytes) : bytes :=
  enc_units hs rel (explode d).

Fixpoint join (sep : bytes) (l : list bytes) : bytes :=
  match l with
  | [] => []
  | [x] => x
  | x :: r => x ++ sep ++ join sep r
  end.

Definition enc_rep (c : cfg) (r : lrep) : bytes :=
  join (optb (c_comp c)) (map (escape (heads (specials c)) (optb (c_rel c))) r).
Definition enc_elem (c : cfg) (e : lelem) : bytes := join (optb (c_rep c)) (map (enc_rep c) e).
Definition enc_seg (c : cfg) (s : lseg) : bytes := join (c_elem c) (map (enc_elem c) s).

Definition cr_if (b : bool) : bytes := if b then [CR] else [].
Definition enc_segx (c : cfg) (x : lsegx) : bytes :=
  flat_map (fun cr => cr_if cr ++ c_seg c) (ls_blanks x)
  ++ enc_seg c (ls_seg x) ++ cr_if (ls_cr x) ++ c_seg c.
Definition edi_encode (c : cfg) (segs : list lsegx) : bytes := flat_map (enc_segx c) segs.

(* what the tokenizer is expected to deliver for a logical segment *)
Definition exp_rep (c : cfg) (i : nat) (r : lrep) : list rawelem :=
  comps_of i 0 (map (escape (heads (specials c)) (optb (c_rel c))) r).
Definition exp_elem (c : cfg) (i : nat) (e : lelem) : list rawelem := flat_map (exp_rep c i) e.
Fixpoint exp_elems (c : cfg) (i : nat) (s : lseg) : list rawelem :=
  match s with
  | [] => []
  | e :: r => exp_elem c i e ++ exp_elems c (S i) r
  end.
Definition seg_name (s : lseg) : bytes :=
  match s with (((n :: _) :: _) :: _) => n | _ => [] end.
Definition exp_seg (c : cfg) (s : lseg) : segres :=
  SegOk (escape (heads (specials c)) (optb (c_rel c)) (seg_name s)) (exp_elems c 0 s).

(* logical lookup of a declared element: the values, in order, of component comp_index of every
   repetition of element index *)
Definition lookup (s : lseg) (d : edecl) : list bytes :=
  match spec_comp_index d with
  | O => []
  | S j => flat_map (fun r => match nth_error r j with Some v => [v] | None => [] end)
                    (nth (d_index d) s [])
  end.

Fixpoint exp_nodes (k : nat) (decls : list edecl) (s : lseg) : option (list (nat * bytes)) :=
  match decls with
  | [] => Some []
  | d :: ds =>
      match lookup s d with
      | v :: vs =>
          match exp_nodes (S k) ds s with
          | Some l => Some (map (fun x => (k, x)) (v :: vs) ++ l) | None => None end
      | [] =>
          if d_empty_if_missing d || (match d_default d with Some _ => true | None => false end) then
            match exp_nodes (S k) ds s with
            | Some l => Some ((k, optb (d_default d)) :: l) | None => None end
          else None
      end
  end.

(* the whole reader over one segment declaration: nodes until the first fatal error *)
Fixpoint exp_full (decls : list edecl) (ss : list lseg) : list readres :=
  match ss with
  | [] => []
  | s :: r => match exp_nodes 0 decls s with
              | Some kids => RNode kids :: exp_full decls r
              | None => [RFatal]
              end
  end.

(* ---- correspondence case ---------------------------------------------------------------------- *)
Definition rawelem_eqb (a b : rawelem) : bool :=
  Nat.eqb (re_ei a) (re_ei b) && Nat.eqb (re_ci a) (re_ci b) && bytes_eqb (re_data a) (re_data b).
Definition segres_eqb (a b : segres) : bool :=
  match a, b with
  | SegOk n1 e1, SegOk n2 e2 => bytes_eqb n1 n2 && list_eqb rawelem_eqb e1 e2
  | SegErr, SegErr => true
  | _, _ => false
  end.
Definition kid_eqb (a b : nat * bytes) : bool := Nat.eqb (fst a) (fst b) && bytes_eqb (snd a) (snd b).
Definition readres_eqb (a b : readres) : bool :=
  match a, b with
  | RNode k1, RNode k2 => list_eqb kid_eqb k1 k2
  | RFatal, RFatal => true
  | _, _ => false
  end.

(* error classes (what IsContinuableError sees), by the constructors found in the source
   (Gen/EdiShape.v): "missing segment name" as the full reader passes it on, and a missing element *)
Definition rcls_eqb (a b : rcls) : bool :=
  match a, b with
  | RcEOF, RcEOF | RcFatal, RcFatal | RcFailed, RcFailed | RcLatched, RcLatched | RcPlain, RcPlain => true
  | _, _ => false
  end.
Definition fatal_classes : list rcls := [edi_reader_wrap_class; edi_missing_elem_class].

Record ecase := mkECase {
  ec_cfg : cfg;
  ec_input : bytes;
  ec_raw : list segres;                      (* what NonValidatingReader.Read returned, in order *)
  ec_full : option (bytes * list edecl * list readres);  (* segment name, declarations, ediReader results *)
  ec_fatal : list rcls;                      (* class of every fatal error the readers returned *)
  ec_logical : option (list lsegx);          (* the generator's logical segments, when the input is
                                                edi_encode of them *)
}.

Definition check_case (c : ecase) : bool :=
  (* full_read_all = bind nv_read_all full_results: the tokenisation is evaluated once *)
  match nv_read_all (ec_cfg c) (ec_input c) with
  | Ok l =>
      list_eqb segres_eqb l (ec_raw c)
      && match ec_full c with
         | None => true
         | Some (sname, decls, obs) =>
             match full_results (optb (c_rel (ec_cfg c))) sname decls l with
             | Ok r => list_eqb readres_eqb r obs
             | _ => false
             end
         end
  | _ => false
  end
  && forallb (fun k => existsb (rcls_eqb k) (edi_missing_name_class :: fatal_classes)) (ec_fatal c)
  && match ec_logical c with
     | None => true
     | Some segs =>
         (* the generator's inverse and the expected results, as the theorems state them *)
         bytes_eqb (edi_encode (ec_cfg c) segs)
                   (if c_ignore_crlf (ec_cfg c) then strip_crlf (ec_input c) else ec_input c)
         && list_eqb segres_eqb (map (fun x => exp_seg (ec_cfg c) (ls_seg x)) segs) (ec_raw c)
         && match ec_full c with
            | None => true
            | Some (_, decls, obs) => list_eqb readres_eqb (exp_full decls (map ls_seg segs)) obs
            end
     end.
