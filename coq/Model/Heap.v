(* C12 model: idr/node.go as a pointer machine.
   The heap maps addresses to Node records with explicit links; CreateNode / AddChild /
   RemoveAndReleaseTree / recycle / reset are transcribed pointer update by pointer update
   (every Go selector expression is a load from the current heap, every assignment a store, a
   nil or dangling dereference is a Panic outcome).  sync.Pool is an arbitrary-choice multiset:
   the choice Get makes (any pooled node, or New) is an explicit argument of the create step.
   The process-wide atomic ID counter is next_id (one atomic fetch-and-add per reset).
   Executable definitions only; proofs are in Proofs/Heap*.v. *)
From Coq Require Import List NArith ZArith Bool.
From stdpp Require Import pmap.
From OV Require Import Base.Bytes Base.Cases Base.Tree.
Import ListNotations.

Notation addr := positive (only parsing).

(* idr.Node: ID; Parent, FirstChild, LastChild, PrevSibling, NextSibling; Type; Data;
   FormatSpecific.  NodeType is a Go uint: any value can be passed to CreateNode. *)
Record node := mkNode {
  n_id : Z;
  n_parent : option addr; n_first : option addr; n_last : option addr;
  n_prev : option addr; n_next : option addr;
  n_ty : N; n_data : bytes; n_fs : fspec }.

Definition set_id v (x : node) := mkNode v (n_parent x) (n_first x) (n_last x) (n_prev x) (n_next x) (n_ty x) (n_data x) (n_fs x).
Definition set_parent v (x : node) := mkNode (n_id x) v (n_first x) (n_last x) (n_prev x) (n_next x) (n_ty x) (n_data x) (n_fs x).
Definition set_first v (x : node) := mkNode (n_id x) (n_parent x) v (n_last x) (n_prev x) (n_next x) (n_ty x) (n_data x) (n_fs x).
Definition set_last v (x : node) := mkNode (n_id x) (n_parent x) (n_first x) v (n_prev x) (n_next x) (n_ty x) (n_data x) (n_fs x).
Definition set_prev v (x : node) := mkNode (n_id x) (n_parent x) (n_first x) (n_last x) v (n_next x) (n_ty x) (n_data x) (n_fs x).
Definition set_next v (x : node) := mkNode (n_id x) (n_parent x) (n_first x) (n_last x) (n_prev x) v (n_ty x) (n_data x) (n_fs x).
Definition set_ty v (x : node) := mkNode (n_id x) (n_parent x) (n_first x) (n_last x) (n_prev x) (n_next x) v (n_data x) (n_fs x).
Definition set_data v (x : node) := mkNode (n_id x) (n_parent x) (n_first x) (n_last x) (n_prev x) (n_next x) (n_ty x) v (n_fs x).
Definition set_fs v (x : node) := mkNode (n_id x) (n_parent x) (n_first x) (n_last x) (n_prev x) (n_next x) (n_ty x) (n_data x) v.

Notation heapT := (Pmap node) (only parsing).

(* Process state: every Node ever allocated (the harness keeps them all alive, so addresses are
   never reused by the allocator), the content of nodePool, the nodeID counter, and the next
   address the allocator hands out. *)
Record st := mkSt { heap : heapT; pool : list addr; next_id : Z; next_addr : addr }.

Definition init : st := mkSt ∅ [] 0%Z 1%positive.

Inductive outcome (A : Type) :=
| Ok (a : A)
| Panic (site : N)      (* nil / dangling pointer dereference at the numbered statement *)
| OutOfFuel
| BadChoice.            (* the schedule names a pool choice sync.Pool could not make *)
Arguments Ok {A}. Arguments Panic {A}. Arguments OutOfFuel {A}. Arguments BadChoice {A}.

Definition obind {A B} (x : outcome A) (f : A -> outcome B) : outcome B :=
  match x with
  | Ok a => f a
  | Panic k => Panic k
  | OutOfFuel => OutOfFuel
  | BadChoice => BadChoice
  end.
Notation "x <- e1 ;; e2" := (obind e1 (fun x => e2))
  (at level 100, e1 at next level, right associativity).
Notation "' p <- e1 ;; e2" := (obind e1 (fun p => e2))
  (at level 100, p pattern, e1 at next level, right associativity).

(* p.f  (load through a pointer) and  p.f = v  (store through a pointer) *)
Definition load (site : N) (h : heapT) (a : addr) : outcome node :=
  match h !! a with Some x => Ok x | None => Panic site end.
Definition upd (site : N) (h : heapT) (a : addr) (f : node -> node) : outcome heapT :=
  match h !! a with Some x => Ok (<[a := f x]> h) | None => Panic site end.
(* load/store through a possibly nil pointer *)
Definition loadp (site : N) (h : heapT) (p : option addr) : outcome node :=
  match p with Some a => load site h a | None => Panic site end.
Definition updp (site : N) (h : heapT) (p : option addr) (f : node -> node) : outcome heapT :=
  match p with Some a => upd site h a f | None => Panic site end.

Definition oaddr_eqb (a b : option addr) : bool := opt_eqb Pos.eqb a b.

(* ---- node.go:100-112  newNodeID / reset ---------------------------------------------------- *)
(* what reset leaves in a node whose newNodeID call returned id *)
Definition blank (id : Z) : node := mkNode id None None None None None 0%N [] FNone.

(* (n *Node).reset(): n.ID = atomic.AddInt64(&nodeID, 1); all other fields zeroed *)
Definition reset (site : N) (s : st) (n : addr) : outcome st :=
  match heap s !! n with
  | None => Panic site
  | Some _ =>
      let id := (next_id s + 1)%Z in
      Ok (mkSt (<[n := blank id]> (heap s)) (pool s) id (next_addr s))
  end.

(* ---- node.go:67-71 allocNode: n := &Node{}; n.reset() -------------------------------------- *)
Definition alloc_node (s : st) : st * addr :=
  let a := next_addr s in
  let id := (next_id s + 1)%Z in
  (mkSt (<[a := blank id]> (heap s)) (pool s) id (Pos.succ a), a).

(* ---- sync.Pool ------------------------------------------------------------------------------ *)
Inductive choice := Fresh | FromPool (a : addr).

Fixpoint remove1 (a : addr) (l : list addr) : option (list addr) :=
  match l with
  | [] => None
  | x :: r => if Pos.eqb x a then Some r
              else match remove1 a r with Some r' => Some (x :: r') | None => None end
  end.

(* nodePool.Get(): any node currently in the pool, or New() = allocNode() *)
Definition pool_get (s : st) (c : choice) : outcome (st * addr) :=
  match c with
  | Fresh => Ok (alloc_node s)
  | FromPool a =>
      match remove1 a (pool s) with
      | Some p' => Ok (mkSt (heap s) p' (next_id s) (next_addr s), a)
      | None => BadChoice
      end
  end.
Definition pool_put (s : st) (a : addr) : st :=
  mkSt (heap s) (a :: pool s) (next_id s) (next_addr s).

Definition with_heap (s : st) (h : heapT) : st := mkSt h (pool s) (next_id s) (next_addr s).

(* ---- node.go:86-98 CreateNode --------------------------------------------------------------- *)
Definition create_node (caching : bool) (s : st) (c : choice) (ty : N) (data : bytes)
  : outcome (st * addr) :=
  '(s1, a) <- (if caching then pool_get s c
               else match c with Fresh => Ok (alloc_node s) | FromPool _ => BadChoice end) ;;
  h1 <- upd 1 (heap s1) a (set_ty ty) ;;
  h2 <- upd 2 h1 a (set_data data) ;;
  Ok (with_heap s1 h2, a).

(* xmlnode.go:25 CreateXMLNode / jsonnode.go:101 CreateJSONNode: CreateNode, then
   n.FormatSpecific = ... ;  fs = FNone stands for plain CreateNode *)
Definition create (caching : bool) (s : st) (c : choice) (ty : N) (data : bytes) (fs : fspec)
  : outcome (st * addr) :=
  '(s1, a) <- create_node caching s c ty data ;;
  match fs with
  | FNone => Ok (s1, a)
  | _ => h1 <- upd 3 (heap s1) a (set_fs fs) ;; Ok (with_heap s1 h1, a)
  end.

(* ---- node.go:136-147 AddChild(parent, n) ---------------------------------------------------- *)
Definition add_child (h : heapT) (p n : addr) : outcome heapT :=
  h <- upd 10 h n (set_parent (Some p)) ;;                (* n.Parent = parent *)
  h <- upd 11 h n (set_next None) ;;                      (* n.NextSibling = nil *)
  pn <- load 12 h p ;;
  h <- match n_first pn with                              (* if parent.FirstChild == nil *)
       | None =>
           h <- upd 13 h p (set_first (Some n)) ;;        (* parent.FirstChild = n *)
           upd 14 h n (set_prev None)                     (* n.PrevSibling = nil *)
       | Some _ =>
           pn <- load 15 h p ;;
           h <- updp 16 h (n_last pn) (set_next (Some n)) ;;  (* parent.LastChild.NextSibling = n *)
           pn <- load 17 h p ;;
           upd 18 h n (set_prev (n_last pn))              (* n.PrevSibling = parent.LastChild *)
       end ;;
  upd 19 h p (set_last (Some n)).                         (* parent.LastChild = n *)

(* ---- node.go:151-171 RemoveAndReleaseTree, the unlinking part ------------------------------- *)
(* n.Parent is re-read by every Go statement; no statement of this function writes a Parent
   field, so the value is the same each time and is read once here.  All other fields are
   re-loaded from the current heap by each statement. *)
Definition unlink (h : heapT) (n : addr) : outcome heapT :=
  nn <- load 20 h n ;;
  match n_parent nn with
  | None => Ok h                                          (* goto recycle *)
  | Some p =>
      pn <- load 21 h p ;;
      if oaddr_eqb (n_first pn) (Some n) then
        pn <- load 22 h p ;;
        if oaddr_eqb (n_last pn) (Some n) then
          h <- upd 23 h p (set_first None) ;;             (* n.Parent.FirstChild = nil *)
          upd 24 h p (set_last None)                      (* n.Parent.LastChild = nil *)
        else
          nn <- load 25 h n ;;
          h <- upd 26 h p (set_first (n_next nn)) ;;      (* n.Parent.FirstChild = n.NextSibling *)
          nn <- load 27 h n ;;
          updp 28 h (n_next nn) (set_prev None)           (* n.NextSibling.PrevSibling = nil *)
      else
        pn <- load 29 h p ;;
        if oaddr_eqb (n_last pn) (Some n) then
          nn <- load 30 h n ;;
          h <- upd 31 h p (set_last (n_prev nn)) ;;       (* n.Parent.LastChild = n.PrevSibling *)
          nn <- load 32 h n ;;
          updp 33 h (n_prev nn) (set_next None)           (* n.PrevSibling.NextSibling = nil *)
        else
          nn <- load 34 h n ;;
          h <- updp 35 h (n_prev nn) (set_next (n_next nn)) ;; (* n.PrevSibling.NextSibling = n.NextSibling *)
          nn <- load 36 h n ;;
          updp 37 h (n_next nn) (set_prev (n_prev nn))    (* n.NextSibling.PrevSibling = n.PrevSibling *)
  end.

(* ---- node.go:176-189 recycle ----------------------------------------------------------------- *)
(* for c := n.FirstChild; c != nil; { next := c.NextSibling; recycle(c); c = next }
   n.reset(); nodePool.Put(n).   The recursion goes through the heap, so it is fuelled; the
   theorems give the fuel that suffices. *)
Fixpoint recycle (fuel : nat) (s : st) (n : addr) {struct fuel} : outcome st :=
  match fuel with
  | O => OutOfFuel
  | S f =>
      nn <- load 40 (heap s) n ;;
      s1 <- recycle_kids f s (n_first nn) ;;
      s2 <- reset 43 s1 n ;;
      Ok (pool_put s2 n)
  end
with recycle_kids (fuel : nat) (s : st) (c : option addr) {struct fuel} : outcome st :=
  match fuel with
  | O => OutOfFuel
  | S f =>
      match c with
      | None => Ok s
      | Some c =>
          cn <- load 41 (heap s) c ;;                     (* next := c.NextSibling *)
          s1 <- recycle f s c ;;
          recycle_kids f s1 (n_next cn)
      end
  end.

Definition remove_and_release (caching : bool) (fuel : nat) (s : st) (n : addr) : outcome st :=
  h <- unlink (heap s) n ;;
  if caching then recycle fuel (with_heap s h) n else Ok (with_heap s h).

(* ---- operations and histories ----------------------------------------------------------------- *)
Inductive op :=
| OCreate (c : choice) (ty : N) (data : bytes) (fs : fspec)
| OAdd (p n : addr)
| ORemove (n : addr).

(* Every recycle call handles a distinct node, and no more than next_addr - 1 nodes exist. *)
Definition fuel_of (s : st) : nat := (2 * Pos.to_nat (next_addr s) + 2)%nat.

Definition step (caching : bool) (s : st) (o : op) : outcome (st * option addr) :=
  match o with
  | OCreate c ty data fs => '(s1, a) <- create caching s c ty data fs ;; Ok (s1, Some a)
  | OAdd p n => h <- add_child (heap s) p n ;; Ok (with_heap s h, None)
  | ORemove n => s1 <- remove_and_release caching (fuel_of s) s n ;; Ok (s1, None)
  end.

Fixpoint run (caching : bool) (s : st) (ops : list op) : outcome (st * list (option addr)) :=
  match ops with
  | [] => Ok (s, [])
  | o :: r =>
      '(s1, x) <- step caching s o ;;
      '(s2, xs) <- run caching s1 r ;;
      Ok (s2, x :: xs)
  end.

(* ---- the ID counter under concurrency --------------------------------------------------------- *)
(* newNodeID is atomic.AddInt64(&nodeID, 1): one indivisible step that bumps the counter and
   returns the new value.  Several goroutines acquire IDs concurrently; a schedule lists, in the
   order in which the atomic steps take effect, which goroutine performs the next acquisition. *)
Definition fetch_add (c : Z) : Z * Z := ((c + 1)%Z, (c + 1)%Z).   (* (new counter, value returned) *)

Fixpoint par_run (c : Z) (sched : list nat) : Z * list (nat * Z) :=
  match sched with
  | [] => (c, [])
  | g :: r =>
      let '(c1, v) := fetch_add c in
      let '(c2, seen) := par_run c1 r in
      (c2, (g, v) :: seen)
  end.

(* ---- how the readers release nodes ------------------------------------------------------------------ *)
(* idr/xmlreader.go:168-192, idr/jsonreader.go:218-239, flatfile/hierarchyReader.go:49-54 and
   123-131, edi/reader.go:209-213 and 271-277, fixedlength/reader.go:141-145 and 175-180:
   a reader remembers the node it delivered last in a slot (sp.stream / r.target).  Read first
   removes what is still in the slot and clears it, then delivers a newly built node (or
   nothing) and stores it in the slot.  Release(n) clears the slot if it holds n, then removes n.
   The ingester (extensions/omniv21/ingester.go:41-49) keeps the node of the last successful
   Read in rawRecord.node and, before the next reader.Read, calls Release on it once.
   A call sequence is any interleaving of "reader.Read delivering d" and "release the current
   node, if there is one". *)
Inductive rcall := CRead (d : option addr) | CRelease.
Record rstate := mkR { r_slot : option addr; r_cur : option addr }.

Definition reader_step (st : rstate) (c : rcall) : rstate * list addr :=   (* new state, removals *)
  match c with
  | CRead d =>
      (mkR d d, match r_slot st with Some t => [t] | None => [] end)
  | CRelease =>
      match r_cur st with
      | None => (st, [])
      | Some n => (mkR (if oaddr_eqb (r_slot st) (Some n) then None else r_slot st) None, [n])
      end
  end.

Fixpoint reader_run (st : rstate) (cs : list rcall) : rstate * list addr :=
  match cs with
  | [] => (st, [])
  | c :: r => let '(st1, rm) := reader_step st c in
              let '(st2, rms) := reader_run st1 r in (st2, rm ++ rms)
  end.

Definition deliveries (cs : list rcall) : list addr :=
  flat_map (fun c => match c with CRead (Some d) => [d] | _ => [] end) cs.

(* ---- the abstract side: ordered forests of addresses ----------------------------------------- *)
Inductive atree := AT (a : addr) (kids : list atree).
Definition forest := list atree.

Definition root (t : atree) : addr := let 'AT a _ := t in a.
Definition kids (t : atree) : list atree := let 'AT _ k := t in k.

Fixpoint addrs (t : atree) : list addr :=
  let 'AT a ks := t in a :: flat_map addrs ks.
Definition addrs_f (F : forest) : list addr := flat_map addrs F.

Fixpoint tsize (t : atree) : nat :=
  let 'AT _ ks := t in S (fold_right (fun k n => (tsize k + n)%nat) O ks).

(* the order in which recycle resets and pools the nodes of a subtree *)
Fixpoint postorder (t : atree) : list addr :=
  let 'AT a ks := t in flat_map postorder ks ++ [a].

Definition hd_addr (ks : list atree) : option addr :=
  match ks with [] => None | k :: _ => Some (root k) end.
Fixpoint last_addr (ks : list atree) : option addr :=
  match ks with [] => None | [k] => Some (root k) | _ :: r => last_addr r end.

Definition mem (a : addr) (l : list addr) : bool := existsb (Pos.eqb a) l.

Fixpoint find_root (n : addr) (F : forest) : option atree :=
  match F with
  | [] => None
  | t :: r => if Pos.eqb (root t) n then Some t else find_root n r
  end.
Definition drop_root (n : addr) (F : forest) : forest :=
  List.filter (fun t => negb (Pos.eqb (root t) n)) F.

(* graft: tn becomes the new last child of the node p *)
Fixpoint graft_t (p : addr) (tn : atree) (t : atree) : atree :=
  let 'AT a ks := t in
  if Pos.eqb a p then AT a (ks ++ [tn]) else AT a (map (graft_t p tn) ks).
Definition graft (p n : addr) (F : forest) : forest :=
  match find_root n F with
  | Some tn => map (graft_t p tn) (drop_root n F)
  | None => F
  end.

(* prune: the subtree rooted at n disappears *)
Fixpoint prune_t (n : addr) (t : atree) : atree :=
  let 'AT a ks := t in
  AT a (List.filter (fun k => negb (Pos.eqb (root k) n)) (map (prune_t n) ks)).
Definition prune (n : addr) (F : forest) : forest :=
  map (prune_t n) (drop_root n F).

(* the subtree rooted at n *)
Fixpoint subtree_t (n : addr) (t : atree) : option atree :=
  let 'AT a ks := t in
  if Pos.eqb a n then Some t
  else (fix go (l : list atree) : option atree :=
          match l with
          | [] => None
          | k :: r => match subtree_t n k with Some x => Some x | None => go r end
          end) ks.
Fixpoint subtree (n : addr) (F : forest) : option atree :=
  match F with
  | [] => None
  | t :: r => match subtree_t n t with Some x => Some x | None => subtree n r end
  end.

(* API preconditions, decided on the abstract forest the state represents:
   create  - the pool choice is one sync.Pool can make;
   AddChild(p, n) - p is live, n is a live detached root, and p does not lie in n's tree
                    (so n is neither p nor an ancestor of p);
   RemoveAndReleaseTree(n) - n is live. *)
Definition pre_b (caching : bool) (s : st) (F : forest) (o : op) : bool :=
  match o with
  | OCreate Fresh _ _ _ => true
  | OCreate (FromPool a) _ _ _ => caching && mem a (pool s)
  | OAdd p n =>
      match find_root n F with
      | Some tn => mem p (addrs_f F) && negb (mem p (addrs tn))
      | None => false
      end
  | ORemove n => mem n (addrs_f F)
  end.

(* effect of an operation on the abstract forest; a created node becomes a new last root *)
Definition aeffect (s : st) (F : forest) (o : op) : forest :=
  match o with
  | OCreate Fresh _ _ _ => F ++ [AT (next_addr s) []]
  | OCreate (FromPool a) _ _ _ => F ++ [AT a []]
  | OAdd p n => graft p n F
  | ORemove n => prune n F
  end.

(* ---- reading a forest back from the heap (abs) ------------------------------------------------ *)
(* Follows FirstChild / NextSibling only, the way every traversal in the repo does. *)
Fixpoint read_tree (fuel : nat) (h : heapT) (a : addr) {struct fuel} : option atree :=
  match fuel with
  | O => None
  | S f =>
      match h !! a with
      | None => None
      | Some x => match read_kids f h (n_first x) with
                  | Some ks => Some (AT a ks)
                  | None => None
                  end
      end
  end
with read_kids (fuel : nat) (h : heapT) (c : option addr) {struct fuel} : option (list atree) :=
  match fuel with
  | O => None
  | S f =>
      match c with
      | None => Some []
      | Some c =>
          match h !! c with
          | None => None
          | Some x =>
              match read_tree f h c, read_kids f h (n_next x) with
              | Some t, Some r => Some (t :: r)
              | _, _ => None
              end
          end
      end
  end.

Definition abs (s : st) (a : addr) : option atree := read_tree (fuel_of s) (heap s) a.

Definition ntype_of_N (n : N) : option ntype :=
  match n with
  | 0%N => Some DocumentNode | 1%N => Some ElementNode
  | 2%N => Some TextNode | 3%N => Some AttributeNode
  | _ => None
  end.

(* the Base.Tree.tree (what every other model works with) a shape stands for in a heap *)
Fixpoint payload (h : heapT) (t : atree) : option tree :=
  let 'AT a ks := t in
  match h !! a with
  | None => None
  | Some x =>
      match ntype_of_N (n_ty x) with
      | None => None
      | Some ty =>
          match (fix go (l : list atree) : option (list tree) :=
                   match l with
                   | [] => Some []
                   | k :: r => match payload h k, go r with
                               | Some t, Some ts => Some (t :: ts)
                               | _, _ => None
                               end
                   end) ks with
          | Some kts => Some (T ty (n_data x) (n_fs x) kts)
          | None => None
          end
      end
  end.

(* ---- executable well-formedness (the Boolean mirror of Proofs.Heap.tree_ok / Rep) ------------- *)
Definition node_links_b (x : node) (par prev next first last : option addr) : bool :=
  oaddr_eqb (n_parent x) par && oaddr_eqb (n_prev x) prev && oaddr_eqb (n_next x) next
  && oaddr_eqb (n_first x) first && oaddr_eqb (n_last x) last.

Fixpoint tree_ok_b (h : heapT) (par prev next : option addr) (t : atree) : bool :=
  let 'AT a ks := t in
  match h !! a with
  | None => false
  | Some x =>
      node_links_b x par prev next (hd_addr ks) (last_addr ks)
      && (fix go (pv : option addr) (l : list atree) : bool :=
            match l with
            | [] => true
            | k :: r => tree_ok_b h (Some a) pv (hd_addr r) k && go (Some (root k)) r
            end) None ks
  end.

Fixpoint nodup_b (l : list addr) : bool :=
  match l with
  | [] => true
  | x :: r => negb (mem x r) && nodup_b r
  end.

Definition node_eqb_noid (x y : node) : bool :=
  node_links_b x (n_parent y) (n_prev y) (n_next y) (n_first y) (n_last y)
  && N.eqb (n_ty x) (n_ty y) && bytes_eqb (n_data x) (n_data y) && fspec_eqb (n_fs x) (n_fs y).

Definition is_blank_b (h : heapT) (a : addr) : bool :=
  match h !! a with Some x => node_eqb_noid x (blank 0%Z) | None => false end.

Definition id_of (h : heapT) (a : addr) : Z :=
  match h !! a with Some x => n_id x | None => 0%Z end.

Fixpoint znodup_b (l : list Z) : bool :=
  match l with
  | [] => true
  | x :: r => negb (existsb (Z.eqb x) r) && znodup_b r
  end.

(* forest links sound, live and pooled addresses pairwise distinct, pooled nodes blank, all IDs
   of live and pooled nodes pairwise distinct *)
Definition rep_b (s : st) (F : forest) : bool :=
  forallb (tree_ok_b (heap s) None None None) F
  && nodup_b (addrs_f F ++ pool s)
  && forallb (is_blank_b (heap s)) (pool s)
  && znodup_b (map (id_of (heap s)) (addrs_f F ++ pool s)).

(* ---- correspondence cases ---------------------------------------------------------------------- *)
Fixpoint atree_eqb (a b : atree) : bool :=
  let 'AT x ks := a in
  let 'AT y ls := b in
  Pos.eqb x y &&
  (fix go (xs ys : list atree) : bool :=
     match xs, ys with
     | [], [] => true
     | x :: xs', y :: ys' => atree_eqb x y && go xs' ys'
     | _, _ => false
     end) ks ls.

(* Compact numeric views used by the generated Cases files: nil = 0, a byte string as the
   base-256 number with a leading 1 digit, a format-specific value as a tagged number. *)
Definition N_of_oaddr (o : option addr) : N := match o with None => 0%N | Some p => Npos p end.
Definition oaddr_of_N (n : N) : option addr := match n with N0 => None | Npos p => Some p end.
Fixpoint N_of_bytes_aux (acc : N) (b : bytes) : N :=
  match b with [] => acc | x :: r => N_of_bytes_aux (acc * 256 + Byte.to_N x)%N r end.
Definition N_of_bytes (b : bytes) : N := N_of_bytes_aux 1%N b.
Definition N_of_fs (f : fspec) : N :=
  match f with
  | FNone => 0%N
  | FJson j => (4 * j + 1)%N
  | FXml p u => (4 * (N_of_bytes p * 2199023255552 + N_of_bytes u) + 2)%N
  end.

(* the observable fields of a node, in the order Parent, FirstChild, LastChild, PrevSibling,
   NextSibling, Type, Data, FormatSpecific (the ID is not an observable) *)
Definition fields (x : node) : list N :=
  [N_of_oaddr (n_parent x); N_of_oaddr (n_first x); N_of_oaddr (n_last x);
   N_of_oaddr (n_prev x); N_of_oaddr (n_next x); n_ty x; N_of_bytes (n_data x); N_of_fs (n_fs x)].

Definition nd (par first last prev next ty : N) (data : bytes) (fs : fspec) : node :=
  mkNode 0%Z (oaddr_of_N par) (oaddr_of_N first) (oaddr_of_N last) (oaddr_of_N prev)
         (oaddr_of_N next) ty data fs.
Arguments nd (par first last prev next ty)%N data fs.

(* What the harness saw after one operation: the label of the node a create returned (0 for
   the other operations), every (label, field, new value) that changed at link level among all
   labelled nodes (for a node seen for the first time: every field in which it differs from a
   blank node), and at check points
   the forest of live trees as the harness's own shadow structure has it. *)
Record obs := mkObs {
  o_ret : N;
  o_delta : list (N * N * N);
  o_forest : option forest }.
Arguments mkObs _%N _%N _.
Arguments AT _%positive _.
Arguments FromPool _%positive.
Arguments OCreate _ _%N _ _.
Arguments OAdd (_ _)%positive.
Arguments ORemove _%positive.

Definition all_addrs (s : st) : list addr :=
  map Pos.of_nat (seq 1 (Pos.to_nat (next_addr s) - 1)).

Fixpoint field_changes (a : addr) (i : N) (old new : list N) : list (N * N * N) :=
  match new, old with
  | v :: new', w :: old' =>
      (if N.eqb v w then [] else [(Npos a, i, v)]) ++ field_changes a (N.succ i) old' new'
  | _, _ => []
  end.

Definition delta (s s' : st) : list (N * N * N) :=
  flat_map (fun a => match heap s' !! a with
                     | Some x => field_changes a 0%N
                                   (fields (match heap s !! a with Some y => y | None => blank 0%Z end))
                                   (fields x)
                     | None => []
                     end) (all_addrs s').

Definition delta_eqb (d e : list (N * N * N)) : bool :=
  list_eqb (fun p q => N.eqb (fst (fst p)) (fst (fst q)) && N.eqb (snd (fst p)) (snd (fst q))
                       && N.eqb (snd p) (snd q)) d e.

(* A history on the real idr API.  The operations carry the OBSERVED pool choices. *)
Record hcase := mkHCase {
  hc_caching : bool;
  hc_strict : bool;           (* false: a script outside the API preconditions; only the
                                 returned labels and the link-level changes are compared *)
  hc_ops : list op;
  hc_obs : list obs;
  hc_final : list tree }.     (* the live trees at the end, as Base.Tree trees *)

(* [stp] is the step function: Model.Heap.step here; Model/HeapOpsGen.v instantiates it with the
   step whose link surgery is done by the programs extracted from node.go (step_src) - that is
   the one the harness' cases are checked with - and proves the two replays equal. *)
Fixpoint replay_with (stp : bool -> st -> op -> outcome (st * option addr))
  (caching strict : bool) (s : st) (F : forest) (ops : list op) (os : list obs)
  : option (st * forest) :=
  match ops, os with
  | [], [] => Some (s, F)
  | o :: ops', ob :: os' =>
      if negb strict || pre_b caching s F o then
        match stp caching s o with
        | Ok (s', ret) =>
            let F' := aeffect s F o in
            if N.eqb (N_of_oaddr ret) (o_ret ob)
               && delta_eqb (delta s s') (o_delta ob)
               && (negb strict ||
                   rep_b s' F'
                   && list_eqb (opt_eqb atree_eqb) (map (abs s') (map root F')) (map Some F')
                   && match o_forest ob with Some G => list_eqb atree_eqb F' G | None => true end)
            then replay_with stp caching strict s' F' ops' os'
            else None
        | _ => None
        end
      else None
  | _, _ => None
  end.

Definition replay := replay_with step.

Definition check_hcase_with (stp : bool -> st -> op -> outcome (st * option addr)) (c : hcase) : bool :=
  match replay_with stp (hc_caching c) (hc_strict c) init [] (hc_ops c) (hc_obs c) with
  | Some (s, F) =>
      negb (hc_strict c)
      || list_eqb (opt_eqb tree_eqb) (map (payload (heap s)) F) (map Some (hc_final c))
  | None => false
  end.
Definition check_hcase : hcase -> bool := check_hcase_with step.

(* A tree handed out by a reader: link-level dump of every node reachable from the root, and
   the Base.Tree tree the harness printed for it (labels in pre-order).  The model rebuilds the heap, reads the shape
   back, checks every link and the payload. *)
Record tcase := mkTCase {
  tc_nodes : list node;       (* the node labelled k is the k-th element; the root is 1 *)
  tc_tree : tree }.

Fixpoint heap_of (a : addr) (l : list node) : heapT :=
  match l with
  | [] => ∅
  | x :: r => <[a := x]> (heap_of (Pos.succ a) r)
  end.

Definition check_tcase (c : tcase) : bool :=
  let h := heap_of 1%positive (tc_nodes c) in
  match read_tree (2 * length (tc_nodes c) + 2) h 1%positive with
  | Some t =>
      tree_ok_b h None None None t
      && nodup_b (addrs t)
      && Nat.eqb (length (addrs t)) (length (tc_nodes c))
      && opt_eqb tree_eqb (payload h t) (Some (tc_tree c))
  | None => false
  end.

Inductive c12case := HCase (c : hcase) | TCase (c : tcase).
Definition check_case_with (stp : bool -> st -> op -> outcome (st * option addr)) (c : c12case) : bool :=
  match c with HCase c => check_hcase_with stp c | TCase c => check_tcase c end.
Definition check_case : c12case -> bool := check_case_with step.
