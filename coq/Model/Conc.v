(* C14 model: the process-wide state of omniparser and goroutines acting on it.
   Executable definitions only; proofs are in Proofs/Conc.v.

   Shared hidden state [hid]: the node ID counter (idr/node.go: atomic.AddInt64) and the node
   pool (sync.Pool), the xpath expression cache (go-corelib caches: hashicorp LRU, locked), and
   the three JavaScript components of Model/Js.v (program cache, VM pool, node-JSON cache).
   It is touched ONLY through the atomic actions below (pool get/put, fetch_add, cache get/add);
   that these are atomic - i.e. that the Go code has no data race on them - is what this model
   ASSUMES and what the harness validates under the race detector.  A goroutine is a list of
   operations; every operation is a short sequence of atomic actions with local computation in
   between (the [pend] component is the goroutine's program counter inside an operation), and
   any goroutine may be scheduled between any two atomic actions.  The schema's validated
   declarations [h_schema] are part of the shared state as well. *)
From Coq Require Import List NArith Bool.
From Coq Require String. Import String.StringSyntax.
Local Delimit Scope string_scope with string.
From stdpp Require Import gmap.
From OV Require Import Base.Bytes Base.Cases Model.Js Gen.PkgVars.
Import ListNotations.

(* ---- where the process-wide state lives --------------------------------------------------------- *)
(* The shared state [hid] below has one component per package-level variable of the repository
   that is mutable at run time.  Gen/PkgVars.v is re-extracted from the sources on every run (all
   package-level `var`s of the library packages); [accounted] says what each one is.  A variable
   that is not accounted for - a new package-level map, pool, cache, slice, counter - makes
   process_state_accounted (Props/C14.v) stop checking. *)
Inductive component :=
| CCounter      (* idr.nodeID              <-> h_ctr   *)
| CNodePool     (* idr.nodePool            <-> h_npool *)
| CVmPool       (* customfuncs.jsRuntimePool <-> h_vms *)
| CProgCache    (* customfuncs.JSProgramCache <-> h_prog *)
| CNodeCache.   (* customfuncs.NodeToJSONCache <-> h_node *)
(* h_xc (xpath expression cache) and the regexp cache live in go-corelib, outside the repository *)

Inductive role :=
| RShared (c : component)   (* a component of the shared state: accessed by the atomic actions *)
| RSwitch                   (* test-only switch: written by no library function *)
| RTable.                   (* initialised at package init, written by no library function *)

Definition accounted : list (String.string * String.string * role) := [
  ("idr", "nodeID", RShared CCounter);
  ("idr", "nodePool", RShared CNodePool);
  ("extensions/omniv21/customfuncs", "jsRuntimePool", RShared CVmPool);
  ("extensions/omniv21/customfuncs", "JSProgramCache", RShared CProgCache);
  ("extensions/omniv21/customfuncs", "NodeToJSONCache", RShared CNodeCache);
  ("idr", "nodeCaching", RSwitch);
  ("extensions/omniv21/customfuncs", "disableCaching", RSwitch);
  (".", "defaultExt", RTable);
  ("customfuncs", "CommonCustomFuncs", RTable);
  ("extensions/omniv21/customfuncs", "OmniV21CustomFuncs", RTable);
  ("header", "supportedEncodingMappings", RTable);
  ("extensions/omniv21/fileformat/edi", "crBytes", RTable);
  ("extensions/omniv21/fileformat/edi", "lfBytes", RTable);
  ("extensions/omniv21/transform", "convFloatToInt", RTable);
  ("extensions/omniv21/transform", "convIntToFloat", RTable);
  ("extensions/omniv21/transform", "convStrToBool", RTable);
  ("extensions/omniv21/transform", "convStrToFloat", RTable);
  ("extensions/omniv21/transform", "convStrToInt", RTable);
  ("extensions/omniv21/transform", "convToStr", RTable);
  ("extensions/omniv21/transform", "convUintToFloat", RTable)
]%string.

Definition role_of (pkg name : String.string) : option role :=
  match find (fun e => String.eqb (fst (fst e)) pkg && String.eqb (snd (fst e)) name) accounted with
  | Some e => Some (snd e)
  | None => None
  end.

(* error sentinels, scalars and function values that nothing writes need no entry; everything
   else (maps, slices, pointers, sync/atomic values, results of calls, anything written) must be
   accounted for by name, and switches / tables must really be written by no library function *)
Definition var_ok (v : pkgvar) : bool :=
  match role_of (pv_pkg v) (pv_name v) with
  | Some (RShared _) => true
  | Some RSwitch | Some RTable => negb (pv_written v)
  | None => negb (pv_written v) &&
            match pv_kind v with KErr | KScalar | KFunc => true | _ => false end
  end.

Definition all_components : list component := [CCounter; CNodePool; CVmPool; CProgCache; CNodeCache].
Definition component_eqb (a b : component) : bool :=
  match a, b with
  | CCounter, CCounter | CNodePool, CNodePool | CVmPool, CVmPool
  | CProgCache, CProgCache | CNodeCache, CNodeCache => true
  | _, _ => false
  end.
(* every component of the model is a variable that exists in the sources *)
Definition component_real (c : component) : bool :=
  existsb (fun v => match role_of (pv_pkg v) (pv_name v) with
                    | Some (RShared c') => component_eqb c c'
                    | _ => false
                    end) pkg_vars.

Section Conc.
  Variable S : Type.                      (* validated schema data: declarations, format runtime *)
  Variable r : rt.                        (* the JavaScript runtime's fresh global object *)
  Variable compile : N -> option script.  (* goja.Compile, a function of the text *)
  Variable xcompile : N -> N.             (* xpath.Compile, a function of the text (errors are values) *)
  Variable xeval : S -> N -> bytes -> N.  (* evaluating a compiled expression on a node's content *)

  Record hid := mkHid {
    h_schema : S;
    h_ctr : N;                 (* nodeID *)
    h_npool : list N;          (* pooled nodes, by the ID they were given when reset *)
    h_xc : lru N;              (* expression text -> compiled expression *)
    h_vms : list vm;           (* jsRuntimePool *)
    h_prog : lru script;       (* JSProgramCache *)
    h_node : lru bytes;        (* NodeToJSONCache *)
  }.

  (* ---- operations of a goroutine --------------------------------------------------------------- *)
  (* A node is (ID, content): content stands for the finished subtree (its JSONify2 text).  A
     goroutine keeps the nodes it has created and not yet released in a stack (the streaming
     readers release in LIFO order; nothing depends on that). *)
  Record jsop := mkJsOp {
    j_js : N;
    j_args : list (N * jsval);     (* the arg map, in the order the set loop takes *)
    j_wipe : list N;               (* the order the wipe loop takes *)
    j_node : option nat;           (* javascript_with_context: index of the node in the stack *)
  }.

  Inductive gop :=
  | GAlloc (c : bytes)             (* idr.CreateNode ... the reader builds a node *)
  | GRelease                       (* idr.RemoveAndReleaseTree of the newest node *)
  | GXPath (e : N) (k : nat)       (* idr.MatchAll / MatchSingle with a cacheable expression *)
  | GCompile (e : N)               (* caches.GetXPathExpr / GetRegex while a schema is validated *)
  | GJs (j : jsop).                (* javascript / javascript_with_context *)

  Inductive gout := OutX (v : N) | OutJs (o : outcome) | OutNoNode | OutC (x : N).

  (* where a goroutine stands inside an operation *)
  Inductive pend :=
  | PIdle
  | PAllocNew (c : bytes)                         (* pool was empty: New() -> allocNode -> fetch_add *)
  | PReleasePut (id : N)                          (* reset done (new ID): about to Put *)
  | PXAdd (e : N) (c : bytes)                     (* expression cache miss: compiled, about to Add *)
  | PCAdd (e : N)                                 (* the same while validating a schema *)
  | PJsProgAdd (j : jsop) (p : script)            (* program cache miss: compiled, about to Add *)
  | PJsNode (j : jsop) (p : script)               (* have the program: node-JSON lookup next *)
  | PJsNodeAdd (j : jsop) (p : script) (id : N) (b : bytes)   (* node cache miss: about to Add *)
  | PJsVmGet (j : jsop) (p : script) (a : list (N * jsval))  (* args ready: Get a runtime *)
  | PJsRun (j : jsop) (p : script) (a : list (N * jsval)) (m : vm). (* owns runtime m: run, Put *)

  Record gstate := mkG {
    g_todo : list gop;
    g_live : list (N * bytes);     (* nodes created and not released: (ID, content) *)
    g_pend : pend;
    g_out : list gout;
    g_ids : list N;                (* log: IDs this goroutine obtained from the counter (oldest first) *)
  }.
  Definition g_init (ops : list gop) : gstate := mkG ops [] PIdle [] [].

  Definition set_xc h x := mkHid (h_schema h) (h_ctr h) (h_npool h) x (h_vms h) (h_prog h) (h_node h).
  Definition set_vms h x := mkHid (h_schema h) (h_ctr h) (h_npool h) (h_xc h) x (h_prog h) (h_node h).
  Definition set_prog h x := mkHid (h_schema h) (h_ctr h) (h_npool h) (h_xc h) (h_vms h) x (h_node h).
  Definition set_node h x := mkHid (h_schema h) (h_ctr h) (h_npool h) (h_xc h) (h_vms h) (h_prog h) x.
  Definition set_ctr h x := mkHid (h_schema h) x (h_npool h) (h_xc h) (h_vms h) (h_prog h) (h_node h).
  Definition set_npool h x := mkHid (h_schema h) (h_ctr h) x (h_xc h) (h_vms h) (h_prog h) (h_node h).

  Definition node_arg (j : jsop) (b : bytes) : list (N * jsval) :=
    (* vmArgs[_node] = json: overrides a user arg of that name *)
    (NODE, JStr b) :: filter (fun kv => negb (N.eqb (fst kv) NODE)) (j_args j).

  (* ONE atomic action of goroutine g (with the local computation that follows it).  [ch]
     resolves sync.Pool's freedom when the action is a Get. *)
  Definition gstep (h : hid) (g : gstate) (ch : choice) : hid * gstate :=
    match g_pend g with
    | PAllocNew c =>                                   (* atomic.AddInt64(&nodeID, 1) *)
        let id := N.succ (h_ctr h) in
        (set_ctr h id, mkG (g_todo g) ((id, c) :: g_live g) PIdle (g_out g) (g_ids g ++ [id]))
    | PReleasePut id =>                                (* nodePool.Put *)
        (set_npool h (id :: h_npool h), mkG (g_todo g) (g_live g) PIdle (g_out g) (g_ids g))
    | PXAdd e c =>                                     (* cache.Add; then the query runs locally *)
        (set_xc h (lru_add (h_xc h) e (xcompile e)),
         mkG (g_todo g) (g_live g) PIdle (g_out g ++ [OutX (xeval (h_schema h) (xcompile e) c)]) (g_ids g))
    | PCAdd e =>
        (set_xc h (lru_add (h_xc h) e (xcompile e)),
         mkG (g_todo g) (g_live g) PIdle (g_out g ++ [OutC (xcompile e)]) (g_ids g))
    | PJsProgAdd j p =>
        (set_prog h (lru_add (h_prog h) (j_js j) p), mkG (g_todo g) (g_live g) (PJsNode j p) (g_out g) (g_ids g))
    | PJsNode j p =>
        match j_node j with
        | None => (h, mkG (g_todo g) (g_live g) (PJsVmGet j p (j_args j)) (g_out g) (g_ids g))
        | Some k =>
            match nth_error (g_live g) k with
            | None => (h, mkG (g_todo g) (g_live g) PIdle (g_out g ++ [OutNoNode]) (g_ids g))
            | Some (id, c) =>
                match lru_get (h_node h) id with          (* NodeToJSONCache.Get *)
                | (Some b, cache') =>
                    (set_node h cache', mkG (g_todo g) (g_live g) (PJsVmGet j p (node_arg j b)) (g_out g) (g_ids g))
                | (None, _) =>
                    (h, mkG (g_todo g) (g_live g) (PJsNodeAdd j p id c) (g_out g) (g_ids g))
                end
            end
        end
    | PJsNodeAdd j p id b =>
        (set_node h (lru_add (h_node h) id b),
         mkG (g_todo g) (g_live g) (PJsVmGet j p (node_arg j b)) (g_out g) (g_ids g))
    | PJsVmGet j p a =>                                (* jsRuntimePool.Get *)
        let '(m, pool') := pool_get r ch (h_vms h) in
        (set_vms h pool', mkG (g_todo g) (g_live g) (PJsRun j p a m) (g_out g) (g_ids g))
    | PJsRun j p a m =>                                (* set args, run, wipe: local; then Put *)
        let '(m', res) := run_on r m a (j_wipe j) p in
        (set_vms h (pool_put m' (h_vms h)),
         mkG (g_todo g) (g_live g) PIdle (g_out g ++ [OutJs (outcome_of res)]) (g_ids g))
    | PIdle =>
        match g_todo g with
        | [] => (h, g)
        | GAlloc c :: rest =>                          (* nodePool.Get *)
            match ch with
            | ChPool i =>
                match nth_error (h_npool h) i with
                | Some id => (set_npool h (remove_nth i (h_npool h)),
                              mkG rest ((id, c) :: g_live g) PIdle (g_out g) (g_ids g))
                | None => (h, mkG rest (g_live g) (PAllocNew c) (g_out g) (g_ids g))
                end
            | ChFresh => (h, mkG rest (g_live g) (PAllocNew c) (g_out g) (g_ids g))
            end
        | GRelease :: rest =>                          (* n.reset(): a new ID from the counter *)
            match g_live g with
            | [] => (h, mkG rest [] PIdle (g_out g) (g_ids g))
            | _ :: live' =>
                let id := N.succ (h_ctr h) in
                (set_ctr h id, mkG rest live' (PReleasePut id) (g_out g) (g_ids g ++ [id]))
            end
        | GXPath e k :: rest =>
            match nth_error (g_live g) k with
            | None => (h, mkG rest (g_live g) PIdle (g_out g ++ [OutNoNode]) (g_ids g))
            | Some (_, c) =>
                match lru_get (h_xc h) e with          (* expression cache Get *)
                | (Some x, cache') =>
                    (set_xc h cache', mkG rest (g_live g) PIdle (g_out g ++ [OutX (xeval (h_schema h) x c)]) (g_ids g))
                | (None, _) => (h, mkG rest (g_live g) (PXAdd e c) (g_out g) (g_ids g))
                end
            end
        | GCompile e :: rest =>
            match lru_get (h_xc h) e with
            | (Some x, cache') => (set_xc h cache', mkG rest (g_live g) PIdle (g_out g ++ [OutC x]) (g_ids g))
            | (None, _) => (h, mkG rest (g_live g) (PCAdd e) (g_out g) (g_ids g))
            end
        | GJs j :: rest =>
            match lru_get (h_prog h) (j_js j) with     (* JSProgramCache.Get *)
            | (Some p, cache') => (set_prog h cache', mkG rest (g_live g) (PJsNode j p) (g_out g) (g_ids g))
            | (None, _) =>
                match compile (j_js j) with
                | None => (h, mkG rest (g_live g) PIdle (g_out g ++ [OutJs (OErr EkCompile)]) (g_ids g))
                | Some p => (h, mkG rest (g_live g) (PJsProgAdd j p) (g_out g) (g_ids g))
                end
            end
        end
    end.

  (* ---- the atomic actions --------------------------------------------------------------------------- *)
  (* EXACTLY these accesses to the shared state are assumed to be atomic (sync.Pool Get/Put,
     atomic.AddInt64, and Get / Add of the internally locked LRU caches); every step of every
     goroutine performs at most one of them (Proofs: gstep_one_action). *)
  Inductive action :=
  | ANone
  | AFetchAdd                         (* atomic.AddInt64(&nodeID, 1) *)
  | ANodePoolTake (i : nat)           (* nodePool.Get returning a pooled node *)
  | ANodePoolPut (id : N)             (* nodePool.Put *)
  | AXGet (e : N) | AXAdd (e : N) (v : N)                 (* xpath expression cache *)
  | APGet (js : N) | APAdd (js : N) (p : script)          (* JSProgramCache *)
  | ANGet (id : N) | ANAdd (id : N) (b : bytes)           (* NodeToJSONCache *)
  | AVmTake (ch : choice)             (* jsRuntimePool.Get *)
  | AVmPut (m : vm).                  (* jsRuntimePool.Put *)

  Definition act_apply (a : action) (h : hid) : hid :=
    match a with
    | ANone => h
    | AFetchAdd => set_ctr h (N.succ (h_ctr h))
    | ANodePoolTake i => set_npool h (remove_nth i (h_npool h))
    | ANodePoolPut id => set_npool h (id :: h_npool h)
    | AXGet e => set_xc h (snd (lru_get (h_xc h) e))
    | AXAdd e v => set_xc h (lru_add (h_xc h) e v)
    | APGet js => set_prog h (snd (lru_get (h_prog h) js))
    | APAdd js p => set_prog h (lru_add (h_prog h) js p)
    | ANGet id => set_node h (snd (lru_get (h_node h) id))
    | ANAdd id b => set_node h (lru_add (h_node h) id b)
    | AVmTake ch => set_vms h (snd (pool_get r ch (h_vms h)))
    | AVmPut m => set_vms h (pool_put m (h_vms h))
    end.

  (* ---- interleavings ------------------------------------------------------------------------------ *)
  Definition conf := (hid * list gstate)%type.

  (* one atomic action of one goroutine, or the runtime dropping a pooled item *)
  Inductive cstep : conf -> conf -> Prop :=
  | cs_act : forall h gs i g ch h' g',
      nth_error gs i = Some g -> gstep h g ch = (h', g') ->
      cstep (h, gs) (h', set_nth i g' gs)
  | cs_gc_vm : forall h gs j, cstep (h, gs) (set_vms h (remove_nth j (h_vms h)), gs)
  | cs_gc_node : forall h gs j, cstep (h, gs) (set_npool h (remove_nth j (h_npool h)), gs).

  (* every schedule is a path of this relation *)
  Inductive interleave : conf -> conf -> Prop :=
  | il_done : forall c, interleave c c
  | il_step : forall c1 c2 c3, cstep c1 c2 -> interleave c2 c3 -> interleave c1 c3.

  Definition finished (g : gstate) : Prop := g_todo g = [] /\ g_pend g = PIdle.

  (* ---- a goroutine alone --------------------------------------------------------------------------- *)
  (* run g's operations to completion with nobody else around (fuel: atomic actions) *)
  Fixpoint run_alone (fuel : nat) (h : hid) (g : gstate) : hid * gstate :=
    match fuel with
    | O => (h, g)
    | Datatypes.S k =>
        match g_todo g, g_pend g with
        | [], PIdle => (h, g)
        | _, _ => let '(h', g') := gstep h g (ChPool 0) in run_alone k h' g'
        end
    end.

  (* what the operations mean, with no shared state at all: contents of the live nodes only *)
  Definition js_spec (j : jsop) (lc : list bytes) : gout :=
    match compile (j_js j) with
    | None => OutJs (OErr EkCompile)
    | Some p =>
        match j_node j with
        | None => OutJs (outcome_of (snd (run_on r (fresh_vm r) (j_args j) (j_wipe j) p)))
        | Some k =>
            match nth_error lc k with
            | None => OutNoNode
            | Some c => OutJs (outcome_of (snd (run_on r (fresh_vm r) (node_arg j c) (j_wipe j) p)))
            end
        end
    end.

  Fixpoint spec_outs (sch : S) (lc : list bytes) (ops : list gop) : list gout :=
    match ops with
    | [] => []
    | GAlloc c :: rest => spec_outs sch (c :: lc) rest
    | GRelease :: rest => spec_outs sch (tl lc) rest
    | GXPath e k :: rest =>
        match nth_error lc k with
        | None => OutNoNode
        | Some c => OutX (xeval sch (xcompile e) c)
        end :: spec_outs sch lc rest
    | GCompile e :: rest => OutC (xcompile e) :: spec_outs sch lc rest
    | GJs j :: rest => js_spec j lc :: spec_outs sch lc rest
    end.

  (* omniparser.NewSchema as a goroutine: it reads its arguments and constants only - JSON-schema
     validation and the declaration checks are a pure function [validate] of the schema text and
     the extension list - and compiles the xpaths / regexps of the declarations through the
     process-wide caches.  What it returns: *)
  Definition new_schema_ops (es : list N) : list gop := map GCompile es.
  Definition new_schema_result {A R} (validate : A -> list N -> R) (args : A) (outs : list gout) : R :=
    validate args (omap (fun o => match o with OutC x => Some x | _ => None end) outs).
End Conc.

Arguments mkHid {S}. Arguments h_schema {S}. Arguments h_ctr {S}. Arguments h_npool {S}.
Arguments h_xc {S}. Arguments h_vms {S}. Arguments h_prog {S}. Arguments h_node {S}.

(* ---- correspondence: observed ID acquisitions against the counter model ----------------------- *)
(* The harness reads the IDs of the record nodes each goroutine was handed (and the counter before
   and after the run).  The counter model (Proofs: ids_unique_increasing) says: IDs obtained from
   the counter are pairwise distinct across all goroutines, lie in (c0, c1], and those one
   goroutine obtained itself are increasing - with node pooling off every record node's ID is
   one the goroutine just obtained. *)
Fixpoint increasing (l : list N) : bool :=
  match l with
  | x :: ((y :: _) as t) => N.ltb x y && increasing t
  | _ => true
  end.

Record ccase := mkCCase {
  cc_c0 : N;                 (* counter before the run *)
  cc_c1 : N;                 (* counter after the run *)
  cc_pooled : bool;          (* node pooling on: IDs may have been obtained by another goroutine *)
  cc_seqs : list (list N);   (* per goroutine: IDs of the record nodes, in delivery order *)
}.

Definition ids_consistent (c0 c1 : N) (pooled : bool) (seqs : list (list N)) : bool :=
  let all := concat seqs in
  nodup_b all && forallb (fun x => N.ltb c0 x && N.leb x c1) all &&
  (pooled || forallb increasing seqs).

Definition check_case (c : ccase) : bool :=
  N.leb (cc_c0 c) (cc_c1 c) && ids_consistent (cc_c0 c) (cc_c1 c) (cc_pooled c) (cc_seqs c).
