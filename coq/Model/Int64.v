(* int64 arithmetic with explicit wrap-around, instants, and time.Unix - the vocabulary the
   expressions extracted from customfuncs/datetime.go (Gen/DateTime.v) are written in.
   Go's / and % truncate toward zero (Z.quot / Z.rem).  Executable definitions only. *)
From Coq Require Import ZArith Bool.
Local Open Scope Z_scope.

Definition wrap64 (x : Z) : Z := (x + 2^63) mod 2^64 - 2^63.
Definition add64 (a b : Z) : Z := wrap64 (a + b).
Definition sub64 (a b : Z) : Z := wrap64 (a - b).
Definition mul64 (a b : Z) : Z := wrap64 (a * b).
(* b is a non-zero constant at every use; MinInt64 / -1 does not occur (b > 0). *)
Definition quot64 (a b : Z) : Z := wrap64 (Z.quot a b).
Definition rem64 (a b : Z) : Z := Z.rem a b.
Definition is_int64 (x : Z) : Prop := - 2^63 <= x < 2^63.

(* A time.Time as its Unix seconds and nanoseconds within the second. *)
Record instant := mkI { sec : Z; nsec : Z }.
Definition NS : Z := 1000000000.          (* int64(time.Second) *)
Definition MS_NS : Z := 1000000.          (* int64(time.Millisecond) *)

(* t.UnixNano() *)
Definition unix_nano (t : instant) : Z := add64 (mul64 (sec t) NS) (nsec t).

(* time.Unix(sec, nsec): nsec outside [0, 1e9) is carried into sec *)
Definition time_unix (s ns : Z) : instant :=
  if (ns <? 0) || (ns >=? NS) then
    let n := quot64 ns NS in
    let s1 := add64 s n in
    let ns1 := sub64 ns (mul64 n NS) in
    if ns1 <? 0 then mkI (sub64 s1 1) (add64 ns1 NS) else mkI s1 ns1
  else mkI s ns.
