(* C01 model: transform.go (Read / RawRecord latch) over an arbitrary ingester, and the built-in
   omniv21 ingester (extensions/omniv21/ingester.go) over an arbitrary FormatReader.
   Executable definitions only; proofs are in Proofs/Latch.v. *)
From Coq Require Import List NArith Bool.
Import ListNotations.
From OV Require Import Base.Cases Base.ErrClass Gen.Continuable.

(* ---- errors ------------------------------------------------------------------------------ *)
(* An error value is identified the way Go's == identifies it: pointer-typed errors by a pointer
   id (e_ptr <> 0), value-typed errors (errs.ErrTransformFailed is a string type) by dynamic
   type + content.  Message text is interned by the harness into e_msg and never inspected. *)
Inductive ecls := CEOF | CFailed | COther.
Record errv := mkErr { e_cls : ecls; e_ptr : N; e_ty : N; e_msg : N }.

Definition ecls_eqb (a b : ecls) : bool :=
  match a, b with CEOF, CEOF | CFailed, CFailed | COther, COther => true | _, _ => false end.
Definition errv_eqb (a b : errv) : bool :=
  ecls_eqb (e_cls a) (e_cls b) && N.eqb (e_ptr a) (e_ptr b) && N.eqb (e_ty a) (e_ty b)
  && N.eqb (e_msg a) (e_msg b).

(* errs.IsErrTransformFailed: a type switch *)
Definition is_failed (e : errv) : bool :=
  match e_cls e with CFailed => true | _ => false end.

Definition TY_FAILED : N := 1.
(* errs.ErrTransformFailed(err.Error()) *)
Definition wrap_failed (e : errv) : errv := mkErr CFailed 0 TY_FAILED (e_msg e).

(* ---- transform.go ------------------------------------------------------------------------- *)
Inductive op := OpRead | OpRaw.

Inductive rawout := RROk (r : N) | RRErr (e : errv) | RRCallFirst.
Inductive out :=
| OutRead (b : option N) (e : option errv)
| OutRaw (r : rawout).

Record tstate := mkT { lastErr : option errv; lastRaw : option N }.
Definition t_init : tstate := mkT None None.

Section Transform.
  (* Any ingester: built-in or caller supplied.  [ing_cont] is consulted on the ingester as it is
     after the Read that produced the error (transform.go:56). *)
  Variable S : Type.
  Variable ing_step : S -> S * (option N * option N * option errv).
  Variable ing_cont : S -> errv -> bool.

  Definition do_read (s : S) : (tstate * S) * out :=
    let '(s', (raw, b, err)) := ing_step s in
    match err with
    | Some e =>
        let e' := if ing_cont s' e then wrap_failed e else e in
        ((mkT (Some e') None, s'), OutRead None (Some e'))
    | None => ((mkT None raw, s'), OutRead b None)
    end.

  Definition read (st : tstate * S) : (tstate * S) * out :=
    let '(ts, s) := st in
    match lastErr ts with
    | Some e => if negb (is_failed e) then (st, OutRead None (Some e)) else do_read s
    | None => do_read s
    end.

  Definition rawrecord (ts : tstate) : rawout :=
    match lastErr ts with
    | Some e => RRErr e
    | None => match lastRaw ts with None => RRCallFirst | Some r => RROk r end
    end.

  Definition step (st : tstate * S) (o : op) : (tstate * S) * out :=
    match o with
    | OpRead => read st
    | OpRaw => (st, OutRaw (rawrecord (fst st)))
    end.

  Fixpoint run (st : tstate * S) (ops : list op) : (tstate * S) * list out :=
    match ops with
    | [] => (st, [])
    | o :: r => let '(st1, x) := step st o in
                let '(st2, xs) := run st1 r in (st2, x :: xs)
    end.
End Transform.

(* ---- extensions/omniv21/ingester.go -------------------------------------------------------- *)
(* FormatReader.Read result: the node (by harness label) and the error. *)
Record rdres := mkRd { rd_node : option N; rd_err : option errv }.
Inductive parse_res := PROk (v : N) | PRErr (msg : N).
Inductive marshal_res := MOk (b : N) | MErr (e : errv).
Inductive rdev := EvRelease (n : N) | EvRead.

(* the raw record handed out is always &g.rawRecord: one per ingester *)
Definition RAW_SELF : N := 1.

Record istate (R : Type) := mkI { i_cur : option N; i_rd : R; i_evs : list rdev }.
Arguments mkI {R}. Arguments i_cur {R}. Arguments i_rd {R}. Arguments i_evs {R}.

Section Ingester.
  Variable R : Type.
  Variable rd_step : R -> R * rdres.
  Variable rd_cont : R -> errv -> bool.          (* FormatReader.IsContinuableError *)
  Variable parse : R -> option N -> parse_res.   (* ParseNode on the node just read *)
  Variable marshal : R -> N -> marshal_res.      (* json.Marshal of the parse result *)

  Definition ing_read (g : istate R) : istate R * (option N * option N * option errv) :=
    let evs1 := match i_cur g with Some n => i_evs g ++ [EvRelease n] | None => i_evs g end in
    let '(r', res) := rd_step (i_rd g) in
    let cur' := match rd_node res with Some n => Some n | None => None end in
    let g' := mkI cur' r' (evs1 ++ [EvRead]) in
    match rd_err res with
    | Some e => (g', (None, None, Some e))
    | None =>
        match parse r' (rd_node res) with
        | PRErr m => (g', (None, None, Some (mkErr CFailed 0 TY_FAILED m)))
        | PROk v =>
            match marshal r' v with
            | MOk b => (g', (Some RAW_SELF, Some b, None))
            | MErr e => (g', (Some RAW_SELF, None, Some e))
            end
        end
    end.

  Definition ing_is_cont (g : istate R) (e : errv) : bool :=
    is_failed e || rd_cont (i_rd g) e.
End Ingester.

(* ---- executable instances for the correspondence check ------------------------------------ *)
(* Scripted ingester: the harness logged what the real ingester returned on each call, together
   with what IsContinuableError answered for that error. *)
Record ingres := mkIng { ir_raw : option N; ir_bytes : option N; ir_err : option errv; ir_cont : bool }.
Record sing := mkS { s_script : list ingres; s_flag : bool; s_calls : N; s_over : bool }.

Definition sing_step (s : sing) : sing * (option N * option N * option errv) :=
  match s_script s with
  | [] => (mkS [] false (N.succ (s_calls s)) true, (None, None, None))
  | h :: r => (mkS r (ir_cont h) (N.succ (s_calls s)) (s_over s), (ir_raw h, ir_bytes h, ir_err h))
  end.
Definition sing_cont (s : sing) (_ : errv) : bool := s_flag s.

Definition rawout_eqb (a b : rawout) : bool :=
  match a, b with
  | RROk x, RROk y => N.eqb x y
  | RRErr x, RRErr y => errv_eqb x y
  | RRCallFirst, RRCallFirst => true
  | _, _ => false
  end.
Definition out_eqb (a b : out) : bool :=
  match a, b with
  | OutRead b1 e1, OutRead b2 e2 => opt_eqb N.eqb b1 b2 && opt_eqb errv_eqb e1 e2
  | OutRaw r1, OutRaw r2 => rawout_eqb r1 r2
  | _, _ => false
  end.

(* One correspondence case of the latch: the logged ingester results, the operations the
   harness issued, what the implementation returned, and how many times it called the ingester
   before each operation returned (so "the ingester is not stepped after a terminal result" is
   compared, not only the outputs). *)
Record lcase := mkLCase {
  lc_script : list ingres;
  lc_ops : list op;
  lc_outs : list out;
  lc_calls : N;
}.

Definition check_lcase (c : lcase) : bool :=
  let '((_, s), outs) :=
    run sing sing_step sing_cont (t_init, mkS (lc_script c) false 0 false) (lc_ops c) in
  list_eqb out_eqb outs (lc_outs c) && N.eqb (s_calls s) (lc_calls c) && negb (s_over s)
  && match s_script s with [] => true | _ => false end.

(* Which IsContinuableError class an error value falls in: the harness interns the dynamic type
   of every error into e_ty and tells which type id is the format's fatal type. *)
Definition rcls_of (fatal_ty : N) (e : errv) : rcls :=
  match e_cls e with
  | CEOF => RcEOF
  | CFailed => RcFailed
  | COther => if N.eqb (e_ty e) fatal_ty then RcFatal else RcPlain
  end.

Definition fmt_cont (fmt : nat) : rcls -> bool := nth fmt all_formats (fun _ => false).

(* Scripted FormatReader for the built-in ingester: logged reader results with the reader's
   IsContinuableError answer, whether ParseNode succeeded, and what json.Marshal gave. *)
Record rdstep := mkRdStep {
  rs_res : rdres; rs_cont : bool; rs_parse : parse_res; rs_marshal : marshal_res }.
Record srd := mkSR { r_script : list rdstep; r_last : option rdstep; r_over : bool }.

Definition srd_step (r : srd) : srd * rdres :=
  match r_script r with
  | [] => (mkSR [] None true, mkRd None None)
  | h :: t => (mkSR t (Some h) (r_over r), rs_res h)
  end.
(* The model's reader classification comes from Gen/Continuable.v, not from the log; the
   logged answer rs_cont is compared against it in check_icase. *)
Definition srd_cont (fmt : nat) (fatal_ty : N) (_ : srd) (e : errv) : bool :=
  fmt_cont fmt (rcls_of fatal_ty e).
Definition srd_parse (r : srd) (_ : option N) : parse_res :=
  match r_last r with Some h => rs_parse h | None => PRErr 0 end.
Definition srd_marshal (r : srd) (_ : N) : marshal_res :=
  match r_last r with Some h => rs_marshal h | None => MErr (mkErr COther 0 0 0) end.

Definition s_ing_read (g : istate srd) : istate srd * (option N * option N * option errv) :=
  ing_read srd srd_step srd_parse srd_marshal g.

Definition rdev_eqb (a b : rdev) : bool :=
  match a, b with
  | EvRelease x, EvRelease y => N.eqb x y
  | EvRead, EvRead => true
  | _, _ => false
  end.

Definition ingres_eqb (a b : ingres) : bool :=
  opt_eqb N.eqb (ir_raw a) (ir_raw b) && opt_eqb N.eqb (ir_bytes a) (ir_bytes b)
  && opt_eqb errv_eqb (ir_err a) (ir_err b) && Bool.eqb (ir_cont a) (ir_cont b).

Section RunIng.
Variable fmt : nat.
Variable fatal_ty : N.
Fixpoint run_ing (n : nat) (g : istate srd) : istate srd * list ingres :=
  match n with
  | O => (g, [])
  | Datatypes.S k =>
      let '(g1, (raw, b, err)) := s_ing_read g in
      let c := match err with Some e => ing_is_cont srd (srd_cont fmt fatal_ty) g1 e | None => false end in
      let '(g2, rest) := run_ing k g1 in
      (g2, mkIng raw b err c :: rest)
  end.

End RunIng.

(* One correspondence case of the built-in ingester: logged reader steps, the ingester results
   the implementation produced from them, and the reader-level call sequence it issued. *)
Record icase := mkICase {
  ic_fmt : nat;          (* index into Gen.Continuable.all_formats *)
  ic_fatal_ty : N;       (* interned type id of the format's fatal error type *)
  ic_steps : list rdstep;
  ic_results : list ingres;
  ic_events : list rdev;
}.

Definition check_icase (c : icase) : bool :=
  let '(g, res) := run_ing (ic_fmt c) (ic_fatal_ty c) (length (ic_steps c))
                            (mkI None (mkSR (ic_steps c) None false) []) in
  list_eqb ingres_eqb res (ic_results c) && list_eqb rdev_eqb (i_evs g) (ic_events c)
  && negb (r_over (i_rd g))
  && forallb (fun h => match rd_err (rs_res h) with
                       | Some e => Bool.eqb (rs_cont h) (fmt_cont (ic_fmt c) (rcls_of (ic_fatal_ty c) e))
                       | None => true
                       end) (ic_steps c).

Inductive c01case := LCase (c : lcase) | ICase (c : icase).
Definition check_case (c : c01case) : bool :=
  match c with LCase c => check_lcase c | ICase c => check_icase c end.

(* ---- which ingester result each call consults (for the theorems over all histories) -------- *)
Section TransformTrace.
  Variable S : Type.
  Variable ing_step : S -> S * (option N * option N * option errv).
  Variable ing_cont : S -> errv -> bool.

  Definition ingr := (option N * option N * option errv)%type.

  (* transform.go:49: Read goes on to the ingester unless a non-ErrTransformFailed error is stored *)
  Definition consults (ts : tstate) : bool :=
    match lastErr ts with Some e => is_failed e | None => true end.

  (* the ingester call an operation makes, if any: the ingester afterwards and what it returned *)
  Definition consulted (st : tstate * S) (o : op) : option (S * ingr) :=
    match o with
    | OpRead => if consults (fst st) then Some (ing_step (snd st)) else None
    | OpRaw => None
    end.

  (* [run], with every output paired with the ingester call made for it *)
  Fixpoint runx (st : tstate * S) (ops : list op) : (tstate * S) * list (out * option (S * ingr)) :=
    match ops with
    | [] => (st, [])
    | o :: r => let '(st1, x) := step S ing_step ing_cont st o in
                let '(st2, xs) := runx st1 r in (st2, (x, consulted st o) :: xs)
    end.
End TransformTrace.
