(* C20 model: extensions/omniv21/customfuncs/javascript.go (state at /repo 12a3496: shadowed globals are
   recorded first, args are defined as own data properties, shadowed globals are restored).
   Executable definitions only; proofs are in Proofs/Js.v.

   What is transcribed: JavaScriptWithContext (arg pairing, getProgram / JSProgramCache,
   getNodeJSON / NodeToJSONCache, execProgram with jsRuntimePool, result classification and
   Export).  What enters as data: the goja runtime's fresh global object (own properties with
   their writable/configurable flags, and the names inherited from Object.prototype) = [rt];
   a compiled script = an arbitrary function of the globals it can see (scripts cannot write
   globals: excluded by the property and by this type); idr.JSONify2 of a node = the bytes the
   call carries (the JSON of the node's content at the time of the call).
   Names of globals and object keys are interned by the harness (N); string values are bytes. *)
From Coq Require Import List NArith Bool.
From stdpp Require Import gmap.
From Coq Require String. Import String.StringSyntax.
From OV Require Import Base.Bytes Base.Cases.
Local Delimit Scope string_scope with string.
Import ListNotations.

(* ---- JavaScript values ---------------------------------------------------------------------- *)
Inductive jsnum := NNaN | NPosInf | NNegInf | NFin (bits : N).   (* finite: IEEE-754 bits *)

Inductive jsval :=
| JUndef | JNull
| JBool (b : bool)
| JNum (n : jsnum)
| JStr (s : bytes)
| JArr (l : list jsval)
| JObj (kvs : list (N * jsval))
| JOpaque (isfn : bool).          (* built-in objects and functions: never inspected *)

Inductive jsres := Normal (v : jsval) | Throw (v : jsval).

(* what Export yields, compared as JSON values (nested null/undefined both export as nil;
   a nested NaN exports as a float64 NaN: kept, it is what the Go code hands on) *)
Inductive json :=
| JsNull | JsBool (b : bool) | JsNum (n : jsnum) | JsStr (s : bytes)
| JsArr (l : list json) | JsObj (kvs : list (N * json)) | JsOpaque.

Inductive errkind :=
| EkNaN | EkInf | EkNull | EkUndef | EkThrow     (* the five result kinds that are errors *)
| EkArgCount | EkCompile | EkArgName | EkSetArg. (* failures before the script runs *)

Inductive outcome := OErr (k : errkind) | OVal (j : json).

Fixpoint export (v : jsval) : json :=
  match v with
  | JUndef | JNull => JsNull
  | JBool b => JsBool b
  | JNum n => JsNum n
  | JStr s => JsStr s
  | JArr l => JsArr (map export l)
  | JObj kvs => JsObj (map (fun '(k, x) => (k, export x)) kvs)
  | JOpaque _ => JsOpaque
  end.

(* javascript.go: switch { case goja.IsNaN(v), goja.IsInfinity(v), goja.IsNull(v),
   goja.IsUndefined(v): error; default: v.Export() }; an error from RunProgram is returned
   as it is. *)
Definition classify (r : jsres) : outcome :=
  match r with
  | Throw _ => OErr EkThrow
  | Normal (JNum NNaN) => OErr EkNaN
  | Normal (JNum NPosInf) | Normal (JNum NNegInf) => OErr EkInf
  | Normal JNull => OErr EkNull
  | Normal JUndef => OErr EkUndef
  | Normal v => OVal (export v)
  end.

(* ---- the goja global object ------------------------------------------------------------------ *)
Record slot := mkSlot { s_val : jsval; s_w : bool; s_c : bool }.   (* value, writable, configurable *)

(* fresh runtime: own properties of the global object, and what it inherits *)
Record rt := mkRt { rt_own : gmap N slot; rt_proto : gmap N jsval }.

Notation vm := (gmap N slot).     (* own properties of one runtime's global object *)
Definition fresh_vm (r : rt) : vm := rt_own r.

(* Object.Get / identifier resolution: own first, then the prototype chain *)
Definition vget (r : rt) (m : vm) (k : N) : option jsval :=
  match m !! k with Some s => Some (s_val s) | None => rt_proto r !! k end.

(* everything a script can see *)
Definition view (r : rt) (m : vm) : gmap N jsval := (s_val <$> m) ∪ rt_proto r.

Definition script := gmap N jsval -> jsres.

(* global.DefineDataProperty(k, v, TRUE, TRUE, TRUE): a non-configurable own property cannot be
   redefined (TypeError, returned as an error); otherwise an own property results; the
   prototype chain is not consulted *)
Definition vdefine (m : vm) (k : N) (v : jsval) : option vm :=
  match m !! k with
  | Some s => if s_c s then Some (<[k := mkSlot v true true]> m) else None
  | None => Some (<[k := mkSlot v true true]> m)
  end.

(* global.Delete(k): removes an own configurable property; anything else is left alone *)
Definition vdelete (m : vm) (k : N) : vm :=
  match m !! k with
  | Some s => if s_c s then delete k m else m
  | None => m
  end.

(* first loop of execProgram: remember what every arg shadows (nothing is modified yet) *)
Definition shadow_of (r : rt) (m : vm) (keys : list N) : gmap N jsval :=
  fold_left (fun sh k => match vget r m k with Some p => <[k := p]> sh | None => sh end) keys ∅.

(* second loop: define the args; stop at the first failure.  [args] is the arg map in the
   order the Go map iteration happens to take. *)
Fixpoint set_args (m : vm) (args : list (N * jsval)) : vm * bool :=
  match args with
  | [] => (m, true)
  | (k, v) :: rest =>
      match vdefine m k v with
      | None => (m, false)
      | Some m' => set_args m' rest
      end
  end.

(* the deferred wipe: delete; restore what was shadowed if nothing is visible any more *)
Definition wipe_one (r : rt) (sh : gmap N jsval) (m : vm) (k : N) : vm :=
  let m1 := vdelete m k in
  match sh !! k with
  | Some p => match vget r m1 k with
              | None => <[k := mkSlot p true true]> m1
              | Some _ => m1
              end
  | None => m1
  end.
Definition wipe_args (r : rt) (sh : gmap N jsval) (m : vm) (ks : list N) : vm :=
  fold_left (wipe_one r sh) ks m.

Inductive runres := RRun (x : jsres) | RSetErr.

(* execProgram on a runtime the caller owns exclusively: set, run, wipe (also when the script
   throws and when a set fails: the wipe is deferred).  [ord1]: set order with values,
   [ord2]: wipe order (an independent iteration over the same Go map).  The shadow loop is a
   third iteration; it modifies nothing, so its order cannot matter (Proofs: shadow_of_lookup)
   and the set order is used for it. *)
Definition run_on (r : rt) (m : vm) (ord1 : list (N * jsval)) (ord2 : list N) (s : script)
  : vm * runres :=
  let sh := shadow_of r m (map fst ord1) in
  let '(m1, ok) := set_args m ord1 in
  (wipe_args r sh m1 ord2, if ok then RRun (s (view r m1)) else RSetErr).

(* ---- outside the property: scripts that CREATE global bindings ---------------------------------- *)
(* [script] above cannot write globals: that is the class the property (and every theorem about
   run_on) speaks about.  A script of the excluded class also yields the bindings it creates
   (`t = 0`, `var n = ...`, a function declaration): execProgram wipes the ARG names only, so
   these stay on the runtime when it goes back to the pool.  Kept executable for the witness
   js_global_writers_refuted (Proofs/JsRefute.v); nothing else uses it. *)
Definition gscript := gmap N jsval -> jsres * list (N * jsval).

Definition apply_globals (m : vm) (delta : list (N * jsval)) : vm :=
  fold_left (fun m '(k, v) =>
               match m !! k with
               | Some s => if s_w s then <[k := mkSlot v (s_w s) (s_c s)]> m else m
               | None => <[k := mkSlot v true false]> m     (* a declared global: not deletable *)
               end) delta m.

Definition run_on_g (r : rt) (m : vm) (ord1 : list (N * jsval)) (ord2 : list N) (s : gscript)
  : vm * runres :=
  let sh := shadow_of r m (map fst ord1) in
  let '(m1, ok) := set_args m ord1 in
  if ok then
    let '(res, delta) := s (view r m1) in
    (wipe_args r sh (apply_globals m1 delta) ord2, RRun res)
  else (wipe_args r sh m1 ord2, RSetErr).

(* ---- sync.Pool of runtimes -------------------------------------------------------------------- *)
(* Get returns ANY pooled item or a new one: the choice is an argument. *)
Inductive choice := ChFresh | ChPool (i : nat).

Fixpoint remove_nth {A} (i : nat) (l : list A) : list A :=
  match l, i with
  | [], _ => []
  | _ :: t, O => t
  | x :: t, S j => x :: remove_nth j t
  end.

Definition pool_get (r : rt) (ch : choice) (pool : list vm) : vm * list vm :=
  match ch with
  | ChFresh => (fresh_vm r, pool)
  | ChPool i => match nth_error pool i with
                | Some m => (m, remove_nth i pool)
                | None => (fresh_vm r, pool)        (* nothing there: New() *)
                end
  end.
Definition pool_put (m : vm) (pool : list vm) : list vm := m :: pool.

(* ---- hashicorp LRU behind caches.LoadingCache ------------------------------------------------ *)
Record lru (V : Type) := mkLru { l_cap : N; l_items : list (N * V) }.   (* most recent first *)
Arguments mkLru {V}. Arguments l_cap {V}. Arguments l_items {V}.

Fixpoint assoc {V} (k : N) (l : list (N * V)) : option V :=
  match l with
  | [] => None
  | (k', v) :: t => if N.eqb k k' then Some v else assoc k t
  end.
Fixpoint assoc_del {V} (k : N) (l : list (N * V)) : list (N * V) :=
  match l with
  | [] => []
  | (k', v) :: t => if N.eqb k k' then t else (k', v) :: assoc_del k t
  end.

(* Get: a hit moves the entry to the front *)
Definition lru_get {V} (c : lru V) (k : N) : option V * lru V :=
  match assoc k (l_items c) with
  | Some v => (Some v, mkLru (l_cap c) ((k, v) :: assoc_del k (l_items c)))
  | None => (None, c)
  end.
(* Add: update + move to front, or push front and evict the oldest beyond capacity *)
Definition lru_add {V} (c : lru V) (k : N) (v : V) : lru V :=
  match assoc k (l_items c) with
  | Some _ => mkLru (l_cap c) ((k, v) :: assoc_del k (l_items c))
  | None =>
      let items := (k, v) :: l_items c in
      if N.ltb (l_cap c) (N.of_nat (length items)) then mkLru (l_cap c) (removelast items)
      else mkLru (l_cap c) items
  end.
(* LoadingCache.Get(key, load) for a load that cannot fail *)
Definition loading_get {V} (c : lru V) (k : N) (load : V) : V * lru V :=
  match lru_get c k with
  | (Some v, c') => (v, c')
  | (None, _) => (load, lru_add c k load)
  end.

(* ---- JavaScriptWithContext -------------------------------------------------------------------- *)
Definition NODE : N := 0.                    (* the interned name "_node" *)
(* vmArgs[argNameNode] = getNodeJSON(n) is executed AFTER the caller's args were put into the
   map: a caller arg that is itself named _node is overridden - _node is always the node *)
Notation node_override a j := (<[NODE := JStr j]> a).

Inductive argname := NmStr (n : N) | NmOther.     (* args[2i].(string) may fail *)

Record call := mkCall {
  c_node : option (N * bytes);   (* n != nil: node ID and JSONify2 of its content NOW *)
  c_js : N;                      (* the script text, interned *)
  c_args : list (argname * jsval);
  c_odd : bool;                  (* an unpaired trailing argument *)
}.

(* the nondeterminism of one call: which pooled VM, and the two map iteration orders *)
Record sched := mkSched { sc_vm : choice; sc_set : list N; sc_wipe : list N }.

Record jsstate := mkSt {
  st_nocache : bool;             (* disableCaching *)
  st_pool : list vm;
  st_prog : lru script;          (* JSProgramCache: text -> compiled program *)
  st_node : lru bytes;           (* NodeToJSONCache: node ID -> JSON text *)
}.

Fixpoint pair_args (l : list (argname * jsval)) (acc : gmap N jsval) : option (gmap N jsval) :=
  match l with
  | [] => Some acc
  | (NmStr n, v) :: t => pair_args t (<[n := v]> acc)
  | (NmOther, _) :: _ => None
  end.

Definition get_program (compile : N -> option script) (st : jsstate) (js : N)
  : option script * jsstate :=
  if st_nocache st then (compile js, st)
  else match lru_get (st_prog st) js with
       | (Some p, c') => (Some p, mkSt (st_nocache st) (st_pool st) c' (st_node st))
       | (None, _) =>
           match compile js with
           | None => (None, st)                        (* load failed: nothing is added *)
           | Some p => (Some p, mkSt (st_nocache st) (st_pool st) (lru_add (st_prog st) js p) (st_node st))
           end
       end.

Definition get_node_json (st : jsstate) (id : N) (now : bytes) : bytes * jsstate :=
  if st_nocache st then (now, st)
  else let '(j, c') := loading_get (st_node st) id now in
       (j, mkSt (st_nocache st) (st_pool st) (st_prog st) c').

Definition exec_program (r : rt) (st : jsstate) (sc : sched) (p : script) (vmargs : gmap N jsval)
  : jsstate * runres :=
  let ord1 := omap (fun k => (fun v => (k, v)) <$> vmargs !! k) (sc_set sc) in
  if st_nocache st then
    (st, snd (run_on r (fresh_vm r) ord1 (sc_wipe sc) p))
  else
    let '(m, pool1) := pool_get r (sc_vm sc) (st_pool st) in
    let '(m', res) := run_on r m ord1 (sc_wipe sc) p in
    (mkSt (st_nocache st) (pool_put m' pool1) (st_prog st) (st_node st), res).

Definition outcome_of (x : runres) : outcome :=
  match x with RRun x => classify x | RSetErr => OErr EkSetArg end.

(* also reports the _node text the script was given (None: no node) *)
Definition js_call (r : rt) (compile : N -> option script) (st : jsstate) (c : call) (sc : sched)
  : jsstate * (outcome * option bytes) :=
  if c_odd c then (st, (OErr EkArgCount, None))
  else
    match get_program compile st (c_js c) with
    | (None, st1) => (st1, (OErr EkCompile, None))
    | (Some p, st1) =>
        match pair_args (c_args c) ∅ with
        | None => (st1, (OErr EkArgName, None))
        | Some a =>
            let '(a', seen, st2) :=
              match c_node c with
              | Some (id, now) => let '(j, st2) := get_node_json st1 id now in
                                  (node_override a j, Some j, st2)
              | None => (a, None, st1)
              end in
            let '(st3, res) := exec_program r st2 sc p a' in
            (st3, (outcome_of res, seen))
        end
    end.

(* histories: calls, and the pool dropping an item (sync.Pool may do so at any GC) *)
Inductive event := EvCall (c : call) (sc : sched) | EvGc (i : nat).

Definition step (r : rt) (compile : N -> option script) (st : jsstate) (e : event)
  : jsstate * option (outcome * option bytes) :=
  match e with
  | EvCall c sc => let '(st', o) := js_call r compile st c sc in (st', Some o)
  | EvGc i => (mkSt (st_nocache st) (remove_nth i (st_pool st)) (st_prog st) (st_node st), None)
  end.

Fixpoint run (r : rt) (compile : N -> option script) (st : jsstate) (es : list event)
  : jsstate * list (outcome * option bytes) :=
  match es with
  | [] => (st, [])
  | e :: t => let '(st1, o) := step r compile st e in
              let '(st2, os) := run r compile st1 t in
              (st2, match o with Some x => x :: os | None => os end)
  end.

Definition st_init (nocache : bool) (progcap nodecap : N) : jsstate :=
  mkSt nocache [] (mkLru progcap []) (mkLru nodecap []).

(* ---- whole calls interleaved: a VM is owned exclusively between Get and Put ------------------- *)
(* One call of a thread is two atomic steps on the shared pool (Get ... Put) around a local run. *)
Record vcall := mkVCall { vc_args : list (N * jsval); vc_wipe : list N; vc_script : script }.
Record thread := mkThread {
  th_todo : list vcall;
  th_held : option (vcall * vm);     (* between Get and Put *)
  th_out : list runres;
}.
Definition th_init (cs : list vcall) : thread := mkThread cs None [].

(* a schedule names the thread that moves next and, if it is about to Get, which VM it gets;
   the pool may also drop an item at any point *)
Inductive tick := TStep (i : nat) (ch : choice) | TGc (j : nat).

Definition thread_step (r : rt) (pool : list vm) (t : thread) (ch : choice) : list vm * thread :=
  match th_held t with
  | Some (c, m) =>
      let '(m', res) := run_on r m (vc_args c) (vc_wipe c) (vc_script c) in
      (pool_put m' pool, mkThread (th_todo t) None (th_out t ++ [res]))
  | None =>
      match th_todo t with
      | [] => (pool, t)
      | c :: rest => let '(m, pool') := pool_get r ch pool in
                     (pool', mkThread rest (Some (c, m)) (th_out t))
      end
  end.

Fixpoint set_nth {A} (i : nat) (x : A) (l : list A) : list A :=
  match l, i with
  | [], _ => []
  | _ :: t, O => x :: t
  | y :: t, S j => y :: set_nth j x t
  end.

Fixpoint run_sched (r : rt) (pool : list vm) (ts : list thread) (s : list tick)
  : list vm * list thread :=
  match s with
  | [] => (pool, ts)
  | TGc j :: rest => run_sched r (remove_nth j pool) ts rest
  | TStep i ch :: rest =>
      match nth_error ts i with
      | None => run_sched r pool ts rest
      | Some t => let '(pool', t') := thread_step r pool t ch in
                  run_sched r pool' (set_nth i t' ts) rest
      end
  end.

(* sequential histories of VM-level calls *)
Inductive vevent := VCall (c : vcall) (ch : choice) | VGc (i : nat).
Fixpoint vrun (r : rt) (pool : list vm) (es : list vevent) : list vm * list runres :=
  match es with
  | [] => (pool, [])
  | VGc i :: t => vrun r (remove_nth i pool) t
  | VCall c ch :: t =>
      let '(m, pool1) := pool_get r ch pool in
      let '(m', res) := run_on r m (vc_args c) (vc_wipe c) (vc_script c) in
      let '(pool2, rs) := vrun r (pool_put m' pool1) t in
      (pool2, res :: rs)
  end.

(* ---- scripts the harness generates: a small expression language with a denotation ----------- *)
Inductive sexpr :=
| SLit (v : jsval)
| SVar (x : N)                        (* x            : ReferenceError when not defined *)
| SVarOr (x : N) (d : sexpr)          (* typeof x === 'undefined' ? d : x *)
| STypeof (x : N)                     (* typeof x *)
| SThrow (e : sexpr)
| SArr (es : list sexpr)
| SObj (kvs : list (N * sexpr))
| SIfDef (x : N) (a b : sexpr).       (* typeof x !== 'undefined' ? a : b *)

Definition typeof_str (v : option jsval) : bytes :=
  match v with
  | None | Some JUndef => hx "756e646566696e6564"%string          (* undefined *)
  | Some JNull | Some (JArr _) | Some (JObj _) | Some (JOpaque false) => hx "6f626a656374"%string (* object *)
  | Some (JBool _) => hx "626f6f6c65616e"%string                   (* boolean *)
  | Some (JNum _) => hx "6e756d626572"%string                      (* number *)
  | Some (JStr _) => hx "737472696e67"%string                      (* string *)
  | Some (JOpaque true) => hx "66756e6374696f6e"%string            (* function *)
  end.

Definition is_undef (v : option jsval) : bool :=
  match v with None | Some JUndef => true | _ => false end.

Fixpoint denote (e : sexpr) (g : gmap N jsval) : jsres :=
  match e with
  | SLit v => Normal v
  | SVar x => match g !! x with Some v => Normal v | None => Throw (JStr (hx "5265666572656e63654572726f72"%string)) end
  | SVarOr x d => match g !! x with
                  | Some v => if is_undef (Some v) then denote d g else Normal v
                  | None => denote d g
                  end
  | STypeof x => Normal (JStr (typeof_str (g !! x)))
  | SThrow e1 => match denote e1 g with Normal v => Throw v | t => t end
  | SArr es =>
      (fix go (es : list sexpr) : jsres :=
         match es with
         | [] => Normal (JArr [])
         | e1 :: rest =>
             match denote e1 g with
             | Throw t => Throw t
             | Normal v => match go rest with
                           | Normal (JArr l) => Normal (JArr (v :: l))
                           | x => x
                           end
             end
         end) es
  | SObj kvs =>
      (fix go (kvs : list (N * sexpr)) : jsres :=
         match kvs with
         | [] => Normal (JObj [])
         | (k, e1) :: rest =>
             match denote e1 g with
             | Throw t => Throw t
             | Normal v => match go rest with
                           | Normal (JObj l) => Normal (JObj ((k, v) :: l))
                           | x => x
                           end
             end
         end) kvs
  | SIfDef x a b => if is_undef (g !! x) then denote b g else denote a g
  end.

(* ---- correspondence ---------------------------------------------------------------------------- *)
Definition jsnum_eqb (a b : jsnum) : bool :=
  match a, b with
  | NNaN, NNaN | NPosInf, NPosInf | NNegInf, NNegInf => true
  | NFin x, NFin y => N.eqb x y
  | _, _ => false
  end.

(* objects are compared as maps (Go hands back a map: no order) *)
Fixpoint json_eqb (a b : json) {struct a} : bool :=
  match a, b with
  | JsNull, JsNull | JsOpaque, JsOpaque => true
  | JsBool x, JsBool y => Bool.eqb x y
  | JsNum x, JsNum y => jsnum_eqb x y
  | JsStr x, JsStr y => bytes_eqb x y
  | JsArr la, JsArr lb =>
      (fix go (la lb : list json) : bool :=
         match la, lb with
         | [], [] => true
         | x :: la', y :: lb' => json_eqb x y && go la' lb'
         | _, _ => false
         end) la lb
  | JsObj ka, JsObj kb =>
      Nat.eqb (length ka) (length kb) &&
      (fix go (ka : list (N * json)) : bool :=
         match ka with
         | [] => true
         | (k, v) :: ka' => match assoc k kb with
                            | Some v' => json_eqb v v'
                            | None => false
                            end && go ka'
         end) ka
  | _, _ => false
  end.

(* what the harness can see of one call without reading message texts: an exported value, a
   thrown JavaScript exception (by Go type), or another error *)
Inductive obs := ObsVal (j : json) | ObsThrow | ObsErr.

Definition obs_matches (o : outcome) (x : obs) : bool :=
  match o, x with
  | OVal a, ObsVal b => json_eqb a b
  | OErr EkThrow, ObsThrow => true
  | OErr EkThrow, _ => false
  | OErr _, ObsErr => true
  | _, _ => false
  end.

Definition mk_rt (own : list (N * (jsval * bool))) (proto : list (N * jsval)) : rt :=
  mkRt (list_to_map (map (fun '(k, (v, cfg)) => (k, mkSlot v cfg cfg)) own))
       (list_to_map proto).

(* is l a duplicate-free enumeration of exactly the keys of m ? *)
Fixpoint nodup_b (l : list N) : bool :=
  match l with
  | [] => true
  | x :: t => negb (existsb (N.eqb x) t) && nodup_b t
  end.
Definition enumerates (l : list N) (m : gmap N jsval) : bool :=
  nodup_b l && Nat.eqb (length l) (size m) && forallb (fun k => bool_decide (is_Some (m !! k))) l.

Record jcase := mkJCase {
  jc_own : list (N * (jsval * bool));      (* fresh global object: name, (value, configurable) *)
  jc_proto : list (N * jsval);             (* what it inherits from Object.prototype *)
  jc_nocache : bool;
  jc_progcap : N;
  jc_nodecap : N;
  jc_scripts : list (N * option sexpr);    (* text id -> what it compiles to (None: syntax error) *)
  jc_events : list event;
  jc_obs : list (obs * option bytes);      (* per call: outcome, and the _node text it echoed (if it did) *)
}.

Definition compile_of (tbl : list (N * option sexpr)) (js : N) : option script :=
  match assoc js tbl with
  | Some (Some e) => Some (denote e)
  | _ => None
  end.

Definition seen_matches (m o : option bytes) : bool :=
  match o with
  | None => true                         (* the script did not echo _node *)
  | Some b => match m with Some a => bytes_eqb a b | None => false end
  end.

Fixpoint all2 {A B} (f : A -> B -> bool) (la : list A) (lb : list B) : bool :=
  match la, lb with
  | [], [] => true
  | x :: la', y :: lb' => f x y && all2 f la' lb'
  | _, _ => false
  end.

(* the two facts about the real runtime's global object the proofs rest on (Proofs: rt_wf) *)
Definition rt_wf_b (r : rt) : bool :=
  forallb (fun '(k, s) => implb (s_c s) (s_w s) &&
                          match rt_proto r !! k with None => true | Some _ => false end)
          (map_to_list (rt_own r)).

(* the iteration orders the harness chose for a call enumerate the call's arg map *)
Definition call_wf_b (c : call) (sc : sched) : bool :=
  match pair_args (c_args c) ∅ with
  | None => true
  | Some a =>
      let a' := match c_node c with Some _ => <[NODE := JStr []]> a | None => a end in
      enumerates (sc_set sc) a' && enumerates (sc_wipe sc) a'
  end.

Definition check_case (c : jcase) : bool :=
  let r := mk_rt (jc_own c) (jc_proto c) in
  rt_wf_b r &&
  forallb (fun e => match e with EvCall c sc => call_wf_b c sc | EvGc _ => true end) (jc_events c) &&
  let '(_, outs) := run r (compile_of (jc_scripts c))
                        (st_init (jc_nocache c) (jc_progcap c) (jc_nodecap c)) (jc_events c) in
  all2 (fun '(o, seen) '(x, oseen) => obs_matches o x && seen_matches seen oseen) outs (jc_obs c).

(* ---- the code at d724cc8 (before 12a3496): the shadow was recorded inside the set loop, so an
   early return left later args unrecorded while the wipe still ran over them ------------------ *)
Fixpoint set_args_d724 (r : rt) (m : vm) (sh : gmap N jsval) (args : list (N * jsval))
  : vm * gmap N jsval * bool :=
  match args with
  | [] => (m, sh, true)
  | (k, v) :: rest =>
      let sh' := match vget r m k with Some p => <[k := p]> sh | None => sh end in
      match vdefine m k v with
      | None => (m, sh', false)
      | Some m' => set_args_d724 r m' sh' rest
      end
  end.
Definition run_on_d724 (r : rt) (m : vm) (ord1 : list (N * jsval)) (ord2 : list N) (s : script)
  : vm * runres :=
  let '(m1, sh, ok) := set_args_d724 r m ∅ ord1 in
  (wipe_args r sh m1 ord2, if ok then RRun (s (view r m1)) else RSetErr).

(* ---- the code before the repairs b3b4f53 / d724cc8 (kept for the refutation examples) -------- *)
(* vm.Set walked the prototype chain (an inherited accessor such as __proto__ ran its setter and
   replaced the global object's prototype); the wipe only deleted. *)
Record vm_old := mkOld { o_own : gmap N slot; o_extra : gmap N jsval }.
Definition view_old (r : rt) (acc : N -> bool) (m : vm_old) : gmap N jsval :=
  (s_val <$> o_own m) ∪ o_extra m ∪ rt_proto r.
Definition vset_old (r : rt) (acc : N -> bool) (m : vm_old) (k : N) (v : jsval) : vm_old :=
  match o_own m !! k with
  | Some s => if s_w s then mkOld (<[k := mkSlot v (s_w s) (s_c s)]> (o_own m)) (o_extra m) else m
  | None =>
      if acc k then match v with
                    | JObj kvs => mkOld (o_own m) (list_to_map kvs)
                    | _ => m
                    end
      else mkOld (<[k := mkSlot v true true]> (o_own m)) (o_extra m)
  end.
Definition run_old (restore : bool) (r : rt) (acc : N -> bool) (m : vm_old)
    (args : list (N * jsval)) (s : script) : vm_old * jsres :=
  let sh := fold_left (fun sh '(k, _) => match view_old r acc m !! k with
                                         | Some p => <[k := p]> sh | None => sh end) args (∅ : gmap N jsval) in
  let m1 := fold_left (fun m '(k, v) => vset_old r acc m k v) args m in
  let res := s (view_old r acc m1) in
  let m2 := fold_left (fun m '(k, _) =>
              let own1 := vdelete (o_own m) k in
              let m' := mkOld own1 (o_extra m) in
              if restore then
                match sh !! k with
                | Some p => match view_old r acc m' !! k with
                            | None => mkOld (<[k := mkSlot p true true]> own1) (o_extra m)
                            | Some _ => m'
                            end
                | None => m'
                end
              else m') args m1 in
  (m2, res).
