(* C02 model: an executable evaluator for a fragment of XPath 1.0 over Base.Tree, used only to
   RUN the evaluation model in the correspondence check (the theorems are parametric in the
   engine: any function  query : xpath -> cursor -> option (list cursor)).

   Fragment: location paths of steps separated by '/' or '//' (optionally starting with '/' or
   '//': the idr navigator's root is the context node, so an absolute path is evaluated from the
   cursor), steps  .  ..  name  *  text()  @name  @*, predicates [k] [position()=k] [name='v']
   [@a='v'] [.='v'] on  .  name  *  steps.  Nodes are addressed by their child-index path from
   the root of the record tree; attribute nodes are children (packed first) as in idr. *)
From Coq Require Import String List NArith Bool.
From Coq.Strings Require Import Byte.
Import ListNotations.
From OV Require Import Base.Bytes Base.Cases Base.Tree.

Definition path := list nat.

Fixpoint subtree (t : tree) (p : path) : option tree :=
  match p with
  | [] => Some t
  | i :: r => match nth_error (t_kids t) i with Some k => subtree k r | None => None end
  end.

Definition is_attr (t : tree) : bool := match t_type t with AttributeNode => true | _ => false end.

(* ---- abstract syntax --------------------------------------------------------------------- *)
(* a name test carries its prefix (empty for a bare name): the engine compares the node's
   local name AND its prefix string (antchfx v1.1.11 knows no namespace URLs) *)
Inductive ntest := TName (pfx n : bytes) | TStar | TText.

(* navigator.Prefix(): the XML namespace prefix, "" for every other format *)
Definition t_prefix (t : tree) : bytes := match t_fs t with FXml p _ => p | _ => [] end.
Inductive pred :=
| PPos (k : nat)
| PLast                      (* [last()] *)
| PBeforeLast                (* [position() < last()] *)
| PChildEq (name v : bytes)
| PAttrEq (a v : bytes)
| PSelfEq (v : bytes).
Inductive step :=
| SSelf (ps : list pred)
| SParent
| SChild (t : ntest) (ps : list pred)
| SDesc (t : ntest) (ps : list pred)      (* '//' followed by a child-axis test *)
| SAttr (a : option bytes)                (* @a, @* *)
| SNone.                                  (* a number literal used as a path: selects nothing *)

(* ---- evaluation ---------------------------------------------------------------------------- *)
Definition test_ok (t : ntest) (n : tree) : bool :=
  match t, t_type n with
  | TName pf nm, ElementNode => bytes_eqb nm (t_data n) && bytes_eqb pf (t_prefix n)
  | TStar, ElementNode => true
  | TText, TextNode => true
  | _, _ => false
  end.

Definition pred_ok (p : pred) (n : tree) : bool :=
  match p with
  | PPos _ => true
  | PLast => true
  | PBeforeLast => true
  | PChildEq nm v =>
      existsb (fun k => test_ok (TName [] nm) k && bytes_eqb (inner_text k) v) (t_kids n)
  | PAttrEq a v =>
      existsb (fun k => is_attr k && bytes_eqb (t_data k) a && bytes_eqb (inner_text k) v) (t_kids n)
  | PSelfEq v => bytes_eqb (inner_text n) v
  end.

(* one predicate over the candidate list of one context node *)
Definition apply_pred (p : pred) (cands : list (path * tree)) : list (path * tree) :=
  match p with
  | PPos k => match k with
              | O => []
              | S j => match nth_error cands j with Some c => [c] | None => [] end
              end
  | PLast => match rev cands with c :: _ => [c] | [] => [] end
  | PBeforeLast => removelast cands
  | _ => filter (fun c => pred_ok p (snd c)) cands
  end.

Definition apply_preds (ps : list pred) (cands : list (path * tree)) : list (path * tree) :=
  fold_left (fun cs p => apply_pred p cs) ps cands.

(* children of the node at [p] with their paths *)
Fixpoint kids_from (p : path) (i : nat) (ks : list tree) : list (path * tree) :=
  match ks with
  | [] => []
  | k :: r => (p ++ [i], k) :: kids_from p (S i) r
  end.
Definition kids_of (p : path) (n : tree) : list (path * tree) := kids_from p 0 (t_kids n).

(* proper descendants in document order, attribute nodes (and what is below them) excluded *)
Fixpoint descendants (p : path) (n : tree) : list (path * tree) :=
  let 'T _ _ _ ks := n in
  (fix go (i : nat) (l : list tree) : list (path * tree) :=
     match l with
     | [] => []
     | k :: r =>
         (if is_attr k then [] else (p ++ [i], k) :: descendants (p ++ [i]) k) ++ go (S i) r
     end) 0 ks.

Definition eval_step (root : tree) (s : step) (ctx : path) : list path :=
  match subtree root ctx with
  | None => []
  | Some n =>
      match s with
      | SSelf ps => map fst (apply_preds ps [(ctx, n)])
      | SParent => match ctx with [] => [] | _ => [removelast ctx] end
      | SChild t ps =>
          if is_attr n then []
          else map fst (apply_preds ps (filter (fun c => negb (is_attr (snd c)) && test_ok t (snd c)) (kids_of ctx n)))
      | SDesc t ps =>
          (* antchfx compiles  a//b  into one descendant query WITH the context node itself
             (descendantQuery{Self: true}): the engine instance follows the engine *)
          if is_attr n then []
          else map fst (apply_preds ps (filter (fun c => test_ok t (snd c)) ((ctx, n) :: descendants ctx n)))
      | SNone => []
      | SAttr a =>
          map fst (filter (fun c => is_attr (snd c) &&
                                    match a with Some nm => bytes_eqb nm (t_data (snd c)) | None => true end)
                          (kids_of ctx n))
      end
  end.

Definition eval_steps (root : tree) (ss : list step) (ctx : path) : list path :=
  fold_left (fun cs s => flat_map (eval_step root s) cs) ss [ctx].

(* ---- concrete syntax ----------------------------------------------------------------------- *)
Inductive tok :=
| KSlash | KDSlash | KDot | KDDot | KAt | KStar | KLBr | KRBr | KEq | KLPar | KRPar
| KName (n : bytes) | KNum (k : nat) | KLit (s : bytes) | KLt.

Definition is_name_char (b : byte) : bool :=
  let n := Byte.to_N b in
  (N.leb 48 n && N.leb n 57) || (N.leb 65 n && N.leb n 90) || (N.leb 97 n && N.leb n 122)
  || N.eqb n 95 || N.eqb n 45 || N.eqb n 58.
Definition is_digit (b : byte) : bool := let n := Byte.to_N b in N.leb 48 n && N.leb n 57.

Fixpoint take_while (f : byte -> bool) (s : bytes) : bytes * bytes :=
  match s with
  | [] => ([], [])
  | b :: r => if f b then let '(a, t) := take_while f r in (b :: a, t) else ([], s)
  end.

Fixpoint take_until (q : byte) (s : bytes) : option (bytes * bytes) :=
  match s with
  | [] => None
  | b :: r => if Byte.eqb b q then Some ([], r)
              else match take_until q r with Some (a, t) => Some (b :: a, t) | None => None end
  end.

(* positions beyond any tree size are all the same: capped so that the unary number stays small *)
Definition num_of (s : bytes) : nat :=
  N.to_nat (N.min 1000000 (fold_left (fun acc b => N.min 1000000 (acc * 10 + (Byte.to_N b - 48))) s 0%N)).

Fixpoint lex (fuel : nat) (s : bytes) : option (list tok) :=
  match fuel with
  | O => None
  | S f =>
      match s with
      | [] => Some []
      | x2f :: x2f :: r => option_map (cons KDSlash) (lex f r)
      | x2f :: r => option_map (cons KSlash) (lex f r)
      | x2e :: x2e :: r => option_map (cons KDDot) (lex f r)
      | x2e :: r => option_map (cons KDot) (lex f r)
      | x40 :: r => option_map (cons KAt) (lex f r)
      | x2a :: r => option_map (cons KStar) (lex f r)
      | x5b :: r => option_map (cons KLBr) (lex f r)
      | x5d :: r => option_map (cons KRBr) (lex f r)
      | x3d :: r => option_map (cons KEq) (lex f r)
      | x28 :: r => option_map (cons KLPar) (lex f r)
      | x29 :: r => option_map (cons KRPar) (lex f r)
      | x3c :: r => option_map (cons KLt) (lex f r)
      | x20 :: r => lex f r                       (* white space between tokens *)
      | x27 :: r => match take_until x27 r with
                    | Some (l, t) => option_map (cons (KLit l)) (lex f t)
                    | None => None
                    end
      | x22 :: r => match take_until x22 r with
                    | Some (l, t) => option_map (cons (KLit l)) (lex f t)
                    | None => None
                    end
      | b :: _ =>
          if is_name_char b then
            let '(w, t) := take_while is_name_char s in
            let k := if forallb is_digit w then KNum (num_of w) else KName w in
            option_map (cons k) (lex f t)
          else None
      end
  end.

Definition positional (ps : list pred) : bool :=
  existsb (fun p => match p with PPos _ | PLast | PBeforeLast => true | _ => false end) ps.

(* predicates:  [k]  [position()=k]  [.='v']  [@a='v']  [name='v']  *)
Fixpoint parse_preds (fuel : nat) (ts : list tok) : option (list pred * list tok) :=
  match fuel with
  | O => None
  | S f =>
      match ts with
      | KLBr :: KNum k :: KRBr :: r =>
          match parse_preds f r with Some (ps, t) => Some (PPos k :: ps, t) | None => None end
      | KLBr :: KName nm :: KLPar :: KRPar :: KEq :: KNum k :: KRBr :: r =>
          if bytes_eqb nm (hx "706f736974696f6e"%string)
          then match parse_preds f r with Some (ps, t) => Some (PPos k :: ps, t) | None => None end
          else None
      | KLBr :: KName nm :: KLPar :: KRPar :: KRBr :: r =>
          if bytes_eqb nm (hx "6c617374"%string)
          then match parse_preds f r with Some (ps, t) => Some (PLast :: ps, t) | None => None end
          else None
      | KLBr :: KName nm :: KLPar :: KRPar :: KLt :: KName nm2 :: KLPar :: KRPar :: KRBr :: r =>
          if (bytes_eqb nm (hx "706f736974696f6e"%string) && bytes_eqb nm2 (hx "6c617374"%string))%bool
          then match parse_preds f r with Some (ps, t) => Some (PBeforeLast :: ps, t) | None => None end
          else None
      | KLBr :: KDot :: KEq :: KLit v :: KRBr :: r =>
          match parse_preds f r with Some (ps, t) => Some (PSelfEq v :: ps, t) | None => None end
      | KLBr :: KAt :: KName a :: KEq :: KLit v :: KRBr :: r =>
          match parse_preds f r with Some (ps, t) => Some (PAttrEq a v :: ps, t) | None => None end
      | KLBr :: KName nm :: KEq :: KLit v :: KRBr :: r =>
          match parse_preds f r with Some (ps, t) => Some (PChildEq nm v :: ps, t) | None => None end
      | KLBr :: _ => None
      | _ => Some ([], ts)
      end
  end.

(* one step; [desc] = the separator before it was '//' *)
Definition parse_step (desc : bool) (ts : list tok) : option (step * list tok) :=
  let fuel := S (length ts) in
  let mk t r :=
    match parse_preds fuel r with
    | Some (ps, r') =>
        if desc then (if positional ps then None else Some (SDesc t ps, r'))
        else Some (SChild t ps, r')
    | None => None
    end in
  match ts with
  | KDDot :: r => if desc then None else Some (SParent, r)
  | KDot :: r => if desc then None
                 else match parse_preds fuel r with
                      | Some (ps, r') => if positional ps then None else Some (SSelf ps, r')
                      | None => None
                      end
  | KAt :: KName a :: r => if desc then None else Some (SAttr (Some a), r)
  | KAt :: KStar :: r => if desc then None else Some (SAttr None, r)
  | KName nm :: KLPar :: KRPar :: r =>
      if bytes_eqb nm (hx "74657874"%string) then mk TText r else None
  | KName nm :: r =>
      match take_until x3a nm with
      | Some (pf, loc) => mk (TName pf loc) r      (* prefix:local *)
      | None => mk (TName [] nm) r
      end
  | KStar :: r => mk TStar r
  | _ => None
  end.

Fixpoint parse_steps (fuel : nat) (desc : bool) (ts : list tok) : option (list step) :=
  match fuel with
  | O => None
  | S f =>
      match parse_step desc ts with
      | Some (s, []) => Some [s]
      | Some (s, KSlash :: r) => option_map (cons s) (parse_steps f false r)
      | Some (s, KDSlash :: r) => option_map (cons s) (parse_steps f true r)
      | _ => None
      end
  end.

Definition parse_xpath (s : bytes) : option (list step) :=
  match lex (S (length s)) s with
  | None => None
  | Some ts =>
      let fuel := S (length ts) in
      match ts with
      | [] => None
      | [KSlash] => Some []
      | [KNum _] => Some [SNone]
      | KSlash :: r => parse_steps fuel false r
      | KDSlash :: r => parse_steps fuel true r
      | _ => parse_steps fuel false ts
      end
  end.

(* the engine instance: None = the expression is outside the fragment (the real engine would
   either fail to compile it or evaluate something the fragment does not cover) *)
Definition frag_query (root : tree) (x : bytes) (ctx : path) : option (list path) :=
  match parse_xpath x with
  | Some ss => Some (eval_steps root ss ctx)
  | None => None
  end.

Definition path_eqb (a b : path) : bool := list_eqb Nat.eqb a b.

Definition inner_text_at (root : tree) (p : path) : option bytes :=
  option_map inner_text (subtree root p).
