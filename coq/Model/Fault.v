(* C16 model, classification level: which error class each FormatReader constructs when its
   input reader fails, and what the built-in ingester + Transform make of it.  The byte-level
   propagation of a source fault through the buffered layers is in Model/Chunk.v (sources with a
   fault tail).  Executable definitions only; proofs in Proofs/Fault.v. *)
From Coq Require Import List NArith Bool Arith.
Import ListNotations.
From OV Require Import Base.Bytes Base.Cases Base.ErrClass Model.Latch Gen.Continuable Model.Chunk.

Definition rcls_eqb (a b : rcls) : bool :=
  match a, b with
  | RcEOF, RcEOF | RcFatal, RcFatal | RcFailed, RcFailed | RcLatched, RcLatched | RcPlain, RcPlain => true
  | _, _ => false
  end.

(* The classes a reader wraps a non-EOF failure of its input io.Reader into (index = position in
   Gen.Continuable.all_formats):
   0 csv          header phase: ErrInvalidHeader (csv/reader.go checkHeader);
                  data phase: the instance remembered in r.readErr (csv/reader.go Read) = latched
   1 csv2         ErrInvalidCSV            (flatfile/csv/reader.go readLine)
   2 edi          ErrInvalidEDI            (edi/reader2.go Read: scanner.Err(); reader.go getUnprocessedRawSeg)
   3 fixed-length ErrInvalidEnvelope       (fixedlength/reader.go readByRowsEnvelope / readByHeaderFooterEnvelope)
   4 fixedlength2 ErrInvalidFixedLength    (flatfile/fixedlength/reader.go readLine)
   5 json         ErrNodeReadingFailed     (json/reader.go Read)
   6 xml          ErrNodeReadingFailed     (xml/reader.go Read) *)
Definition fault_classes (fmt : nat) : list rcls :=
  match fmt with
  | 0 => [RcFatal; RcLatched]
  | _ => [RcFatal]
  end.

(* Which error VALUE the failing input reader returns does not matter: end of input is the value
   io.EOF itself (Go ==), everything else -- io.ErrUnexpectedEOF, errors wrapping io.EOF, an error
   whose text is "EOF", struct or pointer typed errors -- is a fault (Model/Chunk.v: IoFault e for
   every e, never IoEOF).  The c16 generators use all of these values. *)

(* The classification before the F10 repair: "failed to fetch record" was a plain error. *)
Definition fault_classes_pre_f10 (fmt : nat) : list rcls :=
  match fmt with
  | 0 => [RcFatal; RcPlain]
  | _ => [RcFatal]
  end.

(* What Transform.Read does with a reader error of class c (transform.go:56 over
   ingester.go:63): wrapped into ErrTransformFailed iff the ingester calls it continuable. *)
Definition transform_terminal (fmt : nat) (c : rcls) : bool :=
  negb (continuable_ingester (fmt_cont fmt) c).

(* Correspondence cases written by harness/cmd/c16. *)
Inductive fcase :=
| FProbe (failed : bool)
    (* NewTransform's BOM probe met the fault on its very first read: NewTransform must fail *)
| FReader (fmt : nat) (c : rcls) (cont : bool) (terminal : bool)
| FComp (c : ccase).

Definition check_case (x : fcase) : bool :=
  match x with
  | FComp c => Chunk.check_case c
  | FProbe failed => failed
  | FReader fmt c cont terminal =>
      existsb (rcls_eqb c) (fault_classes fmt)
      && Bool.eqb cont (fmt_cont fmt c)
      && Bool.eqb terminal (transform_terminal fmt c)
  end.

(* ---- fixedlength/reader.go readByHeaderFooterEnvelope: how an envelope starts ----------------- *)
(* Over what the line reader delivers from here on (the lines ls, then the error e): readLine skips
   empty lines; a read error other than io.EOF is wrapped into the fatal ErrInvalidEnvelope; the
   first non-empty line is matched against the envelope headers from the current one on -- and if
   none matches, io.EOF is returned at once (reader.go:112), without reading any further. *)
Inductive hf_res := HfEOF | HfFatal | HfEnvelope (first_line : bytes).

Definition hf_envelope_start (headers : list (bytes -> bool)) (ls : list bytes) (e : ioerr) : hf_res :=
  match filter (fun l => negb (is_nil l)) ls with
  | [] => match e with IoEOF => HfEOF | _ => HfFatal end
  | l :: _ => if existsb (fun h => h l) headers then HfEnvelope l else HfEOF
  end.
