(* C16 model, classification level: which error class each FormatReader constructs when its
   input reader fails, and what the built-in ingester + Transform make of it.  The byte-level
   propagation of a source fault through the buffered layers is in Model/Chunk.v (sources with a
   fault tail).  Executable definitions only; proofs in Proofs/Fault.v. *)
From Coq Require Import List NArith Bool Arith.
Import ListNotations.
From OV Require Import Base.Bytes Base.Cases Base.ErrClass Model.Latch Gen.Continuable Gen.FaultWrap Model.Chunk.

Definition rcls_eqb (a b : rcls) : bool :=
  match a, b with
  | RcEOF, RcEOF | RcFatal, RcFatal | RcFailed, RcFailed | RcLatched, RcLatched | RcPlain, RcPlain => true
  | _, _ => false
  end.

(* The classes a reader wraps a non-EOF failure of its input io.Reader into (index = position in
   Gen.Continuable.all_formats):
   0 csv          header phase: ErrInvalidHeader (csv/reader.go checkHeader);
                  data phase: the instance remembered in r.readErr (csv/reader.go Read) = latched
   1 csv2         ErrInvalidCSV            (flatfile/csv/reader.go readLine)
   2 edi          ErrInvalidEDI            (edi/reader2.go Read: scanner.Err(); reader.go getUnprocessedRawSeg)
   3 fixed-length ErrInvalidEnvelope       (fixedlength/reader.go readByRowsEnvelope / readByHeaderFooterEnvelope)
   4 fixedlength2 ErrInvalidFixedLength    (flatfile/fixedlength/reader.go readLine)
   5 json         ErrNodeReadingFailed     (json/reader.go Read)
   6 xml          ErrNodeReadingFailed     (xml/reader.go Read) *)
Definition fault_classes (fmt : nat) : list rcls :=
  match fmt with
  | 0 => [RcFatal; RcLatched]
  | _ => [RcFatal]
  end.

(* Which error VALUE the failing input reader returns does not matter: end of input is the value
   io.EOF itself (Go ==), everything else -- io.ErrUnexpectedEOF, errors wrapping io.EOF, an error
   whose text is "EOF", struct or pointer typed errors -- is a fault (Model/Chunk.v: IoFault e for
   every e, never IoEOF).  The c16 generators use all of these values. *)

(* The classification before the F10 repair: "failed to fetch record" was a plain error. *)
Definition fault_classes_pre_f10 (fmt : nat) : list rcls :=
  match fmt with
  | 0 => [RcFatal; RcPlain]
  | _ => [RcFatal]
  end.

(* What Transform.Read does with a reader error of class c (transform.go:56 over
   ingester.go:63): wrapped into ErrTransformFailed iff the ingester calls it continuable. *)
Definition transform_terminal (fmt : nat) (c : rcls) : bool :=
  negb (continuable_ingester (fmt_cont fmt) c).

(* ---- fixedlength/reader.go readByHeaderFooterEnvelope: how an envelope starts ----------------- *)
(* Over what the line reader delivers from here on (the lines ls, then the error e): readLine skips
   empty lines; a read error other than io.EOF is wrapped into the fatal ErrInvalidEnvelope; the
   first non-empty line is matched against the envelope headers from the current one on -- and if
   none matches, io.EOF is returned at once (reader.go:112), without reading any further. *)
Inductive hf_res := HfEOF | HfFatal | HfEnvelope (first_line : bytes).

Definition hf_envelope_start (headers : list (bytes -> bool)) (ls : list bytes) (e : ioerr) : hf_res :=
  match filter (fun l => negb (is_nil l)) ls with
  | [] => match e with IoEOF => HfEOF | _ => HfFatal end
  | l :: _ => if existsb (fun h => h l) headers then HfEnvelope l else HfEOF
  end.

(* ---- fixedlength/reader.go (old fixed-length), over what the line reader delivers ------------- *)
(* The line reader layer (Model/Chunk.v) hands out the lines ls and then the error e.  The
   functions below are the sequence of results of the reader's successive Read calls, up to and
   including the first error.  Which error value a failing read is turned into, the end-of-input
   test and what a line matching no header gives are taken from Gen/FaultWrap.v (extracted from
   the source on every run). *)
Inductive fl_result := FlNode (first_line : bytes) | FlRes (c : rcls).

Definition fl_result_eqb (a b : fl_result) : bool :=
  match a, b with
  | FlNode x, FlNode y => bytes_eqb x y
  | FlRes x, FlRes y => rcls_eqb x y
  | _, _ => false
  end.

(* `err == io.EOF` as the code tests it *)
Definition fl_is_eof (identity : bool) (e : ioerr) : bool := ioerr_eqb e IoEOF || negb identity.

(* by_rows envelopes (readByRowsEnvelope): i = rows of the current envelope read so far *)
Fixpoint fl_rows_run (rows i : nat) (first : bytes) (ls : list bytes) (e : ioerr) : list fl_result :=
  match ls with
  | [] => [if fl_is_eof fixedlength_rows_eof_is_identity e && (i =? 0) then FlRes RcEOF
           else FlRes wrap_fixedlength_rows]
  | l :: r =>
      if is_nil l then fl_rows_run rows i first r e            (* readLine skips empty lines *)
      else
        let first' := if i =? 0 then l else first in
        if S i =? rows then FlNode first' :: fl_rows_run rows 0 [] r e
        else fl_rows_run rows (S i) first' r e
  end.

(* by_header_footer envelopes (readByHeaderFooterEnvelope + Read's loop over not_target ones) *)
Record hf_env := mkHfEnv { hf_header : bytes -> bool; hf_footer : bytes -> bool; hf_not_target : bool }.

Fixpoint hf_find (envs : list hf_env) (idx : nat) (l : bytes) : option nat :=
  match envs with
  | [] => None
  | en :: r => match idx with
               | S k => option_map S (hf_find r k l)
               | O => if hf_header en l then Some 0 else option_map S (hf_find r 0 l)
               end
  end.

(* cur = None: at the start of an envelope; Some (idx, first line): inside envelope idx *)
Fixpoint hf_run (envs : list hf_env) (idx : nat) (cur : option (nat * bytes)) (ls : list bytes) (e : ioerr)
  : list fl_result :=
  match ls with
  | [] =>
      match cur with
      | None => [if fl_is_eof fixedlength_hf_eof_is_identity e then FlRes RcEOF else FlRes wrap_fixedlength_hf_first]
      | Some _ => [FlRes wrap_fixedlength_hf_body]     (* "incomplete envelope", EOF included *)
      end
  | l :: r =>
      if is_nil l then hf_run envs idx cur r e
      else
        match cur with
        | None =>
            match hf_find envs idx l with
            | None => [FlRes fixedlength_hf_nomatch]      (* reader.go: return nil, io.EOF *)
            | Some j =>
                let en := nth j envs (mkHfEnv (fun _ => false) (fun _ => false) false) in
                if hf_footer en l then
                  (if hf_not_target en then hf_run envs j None r e else FlNode l :: hf_run envs j None r e)
                else hf_run envs j (Some (j, l)) r e
            end
        | Some (j, first) =>
            let en := nth j envs (mkHfEnv (fun _ => false) (fun _ => false) false) in
            if hf_footer en l then
              (if hf_not_target en then hf_run envs j None r e else FlNode first :: hf_run envs j None r e)
            else hf_run envs j cur r e
        end
  end.

(* F27's guard: every non-empty line at which an envelope starts matches a header *)
Fixpoint hf_all_match (envs : list hf_env) (idx : nat) (cur : option nat) (ls : list bytes) : bool :=
  match ls with
  | [] => true
  | l :: r =>
      if is_nil l then hf_all_match envs idx cur r
      else
        match cur with
        | None =>
            match hf_find envs idx l with
            | None => false
            | Some j =>
                let en := nth j envs (mkHfEnv (fun _ => false) (fun _ => false) false) in
                if hf_footer en l then hf_all_match envs j None r else hf_all_match envs j (Some j) r
            end
        | Some j =>
            let en := nth j envs (mkHfEnv (fun _ => false) (fun _ => false) false) in
            if hf_footer en l then hf_all_match envs j None r else hf_all_match envs j cur r
        end
  end.

(* Correspondence cases written by harness/cmd/c16. *)
Inductive fcase :=
| FProbe (failed : bool)
    (* NewTransform's BOM probe met the fault on its very first read: NewTransform must fail *)
| FReader (fmt : nat) (c : rcls) (cont : bool) (terminal : bool)
| FComp (c : ccase)
| FRows (rows : nat) (ls : list bytes) (e : ioerr) (obs : list (option rcls))
    (* old fixed-length, by_rows: the lines the real line reader delivered over this input and
       fault, and the results of the real reader's Read calls (None = a node) *)
| FHf (envs : list (bytes * bytes * bool)) (ls : list bytes) (e : ioerr) (obs : list (option rcls)).
    (* the same for by_header_footer envelopes given as (header prefix, footer prefix, not_target) *)

Definition fl_proj (r : fl_result) : option rcls := match r with FlNode _ => None | FlRes c => Some c end.
Definition mk_env (x : bytes * bytes * bool) : hf_env :=
  let '(h, f, nt) := x in mkHfEnv (prefix_eqb h) (prefix_eqb f) nt.

Definition check_case (x : fcase) : bool :=
  match x with
  | FComp c => Chunk.check_case c
  | FRows rows ls e obs => list_eqb (opt_eqb rcls_eqb) (map fl_proj (fl_rows_run rows 0 [] ls e)) obs
  | FHf envs ls e obs => list_eqb (opt_eqb rcls_eqb) (map fl_proj (hf_run (map mk_env envs) 0 None ls e)) obs
  | FProbe failed => failed
  | FReader fmt c cont terminal =>
      existsb (rcls_eqb c) (fault_wrap fmt)
      && Bool.eqb cont (fmt_cont fmt c)
      && Bool.eqb terminal (transform_terminal fmt c)
  end.

