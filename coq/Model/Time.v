(* C19 model: customfuncs/datetime.go (parseDateTime, rfc3339, DateTimeToRFC3339,
   DateTimeLayoutToRFC3339, DateTimeToEpoch, EpochToDateTimeRFC3339) and go-corelib times
   (OverwriteTZ, ConvertTZ) over Z.  int64 arithmetic is written with explicit wrap-around;
   Go's / and % truncate toward zero (Z.quot / Z.rem).  The textual parsers (times.SmartParse,
   time.Parse, strconv) enter as an abstract parse result; zone behaviour (the offset in force
   at an instant, the offset time.Date picks for a wall reading) enters as Section variables
   whose values the harness obtains from Go's time package.  Executable definitions only. *)
From Coq Require Import ZArith List Bool String.
Import ListNotations.
From OV Require Import Base.Cases Model.Int64 Gen.DateTime.
Local Open Scope Z_scope.

(* int64 arithmetic (wrap64 ...), instants and time.Unix are in Model/Int64.v; the epoch
   expressions, the unit strings and the two zone steps of parseDateTime are in Gen/DateTime.v,
   regenerated from customfuncs/datetime.go on every run. *)
Definition MIN_SEC : Z := -62135596800.   (* 0001-01-01T00:00:00Z *)
Definition MAX_SEC : Z := 253402300799.   (* 9999-12-31T23:59:59Z *)

Definition instant_eqb (a b : instant) : bool := (sec a =? sec b) && (nsec a =? nsec b).

(* proleptic Gregorian civil date -> days since 1970-01-01 (to state the year range) *)
Definition days_from_civil (y m d : Z) : Z :=
  let y' := if m <=? 2 then y - 1 else y in
  let era := y' / 400 in
  let yoe := y' - era * 400 in
  let mp := (m + 9) mod 12 in
  let doy := (153 * mp + 2) / 5 + d - 1 in
  let doe := yoe * 365 + yoe / 4 - yoe / 100 + doy in
  era * 146097 + doe - 719468.

(* ---- epoch conversions (datetime.go, DateTimeToEpoch / EpochToDateTimeRFC3339 switches) ------ *)
(* DateTimeToEpoch / EpochToDateTimeRFC3339: the expressions of the source, per unit *)
Definition to_epoch (u : eunit) (t : instant) : Z := to_epoch_expr u t.
Definition from_epoch (u : eunit) (n : Z) : instant := from_epoch_expr u n.

(* what the property expects back: the instant truncated (toward the past) to the unit *)
Definition trunc_unit (u : eunit) (t : instant) : instant :=
  match u with
  | USecond => mkI (sec t) 0
  | UMillisecond => mkI (sec t) (nsec t / MS_NS * MS_NS)
  end.

(* the code before the fix of F6b: t.UnixNano()/1e6 and time.Unix(0, n*1e6) *)
Definition old_to_epoch_ms (t : instant) : Z := quot64 (unix_nano t) MS_NS.
Definition old_from_epoch_ms (n : Z) : instant := time_unix 0 (mul64 n MS_NS).

(* ---- time values with a location ------------------------------------------------------------------ *)
Definition zone := N.   (* an IANA zone, named by the harness *)
Inductive loc := LUTC | LFixed (off : Z) | LZone (z : zone).
Record gotime := mkG { g_sec : Z; g_nsec : Z; g_loc : loc }.

(* A zone-name argument as the code distinguishes it: "" (tested by parseDateTime), blank but
   not empty (strs.IsStrNonBlank false: OverwriteTZ/ConvertTZ return t unchanged), a name
   caches.GetTimeLocation rejects, a loadable name. *)
Inductive tzarg := TzEmpty | TzBlank | TzBad | TzZone (z : zone).
Definition tz_is_empty (a : tzarg) : bool := match a with TzEmpty => true | _ => false end.

(* times.SmartParse / time.Parse: error, or a time and (SmartParse) whether the text had zone info *)
Inductive parse_result := PErr | POk (t : gotime) (has_tz : bool).

Inductive rfc_obs :=
| ObsZoned (wall : Z) (off_print : Z)   (* RFC3339 text: wall-clock reading (as seconds) and the printed offset *)
| ObsWall (wall : Z).                   (* "2006-01-02T15:04:05": wall-clock reading only *)
Inductive res (A : Type) := RVal (a : A) | REmpty | RError.
Arguments RVal {A}. Arguments REmpty {A}. Arguments RError {A}.

Section Zones.
  (* offset (seconds east of UTC) in force in zone z at Unix time s: what t.In(loc) uses *)
  Variable off_of_instant : zone -> Z -> Z.
  (* offset time.Date(y,m,d,h,mi,s,ns,loc) settles on for the wall reading w (the reading taken
     as if it were UTC, in seconds) *)
  Variable off_of_wall : zone -> Z -> Z.

  Definition off_at (l : loc) (s : Z) : Z :=
    match l with LUTC => 0 | LFixed o => o | LZone z => off_of_instant z s end.
  (* t.Year() ... t.Second(): the reading in t's own location *)
  Definition wall_sec (t : gotime) : Z := g_sec t + off_at (g_loc t) (g_sec t).

  (* times.OverwriteTZ *)
  Definition overwrite_tz (t : gotime) (tz : tzarg) : option gotime :=
    match tz with
    | TzEmpty | TzBlank => Some t
    | TzBad => None
    | TzZone z => let w := wall_sec t in Some (mkG (w - off_of_wall z w) (g_nsec t) (LZone z))
    end.
  (* times.ConvertTZ *)
  Definition convert_tz (t : gotime) (tz : tzarg) : option gotime :=
    match tz with
    | TzEmpty | TzBlank => Some t
    | TzBad => None
    | TzZone z => Some (mkG (g_sec t) (g_nsec t) (LZone z))
    end.

  Definition apply_op (op : tzop) (t : gotime) (tz : tzarg) : option gotime :=
    match op with OpOverwrite => overwrite_tz t tz | OpConvert => convert_tz t tz end.

  (* parseDateTime after the parse (datetime.go:47-66), over the two steps Gen/DateTime.v reads
     from the source: [if guard { t = op(t, fromTZ); hasTZ = true }] then
     [if guard { t = (if hasTZ then op1 else op2)(t, toTZ); hasTZ = .. }] *)
  Definition parse_date_time (p : parse_result) (fromTZ toTZ : tzarg) : option (gotime * bool) :=
    match p with
    | PErr => None
    | POk t hasTZ =>
        let r1 :=
          if from_step_guard hasTZ (tz_is_empty fromTZ) then
            match apply_op from_step_op t fromTZ with
            | None => None
            | Some t' => Some (t', if from_step_sets_has_tz then true else hasTZ)
            end
          else Some (t, hasTZ) in
        match r1 with
        | None => None
        | Some (t1, h1) =>
            if to_step_guard h1 (tz_is_empty toTZ) then
              match apply_op (to_step_op h1) t1 toTZ with
              | None => None
              | Some t2 => Some (t2, if to_step_sets_has_tz h1 then true else h1)
              end
            else Some (t1, h1)
        end
    end.

  (* ---- the same as a decision table (what the function's comment promises) ---- *)
  Inductive decision :=
  | DError                                   (* a zone name that does not load *)
  | DBare                                    (* no zone anywhere: the wall reading as it is *)
  | DKeep (shown_in : option zone)           (* the parsed instant; shown in toTZ, else as parsed *)
  | DBind (z : zone) (shown_in : zone).      (* the wall reading bound to z by time.Date, shown in shown_in *)
  Definition decide (hasTZ : bool) (fromTZ toTZ : tzarg) : decision :=
    if hasTZ then
      match toTZ with TzBad => DError | TzZone z => DKeep (Some z) | _ => DKeep None end
    else
      match fromTZ, toTZ with
      | TzBad, _ => DError
      | _, TzBad => DError
      | TzZone zf, TzZone zt => DBind zf zt
      | TzZone zf, _ => DBind zf zf
      | TzBlank, TzZone zt => DKeep (Some zt)      (* a blank fromTZ binds nothing but marks the value as zoned *)
      | TzBlank, _ => DKeep None
      | TzEmpty, TzZone zt => DBind zt zt
      | TzEmpty, TzBlank => DKeep None
      | TzEmpty, TzEmpty => DBare
      end.
  Definition interp (t : gotime) (d : decision) : option (gotime * bool) :=
    match d with
    | DError => None
    | DBare => Some (t, false)
    | DKeep None => Some (t, true)
    | DKeep (Some z) => Some (mkG (g_sec t) (g_nsec t) (LZone z), true)
    | DBind z zs => let w := wall_sec t in Some (mkG (w - off_of_wall z w) (g_nsec t) (LZone zs), true)
    end.

  (* rfc3339(): time.RFC3339 prints the offset as +-hh:mm (offset/60, truncated toward zero,
     time/format.go) and no fraction of a second *)
  Definition rfc3339 (t : gotime) (hasTZ : bool) : rfc_obs :=
    if hasTZ then ObsZoned (wall_sec t) (Z.quot (off_at (g_loc t) (g_sec t)) 60 * 60)
    else ObsWall (wall_sec t).

  (* datetime: None = the empty string, Some p = what the parser makes of a non-empty string *)
  Definition date_time_to_rfc3339 (datetime : option parse_result) (fromTZ toTZ : tzarg) : res rfc_obs :=
    match datetime with
    | None => REmpty
    | Some p => match parse_date_time p fromTZ toTZ with
                | None => RError
                | Some (t, h) => RVal (rfc3339 t h)
                end
    end.

  (* layoutTZ argument: "" | a strconv.ParseBool value | anything else *)
  Inductive ltz := LtzEmpty | LtzBool (b : bool) | LtzBad.
  (* p is the result of time.Parse(layout, datetime) when layout <> "", of SmartParse otherwise;
     with a layout the zone flag is the caller's, not the parser's *)
  Definition date_time_layout_to_rfc3339 (datetime : option parse_result) (layout_empty : bool)
             (layoutTZ : ltz) (fromTZ toTZ : tzarg) : res rfc_obs :=
    let flag := if negb layout_empty then
                  match layoutTZ with LtzEmpty => Some false | LtzBool b => Some b | LtzBad => None end
                else Some false in
    match flag with
    | None => RError                       (* ParseBool fails before datetime == "" is looked at *)
    | Some f =>
        match datetime with
        | None => REmpty
        | Some p =>
            let p' := if layout_empty then p
                      else match p with PErr => PErr | POk t _ => POk t f end in
            match parse_date_time p' fromTZ toTZ with
            | None => RError
            | Some (t, h) => RVal (rfc3339 t h)
            end
        end
    end.

  (* unit argument: the two accepted spellings, or anything else *)
  Definition date_time_to_epoch (datetime : option parse_result) (fromTZ : tzarg) (u : option eunit) : res Z :=
    match datetime with
    | None => REmpty
    | Some p => match parse_date_time p fromTZ TzEmpty with
                | None => RError
                | Some (t, _) => match u with
                                 | Some u => RVal (to_epoch u (mkI (g_sec t) (g_nsec t)))
                                 | None => RError
                                 end
                end
    end.

  (* epoch: None = "", Some None = strconv.ParseInt fails, Some (Some n).
     tz: the variadic arguments, each already resolved by caches.GetTimeLocation
     (None = it fails); no argument = "UTC". *)
  Definition epoch_to_date_time (epoch : option (option Z)) (u : option eunit) (tz : list (option zone))
    : res rfc_obs :=
    match epoch with
    | None => REmpty
    | Some e =>
        match tz with
        | _ :: _ :: _ => RError
        | _ =>
            match e with
            | None => RError
            | Some n =>
                let l := match tz with [] => Some LUTC | Some z :: _ => Some (LZone z) | None :: _ => None end in
                match l with
                | None => RError
                | Some l =>
                    match u with
                    | None => RError
                    | Some u => let i := from_epoch u n in RVal (rfc3339 (mkG (sec i) (nsec i) l) true)
                    end
                end
            end
        end
    end.

  (* the instant an RFC3339 text denotes when parsed back *)
  Definition obs_instant (o : rfc_obs) : option Z :=
    match o with ObsZoned w off => Some (w - off) | ObsWall _ => None end.
  Definition obs_wall (o : rfc_obs) : Z := match o with ObsZoned w _ => w | ObsWall w => w end.
End Zones.

(* ---- correspondence ---------------------------------------------------------------------------- *)
(* Zone behaviour observed from Go for the points a case needs: (zone, argument, offset). *)
Definition ztable := list (zone * Z * Z).
Definition MISSING : Z := 777777777777.   (* no zone has this offset: a missing entry shows up as a mismatch *)
Fixpoint zlookup (t : ztable) (z : zone) (x : Z) : Z :=
  match t with
  | [] => MISSING
  | (z', x', o) :: r => if N.eqb z z' && (x =? x') then o else zlookup r z x
  end.

Definition rfc_obs_eqb (a b : rfc_obs) : bool :=
  match a, b with
  | ObsZoned w o, ObsZoned w' o' => (w =? w') && (o =? o')
  | ObsWall w, ObsWall w' => w =? w'
  | _, _ => false
  end.
Definition res_eqb {A} (eqb : A -> A -> bool) (a b : res A) : bool :=
  match a, b with
  | RVal x, RVal y => eqb x y
  | REmpty, REmpty => true
  | RError, RError => true
  | _, _ => false
  end.

(* ---- the functions called through a schema ------------------------------------------------------ *)
(* extensions/omniv21/transform/invokeCustomFunc.go: a custom_func whose function returns an
   error yields nil when its declaration says ignore_error, otherwise the error - which fails
   the record; an object member whose value is nil or "" is left out.  A member's outcome depends
   on its own declaration and its own call only (whatever is cached, shared or copied). *)
Definition member_outcome (ignore_error : bool) (r : res unit) : option bool :=
  match r with
  | RVal _ => Some true          (* present *)
  | REmpty => Some false         (* left out *)
  | RError => if ignore_error then Some false else None   (* None: the record fails *)
  end.
Fixpoint record_outcome (ms : list (bool * res unit)) : option (list bool) :=
  match ms with
  | [] => Some []
  | (ig, r) :: rest =>
      match member_outcome ig r, record_outcome rest with
      | Some p, Some l => Some (p :: l)
      | _, _ => None
      end
  end.
Definition res_kind {A} (r : res A) : res unit :=
  match r with RVal _ => RVal tt | REmpty => REmpty | RError => RError end.

Inductive c19case :=
  (* DateTimeToRFC3339 *)
| RfcCase (inst wall : ztable) (dt : option parse_result) (fromTZ toTZ : tzarg) (observed : res rfc_obs)
  (* DateTimeLayoutToRFC3339 *)
| LayoutCase (inst wall : ztable) (dt : option parse_result) (layout_empty : bool) (layoutTZ : ltz)
             (fromTZ toTZ : tzarg) (observed : res rfc_obs)
  (* DateTimeToEpoch *)
| ToEpochCase (inst wall : ztable) (dt : option parse_result) (fromTZ : tzarg) (unit : string)
              (observed : res Z)
  (* EpochToDateTimeRFC3339 *)
| FromEpochCase (inst : ztable) (epoch : option (option Z)) (unit : string) (tz : list (option zone))
                (observed : res rfc_obs)
  (* per record: the members (ignore_error, kind of result of the function called on its own)
     and what the Transform delivered: None = failed record, Some flags = member present? *)
| SchemaCase (records : list (list (bool * res unit) * option (list bool))).

Definition check_case (c : c19case) : bool :=
  match c with
  | RfcCase zi zw dt f t obs =>
      res_eqb rfc_obs_eqb (date_time_to_rfc3339 (zlookup zi) (zlookup zw) dt f t) obs
  | LayoutCase zi zw dt le ltz f t obs =>
      res_eqb rfc_obs_eqb (date_time_layout_to_rfc3339 (zlookup zi) (zlookup zw) dt le ltz f t) obs
  | ToEpochCase zi zw dt f u obs =>
      res_eqb Z.eqb (date_time_to_epoch (zlookup zi) (zlookup zw) dt f (unit_of_string u)) obs
  | FromEpochCase zi e u tz obs =>
      res_eqb rfc_obs_eqb (epoch_to_date_time (zlookup zi) e (unit_of_string u) tz) obs
  | SchemaCase recs =>
      forallb (fun p => opt_eqb (list_eqb Bool.eqb) (record_outcome (fst p)) (snd p)) recs
  end.
