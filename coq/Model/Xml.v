(* C08 model, XML half.  Executable definitions only; proofs are in Proofs/Xml*.v.

   - xnode / xtokens : an XML document (elements with scoped namespace declarations written as
                       attributes, attributes, character data, and items the reader skips:
                       comments, processing instructions, directives) and what encoding/xml's
                       Decoder.Token reports for it (names translated: Name.Space = URI);
   - xread / xbuild  : idr/xmlreader.go (updateNamespaces, addNonTextChild, addTextChild, parse,
                       streamCandidateCheck, wrapUpCurAndTargetCheck) for the target xpath ".";
   - xdom            : the reference DOM: every node carries the prefix WRITTEN in the document
                       and the URI that prefix is bound to in scope at that node;
   - tree_evs / tok_evs : the token view of a tree, for the faithfulness theorem;
   - ns_wf / uri_single_prefix : the guards of xml_prefix_in_scope;
   - check_xcase, c08case, check_case : the correspondence check. *)
From Coq Require Import List NArith Bool.
From Coq.Strings Require Import Byte.
Import ListNotations.
From OV Require Import Base.Bytes Base.Cases Base.Tree Model.Json.

(* ---- documents ------------------------------------------------------------------------------- *)
Record xattr := mkXA { xa_pfx : bytes; xa_loc : bytes; xa_val : bytes }.

Inductive xnode :=
| XElem (pfx loc : bytes) (attrs : list xattr) (kids : list xnode)
| XText (s : bytes)     (* one CharData token: text with entities decoded, or one CDATA section *)
| XSkip.                (* comment, processing instruction or directive *)

(* top-level items: prolog (XML declaration, comments, white space), the document element, rest *)
Definition xdoc := list xnode.

Definition b_xmlns : bytes := [x78; x6d; x6c; x6e; x73].   (* "xmlns" *)
Definition b_xml : bytes := [x78; x6d; x6c].               (* "xml" *)
Definition xml_url : bytes :=                              (* http://www.w3.org/XML/1998/namespace *)
  [x68; x74; x74; x70; x3a; x2f; x2f; x77; x77; x77; x2e; x77; x33; x2e; x6f; x72; x67; x2f;
   x58; x4d; x4c; x2f; x31; x39; x39; x38; x2f; x6e; x61; x6d; x65; x73; x70; x61; x63; x65].

Definition is_nil (b : bytes) : bool := match b with [] => true | _ => false end.

(* a Go map[string]string as an association list, most recent assignment first *)
Definition smap := list (bytes * bytes).
Fixpoint slookup (m : smap) (k : bytes) : option bytes :=
  match m with
  | [] => None
  | (k', v) :: r => if bytes_eqb k k' then Some v else slookup r k
  end.
Definition sset (m : smap) (k v : bytes) : smap := (k, v) :: m.

(* ---- encoding/xml Decoder.Token -------------------------------------------------------------- *)
Inductive xtok :=
| XTStart (space loc : bytes) (attrs : list (bytes * bytes * bytes))   (* (Space, Local, Value) *)
| XTEnd (space loc : bytes)
| XTChar (s : bytes)
| XTOther.                                                             (* Comment, ProcInst, Directive *)

(* Decoder.Token, StartElement case: the xmlns attributes of the element extend d.ns first *)
Fixpoint push_decls (env : smap) (attrs : list xattr) : smap :=
  match attrs with
  | [] => env
  | a :: r =>
      let env1 := if bytes_eqb (xa_pfx a) b_xmlns then sset env (xa_loc a) (xa_val a) else env in
      let env2 := if is_nil (xa_pfx a) && bytes_eqb (xa_loc a) b_xmlns then sset env1 [] (xa_val a)
                  else env1 in
      push_decls env2 r
  end.

(* Decoder.translate; DefaultSpace is "" *)
Definition translate (env : smap) (space loc : bytes) (is_elem : bool) : bytes :=
  if bytes_eqb space b_xmlns then space
  else if is_nil space && negb is_elem then space
  else
    let space1 := if bytes_eqb space b_xml then xml_url else space in
    if is_nil space && bytes_eqb loc b_xmlns then space
    else match slookup env space1 with
         | Some v => v
         | None => space1
         end.

Fixpoint xtoks (env : smap) (n : xnode) : list xtok :=
  match n with
  | XText s => [XTChar s]
  | XSkip => [XTOther]
  | XElem p l attrs kids =>
      let env' := push_decls env attrs in
      let sp := translate env' p l true in
      XTStart sp l (map (fun a => (translate env' (xa_pfx a) (xa_loc a) false, xa_loc a, xa_val a)) attrs)
      :: (fix go (ks : list xnode) : list xtok :=
            match ks with [] => [XTEnd sp l] | k :: r => xtoks env' k ++ go r end) kids
  end.

Definition xtokens (d : xdoc) : list xtok := flat_map (xtoks []) d.

Definition xtok_attr_eqb (a b : bytes * bytes * bytes) : bool :=
  let '(s, l, v) := a in let '(s', l', v') := b in
  bytes_eqb s s' && bytes_eqb l l' && bytes_eqb v v'.
Definition xtok_eqb (a b : xtok) : bool :=
  match a, b with
  | XTStart s l at1, XTStart s' l' at2 => bytes_eqb s s' && bytes_eqb l l' && list_eqb xtok_attr_eqb at1 at2
  | XTEnd s l, XTEnd s' l' => bytes_eqb s s' && bytes_eqb l l'
  | XTChar s, XTChar s' => bytes_eqb s s'
  | XTOther, XTOther => true
  | _, _ => false
  end.

(* ---- idr/xmlreader.go, target xpath "." ------------------------------------------------------ *)
(* As for JSON: the partially built tree is the stack of open nodes (top = sp.cur), each with the
   children attached so far, most recent first. *)
Record xframe := mkXF { xf_ty : ntype; xf_data : bytes; xf_pfx : bytes; xf_uri : bytes; xf_kids : list tree }.

Definition xf_tree (f : xframe) : tree :=
  T (xf_ty f) (xf_data f) (FXml (xf_pfx f) (xf_uri f)) (rev (xf_kids f)).
Definition xf_add (f : xframe) (c : tree) : xframe :=
  mkXF (xf_ty f) (xf_data f) (xf_pfx f) (xf_uri f) (c :: xf_kids f).

Record xstate := mkXS {
  xs_stack : list xframe;       (* [] is sp.cur == nil *)
  xs_map : smap;                (* sp.space2prefix: URI -> prefix, one global map *)
  xs_stream : option nat;       (* sp.stream, by the depth at which the node sits *)
}.

Definition xinit : xstate :=
  mkXS [mkXF DocumentNode [] [] [] []] [(xml_url, b_xml)] None.

Inductive xres :=
| XRNode (elem doc : tree)   (* Read returned the element [elem]; [doc] is the tree it hangs in *)
| XREof                      (* the token stream ended (Decoder.Token's error is returned) *)
| XRErrNs                    (* "unknown namespace ..." *)
| XRPanic.                   (* nil dereference on sp.cur; unreachable behind a strict decoder *)

(* updateNamespaces *)
Fixpoint update_ns (m : smap) (attrs : list (bytes * bytes * bytes)) : smap :=
  match attrs with
  | [] => m
  | (space, loc, val) :: r =>
      update_ns (if bytes_eqb loc b_xmlns then sset m val []
                 else if bytes_eqb space b_xmlns then sset m val loc
                 else m) r
  end.

(* the XMLSpecific addNonTextChild computes for a name; None = the "unknown namespace" error *)
Definition xml_specific (m : smap) (ty : ntype) (space : bytes) : option (bytes * bytes) :=
  if is_nil space then Some ([], [])
  else match slookup m space with
       | Some p => Some (p, space)
       | None =>
           match ty with
           | AttributeNode => if bytes_eqb space b_xmlns then Some (space, []) else None
           | _ => None
           end
       end.

Definition xtext (s : bytes) : tree := T TextNode s (FXml [] []) [].

(* the attribute loop of parse(): each attribute becomes an AttributeNode child with one text
   child; None = an attribute name failed the namespace lookup *)
Fixpoint attr_nodes (m : smap) (attrs : list (bytes * bytes * bytes)) : option (list tree) :=
  match attrs with
  | [] => Some []
  | (space, loc, val) :: r =>
      match xml_specific m AttributeNode space with
      | None => None
      | Some (p, u) =>
          match attr_nodes m r with
          | None => None
          | Some l => Some (T AttributeNode loc (FXml p u) [xtext val] :: l)
          end
      end
  end.

Definition xstep (s : xstate) (tok : xtok) : xstate * option xres :=
  match tok with
  | XTStart space loc attrs =>
      let m := update_ns (xs_map s) attrs in
      match xml_specific m ElementNode space with
      | None => (mkXS (xs_stack s) m (xs_stream s), Some XRErrNs)
      | Some (p, u) =>
          match xs_stack s with
          | [] => (mkXS [] m (xs_stream s), Some XRPanic)      (* AddChild(nil, ...) *)
          | _ =>
              match attr_nodes m attrs with
              | None => (mkXS (xs_stack s) m (xs_stream s), Some XRErrNs)
              | Some l =>
                  let stack := mkXF ElementNode loc p u (rev l) :: xs_stack s in
                  (mkXS stack m (match xs_stream s with
                                 | None => Some (length stack)   (* streamCandidateCheck *)
                                 | Some d => Some d
                                 end), None)
              end
          end
      end
  | XTEnd _ _ =>
      (* wrapUpCurAndTargetCheck *)
      match xs_stack s with
      | [] => (s, Some XRPanic)                            (* sp.cur.Parent on nil *)
      | top :: r =>
          let t := xf_tree top in
          let is_stream := match xs_stream s with
                           | Some d => Nat.eqb d (length (xs_stack s))
                           | None => false
                           end in
          match r with
          | p :: r2 =>
              let p' := xf_add p t in
              (mkXS (p' :: r2) (xs_map s) (xs_stream s),
               if is_stream then Some (XRNode t (xf_tree (last (p' :: r2) p'))) else None)
          | [] => (mkXS [] (xs_map s) (xs_stream s), if is_stream then Some (XRNode t t) else None)
          end
      end
  | XTChar txt =>
      match xs_stack s with
      | [] => (s, Some XRPanic)                            (* AddChild(nil, ...) *)
      | top :: r => (mkXS (xf_add top (xtext txt) :: r) (xs_map s) (xs_stream s), None)
      end
  | XTOther => (s, None)
  end.

(* One Read(): parse() loops over tokens until a node is returned or Token()/the reader fails *)
Fixpoint xread (s : xstate) (toks : list xtok) : xres * xstate * list xtok :=
  match toks with
  | [] => (XREof, s, [])
  | t :: r =>
      let '(s', o) := xstep s t in
      match o with
      | Some res => (res, s', r)
      | None => xread s' r
      end
  end.

Definition xbuild (toks : list xtok) : xres := fst (fst (xread xinit toks)).

(* Several readers alive at the same time: all of a reader's state (cursor, namespace table,
   stream candidate) is in its own xstate; a system of two readers fed in any interleaving is the
   pair of their states. *)
Definition xfeed (s : xstate) (toks : list xtok) : xstate :=
  fold_left (fun s t => fst (xstep s t)) toks s.
Definition xstep2 (st : xstate * xstate) (ev : bool * xtok) : xstate * xstate :=
  if fst ev then (fst (xstep (fst st) (snd ev)), snd st)
  else (fst st, fst (xstep (snd st) (snd ev))).

(* ---- the reference DOM ----------------------------------------------------------------------- *)
(* the URI a written prefix denotes in scope [env] (XML namespaces: "xml" is bound by definition;
   the empty prefix of an ELEMENT denotes the default namespace, "" when there is none) *)
Definition scope_uri (env : smap) (pfx : bytes) : bytes :=
  if bytes_eqb pfx b_xml then xml_url
  else match slookup env pfx with Some u => u | None => [] end.

Definition xdom_attr (env : smap) (a : xattr) : tree :=
  let '(p, u) :=
    if bytes_eqb (xa_pfx a) b_xmlns then (b_xmlns, [])        (* xmlns:p="..." as the reader keeps it *)
    else if is_nil (xa_pfx a) then ([], [])                   (* unprefixed attributes: no namespace *)
    else (xa_pfx a, scope_uri env (xa_pfx a)) in
  T AttributeNode (xa_loc a) (FXml p u) [xtext (xa_val a)].

Fixpoint xdom (env : smap) (n : xnode) : list tree :=
  match n with
  | XText s => [xtext s]
  | XSkip => []
  | XElem p l attrs kids =>
      let env' := push_decls env attrs in
      [T ElementNode l (FXml p (scope_uri env' p))
         (map (xdom_attr env') attrs ++
          (fix go (ks : list xnode) : list tree :=
             match ks with [] => [] | k :: r => xdom env' k ++ go r end) kids)]
  end.

(* the document node after the first Read: everything up to and including the first element *)
Fixpoint xdom_items (d : xdoc) : list tree :=
  match d with
  | [] => []
  | (XElem _ _ _ _ as e) :: _ => xdom [] e
  | n :: r => xdom [] n ++ xdom_items r
  end.
Definition xdom_doc (d : xdoc) : tree := T DocumentNode [] (FXml [] []) (xdom_items d).

Fixpoint has_elem (d : xdoc) : bool :=
  match d with
  | [] => false
  | XElem _ _ _ _ :: _ => true
  | _ :: r => has_elem r
  end.

(* ---- guards ---------------------------------------------------------------------------------- *)
(* all namespace declarations (prefix, uri) written anywhere in a node *)
Fixpoint attr_decls (attrs : list xattr) : list (bytes * bytes) :=
  match attrs with
  | [] => []
  | a :: r =>
      if bytes_eqb (xa_pfx a) b_xmlns then (xa_loc a, xa_val a) :: attr_decls r
      else if is_nil (xa_pfx a) && bytes_eqb (xa_loc a) b_xmlns then ([], xa_val a) :: attr_decls r
      else attr_decls r
  end.
Fixpoint all_decls (n : xnode) : list (bytes * bytes) :=
  match n with
  | XElem _ _ attrs kids =>
      attr_decls attrs ++
      (fix go (ks : list xnode) : list (bytes * bytes) :=
         match ks with [] => [] | k :: r => all_decls k ++ go r end) kids
  | _ => []
  end.
Definition doc_decls (d : xdoc) : list (bytes * bytes) :=
  (b_xml, xml_url) :: flat_map all_decls d.

(* uri_single_prefix: no URI is bound to two different prefixes anywhere in the document
   (the built-in binding xml -> xml_url counts; the default namespace is the prefix "") *)
Definition decls_single (ds : list (bytes * bytes)) : bool :=
  forallb (fun d1 => forallb (fun d2 =>
    negb (bytes_eqb (snd d1) (snd d2)) || bytes_eqb (fst d1) (fst d2)) ds) ds.
Definition uri_single_prefix (d : xdoc) : bool := decls_single (doc_decls d).

(* lastwins_ok: the weaker guard.  The reader keeps ONE map URI -> prefix for the whole document
   and every declaration overwrites it (last declaration wins, document order).  lastwins_ok says
   that at every element and prefixed attribute that map holds the prefix WRITTEN at that node
   for the node's URI.  Documents outside it are exactly the known class F11; a document that
   re-binds a URI in an inner scope and uses the new prefix there (and the old one only before)
   is inside, although it is outside uri_single_prefix. *)
Definition lw_use (m env : smap) (p : bytes) : bool :=
  let u := scope_uri env p in
  is_nil u || opt_eqb bytes_eqb (slookup m u) (Some p).
Definition lw_attr (m env : smap) (a : xattr) : bool :=
  if bytes_eqb (xa_pfx a) b_xmlns then true
  else if is_nil (xa_pfx a) then true
  else lw_use m env (xa_pfx a).
(* the reader's map after the declarations of a start tag (see Proofs/XmlScope.v update_ns_eq) *)
Definition lw_declare (m : smap) (attrs : list xattr) : smap :=
  rev (map (fun d => (snd d, fst d)) (attr_decls attrs)) ++ m.
Fixpoint lw_node (env m : smap) (n : xnode) : bool * smap :=
  match n with
  | XElem p l attrs kids =>
      let env' := push_decls env attrs in
      let m' := lw_declare m attrs in
      (fix go (ks : list xnode) (m : smap) (ok : bool) : bool * smap :=
         match ks with
         | [] => (ok, m)
         | k :: r => let '(b, m1) := lw_node env' m k in go r m1 (ok && b)
         end) kids m' (lw_use m' env' p && forallb (lw_attr m' env') attrs)
  | _ => (true, m)
  end.
Definition lw_init : smap := [(xml_url, b_xml)].
Fixpoint lastwins_ok (d : xdoc) : bool :=
  match d with
  | [] => true
  | (XElem _ _ _ _ as e) :: _ => fst (lw_node [] lw_init e)
  | _ :: r => lastwins_ok r
  end.

(* ns_wf: namespace well-formedness of the names used (Namespaces in XML 1.0):
   - a prefixed declaration binds a non-empty URI; no declaration binds the literal URI "xmlns";
     the prefixes "xmlns" and "xml" are not declared (nor the xml namespace URI as a prefix:
     prefixes are NCNames);
   - every prefix used on an element or attribute is "xml" or bound in scope; the prefix "xmlns"
     is used for declarations only; no prefixed attribute and no unprefixed element has the
     local name "xmlns" (encoding/xml and updateNamespaces treat that name specially). *)
Definition decl_ok (a : xattr) : bool :=
  if bytes_eqb (xa_pfx a) b_xmlns then
    negb (is_nil (xa_val a)) && negb (bytes_eqb (xa_val a) b_xmlns)
    && negb (bytes_eqb (xa_loc a) b_xmlns) && negb (bytes_eqb (xa_loc a) b_xml)
    && negb (bytes_eqb (xa_loc a) xml_url) && negb (is_nil (xa_loc a))
  else if is_nil (xa_pfx a) && bytes_eqb (xa_loc a) b_xmlns then
    negb (bytes_eqb (xa_val a) b_xmlns)
  else true.
Definition pfx_bound (env : smap) (p : bytes) : bool :=
  bytes_eqb p b_xml || match slookup env p with Some u => negb (is_nil u) | None => false end.
Definition attr_use_ok (env : smap) (a : xattr) : bool :=
  if bytes_eqb (xa_pfx a) b_xmlns then true
  else if is_nil (xa_pfx a) then true
  else pfx_bound env (xa_pfx a) && negb (bytes_eqb (xa_loc a) b_xmlns).
Fixpoint node_wf (env : smap) (n : xnode) : bool :=
  match n with
  | XElem p l attrs kids =>
      let env' := push_decls env attrs in
      forallb decl_ok attrs && forallb (attr_use_ok env') attrs
      && negb (bytes_eqb p b_xmlns)
      && (if is_nil p then negb (bytes_eqb l b_xmlns) else pfx_bound env' p)
      && (fix go (ks : list xnode) : bool :=
            match ks with [] => true | k :: r => node_wf env' k && go r end) kids
  | _ => true
  end.
Definition ns_wf (d : xdoc) : bool := forallb (node_wf []) d.

(* ---- the token view of a tree (for xml_faithful) ---------------------------------------------- *)
(* what the reader takes from a token: names, attributes in order, character data; the name in
   an EndElement is not used *)
Inductive xev :=
| EvStart (space loc : bytes) (attrs : list (bytes * bytes * bytes))
| EvEnd
| EvChar (s : bytes).

Definition tok_ev (t : xtok) : list xev :=
  match t with
  | XTStart s l a => [EvStart s l a]
  | XTEnd _ _ => [EvEnd]
  | XTChar s => [EvChar s]
  | XTOther => []
  end.
Definition tok_evs (toks : list xtok) : list xev := flat_map tok_ev toks.
Definition xev_eqb (a b : xev) : bool :=
  match a, b with
  | EvStart s l at1, EvStart s' l' at2 => bytes_eqb s s' && bytes_eqb l l' && list_eqb xtok_attr_eqb at1 at2
  | EvEnd, EvEnd => true
  | EvChar s, EvChar s' => bytes_eqb s s'
  | _, _ => false
  end.

(* Name.Space as recoverable from a node: its URI, except for xmlns:p declarations, which the
   reader keeps as prefix "xmlns" / URI "" *)
Definition node_space (fs : fspec) : bytes :=
  match fs with
  | FXml p u => if is_nil u && bytes_eqb p b_xmlns then b_xmlns else u
  | _ => []
  end.

Definition is_attr (t : tree) : bool :=
  match t_type t with AttributeNode => true | _ => false end.

(* leading AttributeNode children = the attributes, in order *)
Fixpoint lead_attrs (kids : list tree) : list (bytes * bytes * bytes) :=
  match kids with
  | (T AttributeNode loc fs vk) :: r =>
      (node_space fs, loc, match vk with [c] => t_data c | _ => [] end) :: lead_attrs r
  | _ => []
  end.

Fixpoint tree_evs (t : tree) : list xev :=
  let 'T ty d fs kids := t in
  match ty with
  | TextNode => [EvChar d]
  | ElementNode =>
      EvStart (node_space fs) d (lead_attrs kids) ::
      (fix go (ks : list tree) (lead : bool) : list xev :=
         match ks with
         | [] => [EvEnd]
         | k :: r => if lead && is_attr k then go r true else tree_evs k ++ go r false
         end) kids true
  | DocumentNode =>
      (fix go (ks : list tree) : list xev :=
         match ks with [] => [] | k :: r => tree_evs k ++ go r end) kids
  | AttributeNode => [EvEnd; EvEnd; EvEnd]   (* an attribute after a non-attribute: never equal *)
  end.

(* ---- correspondence --------------------------------------------------------------------------- *)
Record xcase := mkXCase {
  xc_doc : xdoc;               (* the document as written (prefixes, declarations) *)
  xc_toks : list xtok;         (* xml.Decoder.Token stream of the text, read by the harness *)
  xc_tree : option tree;       (* NewXMLStreamReader(text, ".").Read(): dump of the node's root *)
  xc_elem : option tree;       (* ... and of the returned node itself *)
  xc_iface : jvalue;           (* J2NodeToInterface(returned node, true), keys sorted *)
  xc_guard : bool;             (* the harness believes the document is inside ns_wf /\ lastwins_ok *)
}.

Definition no_ftab (_ : bytes) : N := 0%N.

Definition check_xcase (c : xcase) : bool :=
  list_eqb xtok_eqb (xtokens (xc_doc c)) (xc_toks c)
  && Bool.eqb (xc_guard c) (ns_wf (xc_doc c) && lastwins_ok (xc_doc c))
  && match xread xinit (xc_toks c), xc_tree c, xc_elem c with
     | (XRNode e d, _, rest), Some d', Some e' =>
         tree_eqb d d' && tree_eqb e e'
         && jvalue_eqb (jsort (j2iface no_ftab true e)) (xc_iface c)
         (* the property on the model side: faithful to the tokens consumed; equal to the
            reference DOM inside the guard *)
         && list_eqb xev_eqb (tree_evs d)
              (tok_evs (firstn (length (xc_toks c) - length rest) (xc_toks c)))
         && (negb (xc_guard c) || tree_eqb d (xdom_doc (xc_doc c)))
     | (XRNode _ _, _, _), _, _ => false
     | _, None, None => true
     | _, _, _ => false
     end.

Inductive c08case := CJson (c : jcase) | CXml (c : xcase).
Definition check_case (c : c08case) : bool :=
  match c with CJson c => check_jcase c | CXml c => check_xcase c end.
