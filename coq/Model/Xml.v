From Coq Require Import List NArith Bool.
Import ListNotations.
From OV Require Import Base.Bytes Base.Cases Base.Tree Model.Json.
Inductive c08case := CJson (c : jcase).
Definition check_case (c : c08case) : bool := match c with CJson c => check_jcase c end.
