(* C06 model, fixed-length part.
   - go-corelib ios.ByteReadLine over bufio.Reader.ReadLine with its 4096-byte buffer: the text up
     to the next LF, without the LF and without a CR directly before it, joined over buffer-full
     fragments; an unterminated last line that ends exactly at a fragment boundary is lost
     (ByteReadLine returns (nil, io.EOF)): transcribed as is.  Modelled as a function of the
     unread input (independence of the source's chunking is C09's subject).
   - ColumnDecl.lineToColumnValue of both fixed-length packages (the two loops over
     utf8.DecodeRune, Base/Utf8.v).
   - fileformat/fixedlength/reader.go (old reader: by_rows and by_header_footer envelopes).
   - fileformat/flatfile/fixedlength/{reader,decl}.go (fixedlength2): the line buffer whose
     entries either own a copy or reference the bufio buffer.  A reference carries the buffer
     generation it was handed out in; every ByteReadLine starts a new generation (the documented
     contract of ByteReadLine, stronger than bufio's actual layout); reading a reference of an
     older generation is the outcome OPoison.
   Executable definitions only. *)
From Coq Require Import List NArith Bool Arith.
From Coq.Strings Require Import Byte.
Import ListNotations.
From OV Require Import Base.Bytes Base.Utf8 Base.Cases Base.Tree Model.Csv.

(* bufio.Reader.ReadLine over the unread text T with a buffer of BUFSZ bytes (bufio's default; the
   fixed-length readers' bufio.NewReader returns the 4096-byte reader ios.StripBOM created).  The
   source is assumed never to return data together with io.EOF (bytes/strings.Reader, files).
   RLine: a line end (more = false); RFrag: the buffer filled up without LF (more = true) - a CR
   at the end of the fragment is put back; REof: io.EOF. *)
Definition BUFSZ : nat := 4096.
Inductive rl := RLine (l rest : bytes) | RFrag (l rest : bytes) | REof.

Definition buf_readline (T : bytes) : rl :=
  match T with
  | [] => REof
  | _ =>
      let w := firstn BUFSZ T in
      let '(x, y) := split_lf w in
      match y with
      | Some _ => RLine (strip_last CR x) (skipn (S (length x)) T)
      | None =>
          if length w <? BUFSZ then RLine w []
          else if Nat.eqb (length (strip_last CR w)) (length w) then RFrag w (skipn BUFSZ T)
          else RFrag (strip_last CR w) (skipn (BUFSZ - 1) T)
      end
  end.

(* ios.ByteReadLine: ReadLine until more = false, joining the fragments; an error from any
   ReadLine call - also io.EOF after a fragment - returns (nil, err) and drops the fragments. *)
Inductive rlres := RLOk (line rest : bytes) | RLEof | RLFuel.

Fixpoint byte_read_line (fuel : nat) (acc : bytes) (T : bytes) : rlres :=
  match fuel with
  | O => RLFuel
  | S k => match buf_readline T with
           | REof => RLEof
           | RLine l rest => RLOk (acc ++ l) rest
           | RFrag l rest => byte_read_line k (acc ++ l) rest
           end
  end.

Definition read_line (s : bytes) : rlres := byte_read_line (S (length s)) [] s.

(* what a line reader without a buffer limit returns *)
Definition ideal_read_line (s : bytes) : rlres :=
  match s with
  | [] => RLEof
  | _ => let '(x, y) := split_lf s in
         match y with
         | Some r => RLOk (strip_last CR x) r
         | None => RLOk x []
         end
  end.

(* ---- lineToColumnValue ------------------------------------------------------------------------ *)
(* for start > 0 && len(line) > 0 { _, adv := DecodeRune(line); line = line[adv:]; start-- } *)
Fixpoint skip_runes (start : nat) (line : bytes) : bytes :=
  match start with
  | O => line
  | S k => match line with
           | [] => []
           | _ => skip_runes k (skipn (snd (decode_rune line)) line)
           end
  end.

(* for lenCount > 0 && i < len(line) { _, adv := DecodeRune(line[i:]); i += adv; lenCount-- } *)
Fixpoint runes_end (len_count : nat) (i : nat) (line : bytes) : nat :=
  match len_count with
  | O => i
  | S k => if i <? length line
           then runes_end k (i + snd (decode_rune (skipn i line))) line
           else i
  end.

Definition rune_slice (start_pos len : nat) (line : bytes) : bytes :=
  let l := skip_runes (start_pos - 1) line in
  firstn (runes_end len 0 l) l.

Record fcol := mkFCol {
  f_name : bytes;
  f_start : nat;
  f_len : nat;
  f_line_index : option nat;     (* fixedlength2 only *)
  f_line_pat : option pat
}.

(* ---- old fixed-length reader ------------------------------------------------------------------ *)
Record env1 := mkEnv1 {
  e_name : bytes;
  e_hf : option (pat * pat);     (* by_header_footer *)
  e_rows : nat;                  (* byRows(): by_rows or 1 *)
  e_not_target : bool;
  e_cols : list fcol
}.

Record fst1 := mkF1 { g_in : bytes; g_env : nat (* envelopeIndex *) }.

Section Fixed1.
  Variable re_match : pat -> bytes -> bool.

  (* reader.readLine: skips empty lines.  None: out of fuel; Some (None, _) : io.EOF *)
  Fixpoint f1_readline (fuel : nat) (inp : bytes) : option (option bytes * bytes) :=
    match fuel with
    | O => None
    | S k => match read_line inp with
             | RLFuel => None
             | RLEof => Some (None, inp)
             | RLOk l rest => match l with
                              | [] => f1_readline k rest
                              | _ => Some (Some l, rest)
                              end
             end
    end.

  Definition col_match1 (c : fcol) (line : bytes) : bool :=
    match f_line_pat c with None => true | Some p => re_match p line end.

  (* the `for col := range envelopeDecl.Columns` loop applied to one line: the nodes added (in
     order) and the new columnsDone flags *)
  Fixpoint apply_line (cols : list (fcol * bool)) (line : bytes) : list tree * list (fcol * bool) :=
    match cols with
    | [] => ([], [])
    | (c, done) :: r =>
        let '(ts, r') := apply_line r line in
        if done then (ts, (c, true) :: r')
        else if col_match1 c line
             then (text_elem (f_name c) (rune_slice (f_start c) (f_len c) line) :: ts, (c, true) :: r')
             else (ts, (c, false) :: r')
    end.

  (* readByRowsEnvelope: i counts the rows already read *)
  Fixpoint rows_loop1 (rows_left : nat) (first : bool) (cols : list (fcol * bool))
           (kids : list tree) (inp : bytes) : res (list tree) * bytes :=
    match rows_left with
    | O => (Ok kids, inp)
    | S k =>
        match f1_readline (S (length inp)) inp with
        | None => (Err OFuel, inp)
        | Some (None, rest) => (Err (if first then OEOF else OFatal), rest)
        | Some (Some line, rest) =>
            let '(ts, cols') := apply_line cols line in
            rows_loop1 k false cols' (kids ++ ts) rest
        end
    end.

  (* the header search `for ; r.envelopeIndex < len(...); r.envelopeIndex++` *)
  Fixpoint find_env (fuel : nat) (envs : list env1) (i : nat) (line : bytes) : nat :=
    match fuel with
    | O => i
    | S k => match nth_error envs i with
             | None => i
             | Some e => match e_hf e with
                         | Some (h, _) => if re_match h line then i else find_env k envs (S i) line
                         | None => i   (* ByHeaderFooter nil: nil dereference *)
                         end
             end
    end.

  (* the footer loop of readByHeaderFooterEnvelope *)
  Fixpoint hf_loop1 (fuel : nat) (footer : pat) (cols : list (fcol * bool)) (kids : list tree)
           (line : bytes) (inp : bytes) : res (list tree) * bytes :=
    match fuel with
    | O => (Err OFuel, inp)
    | S k =>
        let '(ts, cols') := apply_line cols line in
        let kids' := kids ++ ts in
        if re_match footer line then (Ok kids', inp)
        else match f1_readline (S (length inp)) inp with
             | None => (Err OFuel, inp)
             | Some (None, rest) => (Err OFatal, rest)
             | Some (Some l2, rest) => hf_loop1 k footer cols' kids' l2 rest
             end
    end.

  Definition undone (cs : list fcol) : list (fcol * bool) := map (fun c => (c, false)) cs.

  (* reader.Read (no FINAL_OUTPUT xpath) *)
  Fixpoint f1_read (fuel : nat) (envs : list env1) (s : fst1) : outcome * fst1 :=
    match fuel with
    | O => (OFuel, s)
    | S k =>
        match envs with
        | [] => (OPanic 10, s)             (* Envelopes[0] *)
        | e0 :: _ =>
            match e_hf e0 with
            | None =>
                (* by rows: always Envelopes[r.envelopeIndex], and the index never moves *)
                match nth_error envs (g_env s) with
                | None => (OPanic 11, s)
                | Some e =>
                    let '(r, rest) := rows_loop1 (e_rows e) true (undone (e_cols e)) [] (g_in s) in
                    match r with
                    | Err o => (o, mkF1 rest (g_env s))
                    | Ok kids => (ONode (T ElementNode (e_name e) FNone kids), mkF1 rest (g_env s))
                    end
                end
            | Some _ =>
                match f1_readline (S (length (g_in s))) (g_in s) with
                | None => (OFuel, s)
                | Some (None, rest) => (OEOF, mkF1 rest (g_env s))
                | Some (Some line, rest) =>
                    let i := find_env (S (length envs)) envs (g_env s) line in
                    match nth_error envs i with
                    | None => (OEOF, mkF1 rest i)
                    | Some e =>
                        match e_hf e with
                        | None => (OPanic 12, mkF1 rest i)
                        | Some (_, footer) =>
                            let '(r, rest2) :=
                              hf_loop1 (S (length rest)) footer (undone (e_cols e)) [] line rest in
                            match r with
                            | Err o => (o, mkF1 rest2 i)
                            | Ok kids =>
                                if e_not_target e then f1_read k envs (mkF1 rest2 i)
                                else (ONode (T ElementNode (e_name e) FNone kids), mkF1 rest2 i)
                            end
                        end
                    end
                end
            end
        end
    end.
End Fixed1.

(* ---- fixedlength2 ----------------------------------------------------------------------------- *)
Inductive lref := Ref (gen : nat) (b : bytes) | Own (b : bytes).
Record fline := mkFL { fl_b : lref; fl_copied : bool }.
Record fst2 := mkF2 { h_in : bytes; h_gen : nat; h_lines : list fline }.

Definition deref (gen : nat) (r : lref) : option bytes :=
  match r with
  | Own b => Some b
  | Ref g b => if Nat.eqb g gen then Some b else None
  end.

Record env2 := mkEnv2 {
  v_name : bytes;
  v_shape : shape;
  v_target : bool;
  v_min : nat;
  v_max : option nat;
  v_cols : list fcol
}.

Fixpoint upd_last {A} (x : A) (l : list A) : list A :=
  match l with
  | [] => []
  | y :: r => match r with [] => [x] | _ => y :: upd_last x r end
  end.

Section Fixed2.
  Variable re_match : pat -> bytes -> bool.

  (* the ByteReadLine loop of reader.readLine; each call starts a new buffer generation *)
  Fixpoint f2_fetch (fuel : nat) (inp : bytes) (gen : nat) : option (option bytes * bytes * nat) :=
    match fuel with
    | O => None
    | S k => match read_line inp with
             | RLFuel => None
             | RLEof => Some (None, inp, S gen)
             | RLOk l rest => match l with
                              | [] => f2_fetch k rest (S gen)
                              | _ => Some (Some l, rest, S gen)
                              end
             end
    end.

  (* reader.readLine: Ok true = a line was appended, Ok false = io.EOF *)
  Definition f2_readline (s : fst2) : res bool * fst2 :=
    let fixed :=
      match last (map Some (h_lines s)) None with
      | Some l =>
          if fl_copied l then Ok (h_lines s)
          else match deref (h_gen s) (fl_b l) with
               | Some b => Ok (upd_last (mkFL (Own b) true) (h_lines s))
               | None => Err OPoison
               end
      | None => Ok (h_lines s)
      end in
    match fixed with
    | Err o => (Err o, s)
    | Ok lines =>
        match f2_fetch (S (length (h_in s))) (h_in s) (h_gen s) with
        | None => (Err OFuel, mkF2 (h_in s) (h_gen s) lines)
        | Some (None, rest, g) => (Ok false, mkF2 rest g lines)
        | Some (Some b, rest, g) => (Ok true, mkF2 rest g (lines ++ [mkFL (Ref g b) false]))
        end
    end.

  (* r.linesBuf[i].b *)
  Definition line_at (s : fst2) (i : nat) : res bytes :=
    match nth_error (h_lines s) i with
    | None => Err (OPanic 20)
    | Some l => match deref (h_gen s) (fl_b l) with
                | Some b => Ok b
                | None => Err OPoison
                end
    end.

  (* ColumnDecl.lineMatch *)
  Definition line_matchF (c : fcol) (i : nat) (line : bytes) : bool :=
    match f_line_index c with
    | Some li => Nat.eqb li (S i)
    | None => match f_line_pat c with
              | Some p => re_match p line
              | None => true
              end
    end.

  Fixpoint col_nodeF (c : fcol) (n i : nat) (s : fst2) : res (option tree) :=
    match n with
    | O => Ok None
    | S n' =>
        match line_at s i with
        | Err o => Err o
        | Ok line =>
            if line_matchF c i line
            then Ok (Some (text_elem (f_name c) (rune_slice (f_start c) (f_len c) line)))
            else col_nodeF c n' (S i) s
        end
    end.

  Fixpoint cols_nodesF (cs : list fcol) (n : nat) (s : fst2) : res (list tree) :=
    match cs with
    | [] => Ok []
    | c :: r =>
        match col_nodeF c n 0 s with
        | Err o => Err o
        | Ok x => match cols_nodesF r n s with
                  | Err o => Err o
                  | Ok xs => Ok (match x with Some t => t :: xs | None => xs end)
                  end
        end
    end.

  Definition lines_to_nodeF (d : env2) (n : nat) (s : fst2) : res tree :=
    if length (h_lines s) <? n then Err (OPanic 21)
    else match cols_nodesF (v_cols d) n s with
         | Ok ks => Ok (T ElementNode (v_name d) FNone ks)
         | Err o => Err o
         end.

  Definition pop_frontF (n : nat) (s : fst2) : res unit * fst2 :=
    if length (h_lines s) <? n then (Err (OPanic 22), s)
    else (Ok tt, mkF2 (h_in s) (h_gen s) (skipn n (h_lines s))).

  Definition take_recordF (d : env2) (n : nat) (create : bool) (s : fst2)
    : res (bool * option tree) * fst2 :=
    if create then
      match lines_to_nodeF d n s with
      | Err o => (Err o, s)
      | Ok t =>
          let '(p, s2) := pop_frontF n s in
          match p with
          | Err o => (Err o, s2)
          | Ok _ => (Ok (true, Some t), s2)
          end
      end
    else (Ok (true, None), s).

  Fixpoint fill_rowsF (fuel : nat) (rows : nat) (s : fst2) : res bool * fst2 :=
    match fuel with
    | O => (Err OFuel, s)
    | S k =>
        if length (h_lines s) <? rows then
          let '(r, s1) := f2_readline s in
          match r with
          | Err o => (Err o, s1)
          | Ok false => if Nat.eqb (length (h_lines s1)) 0 then (Err OEOF, s1) else (Ok false, s1)
          | Ok true => fill_rowsF k rows s1
          end
        else (Ok true, s)
    end.

  Fixpoint footer_loopF (fuel : nat) (d : env2) (footer : option pat) (create : bool) (i : nat)
           (s : fst2) : res (bool * option tree) * fst2 :=
    match fuel with
    | O => (Err OFuel, s)
    | S k =>
        let m := match footer with
                 | None => Ok true
                 | Some p => match line_at s i with
                             | Ok line => Ok (re_match p line)
                             | Err o => Err o
                             end
                 end in
        match m with
        | Err o => (Err o, s)
        | Ok true => take_recordF d (S i) create s
        | Ok false =>
            if length (h_lines s) - 1 <=? i then
              let '(r, s2) := f2_readline s in
              match r with
              | Err o => (Err o, s2)
              | Ok false => (Ok (false, None), s2)
              | Ok true => footer_loopF k d footer create (S i) s2
              end
            else footer_loopF k d footer create (S i) s
        end
    end.

  Definition f2_fuel (s : fst2) : nat := length (h_in s) + length (h_lines s) + 2.

  Definition read_and_matchF (d : env2) (create : bool) (s : fst2)
    : res (bool * option tree) * fst2 :=
    match v_shape d with
    | Rows rows =>
        let '(f, s1) := fill_rowsF (S (rows + f2_fuel s)) rows s in
        match f with
        | Err o => (Err o, s1)
        | Ok false => (Ok (false, None), s1)
        | Ok true => take_recordF d rows create s1
        end
    | HeaderFooter header footer =>
        let '(r0, s0) :=
          if Nat.eqb (length (h_lines s)) 0 then f2_readline s else (Ok true, s) in
        match r0 with
        | Err o => (Err o, s0)
        | Ok false => (Err OEOF, s0)
        | Ok true =>
            match line_at s0 0 with
            | Err o => (Err o, s0)
            | Ok line =>
                if re_match header line then footer_loopF (f2_fuel s0) d footer create 0 s0
                else (Ok (false, None), s0)
            end
        end
    end.

  Definition moreF (s : fst2) : res bool * fst2 :=
    if negb (Nat.eqb (length (h_lines s)) 0) then (Ok true, s)
    else
      let '(r, s1) := f2_readline s in
      match r with
      | Err o => (Err o, s1)
      | Ok _ => (Ok (negb (Nat.eqb (length (h_lines s1)) 0)), s1)
      end.
End Fixed2.

Definition f2_init (input : bytes) : fst2 := mkF2 input 0 [].
