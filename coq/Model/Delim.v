(* C06 model, common part: the flat (no groups, no children) instance of
   flatfile/hierarchyReader.go that drives the csv2 / fixedlength2 record readers in the
   correspondence runs, strings.TrimSpace for the header check, the correspondence case type
   and check_case.  Executable definitions only. *)
From Coq Require Import List NArith Bool Arith.
From Coq.Strings Require Import Byte.
Import ListNotations.
From OV Require Import Base.Bytes Base.Utf8 Base.Cases Base.Tree Model.Csv Model.Fixed.

(* ---- strings.TrimSpace ------------------------------------------------------------------------ *)
Definition is_space (r : rune) : bool :=
  (((9 <=? r) && (r <=? 13)) || (r =? 32) || (r =? 133) || (r =? 160) || (r =? 5760)
   || ((8192 <=? r) && (r <=? 8202)) || (r =? 8232) || (r =? 8233) || (r =? 8239)
   || (r =? 8287) || (r =? 12288))%N.

(* the byte chunks DecodeRune cuts a string into *)
Fixpoint chunks_fuel (fuel : nat) (s : bytes) : list bytes :=
  match fuel with
  | O => []
  | S k => match s with
           | [] => []
           | _ => let n := snd (decode_rune s) in firstn n s :: chunks_fuel k (skipn n s)
           end
  end.
Definition chunks (s : bytes) : list bytes := chunks_fuel (length s) s.

Definition space_chunk (c : bytes) : bool :=
  let '(r, n) := decode_rune c in is_space r && negb ((r =? RuneError)%N && Nat.eqb n 1).

Fixpoint drop_while {A} (f : A -> bool) (l : list A) : list A :=
  match l with
  | [] => []
  | x :: r => if f x then drop_while f r else l
  end.

(* exact for valid UTF-8; on invalid trailing bytes Go decodes backwards (DecodeLastRune) *)
Definition trim_space (s : bytes) : bytes :=
  concat (rev (drop_while space_chunk (rev (drop_while space_chunk (chunks s))))).

(* ---- flatfile.HierarchyReader for a flat list of non-group declarations ------------------------ *)
Section Flat.
  Variable St D : Type.
  Variable more : St -> res bool * St.                               (* MoreUnprocessedData *)
  Variable ram : D -> bool -> St -> res (bool * option tree) * St.   (* ReadAndMatch *)
  Variable d_target : D -> bool.
  Variable d_min : D -> nat.
  Variable d_max : D -> option nat.
  Variable ds : list D.

  (* stack = [root] or [root; entry for ds[i] with `occurred`] *)
  Record hst := mkH { h_cur : option (nat * nat); h_s : St }.

  Definition h_init (s : St) : hst :=
    mkH (match ds with [] => None | _ => Some (0, 0) end) s.

  (* recNext once the entry's min is met: next sibling, or the root is done *)
  Definition advance (i : nat) : option (nat * nat) :=
    if i <? length ds - 1 then Some (S i, 0) else None.

  Definition below_max (occ : nat) (m : option nat) : bool :=
    match m with None => true | Some m => occ <? m end.

  Fixpoint h_read (fuel : nat) (st : hst) : outcome * hst :=
    match fuel with
    | O => (OFuel, st)
    | S k =>
        let '(m, s1) := more (h_s st) in
        match m with
        | Err o => (o, mkH (h_cur st) s1)
        | Ok false =>
            match h_cur st with
            | None => (OEOF, mkH None s1)
            | Some (i, occ) =>
                match nth_error ds i with
                | None => (OPanic 30, mkH (h_cur st) s1)
                | Some d => if occ <? d_min d then (OFatal, mkH (h_cur st) s1)   (* ErrFewerThanMinOccurs *)
                            else h_read k (mkH (advance i) s1)
                end
            end
        | Ok true =>
            match h_cur st with
            | None => (OFatal, mkH None s1)                                      (* ErrUnexpectedData *)
            | Some (i, occ) =>
                match nth_error ds i with
                | None => (OPanic 31, mkH (h_cur st) s1)
                | Some d =>
                    let '(r, s2) := ram d true s1 in
                    match r with
                    | Err o => (o, mkH (h_cur st) s2)
                    | Ok (true, Some t) =>
                        (* recDone *)
                        let occ' := S occ in
                        let cur' := if below_max occ' (d_max d) then Some (i, occ')
                                    else if occ' <? d_min d then Some (i, occ')
                                    else advance i in
                        if d_target d then (ONode t, mkH cur' s2)
                        else h_read k (mkH cur' s2)
                    | Ok _ =>
                        (* not matched: recNext *)
                        if occ <? d_min d then (OFatal, mkH (h_cur st) s2)
                        else h_read k (mkH (advance i) s2)
                    end
                end
            end
        end
    end.
End Flat.
Arguments mkH {St}. Arguments h_cur {St}. Arguments h_s {St}.

(* ---- running a reader until the observed number of Reads ---------------------------------------- *)
Definition terminal (o : outcome) : bool :=
  match o with ONode _ | OCont => false | _ => true end.

Section Run.
  Variable St : Type.
  Variable step : St -> outcome * St.
  (* The transform stops calling the reader after a terminal result (C01). *)
  Fixpoint run_reads (n : nat) (s : St) : list outcome :=
    match n with
    | O => []
    | S k => let '(o, s') := step s in
             if terminal o then [o] else o :: run_reads k s'
    end.
End Run.

Definition outcome_eqb (a b : outcome) : bool :=
  match a, b with
  | ONode x, ONode y => tree_eqb x y
  | OEOF, OEOF | OFatal, OFatal | OCont, OCont | OPoison, OPoison | OFuel, OFuel => true
  | OPanic _, OPanic _ => true
  | _, _ => false
  end.

(* ---- the four readers as step functions ---------------------------------------------------------- *)
Definition csv2_read (delim : rune) (ds : list rec2) (s : hst st2) : outcome * hst st2 :=
  h_read st2 rec2 (more2 delim) (read_and_match2 pat_match delim (encode_rune delim))
         q_target q_min q_max ds
         (length (c_in (s_c (h_s s))) + length (s_lines (h_s s)) + length ds + 4) s.

Definition fixed2_read (ds : list env2) (s : hst fst2) : outcome * hst fst2 :=
  h_read fst2 env2 moreF (read_and_matchF pat_match) v_target v_min v_max ds
         (length (h_in (h_s s)) + length (h_lines (h_s s)) + length ds + 4) s.

Definition fixed1_read (envs : list env1) (s : fst1) : outcome * fst1 :=
  f1_read pat_match (S (length (g_in s))) envs s.

(* ---- correspondence cases ----------------------------------------------------------------------- *)
(* Each case carries the configuration, the input bytes and the outcome of every Read the
   implementation made (up to and including the first terminal one). *)
Inductive c06case :=
| CaseCsv (d : csvdecl) (input : bytes) (outs : list outcome)
| CaseCsv2 (delim : rune) (replace : bool) (ds : list rec2) (input : bytes) (outs : list outcome)
| CaseFixed1 (envs : list env1) (input : bytes) (outs : list outcome)
| CaseFixed2 (ds : list env2) (input : bytes) (outs : list outcome)
(* the harness' encoder against csv_encode, and the reader model against the logical table *)
| CaseEnc (delim : rune) (t : list erow) (trailing : list bool) (encoded : bytes).

Definition cres_eqb (a b : cres) : bool :=
  match a, b with
  | CRec x, CRec y => list_eqb bytes_eqb x y
  | CParseErr, CParseErr | CEOF, CEOF | CBadDelim, CBadDelim | CFuel, CFuel => true
  | _, _ => false
  end.

Definition check_case (c : c06case) : bool :=
  match c with
  | CaseCsv d input outs =>
      list_eqb outcome_eqb (run_reads ost (old_read trim_space d) (length outs) (old_init d input)) outs
  | CaseCsv2 delim replace ds input outs =>
      list_eqb outcome_eqb
        (run_reads (hst st2) (csv2_read delim ds) (length outs)
                   (h_init st2 rec2 ds (csv2_init replace input))) outs
  | CaseFixed1 envs input outs =>
      list_eqb outcome_eqb (run_reads fst1 (fixed1_read envs) (length outs) (mkF1 input 0)) outs
  | CaseFixed2 ds input outs =>
      list_eqb outcome_eqb
        (run_reads (hst fst2) (fixed2_read ds) (length outs) (h_init fst2 env2 ds (f2_init input))) outs
  | CaseEnc delim t trailing encoded =>
      bytes_eqb (csv_encode delim t trailing) encoded
      && list_eqb cres_eqb (csv_read delim encoded)
                  (map (fun r => CRec (map (fun qf => crlf2lf (snd qf)) (r_fields r))) t)
  end.
