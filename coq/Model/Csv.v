(* C06 model, delimited part.
   - encoding/csv.Reader as omniparser configures it (Comma = the schema's delimiter rune,
     FieldsPerRecord = -1, ReuseRecord = true, LazyQuotes = false, TrimLeadingSpace = false,
     Comment = 0), transcribed from $GOROOT/src/encoding/csv/reader.go (readLine, readRecord).
     Stdlib: modelled, not verified (DESIGN section 4); `nextRune(line) == r.Comma` and
     `bytes.IndexRune(line, r.Comma)` are modelled as prefix / substring tests against the
     UTF-8 encoding of Comma (equal for every delimiter that validDelim accepts).
   - the generator's encoder csv_encode.
   - extensions/omniv21/fileformat/csv/reader.go (old csv: checkHeader, jumpTo, recordToNode).
   - extensions/omniv21/fileformat/flatfile/csv/{reader,decl}.go (csv2: readLine, linesBuf,
     records, popFrontLinesBuf, lineMatch, lineToColumnValue, matchLine with its raw cache,
     rows based and header/footer based ReadAndMatch).
   Executable definitions only. *)
From Coq Require Import List NArith Bool Arith.
From Coq.Strings Require Import Byte.
Import ListNotations.
From Coq Require Import ZArith.
From OV Require Import Base.Bytes Base.Utf8 Base.Cases Base.Tree Gen.CsvCfg.

Definition QUOTE : byte := x22.
Definition APOS : byte := x27.
Definition CR : byte := x0d.
Definition LF : byte := x0a.

(* ---- byte-string helpers (bytes.HasPrefix / Index / IndexByte) ------------------------------ *)
Fixpoint is_prefix (p s : bytes) : bool :=
  match p, s with
  | [], _ => true
  | a :: p', b :: s' => Byte.eqb a b && is_prefix p' s'
  | _ :: _, [] => false
  end.

Fixpoint index_sub (p s : bytes) : option nat :=
  match s with
  | [] => if is_prefix p [] then Some 0 else None
  | _ :: r => if is_prefix p s then Some 0 else option_map S (index_sub p r)
  end.

Fixpoint index_byte (c : byte) (s : bytes) : option nat :=
  match s with
  | [] => None
  | b :: r => if Byte.eqb b c then Some 0 else option_map S (index_byte c r)
  end.

Definition mem_byte (c : byte) (s : bytes) : bool := existsb (Byte.eqb c) s.
Definition contains_sub (p s : bytes) : bool :=
  match index_sub p s with Some _ => true | None => false end.

(* the part before the first LF, and what follows it (None: no LF) *)
Fixpoint split_lf (s : bytes) : bytes * option bytes :=
  match s with
  | [] => ([], None)
  | b :: r => if Byte.eqb b LF then ([], Some r)
              else let '(x, y) := split_lf r in (b :: x, y)
  end.

(* drop one trailing byte c *)
Fixpoint strip_last (c : byte) (s : bytes) : bytes :=
  match s with
  | [] => []
  | b :: r => match r with
              | [] => if Byte.eqb b c then [] else [b]
              | _ => b :: strip_last c r
              end
  end.

Fixpoint join (sep : bytes) (l : list bytes) : bytes :=
  match l with
  | [] => []
  | x :: r => match r with [] => x | _ => x ++ sep ++ join sep r end
  end.

(* ---- encoding/csv ---------------------------------------------------------------------------- *)
(* validDelim *)
Definition valid_delim (r : rune) : bool :=
  negb (N.eqb r 0) && negb (N.eqb r 34) && negb (N.eqb r 13) && negb (N.eqb r 10)
  && valid_rune r && negb (N.eqb r RuneError).

(* Reader state: the unread input and numLine. *)
Record cst := mkC { c_in : bytes; c_line : nat }.

(* Reader.readLine: the line with its LF; CRLF at the end becomes LF; a last line without LF
   loses one trailing CR; numLine is incremented on every call (also at EOF).  The bool is
   err == io.EOF (only when nothing was read). *)
Definition csv_readline (st : cst) : bytes * bool * cst :=
  let '(x, y) := split_lf (c_in st) in
  let n := S (c_line st) in
  match y with
  | Some r => (strip_last CR x ++ [LF], false, mkC r n)
  | None => match x with
            | [] => ([], true, mkC [] n)
            | _ => (strip_last CR x, false, mkC [] n)
            end
  end.

Inductive pres := PDone (fields : list bytes) (st : cst) | PErr (st : cst) | PFuel.

Section CsvParse.
  Variable enc : bytes.   (* UTF-8 of Comma; commaLen = length enc *)

  (* the "Quoted string field" loop of readRecord; [k] is `continue parseField` *)
  Fixpoint parse_quoted (fuel : nat) (k : bytes -> cst -> list bytes -> pres)
           (line : bytes) (st : cst) (acc : list bytes) (cur : bytes) : pres :=
    match fuel with
    | O => PFuel
    | S fuel' =>
        match index_byte QUOTE line with
        | Some i =>
            let cur1 := cur ++ firstn i line in
            let line1 := skipn (S i) line in
            match line1 with
            | b :: line2 =>
                if Byte.eqb b QUOTE then parse_quoted fuel' k line2 st acc (cur1 ++ [QUOTE])
                else if is_prefix enc line1 then k (skipn (length enc) line1) st (cur1 :: acc)
                else match line2 with
                     | [] => if Byte.eqb b LF then PDone (rev (cur1 :: acc)) st else PErr st
                     | _ => PErr st           (* ErrQuote *)
                     end
            | [] => PDone (rev (cur1 :: acc)) st   (* lengthNL(line) == len(line) == 0 *)
            end
        | None =>
            match line with
            | _ :: _ =>
                let '(l2, _, st2) := csv_readline st in
                parse_quoted fuel' k l2 st2 acc (cur ++ line)
            | [] => PErr st                   (* abrupt end of file: ErrQuote *)
            end
        end
    end.

  (* the parseField loop *)
  Fixpoint parse_fields (fuel : nat) (line : bytes) (st : cst) (acc : list bytes) : pres :=
    match fuel with
    | O => PFuel
    | S fuel' =>
        let unquoted :=
          match index_sub enc line with
          | Some i =>
              let field := firstn i line in
              if mem_byte QUOTE field then PErr st    (* ErrBareQuote *)
              else parse_fields fuel' (skipn (i + length enc) line) st (field :: acc)
          | None =>
              let field := strip_last LF line in
              if mem_byte QUOTE field then PErr st
              else PDone (rev (field :: acc)) st
          end in
        match line with
        | b :: line1 =>
            if Byte.eqb b QUOTE then parse_quoted fuel' (parse_fields fuel') line1 st acc []
            else unquoted
        | [] => unquoted
        end
    end.
End CsvParse.

Definition is_blank (l : bytes) : bool :=
  match l with [] => true | [b] => Byte.eqb b LF | _ => false end.

(* the loop skipping empty lines: None = out of fuel; Some (None, st) = io.EOF *)
Fixpoint next_line (fuel : nat) (st : cst) : option (option bytes * cst) :=
  match fuel with
  | O => None
  | S k =>
      let '(l, eof, st1) := csv_readline st in
      if eof then Some (None, st1)
      else if is_blank l then next_line k st1
      else Some (Some l, st1)
  end.

Inductive cres := CRec (fields : list bytes) | CParseErr | CEOF | CBadDelim | CFuel.

Definition csv_fuel (st : cst) : nat := 2 * length (c_in st) + 8.

(* Reader.Read, for the one configuration transcribed above *)
Definition csv_next_strict (comma : rune) (st : cst) : cres * cst :=
  if negb (valid_delim comma) then (CBadDelim, st)
  else
    match next_line (csv_fuel st) st with
    | None => (CFuel, st)
    | Some (None, st1) => (CEOF, st1)
    | Some (Some l, st1) =>
        match parse_fields (encode_rune comma) (csv_fuel st) l st1 [] with
        | PDone fs st2 => (CRec fs, st2)
        | PErr st2 => (CParseErr, st2)
        | PFuel => (CFuel, st1)
        end
    end.

(* The configuration the transcription is for: Comma = first rune of the declared delimiter,
   FieldsPerRecord < 0, no LazyQuotes, no TrimLeadingSpace, no Comment; replace_double_quotes turns
   the byte 0x22 into 0x27.  Gen/CsvCfg.v is regenerated from the two NewReader functions on every
   run: if either reader is configured differently the model refuses to run (CFuel) and every
   theorem about csv_next stops checking. *)
Definition cfg_supported (c : csv_cfg) : bool :=
  cfg_comma_first_rune c && (cfg_fields_per_record c <? 0)%Z && negb (cfg_lazy_quotes c)
  && negb (cfg_trim_leading_space c) && N.eqb (cfg_comment c) 0
  && list_eqb N.eqb (cfg_replace_search c) [34%N] && list_eqb N.eqb (cfg_replace_with c) [39%N].

(* Reader.Read as both csv readers configure it *)
Definition csv_next (comma : rune) (st : cst) : cres * cst :=
  if cfg_supported old_csv_cfg && cfg_supported csv2_cfg then csv_next_strict comma st
  else (CFuel, st).

Fixpoint csv_read_all (fuel : nat) (comma : rune) (st : cst) : list cres :=
  match fuel with
  | O => [CFuel]
  | S k =>
      let '(r, st') := csv_next comma st in
      match r with
      | CEOF => []
      | CFuel => [CFuel]
      | CBadDelim => [CBadDelim]
      | _ => r :: csv_read_all k comma st'
      end
  end.

(* every record (or per-record parse error) of an input, in order *)
Definition csv_read (comma : rune) (input : bytes) : list cres :=
  csv_read_all (S (length input)) comma (mkC input 0).

(* ---- the generator's encoder ------------------------------------------------------------------ *)
Definition needs_quote (enc f : bytes) : bool :=
  contains_sub enc f || mem_byte QUOTE f || mem_byte CR f || mem_byte LF f.

Definition esc_quotes (f : bytes) : bytes :=
  flat_map (fun b => if Byte.eqb b QUOTE then [QUOTE; QUOTE] else [b]) f.

(* a field with the generator's choice "write it quoted" *)
Definition enc_field (qf : bool * bytes) : bytes :=
  if fst qf then QUOTE :: esc_quotes (snd qf) ++ [QUOTE] else snd qf.

Definition eol (crlf : bool) : bytes := if crlf then [CR; LF] else [LF].

(* a row: empty lines written before it (each LF or CRLF), its fields, its line terminator *)
Record erow := mkRow { r_blanks : list bool; r_fields : list (bool * bytes); r_crlf : bool }.

Definition enc_row (enc : bytes) (r : erow) : bytes :=
  flat_map eol (r_blanks r) ++ join enc (map enc_field (r_fields r)) ++ eol (r_crlf r).

Definition csv_encode (comma : rune) (t : list erow) (trailing_blanks : list bool) : bytes :=
  flat_map (enc_row (encode_rune comma)) t ++ flat_map eol trailing_blanks.

(* what the reader makes of a field's text: inside quotes CRLF reads as LF *)
Fixpoint crlf2lf (s : bytes) : bytes :=
  match s with
  | [] => []
  | b :: r => match r with
              | c :: _ => if Byte.eqb b CR && Byte.eqb c LF then crlf2lf r else b :: crlf2lf r
              | [] => [b]
              end
  end.

(* ---- outcomes of FormatReader.Read, projected ------------------------------------------------- *)
Inductive outcome :=
| ONode (n : tree)
| OEOF
| OFatal      (* non-continuable, not io.EOF *)
| OCont       (* continuable: surfaces as ErrTransformFailed *)
| OPanic (site : nat)
| OPoison     (* a stale buffer reference was read *)
| OFuel.

Definition text_elem (name v : bytes) : tree :=
  T ElementNode name FNone [T TextNode v FNone []].

(* ---- old csv reader (fileformat/csv/reader.go) ------------------------------------------------ *)
Record csvdecl := mkCsvDecl {
  d_delim : rune;
  d_replace_dq : bool;
  d_header : option nat;     (* header_row_index *)
  d_data : nat;              (* data_row_index *)
  d_cols : list (bytes * bytes)   (* (name, alias-or-name) *)
}.

Record ost := mkO { o_c : cst; o_checked : bool; o_latched : bool }.

(* jumpTo: Read until LineNum() >= rowIndex.  io.EOF stops it; so does an error that is not a
   *csv.ParseError (a failure of the input, latched as readErr - repair N10); a parse error of a
   line to skip is ignored. *)
Inductive jres := JOk | JEof | JErr.
Fixpoint jump_to (fuel : nat) (comma : rune) (row : nat) (st : cst) : option (jres * cst) :=
  match fuel with
  | O => None
  | S k =>
      if c_line st <? row then
        let '(r, st') := csv_next comma st in
        match r with
        | CEOF => Some (JEof, st')
        | CFuel => None
        | CBadDelim => Some (JErr, st')
        | _ => jump_to k comma row st'
        end
      else Some (JOk, st)
  end.

Section OldCsv.
  Variable trim : bytes -> bytes.    (* strings.TrimSpace *)
  Variable d : csvdecl.

  Definition header_matches (header : list bytes) : bool :=
    negb (length header <? length (d_cols d))
    && forallb (fun p => bytes_eqb (trim (fst p)) (trim (fst (snd p))))
               (combine header (d_cols d)).

  (* checkHeader: None = ok *)
  Definition skip_to_data (st : cst) : option outcome * cst :=
    match jump_to (S (d_data d)) (d_delim d) (d_data d - 1) st with
    | None => (Some OFuel, st)
    | Some (JEof, st1) => (Some OEOF, st1)
    | Some (JErr, st1) => (Some OFatal, st1)     (* r.readErr *)
    | Some (JOk, st1) => (None, st1)
    end.

  Definition check_header (st : cst) : option outcome * cst :=
    match d_header d with
    | None => skip_to_data st
    | Some h =>
        match jump_to (S h) (d_delim d) (h - 1) st with
        | None => (Some OFuel, st)
        | Some (JEof, st1) | Some (JErr, st1) => (Some OFatal, st1)   (* ErrInvalidHeader *)
        | Some (JOk, st1) =>
            let '(r, st2) := csv_next (d_delim d) st1 in
            match r with
            | CRec header => if header_matches header then skip_to_data st2 else (Some OFatal, st2)
            | CFuel => (Some OFuel, st2)
            | _ => (Some OFatal, st2)
            end
        end
    end.

  (* recordToNode *)
  Definition record_to_node (rec : list bytes) : tree :=
    T DocumentNode [] FNone
      (map (fun p => text_elem (snd (snd p)) (fst p)) (combine rec (d_cols d))).

  Definition old_fetch (s : ost) : outcome * ost :=
    let '(r, st') := csv_next (d_delim d) (o_c s) in
    match r with
    | CEOF => (OEOF, mkO st' true false)
    | CRec rec => (ONode (record_to_node rec), mkO st' true false)
    | CParseErr => (OCont, mkO st' true false)
    | CBadDelim => (OFatal, mkO st' true true)     (* not a *csv.ParseError: latched (F10) *)
    | CFuel => (OFuel, mkO st' true false)
    end.

  (* reader.Read (no FINAL_OUTPUT xpath) *)
  Definition old_read (s : ost) : outcome * ost :=
    if o_latched s then (OFatal, s)
    else if o_checked s then old_fetch s
    else
      let '(e, st1) := check_header (o_c s) in
      match e with
      | Some o => (o, mkO st1 true false)
      | None => old_fetch (mkO st1 true false)
      end.
End OldCsv.

Definition replace_dq (s : bytes) : bytes :=
  map (fun b => if Byte.eqb b QUOTE then APOS else b) s.

Definition old_init (d : csvdecl) (input : bytes) : ost :=
  mkO (mkC (if d_replace_dq d then replace_dq input else input) 0) false false.

(* ---- line patterns ---------------------------------------------------------------------------- *)
(* The regular expressions the harness uses: `^` + literal, a bare literal, literal + `$`. *)
Inductive pat := PPrefix (s : bytes) | PContains (s : bytes) | PSuffix (s : bytes).
Definition pat_match (p : pat) (line : bytes) : bool :=
  match p with
  | PPrefix s => is_prefix s line
  | PContains s => contains_sub s line
  | PSuffix s => is_prefix (rev s) (rev line)
  end.

(* ---- csv2 (fileformat/flatfile/csv) ----------------------------------------------------------- *)
Record col2 := mkCol2 {
  k_name : bytes;
  k_index : nat;                    (* after validation: never nil *)
  k_line_index : option nat;
  k_line_pat : option pat
}.

Inductive shape := Rows (n : nat) | HeaderFooter (header : pat) (footer : option pat).

Record rec2 := mkRec2 {
  q_name : bytes;
  q_shape : shape;
  q_target : bool;
  q_min : nat;
  q_max : option nat;               (* None: unbounded *)
  q_cols : list col2
}.

Record line2 := mkL2 { l_start : nat; l_num : nat; l_raw : bytes }.

Record st2 := mkS2 { s_c : cst; s_lines : list line2; s_records : list bytes }.

Definition csv2_init (replace : bool) (input : bytes) : st2 :=
  mkS2 (mkC (if replace then replace_dq input else input) 0) [] [].

(* the result of an internal step: a value, or the way it failed *)
Inductive res (A : Type) := Ok (a : A) | Err (o : outcome).
Arguments Ok {A}. Arguments Err {A}.

Section Csv2.
  Variable re_match : pat -> bytes -> bool.    (* regexp.MatchString *)
  Variable comma : rune.
  Variable delim : bytes.                       (* fileDecl.Delimiter, for strings.Join *)

  (* reader.readLine: Ok true = appended a line, Ok false = io.EOF *)
  Definition c2_readline (s : st2) : res bool * st2 :=
    let '(r, c') := csv_next comma (s_c s) in
    match r with
    | CEOF => (Ok false, mkS2 c' (s_lines s) (s_records s))
    | CRec rec =>
        (Ok true, mkS2 c' (s_lines s ++ [mkL2 (length (s_records s)) (length rec) []])
                       (s_records s ++ rec))
    | CFuel => (Err OFuel, mkS2 c' (s_lines s) (s_records s))
    | _ => (Err OFatal, mkS2 c' (s_lines s) (s_records s))      (* ErrInvalidCSV *)
    end.

  (* records[a : a+n] *)
  Definition slice {A} (l : list A) (a n : nat) : option (list A) :=
    if a + n <=? length l then Some (firstn n (skipn a l)) else None.

  Fixpoint upd_nth {A} (i : nat) (x : A) (l : list A) : list A :=
    match l, i with
    | [], _ => []
    | _ :: r, O => x :: r
    | y :: r, S k => y :: upd_nth k x r
    end.

  (* matchLine on &linesBuf[i]: fills the raw cache *)
  Definition match_line (p : pat) (i : nat) (s : st2) : res bool * st2 :=
    match nth_error (s_lines s) i with
    | None => (Err (OPanic 1), s)
    | Some l =>
        match l_raw l with
        | [] =>
            match slice (s_records s) (l_start l) (l_num l) with
            | None => (Err (OPanic 2), s)
            | Some fs =>
                let raw := join delim fs in
                (Ok (re_match p raw),
                 mkS2 (s_c s) (upd_nth i (mkL2 (l_start l) (l_num l) raw) (s_lines s)) (s_records s))
            end
        | raw => (Ok (re_match p raw), s)
        end
    end.

  (* ColumnDecl.lineMatch *)
  Definition line_match2 (c : col2) (i : nat) (s : st2) : res bool * st2 :=
    match k_line_index c with
    | Some li => (Ok (Nat.eqb li (S i)), s)
    | None => match k_line_pat c with
              | Some p => match_line p i s
              | None => (Ok true, s)
              end
    end.

  (* ColumnDecl.lineToColumnValue *)
  Definition col_value2 (c : col2) (l : line2) (records : list bytes) : res bytes :=
    if (k_index c <? 1) || (l_num l <? k_index c) then Ok []
    else match nth_error records (l_start l + k_index c - 1) with
         | Some v => Ok v
         | None => Err (OPanic 3)
         end.

  (* the inner `for i := 0; i < n; i++` of linesToNode for one column *)
  Fixpoint col_node2 (c : col2) (n i : nat) (s : st2) : res (option tree) * st2 :=
    match n with
    | O => (Ok None, s)
    | S n' =>
        let '(m, s1) := line_match2 c i s in
        match m with
        | Err o => (Err o, s1)
        | Ok false => col_node2 c n' (S i) s1
        | Ok true =>
            match nth_error (s_lines s1) i with
            | None => (Err (OPanic 4), s1)
            | Some l => match col_value2 c l (s_records s1) with
                        | Ok v => (Ok (Some (text_elem (k_name c) v)), s1)
                        | Err o => (Err o, s1)
                        end
            end
        end
    end.

  Fixpoint cols_nodes2 (cs : list col2) (n : nat) (s : st2) : res (list tree) * st2 :=
    match cs with
    | [] => (Ok [], s)
    | c :: r =>
        let '(x, s1) := col_node2 c n 0 s in
        match x with
        | Err o => (Err o, s1)
        | Ok x =>
            let '(xs, s2) := cols_nodes2 r n s1 in
            match xs with
            | Err o => (Err o, s2)
            | Ok xs => (Ok (match x with Some t => t :: xs | None => xs end), s2)
            end
        end
    end.

  Definition lines_to_node2 (d : rec2) (n : nat) (s : st2) : res tree * st2 :=
    if length (s_lines s) <? n then (Err (OPanic 5), s)
    else
      let '(ks, s1) := cols_nodes2 (q_cols d) n s in
      match ks with
      | Ok ks => (Ok (T ElementNode (q_name d) FNone ks), s1)
      | Err o => (Err o, s1)
      end.

  (* popFrontLinesBuf *)
  Definition pop_front2 (n : nat) (s : st2) : res unit * st2 :=
    if length (s_lines s) <? n then (Err (OPanic 6), s)
    else
      let shift := fold_left (fun a l => a + l_num l) (firstn n (s_lines s)) 0 in
      if length (s_records s) <? shift then (Err (OPanic 7), s)
      else
        (Ok tt,
         mkS2 (s_c s)
              (map (fun l => mkL2 (l_start l - shift) (l_num l) (l_raw l)) (skipn n (s_lines s)))
              (skipn shift (s_records s))).

  (* result of ReadAndMatch: (matched, node) or an error outcome (OEOF = io.EOF) *)
  Definition take_record2 (d : rec2) (n : nat) (create : bool) (s : st2)
    : res (bool * option tree) * st2 :=
    if create then
      let '(t, s1) := lines_to_node2 d n s in
      match t with
      | Err o => (Err o, s1)
      | Ok t =>
          let '(p, s2) := pop_front2 n s1 in
          match p with
          | Err o => (Err o, s2)
          | Ok _ => (Ok (true, Some t), s2)
          end
      end
    else (Ok (true, None), s).

  (* readAndMatchRowsBasedRecord: the `for len(r.linesBuf) < decl.rows()` loop *)
  Fixpoint fill_rows2 (fuel : nat) (rows : nat) (s : st2) : res bool * st2 :=
    match fuel with
    | O => (Err OFuel, s)
    | S k =>
        if length (s_lines s) <? rows then
          let '(r, s1) := c2_readline s in
          match r with
          | Err o => (Err o, s1)
          | Ok false => if Nat.eqb (length (s_lines s1)) 0 then (Err OEOF, s1) else (Ok false, s1)
          | Ok true => fill_rows2 k rows s1
          end
        else (Ok true, s)
    end.

  (* the footer loop of readAndMatchHeaderFooterBasedRecord *)
  Fixpoint footer_loop2 (fuel : nat) (d : rec2) (footer : option pat) (create : bool) (i : nat)
           (s : st2) : res (bool * option tree) * st2 :=
    match fuel with
    | O => (Err OFuel, s)
    | S k =>
        let '(m, s1) := match footer with
                        | None => (Ok true, s)
                        | Some p => match_line p i s
                        end in
        match m with
        | Err o => (Err o, s1)
        | Ok true => take_record2 d (S i) create s1
        | Ok false =>
            if length (s_lines s1) - 1 <=? i then
              let '(r, s2) := c2_readline s1 in
              match r with
              | Err o => (Err o, s2)
              | Ok false => (Ok (false, None), s2)
              | Ok true => footer_loop2 k d footer create (S i) s2
              end
            else footer_loop2 k d footer create (S i) s1
        end
    end.

  Definition c2_fuel (s : st2) : nat := length (c_in (s_c s)) + length (s_lines s) + 2.

  Definition read_and_match2 (d : rec2) (create : bool) (s : st2)
    : res (bool * option tree) * st2 :=
    match q_shape d with
    | Rows rows =>
        let '(f, s1) := fill_rows2 (S (rows + c2_fuel s)) rows s in
        match f with
        | Err o => (Err o, s1)
        | Ok false => (Ok (false, None), s1)
        | Ok true => take_record2 d rows create s1
        end
    | HeaderFooter header footer =>
        let '(r0, s0) :=
          if Nat.eqb (length (s_lines s)) 0 then c2_readline s else (Ok true, s) in
        match r0 with
        | Err o => (Err o, s0)
        | Ok false => (Err OEOF, s0)
        | Ok true =>
            let '(m, s1) := match_line header 0 s0 in
            match m with
            | Err o => (Err o, s1)
            | Ok false => (Ok (false, None), s1)
            | Ok true => footer_loop2 (c2_fuel s1) d footer create 0 s1
            end
        end
    end.

  (* MoreUnprocessedData *)
  Definition more2 (s : st2) : res bool * st2 :=
    if negb (Nat.eqb (length (s_lines s)) 0) then (Ok true, s)
    else
      let '(r, s1) := c2_readline s in
      match r with
      | Err o => (Err o, s1)
      | Ok _ => (Ok (negb (Nat.eqb (length (s_lines s1)) 0)), s1)
      end.
End Csv2.
