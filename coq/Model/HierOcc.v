(* C05: the correspondence case type, and how an omitted / negative min or max written in a schema
   is resolved -- over the rules extracted from the MinOccurs/MaxOccurs functions (Gen/Occurs.v). *)
From Coq Require Import List Arith Bool ZArith.
Import ListNotations.
From OV Require Import Base.Cases Gen.Occurs Model.Hier Model.HierSpec.

Definition resolve_min (r : occ_rule) (m : option Z) : nat :=
  match m with None => occ_min_default r | Some z => Z.to_nat z end.
Definition resolve_max (r : occ_rule) (m : option Z) : option nat :=
  match m with
  | None => occ_max_default r
  | Some z => if (z <? 0)%Z then (if occ_neg_unbounded r then None else Some 0) else Some (Z.to_nat z)
  end.

Definition rule_of (k : mkind) : occ_rule :=
  match k with KEdi => occ_edi | KFlat => occ_csv2 | KHier => occ_csv2 end.

(* the (min, max) of all declarations, in preorder *)
Fixpoint decl_occs (d : decl) : list (nat * option nat) :=
  let 'D _ _ _ mn mx _ kids := d in (mn, mx) :: flat_map decl_occs kids.

Definition occ_eqb (a b : nat * option nat) : bool :=
  Nat.eqb (fst a) (fst b) && opt_eqb Nat.eqb (snd a) (snd b).

(* HC: a run.  VC: accept/reject of a generated schema by the real ValidateSchema against the
   transcription of what validation enforces. *)
(* OC: the min/max as written in the generated schema (None = omitted) of every declaration in
   preorder, with the rule of the format that read it (0 csv2, 1 fixedlength2, 2 EDI): resolving
   them by the extracted rules gives the declarations the run was expected to behave as. *)
Inductive c05case :=
| HC (c : hcase)
| VC (k : mkind) (ds : list decl) (accepted : bool)
| OC (fmt : nat) (raw : list (option Z * option Z)) (ds : list decl).
Definition check_case (c : c05case) : bool :=
  match c with
  | HC c => check_hcase c
  | VC k ds acc => Bool.eqb (valid_kind k ds) acc
  | OC fmt raw ds =>
      let r := match fmt with 0 => occ_csv2 | 1 => occ_fixedlength2 | _ => occ_edi end in
      list_eqb occ_eqb (map (fun p => (resolve_min r (fst p), resolve_max r (snd p))) raw)
                       (flat_map decl_occs ds)
  end.
