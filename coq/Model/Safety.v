(* C03 model: the small, self-contained panic / termination sites of omniparser, transcribed from
   the Go sources.  Executable definitions only; proofs are in Proofs/Safety*.v.

     1. transform/invokeCustomFunc.go   prepArgValues / getFuncArgType / reflect.Value.Call
     2. idr/jsonreader.go               cursor discipline of the JSON stream reader
     3. transform/validate.go           template expansion (reference stack + duplicate test)
     4. fileformat/csv/format.go+reader.go   delimiter validation and the jumpTo skip loop
     5. idr/util.go                     removeLastFilterInXPath
     6. fileformat/fixedlength/decl.go, flatfile/fixedlength/decl.go   lineToColumnValue
     7. the bound "reads to a terminal result <= units(input) + 1"

   Go's partial operations (index out of range, nil dereference, failed type assertion,
   reflect.Call arity / assignability, Type.In out of range, Type.Elem of a non-container) are an
   explicit Panic outcome; loops that are not structural carry fuel with an OutOfFuel outcome. *)
From Coq Require Import List NArith ZArith Bool.
From Coq.Strings Require Import Byte.
Import ListNotations.
From OV Require Import Base.Bytes Base.Cases Base.Utf8 Gen.Safety.

(* ============================================================================================ *)
(* 1. custom_func invocation                                                                     *)
(* ============================================================================================ *)
(* Go types as far as reflect's checks distinguish them here.  TStruct is what Elem() of the two
   pointer types gives; TInt is a type no evaluated argument ever has (arguments are string,
   int64, float64, bool, []interface{} or map[string]interface{}). *)
Inductive ptype :=
| TCtx | TNode | TString | TInt64 | TFloat64 | TBool | TAny | TInt | TMap | TStruct
| TSlice (t : ptype).

Fixpoint ptype_eqb (a b : ptype) : bool :=
  match a, b with
  | TCtx, TCtx | TNode, TNode | TString, TString | TInt64, TInt64 | TFloat64, TFloat64
  | TBool, TBool | TAny, TAny | TInt, TInt | TMap, TMap | TStruct, TStruct => true
  | TSlice x, TSlice y => ptype_eqb x y
  | _, _ => false
  end.

(* A function signature: the parameter list and the variadic flag.  For a variadic function the
   last entry of [params] is the ELEMENT type of the final `...T` parameter. *)
Record fsig := mkSig { params : list ptype; variadic : bool }.
Definition num_in (f : fsig) : nat := length (params f).

(* reflect.Type.In(i): panics when i is out of range (None).  The last parameter of a variadic
   function has the slice type. *)
Definition type_in (f : fsig) (i : nat) : option ptype :=
  match nth_error (params f) i with
  | Some t => Some (if variadic f && Nat.eqb (S i) (num_in f) then TSlice t else t)
  | None => None
  end.

(* reflect.Type.Elem(): defined for slices, maps and pointers, panics otherwise. *)
Definition type_elem (t : ptype) : option ptype :=
  match t with
  | TSlice e => Some e
  | TMap => Some TAny
  | TCtx | TNode => Some TStruct
  | _ => None
  end.

(* Type.AssignableTo for the types above: identical, or the target is interface{}. *)
Definition assignable (v t : ptype) : bool :=
  ptype_eqb v t || match t with TAny => true | _ => false end.

Inductive outcome := OErr | OCalled | OPanic.

(* reflect.Value.Call(in): panics with "too few / too many input arguments" or "using X as type
   Y"; [target f i] is the type the i-th argument is checked against. *)
Definition target (f : fsig) (i : nat) : option ptype :=
  if variadic f && Nat.leb (num_in f - 1) i then nth_error (params f) (num_in f - 1)
  else nth_error (params f) i.

Fixpoint args_ok (f : fsig) (i : nat) (vals : list ptype) : bool :=
  match vals with
  | [] => true
  | v :: r => match target f i with
              | Some t => assignable v t && args_ok f (S i) r
              | None => false
              end
  end.

Definition call (f : fsig) (vals : list ptype) : outcome :=
  let arity_ok := if variadic f then Nat.leb 1 (num_in f) && Nat.leb (num_in f - 1) (length vals)
                  else Nat.eqb (length vals) (num_in f) in
  if arity_ok && args_ok f 0 vals then OCalled else OPanic.

(* What ParseNode returned for one argument declaration: nil, a value of a type, or an error. *)
Inductive argv := ANil | AVal (t : ptype) | AErr.
Inductive prep := PErr | PPanic | POk (vals : list ptype).

(* getFuncArgType (repaired): clamp the index, In(), Elem() only for the variadic parameter. *)
Definition get_func_arg_type (f : fsig) (argIndex : nat) : option ptype :=
  let n := num_in f in
  if Nat.eqb n 0 then None (* In(-1) *) else
  let i := if Nat.leb n argIndex then n - 1 else argIndex in
  match type_in f i with
  | None => None
  | Some typ => if variadic f && Nat.eqb i (n - 1) then type_elem typ else Some typ
  end.

(* the argument loop of prepArgValues (repaired): evaluate, look up the type, zero value for nil,
   assignability check otherwise *)
Fixpoint prep_args (f : fsig) (idx : nat) (args : list argv) : prep :=
  match args with
  | [] => POk []
  | a :: r =>
      match a with
      | AErr => PErr
      | _ =>
          match get_func_arg_type f idx with
          | None => PPanic
          | Some t =>
              let v := match a with AVal v => v | _ => t end in  (* reflect.Zero(argType) has type t *)
              if match a with AVal v => assignable v t | _ => true end
              then match prep_args f (S idx) r with POk vs => POk (v :: vs) | e => e end
              else PErr
          end
      end
  end.

Definition node_second (f : fsig) : bool :=
  Nat.leb 2 (num_in f) && match type_in f 1 with Some TNode => true | _ => false end.

Definition prep_arg_values (f : fsig) (args : list argv) : prep :=
  let base := if node_second f then 2 else 1 in
  let acc0 := if node_second f then [TCtx; TNode] else [TCtx] in
  let expected : Z := (Z.of_nat (num_in f) - Z.of_nat base - (if variadic f then 1 else 0))%Z in
  let la := Z.of_nat (length args) in
  if (la <? expected)%Z || ((expected <? la)%Z && negb (variadic f)) then PErr
  else match prep_args f base args with POk vs => POk (acc0 ++ vs) | e => e end.

Definition invoke (f : fsig) (args : list argv) : outcome :=
  match prep_arg_values f args with
  | PErr => OErr
  | PPanic => OPanic
  | POk vals => call f vals
  end.

(* ---- the code before fix d5f820f: no arity check, no assignability check, Elem() for every
   parameter of a variadic function ---- *)
Definition get_func_arg_type_old (f : fsig) (argIndex : nat) : option ptype :=
  let n := num_in f in
  if Nat.eqb n 0 then None else
  let i := if Nat.leb n argIndex then n - 1 else argIndex in
  match type_in f i with
  | None => None
  | Some typ => if variadic f then type_elem typ else Some typ
  end.

Fixpoint prep_args_old (f : fsig) (idx : nat) (args : list argv) : prep :=
  match args with
  | [] => POk []
  | AErr :: _ => PErr
  | AVal v :: r => match prep_args_old f (S idx) r with POk vs => POk (v :: vs) | e => e end
  | ANil :: r =>
      match get_func_arg_type_old f idx with
      | None => PPanic
      | Some t => match prep_args_old f (S idx) r with POk vs => POk (t :: vs) | e => e end
      end
  end.

Definition invoke_old (f : fsig) (args : list argv) : outcome :=
  let base := if node_second f then 2 else 1 in
  let acc0 := if node_second f then [TCtx; TNode] else [TCtx] in
  match prep_args_old f base args with
  | PErr => OErr
  | PPanic => OPanic
  | POk vs => call f (acc0 ++ vs)
  end.

(* ============================================================================================ *)
(* 2. JSON stream reader: cursor discipline                                                      *)
(* ============================================================================================ *)
(* What json.Decoder.Token() yields: delimiters, strings (object keys and string values), and the
   other scalars (float64, bool, nil). *)
Inductive jtok := JObjOpen | JArrOpen | JObjClose | JArrClose | JString | JScalar.

(* JSONType flags of a node (JSONRoot / JSONProp / JSONObj / JSONArr). *)
Record jflags := mkJ { f_root : bool; f_prop : bool; f_obj : bool; f_arr : bool }.
(* sp.cur together with its chain of Parent links; [] is the nil pointer *)
Definition cursor := list jflags.
Definition j_root : jflags := mkJ true false false false.

Inductive jsite := NilDeref | KeyNotString.
Inductive jstep := JPanic (site : jsite) | JErrAfterTop | JNext (c : cursor).

(* sp.cur = sp.cur.Parent in wrapUpCurAndTargetCheck: dereferences sp.cur *)
Definition wrap_up (c : cursor) : jstep :=
  match c with [] => JPanic NilDeref | _ :: up => JNext up end.

(* parseDelim / parseVal on a non-nil cursor (IsJSONArr etc. dereference the node) *)
Definition on_token (c : cursor) (t : jtok) : jstep :=
  match c with
  | [] => JPanic NilDeref            (* IsJSON(nil): n.FormatSpecific *)
  | h :: up =>
      match t with
      | JObjOpen =>
          if f_arr h then JNext (mkJ false false true false :: c)            (* addElementChild("", JSONObj) *)
          else if f_prop h || f_root h then JNext (mkJ (f_root h) (f_prop h) true (f_arr h) :: up)
          else JNext c
      | JArrOpen =>
          if f_arr h then JNext (mkJ false false false true :: c)
          else if f_prop h || f_root h then JNext (mkJ (f_root h) (f_prop h) (f_obj h) true :: up)
          else JNext c
      | JObjClose | JArrClose => wrap_up c
      | JString | JScalar =>
          if f_obj h then
            match t with
            | JString => JNext (mkJ false true false false :: c)             (* tok.(string) as a key *)
            | _ => JPanic KeyNotString                                       (* tok.(string) fails *)
            end
          else if f_arr h then wrap_up (mkJ false true false false :: c)      (* push, text child, wrap up *)
          else if f_prop h then wrap_up c
          else if f_root h then wrap_up c
          else JNext c
      end
  end.

(* parse() after fix ff724f7: a token that arrives when sp.cur is nil is an error *)
Definition jreader_step (c : cursor) (t : jtok) : jstep :=
  match c with [] => JErrAfterTop | _ => on_token c t end.
(* before the fix *)
Definition jreader_step_old (c : cursor) (t : jtok) : jstep := on_token c t.

(* all tokens of the input, over any number of Read calls (the cursor persists across Reads; a
   Read that returned the error is followed by Reads that see the next tokens) *)
Fixpoint jreader_run (step : cursor -> jtok -> jstep) (c : cursor) (ts : list jtok) : jsite + cursor :=
  match ts with
  | [] => inr c
  | t :: r => match step c t with
              | JPanic site => inl site
              | JErrAfterTop => jreader_run step c r
              | JNext c' => jreader_run step c' r
              end
  end.

(* The token grammar json.Decoder enforces (its tokenState machine): inside an object a key
   (string) or '}' is expected, then a value; inside an array a value or ']'.  At top level any
   number of values may follow each other. *)
Inductive dctx := DObjKey | DObjVal | DArr.
Definition after_value (ds : list dctx) : list dctx :=
  match ds with DObjVal :: r => DObjKey :: r | _ => ds end.
Definition dec_step (ds : list dctx) (t : jtok) : option (list dctx) :=
  match ds, t with
  | DObjKey :: r, JString => Some (DObjVal :: r)
  | DObjKey :: r, JObjClose => Some (after_value r)
  | DObjKey :: _, _ => None
  | DArr :: r, JArrClose => Some (after_value r)
  | _, JObjClose | _, JArrClose => None
  | _, JObjOpen => Some (DObjKey :: ds)
  | _, JArrOpen => Some (DArr :: ds)
  | _, JString | _, JScalar => Some (after_value ds)
  end.
Fixpoint dec_accepts (ds : list dctx) (ts : list jtok) : bool :=
  match ts with
  | [] => true
  | t :: r => match dec_step ds t with Some ds' => dec_accepts ds' r | None => false end
  end.

(* ============================================================================================ *)
(* 3. template expansion of ValidateTransformDeclarations                                        *)
(* ============================================================================================ *)
(* The declaration set as a graph: node i is a declared name, [nth i g] lists what its declaration
   contains where a declaration is expected: [Some t] = a reference to name t through `template`
   (an index >= length g is an undeclared name), [None] = a JSON null (possible below
   `xpath_dynamic`, whose JSON schema does not constrain its content).  Node 0 is FINAL_OUTPUT,
   which is on the reference stack from the start. *)
Definition tgraph := list (list (option nat)).
Inductive vres := VOk | VErrCycle | VErrMissing | VErrNull | VPanic | VOutOfFuel.

(* strs.HasDup *)
Fixpoint has_dup (l : list nat) : bool :=
  match l with [] => false | x :: r => existsb (Nat.eqb x) r || has_dup r end.

(* validateDecl over the children of one declaration.  A nil *Decl: "'<fqdn>' cannot be null" since
   fix 86abe20 ([on_null] = VErrNull); before it validateXPath dereferenced it ([on_null] = VPanic).
   validateTemplate: lookup, push, HasDup, deep copy, recurse.  [fuel] bounds the recursion depth. *)
Fixpoint expand (on_null : vres) (fuel : nat) (g : tgraph) (stack : list nat) (refs : list (option nat)) : vres :=
  match fuel with
  | O => VOutOfFuel
  | S k =>
      (fix each (refs : list (option nat)) : vres :=
         match refs with
         | [] => VOk
         | None :: _ => on_null
         | Some t :: r =>
             match nth_error g t with
             | None => VErrMissing
             | Some body =>
                 if has_dup (stack ++ [t]) then VErrCycle
                 else match expand on_null k g (stack ++ [t]) body with VOk => each r | e => e end
             end
         end) refs
  end.

Definition validate_templates (g : tgraph) : vres :=
  expand VErrNull (length g + 1) g [0] (nth 0 g []).
Definition validate_templates_old (g : tgraph) : vres :=
  expand VPanic (length g + 1) g [0] (nth 0 g []).

(* ============================================================================================ *)
(* 4. csv delimiter validation and the jumpTo loop                                               *)
(* ============================================================================================ *)
(* encoding/csv validDelim, and the test at the top of Reader.readRecord with Comment = 0 (the
   csv readers never set Comment) *)
Definition stdcsv_valid_delim (r : N) : bool :=
  negb (N.eqb r 0) && negb (N.eqb r 34) && negb (N.eqb r 13) && negb (N.eqb r 10)
  && valid_rune r && negb (N.eqb r RuneError).
Definition stdcsv_delim_usable (comma : N) : bool :=
  negb (N.eqb comma 0 (* r.Comma == r.Comment *) || negb (stdcsv_valid_delim comma)).

(* Schema validation of the delimiter string: JSON-schema length bounds (in runes), then the
   in-code check on the first rune. *)
Definition len_in_bounds (lo hi : option Z) (n : nat) : bool :=
  match lo with Some l => (l <=? Z.of_nat n)%Z | None => true end
  && match hi with Some h => (Z.of_nat n <=? h)%Z | None => true end.
Definition csv_accepts_delimiter (fmt : N) (d : bytes) : bool :=
  if N.eqb fmt 0
  then len_in_bounds csv_delim_min_len csv_delim_max_len (rune_count d) && csv_delim_check (fst (decode_rune d))
  else len_in_bounds csv2_delim_min_len csv2_delim_max_len (rune_count d) && csv2_delim_check (fst (decode_rune d)).

(* The old csv reader (csv/reader.go) at line level.  The csv reader state is the line counter and
   the number of physical lines left; how many lines one record spans is content dependent
   ([span]); whether the underlying input reader fails at this point is [io_fails] (any
   predicate: transient or persistent).

   jumpTo:  for r.r.LineNum() < rowIndex {
              _, err := r.r.Read()
              if err == io.EOF { return io.EOF }
              if err != nil { if not a *csv.ParseError { r.readErr = ...; return r.readErr } } }
   The inner test exists since fix 35247f5; [failfast] says whether it is there
   (Gen/Safety.v: csv_jumpto_fails_on_non_parse_error). *)
Record csvst := mkCsv { numline : nat; lines_left : nat }.
Inductive jump := JumpDone (s : csvst) | JumpEOF | JumpFailed | JumpOutOfFuel.
(* a record or a csv.ParseError; io.EOF; any other error (errInvalidDelim, an input failure) *)
Inductive csvres := CsvRecOrParseErr | CsvEOF | CsvOtherErr.

Section Jump.
  Variable span : csvst -> nat.
  Variable io_fails : csvst -> bool.
  (* one Reader.Read call: errInvalidDelim without touching the input when the delimiter is
     unusable; a failure of the input (readLine still counts the line); io.EOF at the end;
     otherwise a record or a ParseError after consuming [span] lines *)
  Definition csv_read (usable : bool) (s : csvst) : csvst * csvres :=
    if negb usable then (s, CsvOtherErr)
    else if io_fails s then (mkCsv (S (numline s)) (lines_left s), CsvOtherErr)
    else if Nat.eqb (lines_left s) 0 then (mkCsv (S (numline s)) 0, CsvEOF)
    else (mkCsv (numline s + span s) (lines_left s - span s), CsvRecOrParseErr).

  Fixpoint jump_gen (failfast : bool) (fuel : nat) (usable : bool) (row : nat) (s : csvst) : jump :=
    match fuel with
    | O => JumpOutOfFuel
    | S k =>
        if Nat.ltb (numline s) row then
          match csv_read usable s with
          | (_, CsvEOF) => JumpEOF
          | (s', CsvOtherErr) => if failfast then JumpFailed else jump_gen failfast k usable row s'
          | (s', CsvRecOrParseErr) => jump_gen failfast k usable row s'
          end
        else JumpDone s
    end.
  Definition jump_to := jump_gen true.
  Definition jump_to_old := jump_gen false.

  (* ---- the whole reader: Read / checkHeader ---- *)
  (* content dependent facts about the record the next csv Read yields *)
  Variable parse_err : csvst -> bool.   (* a csv.ParseError *)
  Variable matches : csvst -> bool.     (* the target xpath selects the record *)
  Variable header_ok : csvst -> bool.   (* the header row carries the declared column names *)
  (* the shape flags of Gen/Safety.v *)
  Variable latched_first : bool.        (* Read starts with `if r.readErr != nil { return r.readErr }` *)
  Variable read_latches : bool.         (* Read stores a non-ParseError in r.readErr *)
  Variable failfast : bool.             (* jumpTo, as above *)

  Record crd := mkCrd { cr_st : csvst; cr_header_checked : bool; cr_latched : bool }.
  Inductive cres :=
  | CrRecord | CrPlainErr            (* a node; "failed to fetch record" for a ParseError: continuable *)
  | CrEOF | CrFatalHeader | CrLatched (* io.EOF; ErrInvalidHeader; the remembered r.readErr instance *)
  | CrOutOfFuel.

  (* the `read:` loop of Read: skip the records the target xpath filters out *)
  Fixpoint read_loop (fuel : nat) (usable : bool) (r : crd) : crd * cres :=
    match fuel with
    | O => (r, CrOutOfFuel)
    | S k =>
        let s := cr_st r in
        match csv_read usable s with
        | (s', CsvEOF) => (mkCrd s' true (cr_latched r), CrEOF)
        | (s', CsvOtherErr) =>
            if read_latches then (mkCrd s' true true, CrLatched) else (mkCrd s' true (cr_latched r), CrPlainErr)
        | (s', CsvRecOrParseErr) =>
            if parse_err s then (mkCrd s' true (cr_latched r), CrPlainErr)
            else if matches s then (mkCrd s' true (cr_latched r), CrRecord)
            else read_loop k usable (mkCrd s' true (cr_latched r))
        end
    end.

  (* checkHeader; None = no error *)
  Definition check_header (fuel : nat) (usable : bool) (hdr : option nat) (data : nat) (r : crd) : crd * option cres :=
    let skip (r : crd) :=
      match jump_gen failfast fuel usable (data - 1) (cr_st r) with
      | JumpDone s' => (mkCrd s' true (cr_latched r), None)
      | JumpEOF => (mkCrd (cr_st r) true (cr_latched r), Some CrEOF)
      | JumpFailed => (mkCrd (cr_st r) true true, Some CrLatched)
      | JumpOutOfFuel => (r, Some CrOutOfFuel)
      end in
    match hdr with
    | None => skip r
    | Some h =>
        match jump_gen failfast fuel usable (h - 1) (cr_st r) with
        | JumpOutOfFuel => (r, Some CrOutOfFuel)
        | JumpEOF => (mkCrd (cr_st r) true (cr_latched r), Some CrFatalHeader)
        | JumpFailed => (mkCrd (cr_st r) true true, Some CrFatalHeader)
        | JumpDone s1 =>
            match csv_read usable s1 with
            | (s2, CsvRecOrParseErr) =>
                if parse_err s1 || negb (header_ok s1) then (mkCrd s2 true (cr_latched r), Some CrFatalHeader)
                else skip (mkCrd s2 true (cr_latched r))
            | (s2, _) => (mkCrd s2 true (cr_latched r), Some CrFatalHeader)
            end
        end
    end.

  Definition csv_reader_read (fuel : nat) (usable : bool) (hdr : option nat) (data : nat) (r : crd) : crd * cres :=
    if latched_first && cr_latched r then (r, CrLatched)
    else if cr_header_checked r then read_loop fuel usable r
    else match check_header fuel usable hdr data r with
         | (r', Some e) => (r', e)
         | (r', None) => read_loop fuel usable r'
         end.
End Jump.

Definition cres_terminal (c : cres) : bool :=
  match c with CrEOF | CrFatalHeader | CrLatched => true | _ => false end.

(* ---- the old fixed-length reader with a by_rows envelope (fixedlength/reader.go) ---- *)
(* The line source: [fl_left] non-empty lines, then a clean end or a persistent failure. *)
Record flst := mkFl { fl_left : nat; fl_fault : bool }.
Inductive flres := FlRecord | FlEOF | FlFatal (* ErrInvalidEnvelope *) | FlRawErr (* the input error as is: continuable *) | FlOutOfFuel.

Section FixedByRows.
  Variable rows : nat.                  (* envelopeDecl.byRows() *)
  Variable fl_matches : flst -> bool.   (* the target xpath selects the envelope *)
  Variable clean_eof_only : bool.       (* Gen/Safety.v: fixed_by_rows_raw_error_only_clean_eof *)

  (* readByRowsEnvelope: `for i := 0; i < byRows; i++ { line, err := readLine(); if err != nil {
       if err == io.EOF && i == 0 { return nil, err }; return nil, ErrInvalidEnvelope(...) } ... }` *)
  Fixpoint read_rows (i todo : nat) (s : flst) : flst * option flres :=
    match todo with
    | O => (s, None)
    | S k =>
        if Nat.eqb (fl_left s) 0 then
          if fl_fault s then (s, Some (if Nat.eqb i 0 && negb clean_eof_only then FlRawErr else FlFatal))
          else (s, Some (if Nat.eqb i 0 then FlEOF else FlFatal))
        else read_rows (S i) k (mkFl (fl_left s - 1) (fl_fault s))
    end.

  (* Read: `readEnvelope:` loop over the envelopes the target xpath filters out *)
  Fixpoint fl_read (fuel : nat) (s : flst) : flst * flres :=
    match fuel with
    | O => (s, FlOutOfFuel)
    | S k =>
        match read_rows 0 rows s with
        | (s', Some e) => (s', e)
        | (s', None) => if fl_matches s then (s', FlRecord) else fl_read k s'
        end
    end.
End FixedByRows.

Definition flres_terminal (c : flres) : bool :=
  match c with FlEOF | FlFatal => true | _ => false end.

(* ---- running the two reader models on a described input (correspondence) ---- *)
(* the good lines, then the failure (or the clean end) for ever *)
Definition csv_tail_fails (fault : bool) (s : csvst) : bool := fault && Nat.eqb (lines_left s) 0.
Definition cres_code (c : cres) : N :=
  match c with CrRecord => 0 | CrPlainErr => 1 | CrEOF => 2 | CrFatalHeader => 3 | CrLatched => 4 | CrOutOfFuel => 9 end.
Definition flres_code (c : flres) : N :=
  match c with FlRecord => 0 | FlRawErr => 1 | FlEOF => 2 | FlFatal => 3 | FlOutOfFuel => 9 end.

(* one-line records without quotes, no target filter: Reads until the first terminal result (at
   most [n] of them), their result classes *)
Fixpoint csv_run (n : nat) (hdr : option nat) (data : nat) (hok fault : bool) (r : crd) : list N :=
  match n with
  | O => []
  | S k =>
      let '(r', c) := csv_reader_read (fun _ => 1) (csv_tail_fails fault) (fun _ => false) (fun _ => true) (fun _ => hok)
                        csv_read_returns_latched_first csv_read_latches_non_parse_error csv_jumpto_fails_on_non_parse_error
                        (lines_left (cr_st r) + 1) true hdr data r in
      cres_code c :: (if cres_terminal c then [] else csv_run k hdr data hok fault r')
  end.
Fixpoint fl_run (n : nat) (rows : nat) (s : flst) : list N :=
  match n with
  | O => []
  | S k =>
      let '(s', c) := fl_read rows (fun _ => true) fixed_by_rows_raw_error_only_clean_eof (fl_left s + 1) s in
      flres_code c :: (if flres_terminal c then [] else fl_run k rows s')
  end.

(* ============================================================================================ *)
(* 5. removeLastFilterInXPath                                                                    *)
(* ============================================================================================ *)
Inductive rlf_res := RlfPanic | RlfOutOfFuel | RlfSame | RlfPrefix (n : nat).

Definition rune_at (rs : list rune) (pos : Z) : option rune :=
  if (pos <? 0)%Z then None else nth_error rs (Z.to_nat pos).

Definition R_RBRACKET : rune := 93%N.
Definition R_LBRACKET : rune := 91%N.
Definition is_quote (c : rune) : bool := N.eqb c 34 || N.eqb c 39.

(* for pos--; pos >= 0 && runes[pos] != quote; pos-- {}   -- called with the decremented pos *)
Inductive sq_res := SqPanic | SqOutOfFuel | SqAt (pos : Z).
Fixpoint skip_quote (fuel : nat) (rs : list rune) (quote : rune) (pos : Z) : sq_res :=
  match fuel with
  | O => SqOutOfFuel
  | S k =>
      if (pos <? 0)%Z then SqAt pos
      else match rune_at rs pos with
           | None => SqPanic
           | Some c => if N.eqb c quote then SqAt pos else skip_quote k rs quote (pos - 1)
           end
  end.

Fixpoint rlf_loop (fuel : nat) (rs : list rune) (bracket : Z) (pos : Z) : rlf_res :=
  match fuel with
  | O => RlfOutOfFuel
  | S k =>
      if (pos <? 0)%Z then RlfSame
      else match rune_at rs pos with
           | None => RlfPanic
           | Some c =>
               if is_quote c then
                 match skip_quote k rs c (pos - 1) with
                 | SqPanic => RlfPanic
                 | SqOutOfFuel => RlfOutOfFuel
                 | SqAt p => if (p <? 0)%Z then RlfSame else rlf_loop k rs bracket (p - 1)
                 end
               else if N.eqb c R_LBRACKET then
                 if (bracket - 1 =? 0)%Z
                 then (if (pos <=? Z.of_nat (length rs))%Z then RlfPrefix (Z.to_nat pos) else RlfPanic)
                 else rlf_loop k rs (bracket - 1) (pos - 1)
               else if N.eqb c R_RBRACKET then rlf_loop k rs (bracket + 1) (pos - 1)
               else rlf_loop k rs bracket (pos - 1)
           end
  end.

Definition rlf_runes (rs : list rune) : rlf_res :=
  match rs with
  | [] => RlfSame
  | _ =>
      match rune_at rs (Z.of_nat (length rs) - 1) with
      | None => RlfPanic
      | Some c => if negb (N.eqb c R_RBRACKET) then RlfSame
                  else rlf_loop (length rs + 1) rs 1 (Z.of_nat (length rs) - 2)
      end
  end.

(* on strings: []rune(xpath) ... string(runes[0:pos]) *)
Definition remove_last_filter (s : bytes) : option bytes :=
  match rlf_runes (runes s) with
  | RlfSame => Some s
  | RlfPrefix n => Some (encode_runes (firstn n (runes s)))
  | _ => None
  end.

(* removeTrailingFiltersInXPath (what the two stream readers call):
     for { removed := removeLastFilterInXPath(strings.TrimRight(xpath, " \t\r\n"))
           if removed == xpath { return xpath }; xpath = removed }
   The loop is modelled on rune sequences: between iterations Go converts string(runes[0:pos])
   back with []rune(..), which is the identity on decoded runes (unicode/utf8, modelled not
   verified), and the cut set of TrimRight is ASCII, so trimming bytes = trimming runes. *)
Definition is_ws_rune (c : rune) : bool := N.eqb c 32 || N.eqb c 9 || N.eqb c 13 || N.eqb c 10.
Fixpoint drop_ws (l : list rune) : list rune :=
  match l with
  | c :: r => if is_ws_rune c then drop_ws r else l
  | [] => []
  end.
Definition trim_right_runes (rs : list rune) : list rune := rev (drop_ws (rev rs)).

Definition rlf_apply (rs : list rune) : option (list rune) :=
  match rlf_runes rs with
  | RlfSame => Some rs
  | RlfPrefix n => Some (firstn n rs)
  | _ => None
  end.

Fixpoint rtf_loop (fuel : nat) (rs : list rune) : option (list rune) :=
  match fuel with
  | O => None
  | S k =>
      match rlf_apply (trim_right_runes rs) with
      | None => None
      | Some removed => if list_eqb N.eqb removed rs then Some rs else rtf_loop k removed
      end
  end.

(* an unchanged xpath is returned as the very same string *)
Definition remove_trailing_filters (s : bytes) : option bytes :=
  match rtf_loop (length (runes s) + 1) (runes s) with
  | None => None
  | Some rs => Some (if list_eqb N.eqb rs (runes s) then s else encode_runes rs)
  end.

(* ============================================================================================ *)
(* 6. lineToColumnValue (identical in fixedlength/decl.go and flatfile/fixedlength/decl.go)      *)
(* ============================================================================================ *)
Inductive fres (A : Type) := FPanic | FOutOfFuel | FVal (a : A).
Arguments FPanic {A}. Arguments FOutOfFuel {A}. Arguments FVal {A}.

Definition wrap64 (z : Z) : Z := ((z + 9223372036854775808) mod 18446744073709551616 - 9223372036854775808)%Z.

(* line[n:] and line[:n]: out of range panics *)
Definition slice_from (l : bytes) (n : nat) : option bytes :=
  if Nat.leb n (length l) then Some (skipn n l) else None.
Definition slice_to (l : bytes) (n : nat) : option bytes :=
  if Nat.leb n (length l) then Some (firstn n l) else None.

(* for start > 0 && len(line) > 0 { _, adv := utf8.DecodeRune(line); line = line[adv:]; start-- } *)
Fixpoint chop_prefix (fuel : nat) (start : Z) (line : bytes) : fres bytes :=
  match fuel with
  | O => FOutOfFuel
  | S k =>
      if (0 <? start)%Z && Nat.ltb 0 (length line) then
        match slice_from line (snd (decode_rune line)) with
        | None => FPanic
        | Some l' => chop_prefix k (start - 1) l'
        end
      else FVal line
  end.

(* for lenCount > 0 && i < len(line) { _, adv := utf8.DecodeRune(line[i:]); i += adv; lenCount-- } *)
Fixpoint count_runes (fuel : nat) (lenCount : Z) (i : nat) (line : bytes) : fres nat :=
  match fuel with
  | O => FOutOfFuel
  | S k =>
      if (0 <? lenCount)%Z && Nat.ltb i (length line) then
        match slice_from line i with
        | None => FPanic
        | Some rest => count_runes k (lenCount - 1) (i + snd (decode_rune rest)) line
        end
      else FVal i
  end.

Definition line_to_column_value (start_pos len : Z) (line : bytes) : fres bytes :=
  match chop_prefix (length line + 1) (wrap64 (start_pos - 1)) line with
  | FPanic => FPanic
  | FOutOfFuel => FOutOfFuel
  | FVal l =>
      match count_runes (length l + 1) len 0 l with
      | FPanic => FPanic
      | FOutOfFuel => FOutOfFuel
      | FVal i => match slice_to l i with Some v => FVal v | None => FPanic end
      end
  end.

(* ============================================================================================ *)
(* 6b. integer members of file_declaration: JSON schema, then json.Unmarshal                     *)
(* ============================================================================================ *)
(* A JSON number literal as the two layers see it: whether its value is an integer and which
   (gojsonschema: "type":"integer" holds for 1.0 and 1e30), and whether its text is plain digits
   (json.Unmarshal into an int accepts only those, within int64). *)
Record intlit := mkLit { lit_integral : bool; lit_value : Z; lit_plain : bool }.
Definition int64_ok (z : Z) : bool := (-9223372036854775808 <=? z)%Z && (z <=? 9223372036854775807)%Z.
Definition unmarshal_int (l : intlit) : option Z :=
  if lit_plain l && lit_integral l && int64_ok (lit_value l) then Some (lit_value l) else None.
Definition jsonschema_int (min : option Z) (l : intlit) : bool :=
  lit_integral l && match min with Some m => (m <=? lit_value l)%Z | None => true end.
Inductive intres := IRejected | IStored (v : Z).
(* ValidateSchema of a file format: [checked] = the json.Unmarshal error is returned (Gen/Safety.v:
   <fmt>_unmarshal_checked; fix 5f762bb); unchecked, the field silently keeps its zero value *)
Definition schema_int (checked : bool) (min : option Z) (l : intlit) : intres :=
  if negb (jsonschema_int min l) then IRejected
  else match unmarshal_int l with
       | Some v => IStored v
       | None => if checked then IRejected else IStored 0
       end.

(* ============================================================================================ *)
(* 6b'. duplicated top level keys: what is validated vs what is loaded (N9)                      *)
(* ============================================================================================ *)
(* A member of the schema's root object, in text order: its key as written, the key json.Unmarshal
   folds it to (case-insensitive field matching), and whether its content passes the JSON schema
   of that section. *)
Record member := mkM { m_exact : nat; m_fold : nat; m_valid : bool }.
(* gojsonschema decodes the document first: of literally duplicated keys it sees the last *)
Definition seen (name : nat) (root : list member) : option member :=
  find (fun m => Nat.eqb (m_exact m) name) (rev root).
(* json.Unmarshal decodes every member whose folded key is the field's into the same struct, one
   over another *)
Definition loaded (fname : nat) (root : list member) : list member :=
  filter (fun m => Nat.eqb (m_fold m) fname) root.
(* checkTopLevelKeys (fix 53ef0bb): no two members with the same folded key *)
Fixpoint nodup_fold (root : list member) : bool :=
  match root with
  | [] => true
  | m :: r => negb (existsb (fun x => Nat.eqb (m_fold x) (m_fold m)) r) && nodup_fold r
  end.
(* SchemaValidate for a required section [name]; [checked] = Gen.Safety
   schema_validate_checks_top_level_keys *)
Definition section_accepted (checked : bool) (name : nat) (root : list member) : bool :=
  match seen name root with Some m => m_valid m | None => false end
  && (if checked then nodup_fold root else true).

(* ============================================================================================ *)
(* 6c. idr/query.go wrappers over the xpath engine; javascript result classification             *)
(* ============================================================================================ *)
(* What Expr.Select plus iterating the result does for a compiled expression on a tree: the engine
   panics (antchfx/xpath, e.g. a function call without node-set input), or yields n nodes. *)
Inductive engine_res := EngPanic | EngNodes (n : nat).
Inductive qres := QPanic | QBool (b : bool) | QErr | QNoMatch | QNode | QMoreThanExpected.
(* [recovering] = the deferred recover() of fix e7ccd30 is there *)
Definition match_any (recovering : bool) (e : engine_res) : qres :=
  match e with
  | EngPanic => if recovering then QBool false else QPanic
  | EngNodes n => QBool (Nat.ltb 0 n)
  end.
Definition match_single (recovering : bool) (e : engine_res) : qres :=
  match e with
  | EngPanic => if recovering then QErr else QPanic
  | EngNodes 0 => QNoMatch
  | EngNodes 1 => QNode
  | EngNodes _ => QMoreThanExpected
  end.

(* The completion value of a javascript, as far as JavaScriptWithContext distinguishes: *)
Inductive jsval :=
| JsNaNInfNullUndef      (* "result is ..." error *)
| JsGetterThrows         (* exporting runs an accessor that throws: goja panics in Export *)
| JsCyclic               (* plain objects / arrays containing themselves: Export terminates, the Go value is cyclic *)
| JsMapSetSelf           (* a Map / Set containing itself: goja's Export itself recurses for ever *)
| JsPlain.
Inductive jsres := JsErr | JsValue | JsPanicEscapes | JsFatal.
(* javascript.go after fixes 5427694 (export under recover) and 6fe2fc5 (isCyclic) *)
Definition js_result (v : jsval) : jsres :=
  match v with
  | JsNaNInfNullUndef => JsErr
  | JsGetterThrows => JsErr
  | JsCyclic => JsErr
  | JsMapSetSelf => JsFatal          (* known finding N8: no Go-side check can run first *)
  | JsPlain => JsValue
  end.
(* before them; [typed] = the declaration has a result type that the value does not convert to, so
   normalizeAndSaveValue formats it with %v *)
Definition js_result_old (typed : bool) (v : jsval) : jsres :=
  match v with
  | JsNaNInfNullUndef => JsErr
  | JsGetterThrows => JsPanicEscapes
  | JsCyclic => if typed then JsFatal else JsValue
  | JsMapSetSelf => JsFatal
  | JsPlain => JsValue
  end.

(* ============================================================================================ *)
(* 7. reads to a terminal result                                                                 *)
(* ============================================================================================ *)
Section Reads.
  Variable R : Type.
  Variable rd : R -> R * bool.        (* one Read; true = the result is terminal *)
  (* index (from 1) of the first terminal Read, if it comes within [fuel] Reads *)
  Fixpoint reads_to_terminal (fuel : nat) (r : R) : option nat :=
    match fuel with
    | O => None
    | S k => let '(r', term) := rd r in
             if term then Some 1 else option_map S (reads_to_terminal k r')
    end.
End Reads.

(* ============================================================================================ *)
(* correspondence cases                                                                          *)
(* ============================================================================================ *)
Inductive c03case :=
| CRlf (input : bytes) (observed : option bytes)              (* removeTrailingFiltersInXPath *)
| CInvoke (f : fsig) (args : list argv) (observed : N)         (* 0 error, 1 called, 2 panic *)
| CDelim (fmt : N) (delim : bytes) (accepted : bool)           (* fmt 0 = csv, 1 = csv2 *)
| CFixed (start_pos len : Z) (line observed : bytes)
| CTemplates (g : list (list (option nat))) (root : list (option nat)) (accepted : bool)
| CIntLit (fmt : N) (l : intlit) (accepted : bool)          (* 0 fixed-length by_rows, 1 csv2 rows, 2 fixedlength2 rows *)
| CCsvRun (hdr : option nat) (data lines : nat) (header_ok fault : bool) (observed : list N)
    (* old csv reader: one-line records, the header row matching or not, a clean end or a persistent
       failure after the last line; the classes of the Reads up to the terminal one *)
| CFlRun (rows lines : nat) (fault : bool) (observed : list N)   (* fixed-length by_rows *)
| CBound (input_len reads : N).

Definition READ_SLACK : N := 2.

Definition outcome_code (o : outcome) : N := match o with OErr => 0 | OCalled => 1 | OPanic => 2 end.

Definition check_case (c : c03case) : bool :=
  match c with
  | CRlf input observed =>
      match remove_trailing_filters input, observed with
      | Some out, Some o => bytes_eqb out o
      | Some _, None => true              (* nothing observable: the stripped string did not compile *)
      | None, _ => false
      end
  | CInvoke f args observed => N.eqb (outcome_code (invoke f args)) observed
  | CDelim fmt d accepted => Bool.eqb (csv_accepts_delimiter fmt d) accepted
  | CFixed s l line observed =>
      match line_to_column_value s l line with FVal v => bytes_eqb v observed | _ => false end
  | CTemplates g root accepted =>
      (* the harness numbers the declared templates 0..n-1 and FINAL_OUTPUT separately; here
         FINAL_OUTPUT becomes node 0 and template i node i+1 *)
      let n := length g in
      let sh := map (option_map (fun t => if Nat.ltb t n then S t else S n)) in
      let g' := sh root :: map sh g in
      Bool.eqb (match validate_templates g' with VOk => true | _ => false end) accepted
  | CIntLit fmt l accepted =>
      let r := if N.eqb fmt 0 then schema_int fixed_unmarshal_checked fixed_by_rows_min l
               else if N.eqb fmt 1 then schema_int csv2_unmarshal_checked csv2_rows_min l
               else schema_int fixed2_unmarshal_checked fixed2_rows_min l in
      Bool.eqb (match r with IStored _ => true | IRejected => false end) accepted
  | CCsvRun hdr data lines hok fault observed =>
      list_eqb N.eqb (csv_run (lines + 2) hdr data hok fault (mkCrd (mkCsv 0 lines) false false)) observed
  | CFlRun rows lines fault observed =>
      list_eqb N.eqb (fl_run (lines + 2) rows (mkFl lines fault)) observed
  | CBound len reads => N.leb reads (len + READ_SLACK)
  end.
