(* C05 model, line acquisition under the matcher: flatfile/{csv,fixedlength}/reader.go
   readLine / MoreUnprocessedData / readAndMatchRowsBased* / readAndMatchHeaderFooterBased*.
   A physical line is either empty (None: readLine skips it -- only a completely empty line) or a
   unit.  [buf] is linesBuf (the unprocessed lines read so far), [src] the physical lines not yet
   read.  Executable definitions only; proofs in Proofs/HierLines.v. *)
From Coq Require Import List Arith Bool.
Import ListNotations.
From OV Require Import Model.Hier.

Definition pline := option unt.

(* readLine: `for { b := ByteReadLine; if EOF return EOF; if len(b) > 0 { append; return nil } }` *)
Fixpoint read_line (src : list pline) : option (unt * list pline) :=
  match src with
  | [] => None
  | None :: r => read_line r
  | Some u :: r => Some (u, r)
  end.

(* the units of a sequence of physical lines: the non-empty ones, in order *)
Fixpoint units_of (src : list pline) : list unt :=
  match src with
  | [] => []
  | None :: r => units_of r
  | Some u :: r => u :: units_of r
  end.

(* MoreUnprocessedData *)
Definition more_unprocessed (buf : list unt) (src : list pline) : bool * list unt * list pline :=
  match buf with
  | _ :: _ => (true, buf, src)
  | [] => match read_line src with
          | None => (false, [], src)
          | Some (u, src') => (true, [u], src')
          end
  end.

(* readAndMatchRowsBased*, probing (createNode = false): `for len(linesBuf) < rows { readLine ... }` *)
Fixpoint rows_fill (k : nat) (buf : list unt) (src : list pline) (fuel : nat) : bool * list unt * list pline :=
  if k <=? length buf then (true, buf, src)
  else match fuel with
       | 0 => (false, buf, src)
       | S f => match read_line src with
                | None => (false, buf, src)       (* EOF: no match (io.EOF itself only if buf is empty) *)
                | Some (u, src') => rows_fill k (buf ++ [u]) src' f
                end
       end.

Section HeaderFooter.
  Variable hp fp : unt -> bool.    (* matchHeader / matchFooter on a line *)

  (* the footer loop of readAndMatchHeaderFooterBased*: i starts at 0 (the footer is looked for
     starting on the header line itself) *)
  Fixpoint hf_scan (fuel i : nat) (buf : list unt) (src : list pline) : option nat * list unt * list pline :=
    match fuel with
    | 0 => (None, buf, src)
    | S f =>
        match nth_error buf i with
        | None => (None, buf, src)               (* r.linesBuf[i] out of range: unreachable *)
        | Some l =>
            if fp l then (Some (S i), buf, src)
            else if length buf - 1 <=? i then
                   match read_line src with
                   | None => (None, buf, src)    (* EOF before a footer: no match, no error *)
                   | Some (u, src') => hf_scan f (S i) (buf ++ [u]) src'
                   end
                 else hf_scan f (S i) buf src
        end
    end.

  Definition hf_match (buf : list unt) (src : list pline) : option nat * list unt * list pline :=
    let '(more, buf1, src1) := more_unprocessed buf src in
    if negb more then (None, buf1, src1)
    else match buf1 with
         | l0 :: _ => if hp l0 then hf_scan (S (length buf1 + length src1)) 0 buf1 src1
                      else (None, buf1, src1)
         | [] => (None, buf1, src1)
         end.

  (* the declarative window: the record starts on a line matching the header and extends to the
     first line, from the header line on, matching the footer *)
  Fixpoint first_from (us : list unt) (i : nat) : option nat :=
    match us with
    | [] => None
    | u :: r => if fp u then Some (S i) else first_from r (S i)
    end.
  Definition window (us : list unt) : option nat :=
    match us with
    | u :: _ => if hp u then first_from us 0 else None
    | [] => None
    end.
End HeaderFooter.
