(* C04 / C17 model: the streaming readers idr/xmlreader.go and idr/jsonreader.go.
   Executable definitions only; proofs are in Proofs/Stream*.v.

   Representation.  The Go readers keep three pointers into one node tree: root, cur, stream.
   Children are only ever appended at the end of cur's child list and a closed node is never
   reopened, so cur and all its ancestors are the LAST children of their parents.  The tree is
   therefore held as a right-spine zipper: [s_stack] lists the open nodes from cur (head) up to
   the root (last), each with the children it has so far; the Go tree at any moment is the
   zipper closed up ([root_tree]).  [s_stream] says where the stream pointer is: nowhere, on the
   spine (an open candidate, identified by its depth), or the node that was just closed and
   returned (the last child of cur, or the closed root).  The xpath engine is modelled for the
   property's class of targets: a target is a predicate [pm] on the chain of element names from
   the root to a node plus a predicate [pred] on that node's own subtree; "the nodes the xpath
   selects" is [sel], evaluated - as the Go code does - on the WHOLE tree from the root.

   Abstracted: namespace resolution of XML names (space2prefix map; tokens carry the resolved
   prefix/URI the reader stores, C08/C11 own that), line counting, the node pool (C12). *)
From Coq Require Import List NArith Bool Arith String.
From Coq.Strings Require Import Byte.
Import ListNotations.
From OV Require Import Base.Bytes Base.Cases Base.Tree Gen.StreamSplit.

(* ---- names and selection -------------------------------------------------------------------- *)
(* What an xpath name test sees of a node: navigator.Prefix() and navigator.LocalName(). *)
Definition name := (bytes * bytes)%type.
Definition name_eqb (a b : name) : bool := bytes_eqb (fst a) (fst b) && bytes_eqb (snd a) (snd b).
Definition fs_prefix (f : fspec) : bytes := match f with FXml p _ => p | _ => [] end.
Definition node_name (t : tree) : name := (fs_prefix (t_fs t), t_data t).

Definition path := list nat.
Definition path_eqb (a b : path) : bool := list_eqb Nat.eqb a b.

Definition is_element (t : tree) : bool :=
  match t_type t with ElementNode => true | _ => false end.

Section Select.
  Variable pm : list name -> bool.   (* the path part, on the ancestor-or-self element-name chain *)
  Variable pred : tree -> bool.      (* the final-step predicates, on the node's own subtree *)

  (* All nodes of [t] selected by the target, in document order, with their position.  [chain]
     and [pos] are the name chain and the child-index path of [t] itself.  Only the root and
     element nodes are visited: the class selects elements (or the document node). *)
  Fixpoint sel (chain : list name) (pos : path) (t : tree) {struct t} : list (path * tree) :=
    let 'T ty d f ks := t in
    (if pm chain && pred (T ty d f ks) then [(pos, T ty d f ks)] else []) ++
    (fix go (i : nat) (l : list tree) {struct l} : list (path * tree) :=
       match l with
       | [] => []
       | k :: r => (if is_element k then sel (chain ++ [node_name k]) (pos ++ [i]) k else [])
                   ++ go (S i) r
       end) 0 ks.

  Fixpoint sel_kids (chain : list name) (pos : path) (i : nat) (l : list tree) : list (path * tree) :=
    match l with
    | [] => []
    | k :: r => (if is_element k then sel (chain ++ [node_name k]) (pos ++ [i]) k else [])
                ++ sel_kids chain pos (S i) r
    end.
End Select.

Definition ptrue (_ : tree) : bool := true.

(* idr.MatchAny(root, expr): the query yields at least one node. *)
Definition match_any (pm : list name -> bool) (pred : tree -> bool) (root : tree) : bool :=
  negb (match sel pm pred [] [] root with [] => true | _ => false end).
(* idr.matchNode(root, expr, target): target (identified by its position) is among the results. *)
Definition match_node (pm : list name -> bool) (pred : tree -> bool) (root : tree) (p : path) : bool :=
  existsb (fun x => path_eqb (fst x) p) (sel pm pred [] [] root).

(* Whole-document selection, reduced to outermost matches of the path part, then filtered. *)
Fixpoint is_prefix (a b : path) : bool :=
  match a, b with
  | [], _ => true
  | x :: a', y :: b' => Nat.eqb x y && is_prefix a' b'
  | _, _ => false
  end.
Definition proper_prefix (a b : path) : bool := is_prefix a b && negb (path_eqb a b).
Definition outermost (l : list (path * tree)) : list (path * tree) :=
  filter (fun x => negb (existsb (fun y => proper_prefix (fst y) (fst x)) l)) l.
Definition select (pm : list name -> bool) (doc : tree) : list (path * tree) := sel pm ptrue [] [] doc.
Definition whole_doc_selection (pm : list name -> bool) (pred : tree -> bool) (doc : tree) : list tree :=
  map snd (filter (fun x => pred (snd x)) (outermost (select pm doc))).

(* The same thing written as a recursion over the document: stop at the first node on the path. *)
Section Spec.
  Variable pm : list name -> bool.
  Variable pred : tree -> bool.
  Fixpoint spec (chain : list name) (t : tree) {struct t} : list tree :=
    let 'T ty d f ks := t in
    if pm chain then (if pred (T ty d f ks) then [T ty d f ks] else [])
    else (fix go (l : list tree) {struct l} : list tree :=
            match l with
            | [] => []
            | k :: r => (if is_element k then spec (chain ++ [node_name k]) k else []) ++ go r
            end) ks.
  Fixpoint spec_kids (chain : list name) (l : list tree) : list tree :=
    match l with
    | [] => []
    | k :: r => (if is_element k then spec (chain ++ [node_name k]) k else []) ++ spec_kids chain r
    end.

  (* What stays in the tree of a node that is not itself on the path: its subtree with every
     outermost node on the path removed (delivered-and-released, or rejected-and-removed). *)
  Fixpoint prune (chain : list name) (t : tree) {struct t} : tree :=
    let 'T ty d f ks := t in
    T ty d f ((fix go (l : list tree) {struct l} : list tree :=
                 match l with
                 | [] => []
                 | k :: r => if is_element k
                             then (if pm (chain ++ [node_name k]) then go r
                                   else prune (chain ++ [node_name k]) k :: go r)
                             else k :: go r
                 end) ks).
  Fixpoint prune_kids (chain : list name) (l : list tree) : list tree :=
    match l with
    | [] => []
    | k :: r => if is_element k
                then (if pm (chain ++ [node_name k]) then prune_kids chain r
                      else prune (chain ++ [node_name k]) k :: prune_kids chain r)
                else k :: prune_kids chain r
    end.
End Spec.

(* ---- the zipper ------------------------------------------------------------------------------ *)
Record frame := mkF { f_ty : ntype; f_data : bytes; f_fs : fspec; f_kids : list tree }.
Definition close_frame (f : frame) : tree := T (f_ty f) (f_data f) (f_fs f) (f_kids f).
Definition add_kid (f : frame) (t : tree) : frame :=
  mkF (f_ty f) (f_data f) (f_fs f) (f_kids f ++ [t]).
Definition drop_last_kid (f : frame) : frame :=
  mkF (f_ty f) (f_data f) (f_fs f) (removelast (f_kids f)).
Definition set_fs (f : frame) (fs : fspec) : frame := mkF (f_ty f) (f_data f) fs (f_kids f).

Inductive sptr :=
| SNone                (* sp.stream == nil *)
| SOpen (depth : nat)  (* sp.stream is the open node that has [depth] nodes on the spine from the
                          root down to and including itself *)
| SClosed.             (* sp.stream is the node just closed: last child of cur, or the closed root *)

(* [s_stack] = [] means sp.cur == nil (the root itself was closed); [s_done] is then the closed
   root while it is still alive. *)
Record state := mkS { s_stack : list frame; s_done : option tree; s_stream : sptr }.
Definition set_stream (st : state) (p : sptr) : state := mkS (s_stack st) (s_done st) p.

Fixpoint zip_up (stack : list frame) (below : option tree) : option tree :=
  match stack with
  | [] => below
  | f :: r => zip_up r (Some (T (f_ty f) (f_data f) (f_fs f)
                                (f_kids f ++ match below with Some t => [t] | None => [] end)))
  end.
(* The tree hanging off sp.root right now. *)
Definition root_tree (st : state) : option tree :=
  match s_stack st with [] => s_done st | _ => zip_up (s_stack st) None end.
Definition retained (st : state) : nat :=
  match root_tree st with Some t => tree_size t | None => 0 end.

(* Position of the next child that would be appended below the node on top of [stack]. *)
Definition next_child_pos (stack : list frame) : path :=
  map (fun f => List.length (f_kids f)) (rev stack).
(* Name chain of the node on top of [stack]; the root (document node) contributes nothing. *)
Definition chain_of (stack : list frame) : list name :=
  map (fun f => (fs_prefix (f_fs f), f_data f)) (tl (rev stack)).

Definition push (fr : frame) (st : state) : state := mkS (fr :: s_stack st) None (s_stream st).

Inductive stepres :=
| RCont (st : state)
| RDeliver (t : tree) (size : nat) (st : state)  (* parse() returns sp.stream; size = nodes reachable
                                                   from it through parent links at that moment *)
| RErr                                           (* parse() returns an error *)
| RPanic.                                        (* nil dereference / failed type assertion *)

(* xml.Decoder.Token as the reader uses it: names already resolved to (local, prefix/URI). *)
Inductive xtoken :=
| XStart (nm : bytes) (fs : fspec) (attrs : list (bytes * fspec * bytes))
| XEnd
| XText (s : bytes).


(* json.Decoder.Token: delimiters, strings (keys and values), float64 (here: already formatted
   by strconv.FormatFloat(v,'f',-1,64)), bool, nil. *)
Inductive jtoken :=
| JOpenObj | JCloseObj | JOpenArr | JCloseArr
| JStrT (s : bytes) | JNumT (s : bytes) | JBoolT (b : bool) | JNullT.


Inductive final := FEOF | FErr | FPanic | FUnmodelled.

Section Reader.
  Variable pm : list name -> bool.
  Variable pred : tree -> bool.
  Variable has_filter : bool.  (* sp.xpathFilterExpr != nil *)
  Variable old_check : bool.   (* true = the pre-F13 closing check MatchAny(root, full xpath) *)

  (* streamCandidateCheck: sp.xpathExpr != nil (always, the xpath compiled) && sp.stream == nil &&
     MatchAny(sp.root, sp.xpathExpr) -> sp.stream = sp.cur.  Note that the question asked is about
     the whole tree, not about cur. *)
  Definition candidate_check (st : state) : state :=
    match s_stream st with
    | SNone =>
        match root_tree st with
        | Some root => if match_any pm ptrue root then set_stream st (SOpen (List.length (s_stack st))) else st
        | None => st
        end
    | _ => st
    end.

  (* RemoveAndReleaseTree(sp.stream); sp.stream = nil, for the closed stream node. *)
  Definition remove_closed (st : state) : state :=
    match s_stack st with
    | [] => mkS [] None SNone
    | p :: up => mkS (drop_last_kid p :: up) None SNone
    end.

  (* wrapUpCurAndTargetCheck *)
  Definition wrap_up (st : state) : stepres :=
    match s_stack st with
    | [] => RPanic                                   (* sp.cur.Parent with sp.cur == nil *)
    | f :: rest =>
        let t := close_frame f in
        let is_stream := match s_stream st with
                         | SOpen k => Nat.eqb k (List.length (s_stack st))
                         | _ => false
                         end in
        let st1 := match rest with                   (* sp.cur = sp.cur.Parent *)
                   | [] => mkS [] (Some t) (s_stream st)
                   | p :: up => mkS (add_kid p t :: up) None (s_stream st)
                   end in
        if negb is_stream then RCont st1
        else
          let ok := negb has_filter ||
                    match root_tree st1 with
                    | Some root => if old_check then match_any pm pred root
                                   else match_node pm pred root (next_child_pos rest)
                    | None => false
                    end in
          if ok then RDeliver t (retained st1) (set_stream st1 SClosed)
          else RCont (remove_closed st1)
    end.

  (* Read() prologue: if sp.stream != nil { RemoveAndReleaseTree(sp.stream); sp.stream = nil }.
     An open candidate cannot be current here unless a previous parse() ended in an error in the
     middle of a candidate; that history is outside the model (None). *)
  Definition read_prologue (st : state) : option state :=
    match s_stream st with
    | SNone => Some st
    | SClosed => Some (remove_closed st)
    | SOpen _ => None
    end.
  (* Release(n) for the node the last Read returned: if n == sp.stream { sp.stream = nil };
     RemoveAndReleaseTree(n). *)
  Definition release (st : state) : option state :=
    match s_stream st with
    | SClosed => Some (remove_closed st)
    | _ => None
    end.

  (* ---- idr/xmlreader.go ------------------------------------------------------------------- *)
  Definition text_node (s : bytes) : tree := T TextNode s (FXml [] []) [].
  Definition attr_node (a : bytes * fspec * bytes) : tree :=
    let '(n, f, v) := a in T AttributeNode n f [text_node v].

  (* addTextChild: a text node appended below cur; cur stays *)
  Definition add_text (st : state) (t : tree) : state :=
    match s_stack st with
    | [] => st
    | f :: r => mkS (add_kid f t :: r) None (s_stream st)
    end.
  (* sp.cur = sp.cur.Parent *)
  Definition back_off (st : state) : state :=
    match s_stack st with
    | f :: p :: up => mkS (add_kid p (close_frame f) :: up) None (s_stream st)
    | [f] => mkS [] (Some (close_frame f)) (s_stream st)
    | [] => st
    end.
  (* one turn of the attribute loop of parse(): addNonTextChild(AttributeNode, attr.Name) makes the
     attribute node cur, addTextChild(attr.Value) hangs the value below it - also when the value is
     empty -, then cur goes back to the element *)
  Definition add_attr (st : state) (a : bytes * fspec * bytes) : state :=
    let '(n, f, v) := a in
    back_off (add_text (push (mkF AttributeNode n f []) st) (text_node v)).
  (* case xml.StartElement: the element becomes cur, the attribute loop, streamCandidateCheck *)
  Definition xstart (st : state) (nm : bytes) (fs : fspec) (attrs : list (bytes * fspec * bytes)) : state :=
    candidate_check (fold_left add_attr attrs (push (mkF ElementNode nm fs []) st)).

  Definition xstep (st : state) (tk : xtoken) : stepres :=
    match tk with
    | XStart nm fs attrs =>
        match s_stack st with
        | [] => RPanic                               (* AddChild(sp.cur == nil, ...) *)
        | _ => RCont (xstart st nm fs attrs)
        end
    | XEnd => wrap_up st
    | XText s =>
        match s_stack st with
        | [] => RPanic
        | f :: r => RCont (mkS (add_kid f (text_node s) :: r) None (s_stream st))
        end
    end.

  (* Read to EOF.  [rel] says, per delivery, whether the caller calls Release before the next
     Read (the next Read removes the node anyway).  Tokens are what xml.Decoder.Token returns,
     Start/End/CharData only (comments, directives and processing instructions fall through the
     switch); after the last token the decoder returns io.EOF. *)
  Fixpoint xrun (st : state) (rel : list bool) (toks : list xtoken) : list (tree * nat) * final :=
    match toks with
    | [] => ([], FEOF)
    | tk :: r =>
        match xstep st tk with
        | RPanic => ([], FPanic)
        | RErr => ([], FErr)
        | RCont st' => xrun st' rel r
        | RDeliver t n st' =>
            let st1 := if hd false rel then release st' else Some st' in
            match match st1 with Some s => read_prologue s | None => None end with
            | None => ([(t, n)], FUnmodelled)
            | Some st2 => let '(ds, fin) := xrun st2 (tl rel) r in ((t, n) :: ds, fin)
            end
        end
    end.

  (* ---- idr/jsonreader.go ------------------------------------------------------------------ *)
  Definition J_ROOT : N := 1. Definition J_OBJ : N := 2. Definition J_ARR : N := 4.
  Definition J_PROP : N := 8. Definition J_STR : N := 16. Definition J_NUM : N := 32.
  Definition J_BOOL : N := 64. Definition J_NULL : N := 128.

  Definition jflag (bit : N) (f : frame) : bool :=
    match f_fs f with FJson n => negb (N.eqb (N.land n bit) 0) | _ => false end.
  (* JSONTypeOf(sp.cur) | bit *)
  Definition jor (bit : N) (f : frame) : frame :=
    match f_fs f with FJson n => set_fs f (FJson (N.lor n bit)) | _ => f end.

  Definition b_true : bytes := [x74; x72; x75; x65].
  Definition b_false : bytes := [x66; x61; x6c; x73; x65].
  (* addTextChild *)
  Definition jtext (tk : jtoken) : option tree :=
    match tk with
    | JStrT s => Some (T TextNode s (FJson J_STR) [])
    | JNumT s => Some (T TextNode s (FJson J_NUM) [])
    | JBoolT b => Some (T TextNode (if b then b_true else b_false) (FJson J_BOOL) [])
    | JNullT => Some (T TextNode [] (FJson J_NULL) [])
    | _ => None
    end.
  Definition map_cur (g : frame -> frame) (st : state) : state :=
    match s_stack st with
    | [] => st
    | f :: r => mkS (g f :: r) None (s_stream st)
    end.

  Definition jstep (st : state) (tk : jtoken) : stepres :=
    match s_stack st with
    | [] => RErr      (* sp.cur == nil: "unexpected token after top-level value" *)
    | cur :: _ =>
        match tk with
        | JOpenObj =>
            if jflag J_ARR cur then
              RCont (candidate_check (push (mkF ElementNode [] (FJson J_OBJ) []) st))
            else if jflag J_PROP cur then RCont (map_cur (jor J_OBJ) st)
            else if jflag J_ROOT cur then RCont (candidate_check (map_cur (jor J_OBJ) st))
            else RCont st
        | JOpenArr =>
            if jflag J_ARR cur then
              RCont (candidate_check (push (mkF ElementNode [] (FJson J_ARR) []) st))
            else if jflag J_PROP cur then RCont (map_cur (jor J_ARR) st)
            else if jflag J_ROOT cur then RCont (candidate_check (map_cur (jor J_ARR) st))
            else RCont st
        | JCloseObj | JCloseArr => wrap_up st
        | _ =>
            match jtext tk with
            | None => RCont st
            | Some txt =>
                if jflag J_OBJ cur then
                  match tk with
                  | JStrT s => RCont (candidate_check (push (mkF ElementNode s (FJson J_PROP) []) st))
                  | _ => RPanic                      (* tok.(string) on a non-string *)
                  end
                else if jflag J_ARR cur then
                  wrap_up (add_text (candidate_check (push (mkF ElementNode [] (FJson J_PROP) []) st)) txt)
                else if jflag J_PROP cur then wrap_up (add_text st txt)
                else if jflag J_ROOT cur then wrap_up (add_text (candidate_check st) txt)
                else RCont st
            end
        end
    end.

  Fixpoint jrun (st : state) (rel : list bool) (toks : list jtoken) : list (tree * nat) * final :=
    match toks with
    | [] => ([], FEOF)
    | tk :: r =>
        match jstep st tk with
        | RPanic => ([], FPanic)
        | RErr => ([], FErr)
        | RCont st' => jrun st' rel r
        | RDeliver t n st' =>
            let st1 := if hd false rel then release st' else Some st' in
            match match st1 with Some s => read_prologue s | None => None end with
            | None => ([(t, n)], FUnmodelled)
            | Some st2 => let '(ds, fin) := jrun st2 (tl rel) r in ((t, n) :: ds, fin)
            end
        end
    end.
End Reader.

(* NewXMLStreamReader / NewJSONStreamReader *)
Definition x_init : state := mkS [mkF DocumentNode [] (FXml [] []) []] None SNone.
Definition j_init : state := mkS [mkF DocumentNode [] (FJson 1) []] None SNone.

(* ---- documents -------------------------------------------------------------------------------- *)
(* XML: element with resolved name, attributes, content; character data.  [xtree] is the node
   tree the reader builds for it when nothing is pruned, [xevents] the decoder's token stream. *)
Inductive xnode :=
| XE (nm : bytes) (fs : fspec) (attrs : list (bytes * fspec * bytes)) (kids : list xnode)
| XT (s : bytes).

Fixpoint xtree (x : xnode) : tree :=
  match x with
  | XE nm fs attrs kids => T ElementNode nm fs (map attr_node attrs ++ map xtree kids)
  | XT s => text_node s
  end.
Fixpoint xevents (x : xnode) : list xtoken :=
  match x with
  | XE nm fs attrs kids => XStart nm fs attrs :: flat_map xevents kids ++ [XEnd]
  | XT s => [XText s]
  end.
Definition xdoc_tree (content : list xnode) : tree :=
  T DocumentNode [] (FXml [] []) (map xtree content).
Definition xdoc_events (content : list xnode) : list xtoken := flat_map xevents content.

(* JSON: a value with the key it has in its parent (ignored for array members and the root). *)
Inductive jnode :=
| JS (key : bytes) (tok : jtoken)          (* scalar; tok is JStrT/JNumT/JBoolT/JNullT *)
| JO (key : bytes) (members : list jnode)
| JA (key : bytes) (members : list jnode).

Definition jscalar_tok (tk : jtoken) : bool :=
  match tk with JStrT _ | JNumT _ | JBoolT _ | JNullT => true | _ => false end.
Definition jtext_or_null (tk : jtoken) : tree :=
  match jtext tk with Some t => t | None => T TextNode [] (FJson J_NULL) [] end.

(* [keyed] = the parent is an object.  [base] = the flags the node has apart from obj/arr. *)
Fixpoint jkid (keyed : bool) (j : jnode) : tree :=
  match j with
  | JS k tk => T ElementNode (if keyed then k else []) (FJson J_PROP) [jtext_or_null tk]
  | JO k ms => T ElementNode (if keyed then k else [])
                 (FJson (if keyed then N.lor J_PROP J_OBJ else J_OBJ)) (map (jkid true) ms)
  | JA k ms => T ElementNode (if keyed then k else [])
                 (FJson (if keyed then N.lor J_PROP J_ARR else J_ARR)) (map (jkid false) ms)
  end.
Definition jdoc_tree (j : jnode) : tree :=
  match j with
  | JS _ tk => T DocumentNode [] (FJson J_ROOT) [jtext_or_null tk]
  | JO _ ms => T DocumentNode [] (FJson (N.lor J_ROOT J_OBJ)) (map (jkid true) ms)
  | JA _ ms => T DocumentNode [] (FJson (N.lor J_ROOT J_ARR)) (map (jkid false) ms)
  end.
Fixpoint jevents (keyed : bool) (j : jnode) : list jtoken :=
  (if keyed then [JStrT (match j with JS k _ | JO k _ | JA k _ => k end)] else []) ++
  match j with
  | JS _ tk => [tk]
  | JO _ ms => JOpenObj :: flat_map (jevents true) ms ++ [JCloseObj]
  | JA _ ms => JOpenArr :: flat_map (jevents false) ms ++ [JCloseArr]
  end.
Fixpoint jwf (j : jnode) : bool :=
  match j with
  | JS _ tk => jscalar_tok tk
  | JO _ ms | JA _ ms => forallb jwf ms
  end.
Definition jdoc_events (j : jnode) : list jtoken := jevents false j.

(* ---- targets of the property's class, concrete syntax and meaning --------------------------- *)
Inductive nametest := NTAny | NTName (prefix local : bytes).
Inductive axis := Child | Desc.   (* "/" and "//" *)

Inductive pexp :=
| PChildEq (nt : nametest) (v : bytes)      (* x='v'      *)
| PAttrEq (a : name) (v : bytes)            (* @a='v'     *)
| PSelfEq (v : bytes)                       (* .='v'      *)
| PTextEq (v : bytes)                       (* text()='v' *)
| PDescEq (nt : nametest) (v : bytes)       (* .//x='v': the engine includes the node itself *)
| PHasChild (nt : nametest)                 (* x          *)
| PHasAttr (a : name)                       (* @a         *)
| PChildPred (nt : nametest) (p : pexp)     (* x[p]       *)
| PAttrEqChild (a : name) (nt : nametest)   (* @a=x: an attribute compared with the FIRST x child's value *)
| PChildPosEq (nt : nametest) (i : nat) (v : bytes)  (* x[i]='v', i written as one digit (1..4) *)
| PCount (nt : nametest) (n : nat)          (* count(x)=n, n written as one digit (0..4) *)
| PAnd (p q : pexp) | POr (p q : pexp) | PNot (p : pexp).

Record target := mkTarget { t_steps : list (axis * nametest); t_filters : list pexp }.

Definition nt_match (nt : nametest) (n : name) : bool :=
  match nt with NTAny => true | NTName p l => name_eqb (p, l) n end.

(* The engine's reading of the path part (antchfx/xpath v1.1.11, observed): a child step consumes
   one element of the chain; "//nt" selects, from the node the previous step stopped at, that
   node itself or any descendant element whose name passes nt (the engine folds
   descendant-or-self::node()/child::nt into descendant-or-self::nt). *)
Fixpoint pm_steps_from (steps : list (axis * nametest)) (prev : option name) (chain : list name)
  {struct steps} : bool :=
  match steps with
  | [] => match chain with [] => true | _ => false end
  | (Child, nt) :: r =>
      match chain with [] => false | c :: cs => nt_match nt c && pm_steps_from r (Some c) cs end
  | (Desc, nt) :: r =>
      (match prev with Some p => nt_match nt p && pm_steps_from r prev chain | None => false end)
      || (fix skip (ch : list name) : bool :=
            match ch with
            | [] => false
            | c :: cs => (nt_match nt c && pm_steps_from r (Some c) cs) || skip cs
            end) chain
  end.
Definition pm_steps (steps : list (axis * nametest)) (chain : list name) : bool :=
  pm_steps_from steps None chain.

Definition is_attr_node (t : tree) : bool :=
  match t_type t with AttributeNode => true | _ => false end.
Definition is_text_node (t : tree) : bool :=
  match t_type t with TextNode => true | _ => false end.

Fixpoint desc_elems (t : tree) : list tree :=
  let 'T _ _ _ ks := t in
  (fix go (l : list tree) : list tree :=
     match l with
     | [] => []
     | k :: r => (if is_element k then k :: desc_elems k else []) ++ go r
     end) ks.

Fixpoint pred_of (p : pexp) (t : tree) {struct p} : bool :=
  match p with
  | PChildEq nt v => existsb (fun k => is_element k && nt_match nt (node_name k) && bytes_eqb (inner_text k) v) (t_kids t)
  | PAttrEq a v => existsb (fun k => is_attr_node k && name_eqb a (node_name k) && bytes_eqb (inner_text k) v) (t_kids t)
  | PSelfEq v => bytes_eqb (inner_text t) v
  | PTextEq v => existsb (fun k => is_text_node k && bytes_eqb (t_data k) v) (t_kids t)
  | PDescEq nt v => existsb (fun k => nt_match nt (node_name k) && bytes_eqb (inner_text k) v) (t :: desc_elems t)
  | PHasChild nt => existsb (fun k => is_element k && nt_match nt (node_name k)) (t_kids t)
  | PHasAttr a => existsb (fun k => is_attr_node k && name_eqb a (node_name k)) (t_kids t)
  | PChildPred nt q => existsb (fun k => is_element k && nt_match nt (node_name k) && pred_of q k) (t_kids t)
  | PAttrEqChild a nt =>
      (* the engine compares the FIRST node of either node-set only (antchfx cmpNodeSetNodeSet) *)
      match find (fun x => is_attr_node x && name_eqb a (node_name x)) (t_kids t),
            find (fun k => is_element k && nt_match nt (node_name k)) (t_kids t) with
      | Some x, Some k => bytes_eqb (inner_text x) (inner_text k)
      | _, _ => false
      end
  | PChildPosEq nt i v =>
      match i with
      | O => false
      | S j => match nth_error (filter (fun k => is_element k && nt_match nt (node_name k)) (t_kids t)) j with
               | Some k => bytes_eqb (inner_text k) v
               | None => false
               end
      end
  | PCount nt n => Nat.eqb (List.length (filter (fun k => is_element k && nt_match nt (node_name k)) (t_kids t))) n
  | PAnd a b => pred_of a t && pred_of b t
  | POr a b => pred_of a t || pred_of b t
  | PNot a => negb (pred_of a t)
  end.
Definition preds_of (ps : list pexp) (t : tree) : bool := forallb (fun p => pred_of p t) ps.

(* rendering *)
Definition bs (s : string) : bytes := list_byte_of_string s.
Definition render_name (n : name) : bytes :=
  match fst n with [] => snd n | p => p ++ bs ":" ++ snd n end.
Definition render_nt (nt : nametest) : bytes :=
  match nt with NTAny => bs "*" | NTName p l => render_name (p, l) end.
(* the two quote characters of the backward scan, extracted from idr/util.go (Gen/StreamSplit.v) *)
Definition Q1 : byte := gen_quote1.  (* single quote *)
Definition Q2 : byte := gen_quote2.  (* double quote *)
Definition quote (v : bytes) : bytes :=
  if existsb (Byte.eqb Q1) v then Q2 :: v ++ [Q2] else Q1 :: v ++ [Q1].
Definition digit (n : nat) : bytes :=
  match n with 0 => bs "0" | 1 => bs "1" | 2 => bs "2" | 3 => bs "3" | 4 => bs "4" | _ => bs "9" end.
(* operands of and/or are parenthesised only when they are and/or themselves, so that a predicate
   can begin with an attribute test: [@type='web' and status='ok'] *)
Definition is_compound (p : pexp) : bool := match p with PAnd _ _ | POr _ _ => true | _ => false end.
Definition wrap_paren (c : bool) (s : bytes) : bytes := if c then bs "(" ++ s ++ bs ")" else s.
Fixpoint render_pexp (p : pexp) : bytes :=
  match p with
  | PChildEq nt v => render_nt nt ++ bs "=" ++ quote v
  | PAttrEq a v => bs "@" ++ render_name a ++ bs "=" ++ quote v
  | PSelfEq v => bs ".=" ++ quote v
  | PTextEq v => bs "text()=" ++ quote v
  | PDescEq nt v => bs ".//" ++ render_nt nt ++ bs "=" ++ quote v
  | PHasChild nt => render_nt nt
  | PHasAttr a => bs "@" ++ render_name a
  | PChildPred nt q => render_nt nt ++ bs "[" ++ render_pexp q ++ bs "]"
  | PAttrEqChild a nt => bs "@" ++ render_name a ++ bs "=" ++ render_nt nt
  | PChildPosEq nt i v => render_nt nt ++ bs "[" ++ digit i ++ bs "]=" ++ quote v
  | PCount nt n => bs "count(" ++ render_nt nt ++ bs ")=" ++ digit n
  | PAnd a b => wrap_paren (is_compound a) (render_pexp a) ++ bs " and " ++ wrap_paren (is_compound b) (render_pexp b)
  | POr a b => wrap_paren (is_compound a) (render_pexp a) ++ bs " or " ++ wrap_paren (is_compound b) (render_pexp b)
  | PNot a => bs "not(" ++ render_pexp a ++ bs ")"
  end.
Definition render_steps (steps : list (axis * nametest)) : bytes :=
  match steps with
  | [] => bs "."
  | _ => flat_map (fun s => (match fst s with Child => bs "/" | Desc => bs "//" end) ++ render_nt (snd s)) steps
  end.
Definition render_filters (ps : list pexp) : bytes :=
  flat_map (fun p => bs "[" ++ render_pexp p ++ bs "]") ps.
Definition render_target (tg : target) : bytes := render_steps (t_steps tg) ++ render_filters (t_filters tg).

(* ---- idr/util.go: removeLastFilterInXPath ---------------------------------------------------- *)
(* The Go code scans the runes backwards for ASCII brackets and quotes; on valid UTF-8 that is
   the same scan over bytes.  [l] is the reversed text still to scan, [bracket] the Go counter,
   [q] the quote being skipped.  Result: the reversed prefix before the matching '['. *)
Definition LB : byte := gen_open_bracket. Definition RB : byte := gen_close_bracket.  (* extracted *)
Fixpoint rlf_scan (l : list byte) (bracket : nat) (q : option byte) : option (list byte) :=
  match l with
  | [] => None                                        (* goto fail / loop ends *)
  | c :: r =>
      match q with
      | Some qc => if Byte.eqb c qc then rlf_scan r bracket None else rlf_scan r bracket q
      | None =>
          if Byte.eqb c Q1 || Byte.eqb c Q2 then rlf_scan r bracket (Some c)
          else if Byte.eqb c LB then
                 match bracket with
                 | 1 => Some r
                 | _ => rlf_scan r (pred bracket) None
                 end
          else if Byte.eqb c RB then rlf_scan r (S bracket) None
          else rlf_scan r bracket None
      end
  end.
Definition remove_last_filter (x : bytes) : bytes :=
  match rev x with
  | c :: r => if Byte.eqb c RB then match rlf_scan r 1 None with Some p => rev p | None => x end else x
  | [] => x
  end.

(* removeTrailingFiltersInXPath (F21 repair): strip the last filter of the right-trimmed text until
   nothing changes.  The Go loop is unbounded; here it is fuelled (None = out of fuel), and the
   fuel given by [remove_trailing_filters] is never exhausted (Proofs: rtf_fuel_enough). *)
Definition is_ws (c : byte) : bool := existsb (Byte.eqb c) gen_trim_cutset.  (* strings.TrimRight cutset, extracted *)
Fixpoint drop_ws (l : list byte) : list byte :=
  match l with
  | c :: r => if is_ws c then drop_ws r else l
  | [] => []
  end.
Definition trim_right (x : bytes) : bytes := rev (drop_ws (rev x)).
Fixpoint rtf (fuel : nat) (x : bytes) : option bytes :=
  match fuel with
  | O => None
  | S n => let removed := remove_last_filter (trim_right x) in
           if bytes_eqb removed x then Some x else rtf n removed
  end.
Definition remove_trailing_filters (x : bytes) : option bytes := rtf (S (S (List.length x))) x.

(* What New*StreamReader derives from the (already trimmed) xpath text: the text used for the
   candidate check and whether a closing check is installed (xpathStr != xpathNoFilterStr). *)
Definition split_filter (x : bytes) : option (bytes * bool) :=
  match remove_trailing_filters x with
  | Some nf => Some (nf, negb (bytes_eqb x nf))
  | None => None
  end.
(* which of the two a reader uses is extracted from New*StreamReader (Gen/StreamSplit.v) *)
Definition split_filter_by (fn : gen_splitfn) (x : bytes) : option (bytes * bool) :=
  match fn with
  | GenSplitTrailing => split_filter x
  | GenSplitLast => let nf := remove_last_filter x in Some (nf, negb (bytes_eqb x nf))
  end.
(* before the F21 repair: only the last filter was stripped *)
Definition split_filter_old (x : bytes) : bytes * bool :=
  let nf := remove_last_filter x in (nf, negb (bytes_eqb x nf)).

(* Union targets "alt1 | alt2 | main[filters]": further path parts before the main one (so that
   the filters, if any, are trailing).  Without filters a union is inside the class of the
   theorems - its path predicate is the disjunction; with filters the final predicate would
   depend on the branch, which the class does not cover: those cases are compared on the
   implementation only. *)
Definition pm_of_steps := pm_steps.
Definition render_alts (alts : list (list (axis * nametest))) : bytes :=
  flat_map (fun a => render_steps a ++ bs " | ") alts.
Definition pm_union (alts : list (list (axis * nametest))) (tg : target) (c : list name) : bool :=
  existsb (fun a => pm_steps a c) alts || pm_of_steps (t_steps tg) c.

(* ---- correspondence cases ---------------------------------------------------------------------- *)
Definition pm_of (tg : target) : list name -> bool := pm_steps (t_steps tg).
Definition pred_target (tg : target) : tree -> bool := preds_of (t_filters tg).

Inductive fin_obs := ObsEOF | ObsErr.
Definition fin_matches (f : final) (o : fin_obs) : bool :=
  match f, o with FEOF, ObsEOF | FErr, ObsErr => true | _, _ => false end.

Definition deliv_eqb (a b : tree * nat) : bool := tree_eqb (fst a) (fst b) && Nat.eqb (snd a) (snd b).

Record xcase := mkXCase {
  xc_doc : list xnode;            (* the generated document *)
  xc_tokens : list xtoken;        (* what an independent xml.Decoder returned for its text *)
  xc_target : target;
  xc_alts : list (list (axis * nametest));  (* union branches before the main path; [] = no union *)
  xc_xpath : bytes;               (* the xpath text given to NewXMLStreamReader *)
  xc_rel : list bool;             (* Release called after the k-th delivery? *)
  xc_deliv : list (tree * nat);   (* snapshots at delivery time, with the reachable tree size *)
  xc_fin : fin_obs;
}.

Definition xtoken_eqb (a b : xtoken) : bool :=
  match a, b with
  | XStart n f at1, XStart n' f' at2 =>
      bytes_eqb n n' && fspec_eqb f f' &&
      list_eqb (fun x y => bytes_eqb (fst (fst x)) (fst (fst y)) && fspec_eqb (snd (fst x)) (snd (fst y))
                           && bytes_eqb (snd x) (snd y)) at1 at2
  | XEnd, XEnd => true
  | XText s, XText s' => bytes_eqb s s'
  | _, _ => false
  end.

Definition check_xcase (c : xcase) : bool :=
  let tg := xc_target c in
  match split_filter_by gen_xml_splitfn (xc_xpath c) with None => false | Some (nf, hasf) =>
  (* the tokenizer model: the token stream is the one the document determines *)
  list_eqb xtoken_eqb (xdoc_events (xc_doc c)) (xc_tokens c)
  (* the target term and the xpath text are the same target; the split is the code's split *)
  && bytes_eqb (render_alts (xc_alts c) ++ render_target tg) (xc_xpath c)
  && bytes_eqb nf (render_alts (xc_alts c) ++ render_steps (t_steps tg))
  && (match xc_alts c, t_filters tg with _ :: _, _ :: _ => false | _, _ => true end)
  && Bool.eqb hasf (negb (match t_filters tg with [] => true | _ => false end))
  (* the reader model, run on the same tokens, delivers the same snapshots *)
  && (let pm := pm_union (xc_alts c) tg in
      let '(ds, fin) := xrun pm (pred_target tg) hasf false x_init (xc_rel c) (xc_tokens c) in
      list_eqb deliv_eqb ds (xc_deliv c) && fin_matches fin (xc_fin c)
      (* and, redundantly with the theorem, whole-document selection on the model side *)
      && list_eqb tree_eqb (map fst ds) (whole_doc_selection pm (pred_target tg) (xdoc_tree (xc_doc c))))
  end.

Record jcase := mkJCase {
  jc_doc : jnode;
  jc_tokens : list jtoken;
  jc_target : target;
  jc_alts : list (list (axis * nametest));
  jc_xpath : bytes;
  jc_rel : list bool;
  jc_deliv : list (tree * nat);
  jc_fin : fin_obs;
}.

Definition jtoken_eqb (a b : jtoken) : bool :=
  match a, b with
  | JOpenObj, JOpenObj | JCloseObj, JCloseObj | JOpenArr, JOpenArr | JCloseArr, JCloseArr
  | JNullT, JNullT => true
  | JStrT s, JStrT s' | JNumT s, JNumT s' => bytes_eqb s s'
  | JBoolT b, JBoolT b' => Bool.eqb b b'
  | _, _ => false
  end.

Definition check_jcase (c : jcase) : bool :=
  let tg := jc_target c in
  match split_filter_by gen_json_splitfn (jc_xpath c) with None => false | Some (nf, hasf) =>
  jwf (jc_doc c)
  && list_eqb jtoken_eqb (jdoc_events (jc_doc c)) (jc_tokens c)
  && bytes_eqb (render_alts (jc_alts c) ++ render_target tg) (jc_xpath c)
  && bytes_eqb nf (render_alts (jc_alts c) ++ render_steps (t_steps tg))
  && (match jc_alts c, t_filters tg with _ :: _, _ :: _ => false | _, _ => true end)
  && Bool.eqb hasf (negb (match t_filters tg with [] => true | _ => false end))
  && (let pm := pm_union (jc_alts c) tg in
      let '(ds, fin) := jrun pm (pred_target tg) hasf false j_init (jc_rel c) (jc_tokens c) in
      list_eqb deliv_eqb ds (jc_deliv c) && fin_matches fin (jc_fin c)
      && list_eqb tree_eqb (map fst ds) (whole_doc_selection pm (pred_target tg) (jdoc_tree (jc_doc c))))
  end.

Inductive c04case := XCase (c : xcase) | JCase (c : jcase).
Definition check_case (c : c04case) : bool :=
  match c with XCase c => check_xcase c | JCase c => check_jcase c end.

(* ---- C17: documents that repeat a record under fixed ancestors --------------------------------- *)
(* <a1 ..><a2 ..> ... records ... </a2></a1>: ancestors with attributes only *)
Definition xanc := (bytes * fspec * list (bytes * fspec * bytes))%type.
Fixpoint xnest (anc : list xanc) (inner : list xnode) : list xnode :=
  match anc with
  | [] => inner
  | (nm, fs, attrs) :: r => [XE nm fs attrs (xnest r inner)]
  end.
Definition xanc_chain (anc : list xanc) : list name :=
  map (fun a => let '(nm, fs, _) := a in (fs_prefix fs, nm)) anc.
Definition xanc_size (anc : list xanc) : nat :=
  fold_right (fun a n => let '(_, _, attrs) := a in 1 + 2 * List.length attrs + n) 0 anc.

(* {"k":{"k1":{ ... C ... }}}: objects with one member each around a container C of records,
   which is an object keyed by ids ([arr] = false) or an array. *)
Fixpoint jnest (key : bytes) (keys : list bytes) (arr : bool) (recs : list jnode) : jnode :=
  match keys with
  | [] => if arr then JA key recs else JO key recs
  | k :: ks => JO key [jnest k ks arr recs]
  end.
Definition jkeys_chain (keys : list bytes) : list name := map (fun k => ([], k)) keys.

(* ---- C17: the record-at-a-time readers --------------------------------------------------------- *)
(* flatfile/hierarchyReader.go (csv2, fixedlength2), edi/reader.go, fixedlength/reader.go and
   csv/reader.go as far as retention goes: a record node is created, attached as last child of
   the node its declaration hangs under (old csv: not attached, every record is its own root),
   checked against the target xpath; a rejected one is removed at once, an accepted one becomes
   r.target, is returned, and is removed by Release or by the next Read.  Records of
   declarations that are not targets stay attached ([FKeep]).  [above] counts the nodes of the
   tree outside this child list (the parent and everything else).  Records are abstract here:
   [R] with a node count. *)
Section Flat.
  Variable R : Type.
  Variable rsize : R -> nat.
  Variable standalone : bool.   (* old csv reader: recordToNode builds a fresh root per record *)
  Variable above : nat.

  Inductive frec := FTarget (x : R) (pass : bool) | FKeep (x : R).
  Record fstate := mkFS { fl_kids : list R; fl_target : bool }.

  Definition fl_size (l : list R) : nat := fold_right (fun x n => rsize x + n) 0 l.

  (* Read() prologue / Release(r.target) *)
  Definition flat_prologue (st : fstate) : fstate :=
    if fl_target st then mkFS (removelast (fl_kids st)) false else st.

  Definition flat_step (st : fstate) (rc : frec) : fstate * option (R * nat) :=
    match rc with
    | FKeep x => (mkFS (fl_kids st ++ [x]) false, None)
    | FTarget x pass =>
        if standalone then (st, if pass then Some (x, rsize x) else None)
        else
          let kids' := fl_kids st ++ [x] in                   (* idr.AddChild(parent, node) *)
          if pass then (mkFS kids' true, Some (x, above + fl_size kids'))
          else (mkFS (removelast kids') false, None)          (* RemoveAndReleaseTree(node) *)
    end.

  (* Release(n) for the node the reader returned last: if r.target == n { r.target = nil };
     RemoveAndReleaseTree(n) *)
  Definition flat_release (st : fstate) : fstate :=
    if fl_target st then mkFS (removelast (fl_kids st)) false else st.

  (* The same loop with the caller's Release calls made explicit: [rel] says, per record, whether
     the ingester released the previously returned node before this reader activity (it does so
     whenever it holds one - also when that record's transform failed; a caller that never
     releases is the all-false list). *)
  Fixpoint flat_run_rel (st : fstate) (rel : list bool) (recs : list frec) : list (R * nat) :=
    match recs with
    | [] => []
    | rc :: rest =>
        let st0 := if hd false rel then flat_release st else st in
        let '(st1, d) := flat_step (flat_prologue st0) rc in
        match d with Some x => [x] | None => [] end ++ flat_run_rel st1 (tl rel) rest
    end.

  Fixpoint flat_run (st : fstate) (recs : list frec) : list (R * nat) :=
    match recs with
    | [] => []
    | rc :: rest =>
        let '(st1, d) := flat_step (flat_prologue st) rc in
        match d with Some x => [x] | None => [] end ++ flat_run st1 rest
    end.
End Flat.

(* An instance of a declaration that has child declarations, or of a group (csv2 child_records /
   record_group, fixedlength2 child_envelopes / envelope_group, EDI segment_group): the node
   with the instances of its children below it.  It is attached, filtered and removed as ONE
   subtree: [flat_run] at R := hrec, rsize := hsize. *)
Inductive hrec := HRec (own : nat) (kids : list hrec).
Fixpoint hsize (h : hrec) : nat :=
  let 'HRec own kids := h in own + fold_right (fun k n => hsize k + n) 0 kids.

(* One C17 case of a record-at-a-time reader: record sizes with the filter outcome, the nodes
   outside the records, and the reachable-tree size the harness measured at every delivery. *)
Record fcase := mkFCase {
  fc_standalone : bool;
  fc_above : nat;
  fc_recs : list (nat * bool);     (* node count of the record, passes the target filter *)
  fc_sizes : list nat;             (* measured at each delivery *)
}.
Definition check_fcase (c : fcase) : bool :=
  let recs := map (fun x => FTarget nat (fst x) (snd x)) (fc_recs c) in
  list_eqb Nat.eqb
    (map snd (flat_run nat (fun n => n) (fc_standalone c) (fc_above c) (mkFS nat [] false) recs))
    (fc_sizes c).

(* ---- C17: xpath expressions of the transform and the process-wide expression cache --------------- *)
(* idr/query.go loadXPathExpr over caches.XPathExprCache (the set of cached expression texts; the
   LRU capacity is not modelled): with DisableXPathCache the expression is compiled and nothing is
   stored.  transform/parse.go: an xpath_dynamic is queried with that flag.  Both facts are
   extracted (Gen/StreamSplit.v). *)
Definition xp_cache := list bytes.
Definition cache_mem (x : bytes) (c : xp_cache) : bool := existsb (bytes_eqb x) c.
Definition load_xpath (disable : bool) (x : bytes) (c : xp_cache) : xp_cache :=
  if disable && gen_disable_flag_bypasses_cache then c
  else if cache_mem x c then c else x :: c.
(* one xpath query of the transform: [dynamic] = the text comes from xpath_dynamic *)
Definition query_xpath (c : xp_cache) (q : bool * bytes) : xp_cache :=
  load_xpath (fst q && gen_dynamic_xpath_disables_cache) (snd q) c.
Definition query_all (qs : list (bool * bytes)) (c : xp_cache) : xp_cache := fold_left query_xpath qs c.

Record pcase := mkPCase {
  pc_before : list bytes;             (* keys of caches.XPathExprCache before the run *)
  pc_queries : list (bool * bytes);   (* the xpath queries the transform makes, record by record *)
  pc_after : list bytes;              (* keys after the run *)
}.
Definition set_eqb (a b : list bytes) : bool :=
  forallb (fun x => cache_mem x b) a && forallb (fun x => cache_mem x a) b.
Definition check_pcase (c : pcase) : bool :=
  set_eqb (query_all (pc_queries c) (pc_before c)) (pc_after c).

Inductive c17case := C17Stream (c : c04case) | C17Flat (c : fcase) | C17XPath (c : pcase).
Definition check_case17 (c : c17case) : bool :=
  match c with C17Stream c => check_case c | C17Flat c => check_fcase c | C17XPath c => check_pcase c end.

(* ---- C04: several readers alive at once ------------------------------------------------------------ *)
(* A reader is its state, the Release pattern and the tokens its decoder still has; one scheduling
   step lets reader [i] consume ONE token.  Nothing is shared between the readers of the model:
   that is the assumption the interleaving oracle of the harness checks on the implementation
   (C04-r32: a namespace table that became process-wide). *)
Section System.
  Variable pm : list name -> bool.
  Variable pred : tree -> bool.
  Variable has_filter : bool.

  Inductive rstatus := Running | Ended (f : final).
  Record xreader := mkXR { xr_st : state; xr_rel : list bool; xr_toks : list xtoken;
                           xr_out : list (tree * nat); xr_status : rstatus }.

  (* one token of one reader: exactly one turn of the loop of [xrun] *)
  Definition xreader_step (rd : xreader) : xreader :=
    match xr_status rd with
    | Ended _ => rd
    | Running =>
        match xr_toks rd with
        | [] => mkXR (xr_st rd) (xr_rel rd) [] (xr_out rd) (Ended FEOF)
        | tk :: r =>
            match xstep pm pred has_filter false (xr_st rd) tk with
            | RPanic => mkXR (xr_st rd) (xr_rel rd) r (xr_out rd) (Ended FPanic)
            | RErr => mkXR (xr_st rd) (xr_rel rd) r (xr_out rd) (Ended FErr)
            | RCont st' => mkXR st' (xr_rel rd) r (xr_out rd) Running
            | RDeliver t n st' =>
                let st1 := if hd false (xr_rel rd) then release st' else Some st' in
                match match st1 with Some s => read_prologue s | None => None end with
                | None => mkXR st' (xr_rel rd) r (xr_out rd ++ [(t, n)]) (Ended FUnmodelled)
                | Some st2 => mkXR st2 (tl (xr_rel rd)) r (xr_out rd ++ [(t, n)]) Running
                end
            end
        end
    end.

  Fixpoint update_nth {A} (i : nat) (f : A -> A) (l : list A) : list A :=
    match l, i with
    | [], _ => []
    | x :: r, O => f x :: r
    | x :: r, S j => x :: update_nth j f r
    end.
  (* the schedule names, step by step, the reader that runs next *)
  Definition sys_run (sched : list nat) (rds : list xreader) : list xreader :=
    fold_left (fun rs i => update_nth i xreader_step rs) sched rds.
  Definition xreader_init (rel : list bool) (toks : list xtoken) : xreader := mkXR x_init rel toks [] Running.
End System.
