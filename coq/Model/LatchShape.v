(* C01: interpreter of the programs extracted from transform.go (Gen/LatchShape.v: the bodies of
   Read and RawRecord of the transform) over an arbitrary ingester.  Executable
   definitions only; Proofs/LatchShape.v proves that Model.Latch.step is this interpretation. *)
From Coq Require Import List NArith Bool.
Import ListNotations.
From OV Require Import Base.Cases Base.ErrClass Model.Latch Gen.LatchShape.

(* errs.IsErrTransformFailed as extracted: a switch on the dynamic type of the error value.  The
   harness classifies a value as CFailed by exactly that test (its own type assertion, not the
   library's predicate); nil and every other type take the default clause. *)
Definition src_is_failed (e : option errv) : bool :=
  match e with
  | Some x => if is_failed x then on_exact_type is_err_transform_failed
              else on_default is_err_transform_failed
  | None => on_default is_err_transform_failed
  end.

(* errs.ErrTransformFailed(err.Error()): a value of the string type whose payload is the text *)
Definition src_wrap (e : errv) : errv :=
  match err_transform_failed_repr with
  | FailedIsStringPayload => mkErr CFailed 0 TY_FAILED (e_msg e)
  end.

(* ORun: fell through;  OPanic: nil dereference (err.Error() on a nil error);  OOther: something the
   vocabulary of the contract has no name for (RawRecord returning (nil, nil) or a record together
   with an error; IsContinuableError asked about a nil error) *)
Inductive outcome := ORun | ORet (o : out) | OPanic | OOther.
Inductive cres := CondB (b : bool) | CondPanic | CondOther.

Section Interp.
  Variable S : Type.
  Variable ing_step : S -> S * (option N * option N * option errv).
  Variable ing_cont : S -> errv -> bool.

  (* the transform, the ingester, and the three locals bound by `x, y, z := o.ingester.Read()` *)
  Record mem := mkM { m_t : tstate; m_s : S; m_raw : option N; m_bytes : option N; m_err : option errv }.

  (* None = panic *)
  Definition ev_e (m : mem) (e : eexpr) : option (option errv) :=
    match e with
    | EENil => Some None
    | EEVar => Some (m_err m)
    | EELastErr => Some (lastErr (m_t m))
    | EEWrapFailed => match m_err m with Some x => Some (Some (src_wrap x)) | None => None end
    end.
  Definition ev_r (m : mem) (r : rexpr) : option N :=
    match r with RENil => None | REVar => m_raw m | RELastRaw => lastRaw (m_t m) end.
  Definition ev_b (m : mem) (b : bexpr) : option N :=
    match b with BENil => None | BEVar => m_bytes m end.

  Definition is_none {A} (x : option A) : bool := match x with None => true | Some _ => false end.

  Fixpoint ev_c (m : mem) (c : lcond) : cres :=
    match c with
    | CErrNil e => match ev_e m e with Some v => CondB (is_none v) | None => CondPanic end
    | CErrNotNil e => match ev_e m e with Some v => CondB (negb (is_none v)) | None => CondPanic end
    | CRawNil r => CondB (is_none (ev_r m r))
    | CRawNotNil r => CondB (negb (is_none (ev_r m r)))
    | CIsFailed e => match ev_e m e with Some v => CondB (src_is_failed v) | None => CondPanic end
    | CIngCont e => match ev_e m e with
                    | Some (Some x) => CondB (ing_cont (m_s m) x)
                    | Some None => CondOther
                    | None => CondPanic
                    end
    | CNot a => match ev_c m a with CondB b => CondB (negb b) | r => r end
    | CAnd a b => match ev_c m a with CondB true => ev_c m b | r => r end
    | COr a b => match ev_c m a with CondB false => ev_c m b | r => r end
    end.

  Fixpoint exec (s : lstmt) (m : mem) {struct s} : mem * outcome :=
    match s with
    | SIngRead =>
        let '(s', (raw, b, err)) := ing_step (m_s m) in (mkM (m_t m) s' raw b err, ORun)
    | SSetErr e =>
        match ev_e m e with
        | Some v => (mkM (m_t m) (m_s m) (m_raw m) (m_bytes m) v, ORun)
        | None => (m, OPanic)
        end
    | SSetBytes b => (mkM (m_t m) (m_s m) (m_raw m) (ev_b m b) (m_err m), ORun)
    | SSetRaw r => (mkM (m_t m) (m_s m) (ev_r m r) (m_bytes m) (m_err m), ORun)
    | SSetLastErr e =>
        match ev_e m e with
        | Some v => (mkM (mkT v (lastRaw (m_t m))) (m_s m) (m_raw m) (m_bytes m) (m_err m), ORun)
        | None => (m, OPanic)
        end
    | SSetLastRaw r =>
        (mkM (mkT (lastErr (m_t m)) (ev_r m r)) (m_s m) (m_raw m) (m_bytes m) (m_err m), ORun)
    | SIf c th el =>
        let go := fix go (l : list lstmt) (m : mem) : mem * outcome :=
          match l with
          | [] => (m, ORun)
          | x :: r => match exec x m with (m', ORun) => go r m' | res => res end
          end in
        match ev_c m c with
        | CondB true => go th m
        | CondB false => go el m
        | CondPanic => (m, OPanic)
        | CondOther => (m, OOther)
        end
    | SRetRead b e =>
        match ev_e m e with
        | Some v => (m, ORet (OutRead (ev_b m b) v))
        | None => (m, OPanic)
        end
    | SRetRaw r RErrNew =>
        match ev_r m r with
        | None => (m, ORet (OutRaw RRCallFirst))
        | Some _ => (m, OOther)
        end
    | SRetRaw r (RErr e) =>
        match ev_e m e with
        | None => (m, OPanic)
        | Some v => match ev_r m r, v with
                    | Some x, None => (m, ORet (OutRaw (RROk x)))
                    | None, Some e1 => (m, ORet (OutRaw (RRErr e1)))
                    | _, _ => (m, OOther)
                    end
        end
    end.

  Fixpoint exec_list (l : list lstmt) (m : mem) : mem * outcome :=
    match l with
    | [] => (m, ORun)
    | x :: r => match exec x m with (m', ORun) => exec_list r m' | res => res end
    end.

  (* one call of the source: run the extracted body from a state with no locals bound *)
  Definition src_step (st : tstate * S) (o : op) : option ((tstate * S) * out) :=
    let prog := match o with OpRead => read_prog | OpRaw => rawrecord_prog end in
    match exec_list prog (mkM (fst st) (snd st) None None None) with
    | (m, ORet x) => Some ((m_t m, m_s m), x)
    | _ => None
    end.

  Fixpoint src_run (st : tstate * S) (ops : list op) : option ((tstate * S) * list out) :=
    match ops with
    | [] => Some (st, [])
    | o :: r => match src_step st o with
                | Some (st1, x) => match src_run st1 r with
                                   | Some (st2, xs) => Some (st2, x :: xs)
                                   | None => None
                                   end
                | None => None
                end
    end.
End Interp.

(* Correspondence over the extracted programs: the logged ingester results of a real Transform are
   run through the interpretation of the source's own statements, which must reproduce what the
   implementation returned and how often it called the ingester. *)
Definition check_lcase_src (c : lcase) : bool :=
  match src_run sing sing_step sing_cont (t_init, mkS (lc_script c) false 0 false) (lc_ops c) with
  | Some ((_, s), outs) =>
      list_eqb out_eqb outs (lc_outs c) && N.eqb (s_calls s) (lc_calls c) && negb (s_over s)
      && match s_script s with [] => true | _ => false end
  | None => false
  end.

Definition check_case_src (c : c01case) : bool :=
  match c with LCase c => check_lcase_src c | ICase _ => true end.
