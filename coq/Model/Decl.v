(* C02 model, layer 2: transform declarations and their validation.
   Transcribes extensions/omniv21/transform/decl.go (Decl, resolveKind in the extracted order,
   deepCopy) and validate.go (validateDecl / validateXPath / validateObject / validateArray /
   validateCustomFunc / validateCustomParse / validateTemplate, computeDeclHash, linkParent) as
   of /repo HEAD with the `fix:` commits F2, F3, F19 (deepCopy keeps empty object/array and
   copies the resolved kind, so the hash is the class of the public content INCLUDING the kind
   at every level) and F20 (validateArray links every element to its array itself; everything
   else is linked by linkParent, which walks `children` from FINAL_OUTPUT and therefore never
   reaches a declaration under xpath_dynamic: those keep a nil parent) and F28 (the expanded copy
   of a template gets a FRESH copy of the reference site's xpath_dynamic, which is then validated
   once for the result: vgo validates the raw declaration again, it never re-validates an
   already validated one; the old double validation, which appended the computed children below
   that xpath_dynamic twice, is refuted by replays/corpus/C02/F28-* and by
   double_validation_old_refuted).  Executable definitions only. *)
From Coq Require Import String List NArith Bool.
From Coq.Strings Require Import Byte.
Import ListNotations.
From OV Require Import Base.Bytes Base.Cases Gen.Conv Model.Value.

Definition bs (s : string) : bytes := list_byte_of_string s.

(* ---- the declaration as unmarshalled from the schema (public fields of transform.Decl) ------ *)
(* d_object / d_array are None when the Go field is nil and Some [] for `{}` / `[]`.
   d_fname = Some name when CustomFunc != nil; d_args / d_ignore are its Args / IgnoreError.
   A Go map has no duplicate keys and no order: d_object is an association list whose order
   stands for the map's iteration order. *)
Inductive decl :=
  Decl (d_const d_external d_xpath : option bytes) (d_xdyn : option decl)
       (d_fname : option bytes) (d_args : list decl) (d_ignore : bool)
       (d_parse d_template : option bytes)
       (d_object : option (list (bytes * decl))) (d_array : option (list decl))
       (d_type : option rtype) (d_notrim d_keep : bool).

Definition d_xpath_of (d : decl) := let 'Decl _ _ x _ _ _ _ _ _ _ _ _ _ _ := d in x.
Definition d_xdyn_of (d : decl) := let 'Decl _ _ _ x _ _ _ _ _ _ _ _ _ _ := d in x.

Definition is_some {A} (o : option A) : bool := match o with Some _ => true | None => false end.

(* Decl.isXPathSet *)
Definition d_isx (d : decl) : bool := is_some (d_xpath_of d) || is_some (d_xdyn_of d).

Definition field_set (f : dfield) (d : decl) : bool :=
  let 'Decl c e _ _ fn _ _ pa tm ob ar _ _ _ := d in
  match f with
  | FConst => is_some c
  | FExternal => is_some e
  | FCustomFunc => is_some fn
  | FCustomParse => is_some pa
  | FObject => is_some ob
  | FArray => is_some ar
  | FTemplate => is_some tm
  end.

(* Decl.resolveKind, in the order extracted from decl.go *)
Definition resolve_kind (d : decl) : kind :=
  match find (fun fk => field_set (fst fk) d) kind_order with
  | Some (_, k) => k
  | None => kind_default
  end.

Definition kind_eqb (a b : kind) : bool :=
  match a, b with
  | KConst, KConst | KExternal, KExternal | KField, KField | KObject, KObject
  | KArray, KArray | KCustomFunc, KCustomFunc | KCustomParse, KCustomParse
  | KTemplate, KTemplate => true
  | _, _ => false
  end.
Definition rtype_eqb (a b : rtype) : bool :=
  match a, b with
  | RInt, RInt | RFloat, RFloat | RBoolean, RBoolean | RString, RString => true
  | _, _ => false
  end.

(* ---- validated declarations ---------------------------------------------------------------- *)
(* public scalar content of a validated declaration together with its resolved kind *)
Record pinfo := mkP {
  p_kind : kind;
  p_const : option bytes; p_external : option bytes; p_xpath : option bytes;
  p_fname : option bytes; p_ignore : bool;
  p_parse : option bytes; p_template : option bytes;
  p_rtype : option rtype; p_notrim : bool; p_keep : bool }.

(* What computeDeclHash identifies: the public content including the resolved kind at every
   level.  Object children carry their key; array elements and arguments the empty key (their
   position is their identity). *)
Inductive pdecl := PD (i : pinfo) (xdyn : option pdecl) (kids : list (bytes * pdecl)).

(* fqdn as the list of its namelets (strs.BuildFQDN joins them with '.', object keys escaped by
   BuildFQDNWithEsc; LastNameletOfFQDNWithEsc recovers the last one unescaped). *)
Record vinfo := mkI {
  v_pub : pinfo;
  v_fqdn : list bytes;
  v_hash : pdecl;            (* Decl.hash, as the equivalence class it stands for *)
  v_parent : option kind }.  (* Decl.parent: None = nil, Some k = parent.kind *)

(* kids = Decl.children for object (sorted by fqdn) and array (declared order); for custom_func
   the CustomFunc.Args (what prepArgValues iterates; Decl.children holds the same pointers). *)
Inductive vdecl := VD (i : vinfo) (xdyn : option vdecl) (kids : list vdecl).

Definition vd_info (d : vdecl) := let 'VD i _ _ := d in i.
Definition vd_xdyn (d : vdecl) := let 'VD _ x _ := d in x.
Definition vd_kids (d : vdecl) := let 'VD _ _ k := d in k.
Definition vd_kind (d : vdecl) : kind := p_kind (v_pub (vd_info d)).

Definition FINAL_OUTPUT : bytes := bs "FINAL_OUTPUT".

Definition last_namelet (fqdn : list bytes) : bytes := last fqdn [].

(* strs.BuildFQDNWithEsc on one namelet: '.' -> "%.", '%' -> "%%" *)
Fixpoint esc_name (s : bytes) : bytes :=
  match s with
  | [] => []
  | b :: r => if (Byte.eqb b x2e || Byte.eqb b x25)%bool then x25 :: b :: esc_name r else b :: esc_name r
  end.
(* strs.Unescape(namelet, "%"): the character after an escape is copied; a trailing escape ends
   the string *)
Fixpoint unesc_name (s : bytes) : bytes :=
  match s with
  | [] => []
  | b :: r =>
      if Byte.eqb b x25 then
        match r with
        | [] => []
        | c :: r' => c :: unesc_name r'
        end
      else b :: unesc_name r
  end.
(* strs.LastNameletOfFQDNWithEsc: the key under which parseObject stores a child *)
Definition obj_key (fqdn : list bytes) : bytes := unesc_name (last_namelet fqdn).

(* The same on the fqdn STRING, as the Go code has it.  strs.BuildFQDN joins namelets with '.';
   strs.SplitWithEsc(fqdn, ".", "%") cuts at every '.' that is not preceded by an odd number of
   consecutive '%' (IndexWithEsc counts them backwards; scanning forwards with an "escaped" flag
   is the same thing); LastNameletOfFQDNWithEsc unescapes the last piece. *)
Definition build_fqdn (parent namelet : bytes) : bytes := parent ++ x2e :: namelet.

Fixpoint split_esc (s cur : bytes) (escd : bool) : list bytes :=
  match s with
  | [] => [rev cur]
  | b :: r =>
      if escd then split_esc r (b :: cur) false
      else if Byte.eqb b x25 then split_esc r (b :: cur) true
      else if Byte.eqb b x2e then rev cur :: split_esc r [] false
      else split_esc r (b :: cur) false
  end.

Definition last_namelet_str (fqdn : bytes) : bytes := unesc_name (last (split_esc fqdn [] false) []).

(* the escape state after scanning a string: true = it ends in an odd run of '%' *)
Fixpoint esc_state (s : bytes) (escd : bool) : bool :=
  match s with
  | [] => escd
  | b :: r => if escd then esc_state r false else esc_state r (Byte.eqb b x25)
  end.

(* key under which a child is identified inside its parent's public content *)
Definition kid_key (parent : kind) (c : vdecl) : bytes :=
  match parent with KObject => obj_key (v_fqdn (vd_info c)) | _ => [] end.

Fixpoint pub_of (d : vdecl) : pdecl :=
  let 'VD i x ks := d in
  PD (v_pub i)
     (match x with Some q => Some (pub_of q) | None => None end)
     (map (fun c => (kid_key (p_kind (v_pub i)) c, pub_of c)) ks).

Definition PD0 : pdecl :=
  PD (mkP KField None None None None false None None None false false) None [].

(* ---- equality on public content ---------------------------------------------------------------- *)
Definition obytes_eqb := opt_eqb bytes_eqb.
Definition pinfo_eqb (a b : pinfo) : bool :=
  kind_eqb (p_kind a) (p_kind b) && obytes_eqb (p_const a) (p_const b)
  && obytes_eqb (p_external a) (p_external b) && obytes_eqb (p_xpath a) (p_xpath b)
  && obytes_eqb (p_fname a) (p_fname b) && Bool.eqb (p_ignore a) (p_ignore b)
  && obytes_eqb (p_parse a) (p_parse b) && obytes_eqb (p_template a) (p_template b)
  && opt_eqb rtype_eqb (p_rtype a) (p_rtype b) && Bool.eqb (p_notrim a) (p_notrim b)
  && Bool.eqb (p_keep a) (p_keep b).

Fixpoint pdecl_eqb (a b : pdecl) : bool :=
  let 'PD i x ks := a in
  let 'PD i' x' ks' := b in
  pinfo_eqb i i'
  && match x, x' with
     | None, None => true
     | Some q, Some q' => pdecl_eqb q q'
     | _, _ => false
     end
  && (fix go (l l' : list (bytes * pdecl)) : bool :=
        match l, l' with
        | [], [] => true
        | (k, c) :: r, (k', c') :: r' => bytes_eqb k k' && pdecl_eqb c c' && go r r'
        | _, _ => false
        end) ks ks'.

(* ---- validation -------------------------------------------------------------------------------- *)
Inductive vres (A : Type) := VOk (a : A) | VErr | VFuel.
Arguments VOk {A}. Arguments VErr {A}. Arguments VFuel {A}.

Fixpoint lookup {A} (k : bytes) (l : list (bytes * A)) : option A :=
  match l with
  | [] => None
  | (k', v) :: r => if bytes_eqb k k' then Some v else lookup k r
  end.

(* strs.HasDup *)
Fixpoint has_dup (l : list bytes) : bool :=
  match l with
  | [] => false
  | x :: r => existsb (bytes_eqb x) r || has_dup r
  end.

(* sort.Slice(children, fqdn <): siblings share the prefix, so the order is that of the last
   (escaped) namelet *)
Fixpoint insert_kid (c : vdecl) (l : list vdecl) : list vdecl :=
  match l with
  | [] => [c]
  | h :: r =>
      if bytes_ltb (last_namelet (v_fqdn (vd_info h))) (last_namelet (v_fqdn (vd_info c)))
      then h :: insert_kid c r else c :: l
  end.
Definition sort_kids (l : list vdecl) : list vdecl := fold_right insert_kid [] l.

Definition mk_vd (p : pinfo) (fqdn : list bytes) (par : option kind) (x : option vdecl)
           (ks : list vdecl) : vdecl :=
  let v0 := VD (mkI p fqdn PD0 par) x ks in
  VD (mkI p fqdn (pub_of v0) par) x ks.

Definition pinfo_of (k : kind) (d : decl) : pinfo :=
  let 'Decl c e x _ fn _ ig pa tm _ _ ty nt kp := d in
  mkP k c e x fn ig pa tm ty nt kp.

Definition elem_name (i : nat) : bytes := bs "elem[" ++ N_to_dec (N.of_nat i) ++ bs "]".
Definition arg_name (i : nat) : bytes := bs "arg[" ++ N_to_dec (N.of_nat i) ++ bs "]".
Definition func_name (n : bytes) : bytes := bs "custom_func(" ++ n ++ bs ")".

(* the template body with the reference site's xpath / xpath_dynamic moved onto it *)
Definition with_xpath_of (site body : decl) : decl :=
  let 'Decl c e _ _ fn args ig pa tm ob ar ty nt kp := body in
  Decl c e (d_xpath_of site) (d_xdyn_of site) fn args ig pa tm ob ar ty nt kp.

(* validate the elements of a list in order (1-based position passed along); the first failure wins *)
Section VMapI.
  Context {A : Type} (f : nat -> A -> vres vdecl).
  Fixpoint vmapi (i : nat) (l : list A) : vres (list vdecl) :=
    match l with
    | [] => VOk []
    | a :: r =>
        match f i a with
        | VOk v => match vmapi (S i) r with
                   | VOk vs => VOk (v :: vs) | VErr => VErr | VFuel => VFuel
                   end
        | VErr => VErr | VFuel => VFuel
        end
    end.
End VMapI.

Section Validate.
  Variable ds : list (bytes * decl).   (* transform_declarations *)
  Variable fexists : bytes -> bool.    (* the custom_func is registered with an acceptable signature *)
  Variable pexists : bytes -> bool.    (* the custom_parse is registered *)

  (* validateDecl.  [fuel] bounds the template references followed on one path (each pushes a
     name on templateRefStack); everything else is structural in the declaration.  [par] is
     what ends up in Decl.parent (as the parent's kind); [linked] = linkParent reaches this
     declaration (false below an xpath_dynamic). *)
  Definition par_of (linked : bool) (k : kind) : option kind :=
    match k with
    | KArray => Some KArray
    | _ => if linked then Some k else None
    end.

  Section Go.
    Variable stack : list bytes.      (* templateRefStack *)
    (* validateDecl on the copy of a referenced template, with the extended stack *)
    Variable jump : list bytes -> list bytes -> decl -> option kind -> bool -> vres vdecl.

    Fixpoint vgo (fqdn : list bytes) (d : decl) (par : option kind) (linked : bool) {struct d} : vres vdecl :=
      let 'Decl c e x xd fn args ig pa tm ob ar ty nt kp := d in
      (* validateXPath *)
      if (is_some x && is_some xd)%bool then VErr else
      match (match xd with
             | Some q => match vgo (fqdn ++ [bs "xpath_dynamic"]) q None false with
                         | VOk v => VOk (Some v) | VErr => VErr | VFuel => VFuel
                         end
             | None => VOk None
             end) with
      | VErr => VErr
      | VFuel => VFuel
      | VOk vx =>
          let k := resolve_kind d in
          let p := pinfo_of k d in
          match k with
          | KObject =>
              match ob with
              | None => VErr   (* unreachable: kind object means Object != nil *)
              | Some l =>
                  match vmapi (fun _ nc => let '(name, cd) := nc in
                                             vgo (fqdn ++ [esc_name name]) cd (par_of linked KObject) linked) 1 l with
                  | VOk vs => VOk (mk_vd p fqdn par vx (sort_kids vs))
                  | VErr => VErr | VFuel => VFuel
                  end
              end
          | KArray =>
              match ar with
              | None => VErr
              | Some l =>
                  match vmapi (fun i cd => vgo (fqdn ++ [elem_name i]) cd (par_of linked KArray) linked) 1 l with
                  | VOk vs => VOk (mk_vd p fqdn par vx vs)
                  | VErr => VErr | VFuel => VFuel
                  end
              end
          | KCustomFunc =>
              match fn with
              | None => VErr
              | Some name =>
                  if negb (fexists name) then VErr else
                  match vmapi (fun i cd => vgo (fqdn ++ [func_name name; arg_name i]) cd (par_of linked KCustomFunc) linked) 1 args with
                  | VOk vs => VOk (mk_vd p fqdn par vx vs)
                  | VErr => VErr | VFuel => VFuel
                  end
              end
          | KCustomParse =>
              match pa with
              | Some name => if pexists name then VOk (mk_vd p fqdn par vx []) else VErr
              | None => VErr
              end
          | KTemplate =>
              match tm with
              | None => VErr
              | Some name =>
                  match lookup name ds with
                  | None => VErr
                  | Some body =>
                      let stack' := stack ++ [name] in
                      if has_dup stack' then VErr
                      else if (d_isx body && d_isx d)%bool then VErr
                      else
                        let dn := if d_isx d then with_xpath_of d body else body in
                        jump stack' fqdn dn par linked
                  end
              end
          | _ => VOk (mk_vd p fqdn par vx [])
          end
      end.
  End Go.

  Fixpoint validate_decl (fuel : nat) (stack : list bytes)
           : list bytes -> decl -> option kind -> bool -> vres vdecl :=
    match fuel with
    | O => fun _ _ _ _ => VFuel
    | S f => vgo stack (validate_decl f)
    end.

  (* ValidateTransformDeclarations *)
  Definition validate : vres vdecl :=
    match lookup FINAL_OUTPUT ds with
    | Some d => validate_decl (S (length ds)) [FINAL_OUTPUT] [FINAL_OUTPUT] d None true
    | None => VErr
    end.
End Validate.

(* ---- comparing a validated tree dumped from Go with the model's ------------------------------ *)
Definition vinfo_eqb (a b : vinfo) : bool :=
  pinfo_eqb (v_pub a) (v_pub b) && list_eqb bytes_eqb (v_fqdn a) (v_fqdn b)
  && opt_eqb kind_eqb (v_parent a) (v_parent b).

(* structure, public content, fqdn, kind, parent links and child order (hash classes are compared
   separately: see classes_ok) *)
Fixpoint vdecl_eqb (a b : vdecl) : bool :=
  let 'VD i x ks := a in
  let 'VD i' x' ks' := b in
  vinfo_eqb i i'
  && match x, x' with
     | None, None => true
     | Some q, Some q' => vdecl_eqb q q'
     | _, _ => false
     end
  && (fix go (l l' : list vdecl) : bool :=
        match l, l' with
        | [], [] => true
        | c :: r, c' :: r' => vdecl_eqb c c' && go r r'
        | _, _ => false
        end) ks ks'.

(* fill v_hash of a dumped tree with the class representative *)
Fixpoint rehash (d : vdecl) : vdecl :=
  let 'VD i x ks := d in
  let x' := match x with Some q => Some (rehash q) | None => None end in
  let ks' := map rehash ks in
  mk_vd (v_pub i) (v_fqdn i) (v_parent i) x' ks'.

(* all declarations of a validated tree, preorder: self, xpath_dynamic subtree, kids *)
Fixpoint subdecls (d : vdecl) : list vdecl :=
  let 'VD _ x ks := d in
  d :: (match x with Some q => subdecls q | None => [] end) ++ flat_map subdecls ks.

(* Go's hash classes (numbered by the harness, one per declaration in preorder) induce the same
   partition as equality of public content *)
Fixpoint classes_ok (l : list (pdecl * N)) : bool :=
  match l with
  | [] => true
  | (p, c) :: r =>
      forallb (fun q => Bool.eqb (pdecl_eqb p (fst q)) (N.eqb c (snd q))) r && classes_ok r
  end.

(* ---- well-formedness of a validated tree (what validate establishes; checked on every dump) -- *)
Definition fqdn_is_final (f : list bytes) : bool :=
  match f with [n] => bytes_eqb n FINAL_OUTPUT | _ => false end.

Definition parent_is_array (i : vinfo) : bool :=
  match v_parent i with Some KArray => true | _ => false end.

Fixpoint keys_sorted (l : list bytes) : bool :=
  match l with
  | a :: ((b :: _) as r) => bytes_ltb a b && keys_sorted r
  | _ => true
  end.

(* [top] = this is FINAL_OUTPUT (only it may carry the fqdn FINAL_OUTPUT) *)
Fixpoint wf_b (top : bool) (d : vdecl) : bool :=
  let 'VD i x ks := d in
  let k := p_kind (v_pub i) in
  Bool.eqb (fqdn_is_final (v_fqdn i)) top
  && pdecl_eqb (v_hash i) (pub_of d)
  && negb (kind_eqb k KTemplate)
  && match k with
     | KConst => is_some (p_const (v_pub i))
     | KExternal => is_some (p_external (v_pub i))
     | KCustomFunc => is_some (p_fname (v_pub i))
     | KCustomParse => is_some (p_parse (v_pub i))
     | _ => true
     end
  && match k with
     | KObject | KArray | KCustomFunc => true
     | _ => match ks with [] => true | _ => false end
     end
  && match k with
     | KObject =>
         keys_sorted (map (fun c => last_namelet (v_fqdn (vd_info c))) ks)
         && forallb (fun c => let n := last_namelet (v_fqdn (vd_info c)) in
                              bytes_eqb (esc_name (unesc_name n)) n) ks
     | _ => true
     end
  && match x with
     | Some q => negb (is_some (p_xpath (v_pub i))) && negb (parent_is_array (vd_info q)) && wf_b false q
     | None => true
     end
  && forallb (fun c => Bool.eqb (parent_is_array (vd_info c)) (kind_eqb k KArray) && wf_b false c) ks.
