(* Pipeline model for C10 / C13 / C15: the built-in ingester loop (extensions/omniv21/ingester.go,
   the loop of Model/Latch.v [ing_read]: release previous, read, parse with a FRESH evaluation
   context per record - ingester.go:55 -, marshal) over a reader that delivers record trees, with
   the hidden process state [hid] explicit:
     - node pool contents + node ID counter + pooling switch + sync.Pool's arbitrary choices
       (idr/node.go:61-113,176-189),
     - transform result memo on/off (transform/parse.go:19),
     - the evaluator-side caches (xpath expression cache, JS program cache, VM pool, node-JSON
       cache) as an abstract state C threaded through the evaluator.
   The evaluator (transform.ParseNode; modelled in detail for C02), json.Marshal, the checksum
   hash and the reader are Section variables.  Executable definitions only; proofs are in
   Proofs/Pipeline*.v.  At the end: the correspondence case types and their checkers. *)
From Coq Require Import List NArith Bool Arith.
From Coq.Strings Require Import Byte.
Import ListNotations.
From OV Require Import Base.Bytes Base.Cases Base.Tree.

(* ---- list algebra used by the C10 statements and by the case checkers ----------------------- *)
(* the sub-sequence selected by an index list (a permutation when pi is one) *)
Definition permute {A} (pi : list nat) (l : list A) : list A :=
  flat_map (fun i => match nth_error l i with Some x => [x] | None => [] end) pi.

Fixpoint replace_at {A} (i : nat) (x : A) (l : list A) : list A :=
  match l, i with
  | [], _ => []
  | _ :: r, O => x :: r
  | y :: r, S k => y :: replace_at k x r
  end.

(* pi is a permutation of 0..n-1 *)
Definition is_perm (n : nat) (pi : list nat) : bool :=
  Nat.eqb (length pi) n && forallb (fun k => existsb (Nat.eqb k) pi) (seq 0 n).

(* ---- node IDs: idr/node.go ---------------------------------------------------------------------- *)
(* nodeID counter, nodePool (the IDs of the blank nodes sitting in it: reset() assigned them when
   the nodes were recycled), nodeCaching, and the choices sync.Pool.Get will make: pick k takes
   the k-th pooled node if there is one, otherwise (or when the schedule is exhausted) New(). *)
Record alloc := mkA { a_next : N; a_pool : list N; a_pooling : bool; a_picks : list nat }.

Fixpoint remove_nth {A} (k : nat) (l : list A) : list A :=
  match l, k with
  | [], _ => []
  | _ :: r, O => r
  | x :: r, S j => x :: remove_nth j r
  end.

(* allocNode: n := &Node{}; n.reset()  =>  ID = atomic.AddInt64(&nodeID, 1) *)
Definition fresh_node (a : alloc) (picks : list nat) : N * alloc :=
  let i := N.succ (a_next a) in (i, mkA i (a_pool a) (a_pooling a) picks).

(* CreateNode (node.go:86-98): the ID of the node handed out *)
Definition create_node (a : alloc) : N * alloc :=
  if a_pooling a then
    match a_picks a with
    | k :: ps =>
        match nth_error (a_pool a) k with
        | Some i => (i, mkA (a_next a) (remove_nth k (a_pool a)) true ps)
        | None => fresh_node a ps
        end
    | [] => fresh_node a []
    end
  else fresh_node a (a_picks a).

(* the IDs of n nodes created one after the other *)
Fixpoint alloc_n (n : nat) (a : alloc) : list N * alloc :=
  match n with
  | O => ([], a)
  | S k => let '(i, a1) := create_node a in
           let '(l, a2) := alloc_n k a1 in (i :: l, a2)
  end.

(* RemoveAndReleaseTree / recycle (node.go:151-189) of a tree of n nodes: with pooling every node
   is reset (new ID from the counter) and put into the pool; without pooling nothing happens. *)
Fixpoint release (n : nat) (a : alloc) : alloc :=
  match n with
  | O => a
  | S k => if a_pooling a
           then let i := N.succ (a_next a) in
                release k (mkA i (i :: a_pool a) true (a_picks a))
           else a
  end.

(* ---- what the evaluator sees --------------------------------------------------------------------- *)
(* Flat record lists under one parent: a root, the envelope's context nodes (persistent: they
   keep their IDs over the whole transform), and the current record as the root's last child.
   Trees are kept as ID-free shapes plus the node IDs in preorder. *)
Record world := mkW {
  w_root : N; w_ctx : list tree; w_ctx_ids : list N; w_rec : tree; w_rec_ids : list N }.

Definition w_ids (w : world) : list N := w_root w :: w_ctx_ids w ++ w_rec_ids w.
Definition w_rename (f : N -> N) (w : world) : world :=
  mkW (f (w_root w)) (w_ctx w) (map f (w_ctx_ids w)) (w_rec w) (map f (w_rec_ids w)).

Definition ctx_size (ctx : list tree) : nat := fold_right (fun t n => tree_size t + n) 0 ctx.

(* the labelling every run is compared to: IDs 1, 2, 3, ... in preorder *)
Definition canon_world (ctx : list tree) (t : tree) : world :=
  let k := ctx_size ctx in
  mkW 1%N ctx (map N.of_nat (seq 2 k)) t (map N.of_nat (seq (2 + k) (tree_size t))).

(* one unit of reader output: a record, a continuable reader failure, a fatal reader error *)
Inductive runit := URec (t : tree) | UFail | UFatal.

(* projected Read results *)
Inductive result := RRec (out sum : bytes) | RFail | RFatal.

Definition result_eqb (a b : result) : bool :=
  match a, b with
  | RRec o s, RRec o' s' => bytes_eqb o o' && bytes_eqb s s'
  | RFail, RFail | RFatal, RFatal => true
  | _, _ => false
  end.

Definition is_fatal (r : result) : bool := match r with RFatal => true | _ => false end.

(* Read results up to and including the first terminal one (transform.go latches it) *)
Fixpoint cut_fatal (l : list result) : list result :=
  match l with
  | [] => []
  | r :: t => if is_fatal r then [r] else r :: cut_fatal t
  end.

Section Pipeline.
  Variable schema : Type.        (* validated transform declarations (with their hash assignment) *)
  Variable V : Type.             (* ParseNode results *)
  Variable C : Type.             (* evaluator-side caches: xpath expressions, JS programs, VMs, node JSON *)
  Variable c0 : C.               (* all of them empty *)
  (* transform.NewParseCtx(...).ParseNode(n, finalOutputDecl): memo switch, caches in, result and
     caches out.  None = error (the record fails). *)
  Variable eval : bool -> C -> schema -> world -> option V * C.
  Variable marshal : V -> option bytes.          (* json.Marshal *)
  Variable marshal_err_cont : bool.              (* reader.IsContinuableError(marshal error) *)
  Variable H : bytes -> bytes.                   (* UUIDv3 / MD5 *)
  Variable canon : tree -> bytes.                (* idr.JSONify2 *)

  Record hid := mkHid { h_alloc : alloc; h_memo : bool; h_caches : C }.

  (* ingester.go:53-62 on a record that was read successfully *)
  Definition finish (t : tree) (ov : option V) : result :=
    match ov with
    | None => RFail                               (* ErrTransformFailed *)
    | Some v =>
        match marshal v with
        | Some b => RRec b (H (canon t))          (* rawRecord.Checksum() *)
        | None => if marshal_err_cont then RFail else RFatal
        end
    end.

  (* the ingester loop; prev = number of nodes of the record still held (rawRecord.node).
     Returns the Read results and the hidden state the process is left in. *)
  Fixpoint run_units_st (memo : bool) (s : schema) (root : N) (ctx : list tree) (cids : list N)
           (a : alloc) (c : C) (prev : nat) (us : list runit) : list result * (alloc * C) :=
    match us with
    | [] => ([], (a, c))                          (* io.EOF *)
    | u :: r =>
        let a0 := release prev a in               (* ingester.go:42-45 *)
        match u with
        | UFatal => ([RFatal], (a0, c))
        | UFail => let '(rs, st) := run_units_st memo s root ctx cids a0 c 0 r in (RFail :: rs, st)
        | URec t =>
            let '(ids, a1) := alloc_n (tree_size t) a0 in        (* reader.Read builds the record *)
            let '(ov, c1) := eval memo c s (mkW root ctx cids t ids) in
            let res := finish t ov in
            if is_fatal res then ([res], (a1, c1))
            else let '(rs, st) := run_units_st memo s root ctx cids a1 c1 (tree_size t) r in
                 (res :: rs, st)
        end
    end.

  (* a whole transform: the reader creates the root and the envelope's context nodes, then the
     records are streamed *)
  Definition run_env_st (h : hid) (s : schema) (ctx : list tree) (us : list runit) : list result * hid :=
    let '(ids, a1) := alloc_n (S (ctx_size ctx)) (h_alloc h) in
    match ids with
    | root :: cids =>
        let '(rs, (a2, c2)) := run_units_st (h_memo h) s root ctx cids a1 (h_caches h) 0 us in
        (rs, mkHid a2 (h_memo h) c2)
    | [] => ([], h)   (* unreachable: alloc_n (S _) is never empty *)
    end.

  Definition run_env (h : hid) (s : schema) (ctx : list tree) (us : list runit) : list result :=
    fst (run_env_st h s ctx us).
  (* the hidden state an earlier transform leaves behind *)
  Definition after (h : hid) (s : schema) (ctx : list tree) (us : list runit) : hid :=
    snd (run_env_st h s ctx us).

  Variable input : Type.
  Variable reader : input -> list tree * list runit.   (* envelope context, units *)

  Definition run (h : hid) (s : schema) (i : input) : list result :=
    let '(ctx, us) := reader i in run_env h s ctx us.

  (* the reference: what one unit yields, as a function of the unit, the envelope context, the
     schema and the externals (inside eval) only *)
  Definition unit_result (s : schema) (ctx : list tree) (u : runit) : result :=
    match u with
    | UFatal => RFatal
    | UFail => RFail
    | URec t => finish t (fst (eval false c0 s (canon_world ctx t)))
    end.

  Definition results (s : schema) (ctx : list tree) (us : list runit) : list result :=
    cut_fatal (map (unit_result s ctx) us).
End Pipeline.

Arguments mkHid {C}. Arguments h_alloc {C}. Arguments h_memo {C}. Arguments h_caches {C}.

(* ---- go-corelib caches.LoadingCache over hashicorp/golang-lru ------------------------------------ *)
(* Entries most recently used first; capacity None = unbounded (NewLoadingCache(0)), Some n = at
   most n entries, the least recently used one is evicted.  Get (loadingCache.go:49-59): a hit
   refreshes the entry and returns it; a miss calls the loader, stores and returns its value; a
   loader error is returned and nothing is stored. *)
Record lcache (K V : Type) := mkLC { lc_cap : option nat; lc_entries : list (K * V) }.
Arguments mkLC {K V}. Arguments lc_cap {K V}. Arguments lc_entries {K V}.

Section LCache.
  Variable K V : Type.
  Variable keqb : K -> K -> bool.

  Fixpoint lc_find (k : K) (l : list (K * V)) : option (V * list (K * V)) :=
    match l with
    | [] => None
    | (k', v) :: r =>
        if keqb k k' then Some (v, r)
        else match lc_find k r with
             | Some (x, r') => Some (x, (k', v) :: r')
             | None => None
             end
    end.

  Definition lc_trim (cap : option nat) (l : list (K * V)) : list (K * V) :=
    match cap with None => l | Some n => firstn n l end.

  Definition lc_get (load : K -> option V) (k : K) (c : lcache K V) : option V * lcache K V :=
    match lc_find k (lc_entries c) with
    | Some (v, rest) => (Some v, mkLC (lc_cap c) ((k, v) :: rest))
    | None =>
        match load k with
        | Some v => (Some v, mkLC (lc_cap c) (lc_trim (lc_cap c) ((k, v) :: lc_entries c)))
        | None => (None, c)
        end
    end.
End LCache.

(* idr/query.go:26-47 loadXPathExpr: dynamic xpaths (flag DisableXPathCache) bypass the cache *)
Definition load_xpath_expr {E} (compile : bytes -> option E) (dynamic : bool) (text : bytes)
           (c : lcache bytes E) : option E * lcache bytes E :=
  if dynamic then (compile text, c) else lc_get bytes E bytes_eqb compile text c.

(* customfuncs/javascript.go:46-56 getProgram, :58-66 getNodeJSON (off = disableCaching).  The
   node-JSON loader closes over the node: the cached value is the JSON of whatever node carried
   the ID when the entry was made. *)
Definition get_program {P} (compile : bytes -> option P) (off : bool) (js : bytes)
           (c : lcache bytes P) : option P * lcache bytes P :=
  if off then (compile js, c) else lc_get bytes P bytes_eqb compile js c.

Definition get_node_json (off : bool) (id : N) (json_of_node : bytes)
           (c : lcache N bytes) : bytes * lcache N bytes :=
  if off then (json_of_node, c)
  else match lc_get N bytes N.eqb (fun _ => Some json_of_node) id c with
       | (Some j, c') => (j, c')
       | (None, c') => (json_of_node, c')    (* unreachable: the loader never fails *)
       end.

(* ---- checksum canon: idr/marshal2.go ----------------------------------------------------------- *)
(* J2NodeToInterface(n, true) as a value tree; json.Marshal of it is an injective encoding that
   stays a Section variable (string escaping and float printing are not modelled).  Go builds
   objects as map[string]interface{}; json.Marshal sorts the keys, so an object is modelled as
   the association list in insertion order and compared up to sorting by [jv_norm]. *)
Inductive jv :=
| JStr (s : bytes) | JNum (s : bytes) | JBool (b : bytes) | JNull
| JArr (l : list jv) | JObj (l : list (bytes * jv)).

Definition is_elem (t : tree) : bool := match t_type t with ElementNode => true | _ => false end.
Definition is_text (t : tree) : bool := match t_type t with TextNode => true | _ => false end.
Definition is_attr (t : tree) : bool := match t_type t with AttributeNode => true | _ => false end.

(* j2NodeName *)
Definition j2_name (t : tree) : bytes :=
  match t_fs t with
  | FXml p _ => match p with [] => t_data t | _ => p ++ [x3a] ++ t_data t end
  | _ => t_data t
  end.

(* isChildText: at least one text child and no element child (the loop stops at the first
   element child; the result is the same) *)
Definition is_child_text (t : tree) : bool :=
  existsb is_text (t_kids t) && negb (existsb is_elem (t_kids t)).

Definition json_flag (t : tree) (bit : N) : bool :=
  match t_fs t with FJson f => N.testbit f bit | _ => false end.

(* isChildArray with useJSONType = true *)
Definition is_child_array (t : tree) : bool :=
  if json_flag t 2 then true else if json_flag t 1 then false else
  let names := map j2_name (filter is_elem (t_kids t)) in
  match names with
  | [] => false
  | n :: r => if forallb (bytes_eqb n) r
              then (1 <? length names) || (match n with [] => true | _ => false end)
              else false
  end.

(* getChildData with useJSONType = true: JSON value nodes keep their type *)
Definition child_data (t : tree) : jv :=
  match t_fs t, t_kids t with
  | FJson _, k :: _ =>
      if json_flag k 5 then JNum (t_data k)
      else if json_flag k 6 then JBool (t_data k)
      else if json_flag k 7 then JNull
      else JStr (t_data k)
  | _, _ => JStr (inner_text t)
  end.

(* obj[name] = value, with the promotion of repeated names to arrays (marshal2.go:166-190) *)
Fixpoint obj_put (name : bytes) (v : jv) (arr : list bytes) (o : list (bytes * jv))
  : list (bytes * jv) * list bytes :=
  match o with
  | [] => ([(name, v)], arr)
  | (k, x) :: r =>
      if bytes_eqb k name then
        if existsb (bytes_eqb name) arr
        then ((k, match x with JArr l => JArr (l ++ [v]) | _ => JArr [x; v] end) :: r, arr)
        else ((k, JArr [x; v]) :: r, name :: arr)
      else let '(r', arr') := obj_put name v arr r in ((k, x) :: r', arr')
  end.

Definition attributes_key : bytes := [x23; x61; x74; x74; x72; x69; x62; x75; x74; x65; x73]. (* "#attributes" *)

(* one child in the object case (marshal2.go:163-192): v = the child's own conversion *)
Definition obj_step (v : jv) (acc : list (bytes * jv) * list (bytes * jv) * list bytes) (k : tree)
  : list (bytes * jv) * list (bytes * jv) * list bytes :=
  let '(obj, attrs, arr) := acc in
  if is_elem k then let '(obj', arr') := obj_put (j2_name k) v arr obj in (obj', attrs, arr')
  else if is_attr k then
    (obj, filter (fun kv => negb (bytes_eqb (fst kv) (j2_name k))) attrs ++ [(j2_name k, v)], arr)
  else acc.

Definition obj_finish (acc : list (bytes * jv) * list (bytes * jv) * list bytes) : jv :=
  let '(obj, attrs, _) := acc in
  match attrs with
  | [] => JObj obj
  | _ => JObj (filter (fun kv => negb (bytes_eqb (fst kv) attributes_key)) obj
               ++ [(attributes_key, JObj attrs)])
  end.

Fixpoint j2 (t : tree) : jv :=
  let 'T ty d f ks := t in
  if is_child_text t then child_data t
  else if is_child_array t then
    JArr (flat_map (fun k => if is_elem k then [j2 k] else []) ks)
  else obj_finish (fold_left (fun acc k => obj_step (j2 k) acc k) ks ([], [], [])).

(* json.Marshal sorts object keys: compare value trees up to key order *)
Fixpoint bytes_leb (a b : bytes) : bool :=
  match a, b with
  | [], _ => true
  | _ :: _, [] => false
  | x :: a', y :: b' =>
      if N.ltb (Byte.to_N x) (Byte.to_N y) then true
      else if N.ltb (Byte.to_N y) (Byte.to_N x) then false
      else bytes_leb a' b'
  end.

Fixpoint kv_insert (k : bytes) (v : jv) (l : list (bytes * jv)) : list (bytes * jv) :=
  match l with
  | [] => [(k, v)]
  | (k', v') :: r => if bytes_leb k k' then (k, v) :: l else (k', v') :: kv_insert k v r
  end.

Fixpoint jv_norm (v : jv) : jv :=
  match v with
  | JArr l => JArr (map jv_norm l)
  | JObj l => JObj (fold_right (fun kv acc => kv_insert (fst kv) (jv_norm (snd kv)) acc) [] l)
  | _ => v
  end.

Fixpoint jv_eqb (a b : jv) : bool :=
  match a, b with
  | JStr x, JStr y | JNum x, JNum y | JBool x, JBool y => bytes_eqb x y
  | JNull, JNull => true
  | JArr l, JArr l' =>
      (fix go (l l' : list jv) : bool :=
         match l, l' with
         | [], [] => true
         | x :: r, y :: r' => jv_eqb x y && go r r'
         | _, _ => false
         end) l l'
  | JObj l, JObj l' =>
      (fix go (l l' : list (bytes * jv)) : bool :=
         match l, l' with
         | [], [] => true
         | (k, x) :: r, (k', y) :: r' => bytes_eqb k k' && jv_eqb x y && go r r'
         | _, _ => false
         end) l l'
  | _, _ => false
  end.

(* the shape of a raw record of the flat formats *)
Definition flat_field (nv : bytes * bytes) : tree :=
  T ElementNode (fst nv) FNone [T TextNode (snd nv) FNone []].
Definition flat_rec (rty : ntype) (rname : bytes) (fields : list (bytes * bytes)) : tree :=
  T rty rname FNone (map flat_field fields).

Definition field_of (k : tree) : option (bytes * bytes) :=
  match k with
  | T ElementNode n FNone [T TextNode v FNone []] => Some (n, v)
  | _ => None
  end.

Fixpoint fields_of (ks : list tree) : option (list (bytes * bytes)) :=
  match ks with
  | [] => Some []
  | k :: r => match field_of k, fields_of r with
              | Some f, Some fs => Some (f :: fs)
              | _, _ => None
              end
  end.

Fixpoint nodup_bytes (l : list bytes) : bool :=
  match l with
  | [] => true
  | x :: r => negb (existsb (bytes_eqb x) r) && nodup_bytes r
  end.

(* t = flat_rec _ _ fields with >= 2 pairwise distinct names: the premises of canon_injective_flat *)
Definition is_flat_rec (t : tree) : bool :=
  match t_fs t, fields_of (t_kids t) with
  | FNone, Some fs =>
      tree_eqb t (flat_rec (t_type t) (t_data t) fs) && nodup_bytes (map fst fs) && (1 <? length fs)
  | _, _ => false
  end.

(* ---- correspondence cases ---------------------------------------------------------------------------- *)
(* Results are interned by the harness (0 = ErrTransformFailed, k > 0 = the k-th distinct
   (output bytes, checksum) pair of the case).  The checkers evaluate exactly the list equations
   the theorems of Props/C10.v, C13.v, C15.v state about [run]. *)
Inductive c10case :=
| C10App (a b ab : list N)                       (* results of A, B, A++B *)
| C10Perm (xs : list N) (pi : list nat) (ys : list N)
| C10Repl (xs : list N) (i : nat) (ys : list N).

Definition check_c10 (c : c10case) : bool :=
  match c with
  | C10App a b ab => list_eqb N.eqb ab (a ++ b)
  | C10Perm xs pi ys => is_perm (length xs) pi && list_eqb N.eqb ys (permute pi xs)
  | C10Repl xs i ys => (i <? length xs) && list_eqb N.eqb ys (replace_at i 0%N xs)
                       && negb (N.eqb (nth i xs 0%N) 0%N)
  end.

(* transcripts of one (schema, input) under every cache / pool configuration *)
Record c13case := mkC13 { c13_runs : list (list N) }.

Definition all_equal (ls : list (list N)) : bool :=
  match ls with
  | [] => true
  | t :: r => forallb (list_eqb N.eqb t) r
  end.

Definition check_c13 (c : c13case) : bool := all_equal (c13_runs c) && (1 <? length (c13_runs c)).

Inductive c15case :=
| C15Det (runs : list (list N))                  (* repeated / re-loaded / after prefix / fresh process *)
| C15Sum (before after : list N) (i dup n : nat)  (* checksums before and after editing record i;
                                                     record n is a copy of record dup *)
| C15Order (kids : list (list bytes))            (* per object declaration of a validated schema: the fqdns of
                                                     its children in evaluation order *)
| C15Flat (t : tree)                             (* a raw record of a flat format *)
| C15Canon (t : tree) (observed : jv).           (* a raw record and idr.J2NodeToInterface(n, true) of it,
                                                     keys sorted as json.Marshal does *)

Fixpoint differ_exactly_at (i : nat) (a b : list N) : bool :=
  match a, b, i with
  | [], [], _ => true
  | x :: a', y :: b', O => negb (N.eqb x y) && list_eqb N.eqb a' b'
  | x :: a', y :: b', S k => N.eqb x y && differ_exactly_at k a' b'
  | _, _, _ => false
  end.

(* Go's < on strings (bytewise), strict *)
Definition bytes_ltb (a b : bytes) : bool := bytes_leb a b && negb (bytes_eqb a b).
Fixpoint strictly_sorted (l : list bytes) : bool :=
  match l with
  | x :: ((y :: _) as r) => bytes_ltb x y && strictly_sorted r
  | _ => true
  end.

Definition check_c15 (c : c15case) : bool :=
  match c with
  | C15Det runs => all_equal runs && (1 <? length runs)
  | C15Sum before after i dup n =>
      (i <? n) && differ_exactly_at i before after
      && N.eqb (nth dup before 0%N) (nth n before 1%N)
  | C15Order kids => forallb strictly_sorted kids
  | C15Flat t => is_flat_rec t
  | C15Canon t observed => jv_eqb (jv_norm (j2 t)) observed
  end.
