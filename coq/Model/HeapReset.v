(* C12: (n *Node).reset() as extracted from idr/node.go (Gen/NodeReset.v), executed on a model
   node.  Proofs/HeapReset.v shows that its effect on ANY node is the model's [blank], and that
   the extracted field list of Node is the model's. *)
From Coq Require Import List NArith ZArith.
From stdpp Require Import pmap.
From OV Require Import Base.Bytes Base.Tree Gen.NodeReset Model.Heap.
Import ListNotations.

(* one assignment of reset(); None = a combination the model cannot interpret *)
Definition apply_reset_assign (id : Z) (x : node) (a : nfield * reset_rhs) : option node :=
  match a with
  | (FId, RNewID) => Some (set_id id x)
  | (FParent, RNil) => Some (set_parent None x)
  | (FFirstChild, RNil) => Some (set_first None x)
  | (FLastChild, RNil) => Some (set_last None x)
  | (FPrevSibling, RNil) => Some (set_prev None x)
  | (FNextSibling, RNil) => Some (set_next None x)
  | (FType, RZero) => Some (set_ty 0%N x)
  | (FData, REmptyString) => Some (set_data [] x)
  | (FFormatSpecific, RNil) => Some (Heap.set_fs FNone x)
  | _ => None
  end.

(* reset() of the source, on a node x, with id the value newNodeID() returns *)
Definition go_reset (id : Z) (x : node) : option node :=
  fold_left (fun acc a => match acc with Some y => apply_reset_assign id y a | None => None end)
            node_reset_assigns (Some x).

(* the fields of the model's node record, in the order of idr.Node *)
Definition model_fields : list nfield :=
  [FId; FParent; FFirstChild; FLastChild; FPrevSibling; FNextSibling; FType; FData; FFormatSpecific].
