(* C06: compact byte literals for the generated Cases files.  Kept apart from the models so that
   the theorems' dependency cone does not load the primitive-integer library (whose specification
   axioms would otherwise show up in coqchk's context listing although nothing depends on them). *)
From Coq Require Import List.
From Coq.Strings Require Import Byte.
From Coq Require Import Uint63.
Import ListNotations.
From OV Require Import Base.Bytes.

(* ---- compact byte literals for the generated Cases files ---------------------------------------- *)
(* Bytes packed seven to a 63-bit primitive integer (most significant byte first); every word holds
   seven bytes except the last, which holds [last].  Only a faster way to write a byte string:
   string literals cost ~45 us per character to elaborate, integer literals ~20 times less. *)
Definition byte_of_int (w : Uint63.int) : byte :=
  let bit k := negb (Uint63.eqb (Uint63.land w k) 0%uint63) in
  Byte.of_bits (bit 1%uint63, (bit 2%uint63, (bit 4%uint63, (bit 8%uint63,
               (bit 16%uint63, (bit 32%uint63, (bit 64%uint63, bit 128%uint63))))))).

Fixpoint word_bytes (k : nat) (w : Uint63.int) (acc : bytes) : bytes :=
  match k with
  | O => acc
  | S k' => word_bytes k' (Uint63.lsr w 8%uint63) (byte_of_int w :: acc)
  end.

Fixpoint hxi (last : nat) (ws : list Uint63.int) : bytes :=
  match ws with
  | [] => []
  | w :: r => match r with
              | [] => word_bytes last w []
              | _ => word_bytes 7 w [] ++ hxi last r
              end
  end.

