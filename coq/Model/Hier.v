(* C05 model: the explicit-stack hierarchy matchers.
     extensions/omniv21/fileformat/flatfile/hierarchyReader.go  (csv2, fixedlength2)   -> hstep
     extensions/omniv21/fileformat/edi/reader.go                (EDI copy)              -> edi_step
     flatfile/{csv,fixedlength}/reader.go readAndMatch*         (leaf matchers)         -> flat_leaf
   Executable definitions only; proofs are in Proofs/Hier*.v; the independent recursive
   specification is in Model/HierSpec.v.

   Units are abstract: a unit is one input line (csv2: one csv record; fixedlength2: one non-empty
   line) or one EDI segment, carrying the name the leaf matchers look at and a payload id.

   Node trees.  Go links a new idr node under its parent when it is created and fills it through
   the pointer held by the stack entry.  The model keeps, in every stack entry, the node of the
   entry's current instance with the children committed so far, and commits a node into the
   parent's entry when the instance completes (rec_done).  The two differ only in when a child
   becomes visible under its parent; a target is handed out by rec_done of its own entry, when
   every descendant instance has completed, so the delivered subtree is the same.  Release /
   the start of the next Read additionally unlink the delivered node from its parent: not
   modelled (the parent of a target is never part of a delivered subtree when there is one
   target declaration). *)
From Coq Require Import List Arith Bool.
Import ListNotations.
From OV Require Import Base.Cases.

(* ---- data ---------------------------------------------------------------------------------- *)
Record unt := U { u_name : nat; u_id : nat }.

(* what a non-group declaration matches on:
     LName n     one unit named n            (EDI segment name; csv2/fixedlength2 header ^n, no footer)
     LRows k     any k units                 (csv2/fixedlength2 "rows": k)
     LHF h f     a unit named h up to and including the first unit named f (header/footer)
     LPat h f    header / footer given as arbitrary regular expressions: the harness numbers the
                 patterns of a case and evaluates each of them on each raw line with Go's regexp
                 (not through the library); a unit's name is then the bit mask of the patterns
                 its line matches.  LPat h None: header only (a one-line record);
                 LPat h (Some f): from a line matching pattern h to the first line matching f *)
Inductive leaf := LName (n : nat) | LRows (k : nat) | LHF (h f : nat) | LPat (h : nat) (f : option nat).

(* max: None = unbounded (Go: maths.MaxIntValue) *)
Inductive decl :=
  D (name : nat) (grp tgt : bool) (mn : nat) (mx : option nat) (lf : leaf) (kids : list decl).

Definition d_name (d : decl) := let 'D n _ _ _ _ _ _ := d in n.
Definition d_grp (d : decl) := let 'D _ g _ _ _ _ _ := d in g.
Definition d_tgt (d : decl) := let 'D _ _ t _ _ _ _ := d in t.
Definition d_min (d : decl) := let 'D _ _ _ m _ _ _ := d in m.
Definition d_max (d : decl) := let 'D _ _ _ _ m _ _ := d in m.
Definition d_leaf (d : decl) := let 'D _ _ _ _ _ l _ := d in l.
Definition d_kids (d : decl) := let 'D _ _ _ _ _ _ k := d in k.

(* an instance: declaration name, ids of the units its own leaf consumed, child instances *)
Inductive inst := I (name : nat) (ids : list nat) (kids : list inst).

Inductive term :=
| TEof
| TErrMin (name occurred : nat)     (* ErrFewerThanMinOccurs{RecDecl, ActualOcccurs} *)
| TErrUnexpected                    (* ErrUnexpectedData / EDI "not declared or invalid order" *)
| TPanic (site : nat)
| TOutOfFuel.

(* panic sites *)
Definition P_STACKTOP := 1.   (* stackTop: frame out of range *)
Definition P_TARGET_SET := 2. (* recDone: panic("r.target != nil") *)
Definition P_NODE_NIL := 3.   (* recDone: panic("cur.recNode == nil") *)
Definition P_PARENT_NIL := 4. (* idr.AddChild(nil, ...): nil dereference *)
Definition P_INDEX := 5.      (* ChildDecls()[i] out of range *)
Definition P_LINES := 6.      (* linesToNode / popFrontLinesBuf: fewer lines than requested *)

(* cur.occurred < cur.recDecl.MaxOccurs() *)
Definition lt_max (n : nat) (mx : option nat) : bool :=
  match mx with None => true | Some m => n <? m end.

(* ---- leaf matchers of flatfile/{csv,fixedlength}/reader.go ----------------------------------- *)
(* index of the first unit named f: the footer scan of readAndMatchHeaderFooterBased*, which
   reads ahead line by line and gives up (no match, no error) when the input ends first *)
Fixpoint find_footer (f : nat) (us : list unt) (i : nat) : option nat :=
  match us with
  | [] => None
  | u :: r => if u_name u =? f then Some (S i) else find_footer f r (S i)
  end.

(* number of units an instance of the leaf takes from the front of the unprocessed units;
   None = no match.  Probing (createIDR=false) and matching are the same function of the
   unprocessed lines: read-ahead only fills linesBuf. *)
Fixpoint find_footer_bit (f : nat) (us : list unt) (i : nat) : option nat :=
  match us with
  | [] => None
  | u :: r => if Nat.testbit (u_name u) f then Some (S i) else find_footer_bit f r (S i)
  end.

Definition flat_leaf (l : leaf) (us : list unt) : option nat :=
  match l with
  | LName n => match us with u :: _ => if u_name u =? n then Some 1 else None | [] => None end
  | LRows k => if length us <? k then None else Some k
  | LHF h f => match us with
               | u :: _ => if u_name u =? h then find_footer f us 0 else None
               | [] => None
               end
  | LPat h f => match us with
                | u :: _ =>
                    if Nat.testbit (u_name u) h
                    then match f with None => Some 1 | Some f' => find_footer_bit f' us 0 end
                    else None
                | [] => None
                end
  end.

(* EDI: SegDecl.matchSegName on a non-group declaration: d.Name == segName; one segment *)
Definition edi_leaf (l : leaf) (us : list unt) : option nat :=
  match l with
  | LName n => match us with u :: _ => if u_name u =? n then Some 1 else None | [] => None end
  | _ => None
  end.

(* ---- the stack machine ------------------------------------------------------------------------ *)
Record entry := E { e_decl : decl; e_node : option inst; e_cur : nat; e_occ : nat }.
(* m_stk: top of the stack first *)
Record mstate := M { m_stk : list entry; m_tgt : option inst; m_rest : list unt }.

Inductive rres := ROk (stk : list entry) (tgt : option inst) | RErr (t : term) | RPanic (site : nat).
Inductive outcome := ODeliver (i : inst) | OTerm (t : term).
Inductive sres := Cont (st : mstate) | Ret (o : outcome) (st : mstate).

Definition add_kid (n : option inst) (k : inst) : option inst :=
  match n with Some (I a b ks) => Some (I a b (ks ++ [k])) | None => None end.

(* model bookkeeping (see header): the completed instance becomes a child of the parent's node *)
Definition commit (p : entry) (n : option inst) : entry :=
  match n with
  | Some k => E (e_decl p) (add_kid (e_node p) k) (e_cur p) (e_occ p)
  | None => p
  end.

(* hierarchyReader.go:219-246 recDone with the call of recNext (253-272) unfolded; the recursion
   recDone -> recNext -> recDone goes one frame down the stack each time.  [cur] is the top
   frame, [below] the rest.  recNext's error is dropped by recDone (`_ = r.recNext()`): the
   state stays as it is at that point. *)
Fixpoint rec_done (cur : entry) (below : list entry) (tgt : option inst) : rres :=
  let d := e_decl cur in
  let cur1 := E d (e_node cur) 0 (S (e_occ cur)) in
  let tg :=
    if d_tgt d then
      match tgt with
      | Some _ => inl P_TARGET_SET
      | None => match e_node cur with None => inl P_NODE_NIL | Some n => inr (Some n) end
      end
    else inr tgt in
  match tg with
  | inl site => RPanic site
  | inr tgt1 =>
    match below with
    | [] =>
        (* only the root frame: recNext returns at `len(r.stack) <= 1` (or its error is dropped) *)
        ROk [cur1] tgt1
    | p :: b =>
        let p0 := commit p (e_node cur) in
        if lt_max (e_occ cur1) (d_max d) then ROk (cur1 :: p0 :: b) tgt1
        else if e_occ cur1 <? d_min d then ROk (cur1 :: p0 :: b) tgt1
        else
          (* shrinkStack; cur = parent *)
          if S (e_cur p0) <? length (d_kids (e_decl p0)) then
            match nth_error (d_kids (e_decl p0)) (S (e_cur p0)) with
            | Some k => ROk (E k None 0 0 :: E (e_decl p0) (e_node p0) (S (e_cur p0)) (e_occ p0) :: b) tgt1
            | None => RPanic P_INDEX
            end
          else rec_done p0 b tgt1
    end
  end.

(* hierarchyReader.go:253-272 recNext *)
Definition rec_next (stk : list entry) (tgt : option inst) : rres :=
  match stk with
  | [] => RPanic P_STACKTOP
  | cur :: below =>
      if e_occ cur <? d_min (e_decl cur) then RErr (TErrMin (d_name (e_decl cur)) (e_occ cur))
      else match below with
           | [] => ROk stk tgt
           | p :: b =>
               if S (e_cur p) <? length (d_kids (e_decl p)) then
                 match nth_error (d_kids (e_decl p)) (S (e_cur p)) with
                 | Some k => ROk (E k None 0 0 :: E (e_decl p) (e_node p) (S (e_cur p)) (e_occ p) :: b) tgt
                 | None => RPanic P_INDEX
                 end
               else rec_done p b tgt
           end
  end.

Definition of_rres (r : rres) (rest : list unt) (st : mstate) : sres :=
  match r with
  | ROk stk tgt => Cont (M stk tgt rest)
  | RErr t => Ret (OTerm t) st
  | RPanic s => Ret (OTerm (TPanic s)) st
  end.

Section Machine.
  Variable try_leaf : leaf -> list unt -> option nat.

  (* hierarchyReader.go:140-148 / edi seg.go:87-105: a group is identified by its first
     non-group descendant; a group without children matches nothing *)
  Fixpoint first_leaf (d : decl) : option leaf :=
    match d with
    | D _ g _ _ _ lf kids =>
        if g then match kids with k :: _ => first_leaf k | [] => None end else Some lf
    end.

  (* readRec: Some n = matched, the record itself takes n units (0 for a group: the probe does
     not consume) *)
  Definition read_rec (d : decl) (us : list unt) : option nat :=
    match first_leaf d with
    | None => None
    | Some lf => match try_leaf lf us with
                 | None => None
                 | Some n => if d_grp d then Some 0 else Some n
                 end
    end.

  (* what happens once the top frame's declaration matched: hierarchyReader.go:108-117 and
     edi/reader.go:253-269 *)
  Definition instantiate (cur : entry) (below : list entry) (tgt : option inst)
             (n : nat) (us : list unt) (root_ok : bool) (st : mstate) : sres :=
    let d := e_decl cur in
    if length us <? n then Ret (OTerm (TPanic P_LINES)) st
    else
      let node := I (d_name d) (map u_id (firstn n us)) [] in
      let rest := skipn n us in
      let cur1 := E d (Some node) (e_cur cur) (e_occ cur) in
      match below with
      | [] =>
          if root_ok then
            (* EDI only: the root frame itself matched again; `if len(r.stack) > 1` skips AddChild *)
            match d_kids d with
            | k :: _ => Cont (M [E k None 0 0; cur1] tgt rest)
            | [] => of_rres (rec_done cur1 [] tgt) rest st
            end
          else Ret (OTerm (TPanic P_STACKTOP)) st
      | p :: _ =>
          match e_node p with
          | None => Ret (OTerm (TPanic P_PARENT_NIL)) st
          | Some _ =>
              match d_kids d with
              | k :: _ => Cont (M (E k None 0 0 :: cur1 :: below) tgt rest)
              | [] => of_rres (rec_done cur1 below tgt) rest st
              end
          end
      end.

  (* one iteration of the loop of HierarchyReader.Read (hierarchyReader.go:56-118) *)
  Definition hstep (st : mstate) : sres :=
    match m_tgt st with
    | Some t => Ret (ODeliver t) st
    | None =>
        match m_rest st with
        | [] =>
            if length (m_stk st) <=? 1 then Ret (OTerm TEof) st
            else of_rres (rec_next (m_stk st) None) [] st
        | _ :: _ =>
            if length (m_stk st) <=? 1 then Ret (OTerm TErrUnexpected) st
            else match m_stk st with
                 | [] => Ret (OTerm (TPanic P_STACKTOP)) st
                 | cur :: below =>
                     match read_rec (e_decl cur) (m_rest st) with
                     | None => of_rres (rec_next (m_stk st) None) (m_rest st) st
                     | Some n => instantiate cur below None n (m_rest st) false st
                     end
                 end
        end
    end.

  (* one iteration of the loop of ediReader.Read (edi/reader.go:214-270).  segDone/segNext are
     textually recDone/recNext.  The name test comes BEFORE the `len(r.stack) <= 1` test. *)
  Definition edi_step (st : mstate) : sres :=
    match m_tgt st with
    | Some t => Ret (ODeliver t) st
    | None =>
        match m_rest st with
        | [] =>
            if length (m_stk st) <=? 1 then Ret (OTerm TEof) st
            else of_rres (rec_next (m_stk st) None) [] st
        | _ :: _ =>
            match m_stk st with
            | [] => Ret (OTerm (TPanic P_STACKTOP)) st
            | cur :: below =>
                match read_rec (e_decl cur) (m_rest st) with
                | None =>
                    if length (m_stk st) <=? 1 then Ret (OTerm TErrUnexpected) st
                    else of_rres (rec_next (m_stk st) None) (m_rest st) st
                | Some n => instantiate cur below None n (m_rest st) true st
                end
            end
        end
    end.

  (* Read begins by dropping a target the caller did not Release; Release(target) clears it *)
  Definition clear_tgt (st : mstate) : mstate := M (m_stk st) None (m_rest st).

  Section Run.
    Variable step : mstate -> sres.

    (* one Read call: (result, state) *)
    Fixpoint read_loop (fuel : nat) (st : mstate) : outcome * mstate :=
      match fuel with
      | 0 => (OTerm TOutOfFuel, st)
      | S f => match step st with
               | Cont st' => read_loop f st'
               | Ret o st' => (o, st')
               end
      end.
    Definition read (fuel : nat) (st : mstate) := read_loop fuel (clear_tgt st).

    (* Reads until the first terminal result; [fuel] bounds the total number of loop
       iterations.  Deliveries in order, then the terminal result. *)
    Fixpoint run (fuel : nat) (st : mstate) : list inst * term :=
      match fuel with
      | 0 => ([], TOutOfFuel)
      | S f => match step st with
               | Cont st' => run f st'
               | Ret (ODeliver t) st' => let '(ds, e) := run f (clear_tgt st') in (t :: ds, e)
               | Ret (OTerm e) _ => ([], e)
               end
      end.
  End Run.
End Machine.

(* ---- the target filter (FINAL_OUTPUT xpath) ------------------------------------------------------ *)
(* hierarchyReader.go:223-236 / edi/reader.go:150-163 in full: a completed target instance becomes
   r.target only if `r.targetXPathExpr == nil || idr.MatchAny(cur.recNode, r.targetXPathExpr)`;
   otherwise the node is released and cur.recNode = nil.  Everything else in recDone -- occurred++,
   the max test, recNext -- does not look at the outcome.  [keep] is the filter as a predicate on
   the completed instance; the machines above (rec_done, hstep, edi_step) are the case without a
   filter, i.e. keep = fun _ => true (Proofs/HierFilter.v: nofilter_hstep, nofilter_edi_step).
   As for a delivered target, unlinking the released node from its parent is not modelled. *)
Section Filter.
  Variable keep : inst -> bool.

  Fixpoint rec_done_f (cur : entry) (below : list entry) (tgt : option inst) : rres :=
    let d := e_decl cur in
    let tg :=
      if d_tgt d then
        match tgt with
        | Some _ => inl P_TARGET_SET
        | None => match e_node cur with
                  | None => inl P_NODE_NIL
                  | Some n => if keep n then inr (Some n, e_node cur) else inr (None, None)
                  end
        end
      else inr (tgt, e_node cur) in
    match tg with
    | inl site => RPanic site
    | inr (tgt1, node1) =>
      let cur1 := E d node1 0 (S (e_occ cur)) in
      match below with
      | [] => ROk [cur1] tgt1
      | p :: b =>
          let p0 := commit p (e_node cur) in
          if lt_max (e_occ cur1) (d_max d) then ROk (cur1 :: p0 :: b) tgt1
          else if e_occ cur1 <? d_min d then ROk (cur1 :: p0 :: b) tgt1
          else
            if S (e_cur p0) <? length (d_kids (e_decl p0)) then
              match nth_error (d_kids (e_decl p0)) (S (e_cur p0)) with
              | Some k => ROk (E k None 0 0 :: E (e_decl p0) (e_node p0) (S (e_cur p0)) (e_occ p0) :: b) tgt1
              | None => RPanic P_INDEX
              end
            else rec_done_f p0 b tgt1
      end
    end.

  Definition rec_next_f (stk : list entry) (tgt : option inst) : rres :=
    match stk with
    | [] => RPanic P_STACKTOP
    | cur :: below =>
        if e_occ cur <? d_min (e_decl cur) then RErr (TErrMin (d_name (e_decl cur)) (e_occ cur))
        else match below with
             | [] => ROk stk tgt
             | p :: b =>
                 if S (e_cur p) <? length (d_kids (e_decl p)) then
                   match nth_error (d_kids (e_decl p)) (S (e_cur p)) with
                   | Some k => ROk (E k None 0 0 :: E (e_decl p) (e_node p) (S (e_cur p)) (e_occ p) :: b) tgt
                   | None => RPanic P_INDEX
                   end
                 else rec_done_f p b tgt
             end
    end.

  Section MachineF.
    Variable try_leaf : leaf -> list unt -> option nat.

    Definition instantiate_f (cur : entry) (below : list entry) (tgt : option inst)
               (n : nat) (us : list unt) (root_ok : bool) (st : mstate) : sres :=
      let d := e_decl cur in
      if length us <? n then Ret (OTerm (TPanic P_LINES)) st
      else
        let node := I (d_name d) (map u_id (firstn n us)) [] in
        let rest := skipn n us in
        let cur1 := E d (Some node) (e_cur cur) (e_occ cur) in
        match below with
        | [] =>
            if root_ok then
              match d_kids d with
              | k :: _ => Cont (M [E k None 0 0; cur1] tgt rest)
              | [] => of_rres (rec_done_f cur1 [] tgt) rest st
              end
            else Ret (OTerm (TPanic P_STACKTOP)) st
        | p :: _ =>
            match e_node p with
            | None => Ret (OTerm (TPanic P_PARENT_NIL)) st
            | Some _ =>
                match d_kids d with
                | k :: _ => Cont (M (E k None 0 0 :: cur1 :: below) tgt rest)
                | [] => of_rres (rec_done_f cur1 below tgt) rest st
                end
            end
        end.

    Definition hstep_f (st : mstate) : sres :=
      match m_tgt st with
      | Some t => Ret (ODeliver t) st
      | None =>
          match m_rest st with
          | [] =>
              if length (m_stk st) <=? 1 then Ret (OTerm TEof) st
              else of_rres (rec_next_f (m_stk st) None) [] st
          | _ :: _ =>
              if length (m_stk st) <=? 1 then Ret (OTerm TErrUnexpected) st
              else match m_stk st with
                   | [] => Ret (OTerm (TPanic P_STACKTOP)) st
                   | cur :: below =>
                       match read_rec try_leaf (e_decl cur) (m_rest st) with
                       | None => of_rres (rec_next_f (m_stk st) None) (m_rest st) st
                       | Some n => instantiate_f cur below None n (m_rest st) false st
                       end
                   end
          end
      end.

    Definition edi_step_f (st : mstate) : sres :=
      match m_tgt st with
      | Some t => Ret (ODeliver t) st
      | None =>
          match m_rest st with
          | [] =>
              if length (m_stk st) <=? 1 then Ret (OTerm TEof) st
              else of_rres (rec_next_f (m_stk st) None) [] st
          | _ :: _ =>
              match m_stk st with
              | [] => Ret (OTerm (TPanic P_STACKTOP)) st
              | cur :: below =>
                  match read_rec try_leaf (e_decl cur) (m_rest st) with
                  | None =>
                      if length (m_stk st) <=? 1 then Ret (OTerm TErrUnexpected) st
                      else of_rres (rec_next_f (m_stk st) None) (m_rest st) st
                  | Some n => instantiate_f cur below None n (m_rest st) true st
                  end
              end
          end
      end.
  End MachineF.
End Filter.

(* the filter of the correspondence cases: `.[not(.//f = 'X')]` -- no unit of the instance, at
   any depth, is one of the flagged units *)
Fixpoint inst_ids (i : inst) : list nat :=
  let 'I _ ids ks := i in ids ++ flat_map inst_ids ks.
Definition keep_unflagged (rej : list nat) (i : inst) : bool :=
  forallb (fun id => negb (existsb (Nat.eqb id) rej)) (inst_ids i).

(* rootDecl (flatfile/recdecl.go:32-41) and the EDI root segment group (edi/reader.go:328-336,
   min/max defaults 1/1): a group "#root", not a target, min 1, max 1 *)
Definition ROOT_NAME := 0.
Definition root_decl (ds : list decl) : decl := D ROOT_NAME true false 1 (Some 1) (LRows 0) ds.

(* NewHierarchyReader / edi.NewReader *)
Definition init (ds : list decl) (us : list unt) : mstate :=
  let root := E (root_decl ds) (Some (I ROOT_NAME [] [])) 0 0 in
  match ds with
  | [] => M [root] None us
  | d :: _ => M [E d None 0 0; root] None us
  end.

(* ---- sizes and the fuel that is always enough (Proofs/HierTerm.v) ----------------------------- *)
Fixpoint decl_depth (d : decl) : nat :=
  let 'D _ _ _ _ _ _ kids := d in S (fold_right (fun k n => Nat.max (decl_depth k) n) 0 kids).
Fixpoint decl_size (d : decl) : nat :=
  let 'D _ _ _ _ _ _ kids := d in S (fold_right (fun k n => decl_size k + n) 0 kids).
Definition decls_size (ds : list decl) : nat := fold_right (fun k n => decl_size k + n) 0 ds.
Definition decls_depth (ds : list decl) : nat := fold_right (fun k n => Nat.max (decl_depth k) n) 0 ds.

(* ---- what validation enforces (flatfile/{csv,fixedlength}/validate.go, edi/validate.go and the
        JSON schemas: min >= 0, max >= -1, rows >= 1) -------------------------------------------- *)
Definition le_max (n : nat) (mx : option nat) : bool :=
  match mx with None => true | Some m => n <=? m end.

Definition leaf_okb (l : leaf) : bool := match l with LRows k => 1 <=? k | _ => true end.

(* per declaration: a group has children; min <= max *)
Fixpoint decl_okb (d : decl) : bool :=
  let 'D _ g _ mn mx lf kids := d in
  (if g then match kids with [] => false | _ => true end else leaf_okb lf)
  && le_max mn mx && forallb decl_okb kids.

Fixpoint count_tgt (d : decl) : nat :=
  let 'D _ _ t _ _ _ kids := d in
  (if t then 1 else 0) + fold_right (fun k n => count_tgt k + n) 0 kids.
Definition count_tgts (ds : list decl) : nat := fold_right (fun k n => count_tgt k + n) 0 ds.

(* validateFileDecl of csv2/fixedlength2: at most one target; none => the first top-level
   declaration becomes the target *)
Definition flat_validb (ds : list decl) : bool := forallb decl_okb ds && (count_tgts ds <=? 1).
Definition flat_default_target (ds : list decl) : list decl :=
  if count_tgts ds =? 0 then
    match ds with
    | D n g _ mn mx lf kids :: r => D n g true mn mx lf kids :: r
    | [] => []
    end
  else ds.
(* edi: exactly one target *)
Definition edi_validb (ds : list decl) : bool := forallb decl_okb ds && (count_tgts ds =? 1).

(* NOT enforced by any validator, forced by machine_eq_spec: max >= 1 (max = 0 passes validation;
   the machine then still accepts one instance) *)
Fixpoint max_posb (d : decl) : bool :=
  let 'D _ _ _ _ mx _ kids := d in
  (match mx with Some 0 => false | _ => true end) && forallb max_posb kids.

(* ---- correspondence cases -------------------------------------------------------------------- *)
Fixpoint inst_eqb (a b : inst) : bool :=
  let 'I n ids ks := a in
  let 'I n' ids' ks' := b in
  (n =? n') && list_eqb Nat.eqb ids ids' &&
  (fix go (xs ys : list inst) : bool :=
     match xs, ys with
     | [], [] => true
     | x :: xs', y :: ys' => inst_eqb x y && go xs' ys'
     | _, _ => false
     end) ks ks'.

(* terminal classes as observed on the implementation.  Through the format readers (csv2,
   fixedlength2, EDI) only "fatal" is observable without reading message texts. *)
Inductive oterm := OEof | OMin (name occurred : nat) | OUnexpected | OFatal | OPanic | OOther.

Definition term_matches (t : term) (o : oterm) : bool :=
  match t, o with
  | TEof, OEof => true
  | TErrMin n k, OMin n' k' => (n =? n') && (k =? k')
  | TErrUnexpected, OUnexpected => true
  | TErrMin _ _, OFatal | TErrUnexpected, OFatal => true
  | TPanic _, OPanic => true
  | _, _ => false
  end.

(* KHier: flatfile.NewHierarchyReader driven directly; KFlat: through csv2 / fixedlength2 (whose
   validation makes the first declaration the target when none is marked); KEdi: the EDI reader *)
Inductive mkind := KHier | KFlat | KEdi.

Record hcase := mkHCase {
  hc_kind : mkind;
  hc_decls : list decl;
  hc_units : list unt;
  hc_rej : list nat;        (* ids of the units flagged for the FINAL_OUTPUT filter ([] = no filter) *)
  hc_deliv : list inst;     (* delivered by the implementation, in order *)
  hc_term : oterm;          (* its terminal result *)
  hc_guard : bool;          (* inside the guards of machine_eq_spec / edi_eq_spec_nested *)
  hc_wf : bool;             (* well-formed, at most one target (the guard without no_root_repeat) *)
}.

(* the number of loop iterations that always suffices (Proofs/HierTerm.v, hier_terminates):
   with N = size of the hierarchy + 2 and B = N*N + N, 2 * ((N * units + N) * (B + 1) + B) + 1 *)
Definition run_fuel (ds : list decl) (us : list unt) : nat :=
  let N := S (decl_size (root_decl ds)) in
  let B := N * N + N in
  S (((N * length us + N) * S B + B) * 2).

Definition run_kind (k : mkind) (ds : list decl) (us : list unt) : list inst * term :=
  match k with
  | KHier => run (hstep flat_leaf) (run_fuel ds us) (init ds us)
  | KFlat => let ds := flat_default_target ds in run (hstep flat_leaf) (run_fuel ds us) (init ds us)
  | KEdi => run (edi_step edi_leaf) (run_fuel ds us) (init ds us)
  end.

(* the same with the target filter *)
Definition run_kind_f (keep : inst -> bool) (k : mkind) (ds : list decl) (us : list unt) : list inst * term :=
  match k with
  | KHier => run (hstep_f keep flat_leaf) (run_fuel ds us) (init ds us)
  | KFlat => let ds := flat_default_target ds in run (hstep_f keep flat_leaf) (run_fuel ds us) (init ds us)
  | KEdi => run (edi_step_f keep edi_leaf) (run_fuel ds us) (init ds us)
  end.

Definition valid_kind (k : mkind) (ds : list decl) : bool :=
  match k with KHier => true | KFlat => flat_validb ds | KEdi => edi_validb ds end.
